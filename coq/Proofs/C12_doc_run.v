(* C12_doc_run.v — layer (b): the whole run of the validation driver (Driver.run_document_gen) on the same
   document written with two delimiter triples and two line-break conventions: the same verdict (or the same
   exception) and traces equal up to strip_dev; the final states are related (error trees equal up to
   strip_errh). *)
From Coq Require Import String Lia.
From PX.Lib Require Import Base PyStr PyInt.
From PX.Gen Require Import SrcConsts.
From PX.Model Require Import Path Segment Raw Reader MapLoad MapTree Element Walker MapEnv Driver.
From PX.Model Require Errh.
From PX.Spec Require Import C01_spec C12_spec C12b_spec C12_doc_spec.
From PX.Proofs Require Import C01_raw C01_roundtrip C12_lemmas C12_layers C12_doc_errh C12_doc_step.

Local Definition l (s : string) : str := list_ascii_of_string s.

(* ------------------------------------------------------------------ *)
(* what the reader hands over                                          *)

Lemma as_read_P s : as_read s = P s.
Proof. unfold as_read, P, rt_els, trim_seg, keep. destruct (els s); reflexivity. Qed.

Lemma sid_is_P s id : sid_is (P s) id = sid_is s id.
Proof. reflexivity. Qed.

Lemma is_ctl_P s : is_ctl (P s) = is_ctl s.
Proof. reflexivity. Qed.

Lemma ctl_simple_P s : ctl_simple s = true -> ctl_simple (P s) = true.
Proof.
  unfold ctl_simple. rewrite is_ctl_P. destruct (is_ctl s); [|reflexivity]. intros H.
  apply forallb_forall. intros c Hc. apply len1. cbn [P els] in Hc.
  apply (rt_els_simple (els s)); [|exact Hc]. intros c0 H0. apply len1. rewrite forallb_forall in H. auto.
Qed.

(* ------------------------------------------------------------------ *)
(* the loop over the lines                                             *)

Section Lines.
  Variables (load : str -> result xmap) (ix : list map_entry) (cm : xmap) (d1 d2 : delims).
  Hypothesis D1 : distinct_delims d1 = true.
  Hypothesis D2 : distinct_delims d2 = true.
  Notation E1 := (mkE load ix cm d1).
  Notation E2 := (mkE load ix cm d2).

  Lemma run_lines_cons E ln rest s :
    run_lines E (ln :: rest) s =
    match reader_line_opt (de_d E) (ds_x s) ln with
    | Raise e => (s, Raise e)
    | Ok (x', os, es) =>
        (dod_ (match os with Some sg => step E sg | None => d_ret tt end); run_lines E rest)
          (with_pending (with_x s x') (ds_pending s ++ es))
    end.
  Proof.
    cbn [run_lines]. rewrite d_bind_get_eq. unfold d_bind at 1. unfold d_lift.
    destruct (reader_line_opt (de_d E) (ds_x s) ln) as [[[x' os] es]|e]; reflexivity.
  Qed.

  Lemma run_lines_body_sim : forall body s1 s2,
    srel s1 s2 ->
    body_ok d1 body = true -> body_ok d2 body = true ->
    forallb id_starts_plain body = true -> forallb ctl_simple body = true ->
    run_layers_ok E1 (map (seg_body d1) body) s1 = true ->
    dsim (run_lines E1 (map (seg_body d1) body)) (run_lines E2 (map (seg_body d2) body)) s1 s2.
  Proof.
    induction body as [|s body IH]; intros s1 s2 R B1 B2 Hp Hc HL.
    - split; [exact R | reflexivity].
    - unfold body_ok in B1, B2. cbn [forallb] in *. rewrite !andb_true_iff in *.
      destruct B1 as [[C1 C1'] [N N']]. destruct B2 as [[C2 C2'] _].
      destruct Hp as [Hp Hp']. destruct Hc as [Hc Hc'].
      assert (B1 : body_ok d1 body = true) by (unfold body_ok; now rewrite C1', N').
      assert (B2 : body_ok d2 body = true) by (unfold body_ok; now rewrite C2', N').
      cbn [map] in *. unfold dsim. rewrite !run_lines_cons. cbn [de_d mkE].
      unfold run_layers_ok in HL. cbn [run_checked de_d mkE] in HL. fold run_layers_ok in HL.
      rewrite (reader_line_opt_body d1 _ s D1 C1 Hp) in *.
      rewrite (reader_line_opt_body d2 _ s D2 C2 Hp).
      rewrite <- (sr_x _ _ R), <- (sr_pending _ _ R).
      rewrite <- (reader_step_body d1 d2 (ds_x s1) s N Hc).
      destruct (reader_step d1 (ds_x s1) (P s)) as [[x' e3]|e]; [|split; [exact R | reflexivity]].
      set (es := seg1_err (ds_x s1) s ++ e3) in *.
      pose proof (srel_read x' es s1 s2 R) as R1. rewrite <- (sr_pending _ _ R) in R1.
      set (t1 := with_pending (with_x s1 x') (ds_pending s1 ++ es)) in *.
      set (t2 := with_pending (with_x s2 x') (ds_pending s1 ++ es)) in *.
      apply andb_true_iff in HL as [HS HL].
      assert (HI : sid_is (P s) "ISA" = false) by (rewrite sid_is_P; apply negb_true_iff, N).
      pose proof (step_sim load ix cm d1 d2 (P s) t1 t2 R1 HI (ctl_simple_P s Hc) HS) as ST.
      match goal with |- srel (fst (?M1 t1)) (fst (?M2 t2)) /\ _ => change (dsim M1 M2 t1 t2) end.
      apply dsim_bind; [exact ST|]. intros u Eu R2.
      destruct (step E1 (P s) t1) as [st2 r2]. cbn [fst snd] in *. subst r2.
      apply IH; assumption.
  Qed.

  Lemma finish_sim : Dsim finish finish.
  Proof.
    unfold finish. apply Dsim_bind; [apply Dsim_mod, srel_pending_cleanup|]. intros _.
    apply Dsim_bind; [apply handle_popped_sim|]. intros _.
    apply Dsim_bind_get. intros a b R. rewrite <- (sr_valid _ _ R).
    replace (Errh.get_error_count (ds_errh b)) with (Errh.get_error_count (ds_errh a)); [apply Dsim_ret|].
    rewrite <- (get_error_count_Phi strip_isa_xseg strip_xseg strip_xseg (ds_errh a)).
    rewrite <- (get_error_count_Phi strip_isa_xseg strip_xseg strip_xseg (ds_errh b)).
    f_equal. exact (sr_errh _ _ R).
  Qed.
End Lines.

(* ------------------------------------------------------------------ *)
(* the node after the header has been dispatched                       *)

Definition keeps {A} (m : D A) : Prop := forall s, ds_node (fst (m s)) = ds_node s.

Lemma keeps_ret {A} (a : A) : keeps (d_ret a).
Proof. intros s. reflexivity. Qed.
Lemma keeps_lift {A} (r : result A) : keeps (d_lift r).
Proof. intros s. reflexivity. Qed.
Lemma keeps_get : keeps d_get.
Proof. intros s. reflexivity. Qed.
Lemma keeps_mod f : (forall s, ds_node (f s) = ds_node s) -> keeps (d_mod f).
Proof. intros H s. apply H. Qed.
Lemma keeps_bind {A B} (m : D A) (f : A -> D B) : keeps m -> (forall a, keeps (f a)) -> keeps (d_bind m f).
Proof.
  intros Hm Hf s. unfold d_bind. specialize (Hm s). destruct (m s) as [s' [a|e]]; cbn [fst] in *; [|exact Hm].
  rewrite (Hf a s'). exact Hm.
Qed.
Lemma keeps_iter {A} (f : A -> D unit) xs : (forall x, keeps (f x)) -> keeps (d_iter f xs).
Proof.
  intros H. induction xs as [|x r IH]; cbn [d_iter]; [apply keeps_ret|]. apply keeps_bind; [apply H | intros _; exact IH].
Qed.
Lemma keeps_call ev : keeps (call_errh ev).
Proof. intros s. unfold call_errh. destruct (apply_dev ev _) as [h r]. reflexivity. Qed.
Lemma keeps_handle_popped : keeps handle_popped.
Proof.
  unfold handle_popped. apply keeps_bind; [apply keeps_get|]. intros s.
  apply keeps_bind; [apply keeps_mod; reflexivity|]. intros _. apply keeps_iter. intros e.
  destruct (err_call e); [apply keeps_call | apply keeps_ret].
Qed.

Lemma dispatch_isa_keeps E sg : sid_is sg "ISA" = true -> keeps (dispatch_seg E sg).
Proof.
  intros H. unfold dispatch_seg. rewrite H. cbv zeta.
  apply keeps_bind; [apply keeps_get|]. intros st.
  apply keeps_bind; [apply keeps_call|]. intros _.
  apply keeps_bind; [apply keeps_lift|]. intros v.
  apply keeps_bind; [apply keeps_mod; reflexivity|]. intros _. apply keeps_handle_popped.
Qed.

Lemma find_node_isa_node E sg s s' b : sid_is sg "ISA" = true -> find_node E sg s = (s', Ok b) ->
  exists r, getnode (de_cm E) "/ISA_LOOP/ISA" = Ok r /\ ds_node s' = (de_cm E, r).
Proof.
  intros H. unfold find_node. rewrite H. unfold d_bind at 1. unfold d_lift at 1.
  destruct (getnode (de_cm E) "/ISA_LOOP/ISA") as [r|e]; [|discriminate].
  unfold d_bind at 1. unfold set_node, d_mod. rewrite d_bind_get_eq.
  unfold d_bind at 1. unfold d_lift at 1.
  destruct (forceWalkCounterToLoopStart _ _ _) as [w'|e]; [|discriminate].
  cbn. intros E0. inversion E0; subst. exists r. split; reflexivity.
Qed.

(* ------------------------------------------------------------------ *)
(* the start of the run on an encoded document                         *)

Definition s_init (cm : xmap) (n0 : MapTree.nref) (icvn : str) : dstate :=
  {| ds_x := x_init; ds_pending := []; ds_errh := Errh.errh_init; ds_w := wstate_init; ds_node := (cm, n0);
     ds_sel := {| ms_file := Some (control_name icvn); ms_cur := None; ms_icvn := None; ms_fic := None; ms_vriic := None |};
     ds_valid := true; ds_trace := [] |}.

Lemma raw_all_encode d conv f body :
  distinct_delims d = true -> delims_not_break d = true -> is_break conv = true ->
  isa_fields_ok f = true -> clean_seg d (isa_for d f) = true ->
  forallb (clean_seg d) body = true -> forallb id_starts_plain body = true ->
  exists r, raw_all {| rest := encode d conv (isa_for d f :: body); sched := [] |} =
              Ok (r, map (seg_body d) (isa_for d f :: body)) /\
            delims_of r = d /\ r_icvn r = nth 11 f [].
Proof.
  intros Hd Hnb Hc Hf Hci Hcb Hpb.
  set (segs := isa_for d f :: body).
  assert (Ht : encode d conv segs = format_seg d (isa_for d f) ++ (conv ++ encode d conv body)).
  { unfold segs, encode. cbn [map concat]. now rewrite <- app_assoc. }
  destruct (isa_text d f (conv ++ encode d conv body) Hf) as (H1 & H2 & H3).
  rewrite <- Ht in H1, H2, H3.
  destruct (raw_all_icvn (encode d conv segs) [] H1) as (r & R & D & V).
  rewrite H2 in R, D. rewrite H3 in V.
  assert (Hraw : raw_spec (seg_term d) (encode d conv segs) = map (seg_body d) segs).
  { apply (raw_spec_encode d conv Hd Hnb Hc segs []); [reflexivity| |].
    - unfold segs. cbn [forallb]. now rewrite Hci, Hcb.
    - unfold segs. cbn [forallb]. now rewrite isa_id_plain, Hpb. }
  rewrite Hraw in R. exists r. auto.
Qed.

(* run_document_gen once the raw lines are known *)
Lemma run_document_gen_raw load idx text r lines :
  raw_all {| rest := text; sched := [] |} = Ok (r, lines) ->
  run_document_gen load idx text =
  match (do cm <- load (control_name (r_icvn r)); do ix <- idx; do n0 <- getnode cm "/ISA_LOOP/ISA"; Ok (cm, ix, n0)) with
  | Raise e => ([], Raise e)
  | Ok (cm, ix, n0) =>
      let E := mkE load ix cm (delims_of r) in
      (rev (ds_trace (fst ((dod_ run_lines E lines; finish) (s_init cm n0 (r_icvn r))))),
       snd ((dod_ run_lines E lines; finish) (s_init cm n0 (r_icvn r))))
  end.
Proof.
  intros H. unfold run_document_gen. rewrite H.
  destruct (do cm <- load (control_name (r_icvn r)); do ix <- idx; do n0 <- getnode cm "/ISA_LOOP/ISA"; Ok (cm, ix, n0))
    as [[[cm ix] n0]|e]; [|reflexivity].
  cbv zeta. unfold mkE, s_init.
  destruct ((dod_ run_lines _ lines; finish) _) as [s1 res]. reflexivity.
Qed.

Lemma doc_start_raw load idx text r lines :
  raw_all {| rest := text; sched := [] |} = Ok (r, lines) ->
  doc_start load idx text =
  do cm <- load (control_name (r_icvn r)); do ix <- idx; do n0 <- getnode cm "/ISA_LOOP/ISA";
  Ok (mkE load ix cm (delims_of r), lines, s_init cm n0 (r_icvn r)).
Proof. intros H. unfold doc_start. rewrite H. reflexivity. Qed.

Lemma srel_refl s : srel s s.
Proof. constructor; reflexivity. Qed.

(* ------------------------------------------------------------------ *)
(* LAYER (b): the whole run                                            *)

Section Whole.
  Variables (load : str -> result xmap) (idx : result (list map_entry)).
  Variables (d1 d2 : delims) (conv1 conv2 : str) (f : list str) (body : list seg).
  Hypothesis D1 : distinct_delims d1 = true.
  Hypothesis D2 : distinct_delims d2 = true.
  Hypothesis N1 : delims_not_break d1 = true.
  Hypothesis N2 : delims_not_break d2 = true.
  Hypothesis K1 : is_break conv1 = true.
  Hypothesis K2 : is_break conv2 = true.
  Hypothesis Hf : isa_fields_ok f = true.
  Hypothesis C1 : clean_seg d1 (isa_for d1 f) = true.
  Hypothesis C2 : clean_seg d2 (isa_for d2 f) = true.
  Hypothesis B1 : body_ok d1 body = true.
  Hypothesis B2 : body_ok d2 body = true.
  Hypothesis Hp : forallb id_starts_plain body = true.
  Hypothesis Hc : forallb ctl_simple body = true.
  Hypothesis HI : isa_valid_same load d1 d2 f.

  Let t1 := encode d1 conv1 (isa_for d1 f :: body).
  Let t2 := encode d2 conv2 (isa_for d2 f :: body).

  Hypothesis HL : doc_layers_ok load idx t1 = true.

  Lemma body_clean d : body_ok d body = true -> forallb (clean_seg d) body = true.
  Proof. unfold body_ok. intros H. apply andb_true_iff in H as [H _]. exact H. Qed.

  (* the two runs from the initial state, for a loaded control map *)
  Lemma lines_sim cm ix n0 :
    load (control_name (nth 11 f [])) = Ok cm -> getnode cm "/ISA_LOOP/ISA" = Ok n0 ->
    run_layers_ok (mkE load ix cm d1) (map (seg_body d1) (isa_for d1 f :: body)) (s_init cm n0 (nth 11 f [])) = true ->
    dsim (dod_ run_lines (mkE load ix cm d1) (map (seg_body d1) (isa_for d1 f :: body)); finish)
         (dod_ run_lines (mkE load ix cm d2) (map (seg_body d2) (isa_for d2 f :: body)); finish)
         (s_init cm n0 (nth 11 f [])) (s_init cm n0 (nth 11 f [])).
  Proof.
    intros Lcm Gn0 RL. pose proof (isa_fields_len f Hf) as L.
    set (s0 := s_init cm n0 (nth 11 f [])) in *.
    apply dsim_bind; [|intros u _ R; apply finish_sim, R].
    cbn [map] in *. unfold dsim. rewrite !run_lines_cons. cbn [de_d mkE].
    unfold run_layers_ok in RL. cbn [run_checked de_d mkE] in RL. fold run_layers_ok in RL.
    rewrite (reader_line_opt_body d1 _ _ D1 C1 (isa_id_plain d1 f)) in *.
    rewrite (reader_line_opt_body d2 _ _ D2 C2 (isa_id_plain d2 f)).
    rewrite !isa_P, !isa_seg1 in *.
    rewrite <- (reader_step_isa_cong d1 d2 (ds_x s0) f L).
    destruct (reader_step d1 (ds_x s0) (isa_for d1 f)) as [[x' e3]|e]; [|split; [apply srel_refl | reflexivity]].
    cbn [app] in *.
    set (u1 := with_pending (with_x s0 x') (ds_pending s0 ++ e3)) in *.
    apply andb_true_iff in RL as [_ RL].
    assert (ST : dsim (step (mkE load ix cm d1) (isa_for d1 f)) (step (mkE load ix cm d2) (isa_for d2 f)) u1 u1).
    { apply step_isa_sim; [apply srel_refl | exact L |].
      intros st1 st2 u sn F Dp G.
      destruct (find_node_isa_node (mkE load ix cm d1) (isa_for d1 f) u1 st1 true eq_refl F) as (r & Gr & Nd). cbn [de_cm mkE] in Gr, Nd.
      pose proof (dispatch_isa_keeps (mkE load ix cm d1) (isa_for d1 f) eq_refl st1) as Kp.
      rewrite Dp in Kp. cbn [fst] in Kp. rewrite Nd in Kp. rewrite Kp in *. cbn [fst snd] in *.
      exact (HI cm r sn Lcm Gr G). }
    match goal with |- srel (fst (?M1 u1)) (fst (?M2 u1)) /\ _ => change (dsim M1 M2 u1 u1) end.
    apply dsim_bind; [exact ST|]. intros u Eu R2.
    destruct (step (mkE load ix cm d1) (isa_for d1 f) u1) as [st2 r2]. cbn [fst snd] in *. subst r2.
    apply run_lines_body_sim; assumption.
  Qed.

  (* the final states of the two runs *)
  Theorem driver_final_states_related :
    match run_state load idx t1, run_state load idx t2 with
    | Some s1, Some s2 => srel s1 s2
    | None, None => True
    | _, _ => False
    end.
  Proof.
    destruct (raw_all_encode d1 conv1 f body D1 N1 K1 Hf C1 (body_clean d1 B1) Hp) as (r1 & R1 & Dl1 & V1).
    destruct (raw_all_encode d2 conv2 f body D2 N2 K2 Hf C2 (body_clean d2 B2) Hp) as (r2 & R2 & Dl2 & V2).
    fold t1 in R1. fold t2 in R2.
    unfold run_state. pose proof HL as HL'. unfold doc_layers_ok in HL'.
    rewrite (doc_start_raw load idx t1 r1 _ R1) in *. rewrite (doc_start_raw load idx t2 r2 _ R2).
    rewrite V1, Dl1 in *. rewrite V2, Dl2.
    destruct (load (control_name (nth 11 f []))) as [cm|e] eqn:Lcm; cbn [bind] in *; [|exact I].
    destruct idx as [ix|e]; cbn [bind] in *; [|exact I].
    destruct (getnode cm "/ISA_LOOP/ISA") as [n0|e] eqn:Gn; cbn [bind] in *; [|exact I].
    exact (proj1 (lines_sim cm ix n0 Lcm Gn HL')).
  Qed.

  (* THE THEOREM: same verdict (or same exception), traces equal up to the delimiters they carry *)
  Theorem driver_delims_layout_independent :
    snd (run_document_gen load idx t1) = snd (run_document_gen load idx t2) /\
    map strip_dev (fst (run_document_gen load idx t1)) = map strip_dev (fst (run_document_gen load idx t2)).
  Proof.
    destruct (raw_all_encode d1 conv1 f body D1 N1 K1 Hf C1 (body_clean d1 B1) Hp) as (r1 & R1 & Dl1 & V1).
    destruct (raw_all_encode d2 conv2 f body D2 N2 K2 Hf C2 (body_clean d2 B2) Hp) as (r2 & R2 & Dl2 & V2).
    fold t1 in R1. fold t2 in R2.
    pose proof HL as HL'. unfold doc_layers_ok in HL'. rewrite (doc_start_raw load idx t1 r1 _ R1) in HL'.
    rewrite (run_document_gen_raw load idx t1 r1 _ R1), (run_document_gen_raw load idx t2 r2 _ R2).
    rewrite V1, Dl1 in *. rewrite V2, Dl2.
    destruct (load (control_name (nth 11 f []))) as [cm|e] eqn:Lcm; cbn [bind] in *; [|split; reflexivity].
    destruct idx as [ix|e]; cbn [bind] in *; [|split; reflexivity].
    destruct (getnode cm "/ISA_LOOP/ISA") as [n0|e] eqn:Gn; cbn [bind] in *; [|split; reflexivity].
    cbv zeta. cbn [fst snd].
    destruct (lines_sim cm ix n0 Lcm Gn HL') as [R E].
    split; [exact E|]. rewrite !map_rev. f_equal. exact (sr_trace _ _ R).
  Qed.
End Whole.

Print Assumptions driver_final_states_related.
Print Assumptions driver_delims_layout_independent.

(* ------------------------------------------------------------------ *)
(* a sufficient condition on the data alone                            *)

Lemma plain_positions sn sg : seg_plain sg = true -> simple_positions_ok sn sg = true /\ overflow_ok sn sg = true.
Proof.
  unfold seg_plain. intros H. rewrite forallb_forall in H. split.
  - apply forall_pos_all. intros i v Hv. rewrite (H v Hv).
    destruct (_ <=? _); [reflexivity|]. destruct (child_by_idx sn i) as [[e|cn]|ex]; reflexivity.
  - unfold overflow_ok. apply andb_true_iff. split.
    + unfold ele_free. destruct (nth_error (els sg) _) as [v|] eqn:E; [|reflexivity]. apply H. eapply nth_error_In, E.
    + apply forall_pos_all. intros i v Hv. rewrite (H v Hv).
      destruct (_ <=? _); [reflexivity|]. destruct (child_by_idx sn i) as [[e|cn]|ex]; try reflexivity.
      destruct (_ && _); reflexivity.
Qed.

Lemma plain_free sg k : seg_plain sg = true -> ele_free sg k = true.
Proof.
  unfold seg_plain, ele_free. intros H. rewrite forallb_forall in H.
  destruct (nth_error (els sg) k) as [c|] eqn:E; [|reflexivity]. apply H. eapply nth_error_In, E.
Qed.

Lemma step_layers_ok_plain E st sg : seg_plain sg = true -> step_layers_ok E st sg = true.
Proof.
  intros H. unfold step_layers_ok. repeat (apply andb_true_iff; split).
  - unfold seg_values_ok. rewrite (plain_free sg 1 H). destruct (sid_is sg "BHT"); reflexivity.
  - unfold match_layer_ok. rewrite match_ok_everywhere_plain; [apply orb_true_r|].
    unfold match_elements_plain. rewrite !(plain_free sg _ H).
    destruct (ostr_eqb _ _), (ostr_eqb _ _); reflexivity.
  - unfold valid_layer_ok. destruct (sid_is sg "ISA"); [reflexivity|]. cbn [orb].
    destruct (find_node E sg st) as [st1 [[|]|e]]; try reflexivity.
    destruct (dispatch_seg E sg st1) as [st2 [u|e]]; [|reflexivity].
    destruct (get_node _ _) as [[a b c0 d e f pm|sn]|ex]; try reflexivity.
    destruct (plain_positions sn sg H) as [-> ->]. reflexivity.
Qed.

Lemma single_valued_trim c : single_valued c = true -> single_valued (trim_comp c) = true.
Proof.
  unfold single_valued, trim_comp. intros H. apply Nat.eqb_eq in H. rewrite H.
  destruct c as [|x r]; reflexivity.
Qed.

Lemma seg_plain_P s : seg_plain s = true -> seg_plain (P s) = true.
Proof.
  unfold seg_plain. intros H. rewrite forallb_forall in *. intros c Hc. cbn [P els] in Hc.
  apply rt_els_In in Hc as [->|(c0 & Hin & ->)]; [reflexivity|]. apply single_valued_trim, H, Hin.
Qed.

Lemma run_layers_ok_plain E d segs : de_d E = d -> distinct_delims d = true ->
  forallb (clean_seg d) segs = true -> forallb id_starts_plain segs = true -> forallb seg_plain segs = true ->
  forall st, run_layers_ok E (map (seg_body d) segs) st = true.
Proof.
  intros Ed Dd. induction segs as [|s segs IH]; intros Hc Hp Hs st; [reflexivity|].
  cbn [forallb] in *. apply andb_true_iff in Hc as [Hc Hc']. apply andb_true_iff in Hp as [Hp Hp'].
  apply andb_true_iff in Hs as [Hs Hs'].
  cbn [map]. unfold run_layers_ok. cbn [run_checked]. fold run_layers_ok. rewrite Ed.
  rewrite (reader_line_opt_body d _ s Dd Hc Hp).
  destruct (reader_step d (ds_x st) (P s)) as [[x' e3]|e]; [|reflexivity].
  rewrite (step_layers_ok_plain E _ (P s) (seg_plain_P s Hs)). cbn [andb].
  destruct (step E (P s) _) as [st2 [u|e]]; [|reflexivity]. apply IH; assumption.
Qed.

Lemma isa_plain d f : seg_plain (isa_for d f) = true.
Proof.
  unfold seg_plain, isa_for. cbn [els]. rewrite forallb_app. cbn [forallb]. rewrite andb_true_r.
  induction f as [|v f IH]; [reflexivity|]. cbn [map forallb]. rewrite IH. reflexivity.
Qed.

(* every element of the body is written without a component separator: the layer hypotheses hold on every run *)
Theorem body_plain_layers_ok load idx d conv f body :
  distinct_delims d = true -> delims_not_break d = true -> is_break conv = true ->
  isa_fields_ok f = true -> clean_seg d (isa_for d f) = true ->
  body_ok d body = true -> forallb id_starts_plain body = true ->
  body_plain body = true ->
  doc_layers_ok load idx (encode d conv (isa_for d f :: body)) = true.
Proof.
  intros Dd Nd Kc Hf Ci Bd Hp Hpl.
  assert (Cb : forallb (clean_seg d) body = true) by (unfold body_ok in Bd; apply andb_true_iff in Bd as [H _]; exact H).
  destruct (raw_all_encode d conv f body Dd Nd Kc Hf Ci Cb Hp) as (r & R & Dl & V).
  unfold doc_layers_ok. rewrite (doc_start_raw load idx _ r _ R).
  destruct (load _) as [cm|e]; cbn [bind]; [|reflexivity].
  destruct idx as [ix|e]; cbn [bind]; [|reflexivity].
  destruct (getnode cm _) as [n0|e]; cbn [bind]; [|reflexivity].
  apply (run_layers_ok_plain _ d); [exact Dl | exact Dd | | |]; cbn [forallb].
  - rewrite Ci, Cb. reflexivity.
  - rewrite isa_id_plain, Hp. reflexivity.
  - rewrite isa_plain. exact Hpl.
Qed.

Corollary driver_delims_layout_independent_plain :
  forall load idx d1 d2 conv1 conv2 f body,
    distinct_delims d1 = true -> distinct_delims d2 = true ->
    delims_not_break d1 = true -> delims_not_break d2 = true ->
    is_break conv1 = true -> is_break conv2 = true ->
    isa_fields_ok f = true ->
    clean_seg d1 (isa_for d1 f) = true -> clean_seg d2 (isa_for d2 f) = true ->
    body_ok d1 body = true -> body_ok d2 body = true ->
    forallb id_starts_plain body = true -> forallb ctl_simple body = true ->
    isa_valid_same load d1 d2 f ->
    body_plain body = true ->
    snd (run_document_gen load idx (encode d1 conv1 (isa_for d1 f :: body))) =
    snd (run_document_gen load idx (encode d2 conv2 (isa_for d2 f :: body))) /\
    map strip_dev (fst (run_document_gen load idx (encode d1 conv1 (isa_for d1 f :: body)))) =
    map strip_dev (fst (run_document_gen load idx (encode d2 conv2 (isa_for d2 f :: body)))).
Proof.
  intros. apply driver_delims_layout_independent; try assumption.
  apply body_plain_layers_ok; assumption.
Qed.

Print Assumptions body_plain_layers_ok.
Print Assumptions driver_delims_layout_independent_plain.
