(* C12_doc_cex.v — why each hypothesis of the document-level theorem of C12 is there (see the header of
   Proofs/C12_doc_examples.v): machine-checked counterexamples on the shipped maps. *)
From Coq Require Import String.
From PX.Lib Require Import Base PyStr PyInt.
From PX.Model Require Import Path Segment Raw Reader MapLoad MapTree Element Walker MapEnv Driver.
From PX.Model Require Errh.
From PX.Spec Require Import C01_spec C12_spec C12b_spec C12_doc_spec.
From PX.Proofs Require Import C01_roundtrip C07_driver_maps C12_reader C12_doc_step C12_doc_run C12_doc_examples.

Local Definition l (s : string) : str := list_ascii_of_string s.
Local Open Scope string_scope.

(* ------------------------------------------------------------------ *)
(* strip_dev must erase ISA16                                           *)

Example delims_only_is_false :
  map strip_dev_delims (fst (run (text da [] body_997))) <> map strip_dev_delims (fst (run (text db crlf body_997))).
Proof. apply (neq_by first_isa16). vm_compute. discriminate. Qed.

(* ------------------------------------------------------------------ *)
(* FINDING: ISA16 is validated as data                                  *)

(* everything but isa_valid_same holds for ':' against '>' ... *)
Example gt_other_hyps :
  distinct_delims dgt = true /\ delims_not_break dgt = true /\ clean_seg dgt (isa_for dgt ex_fields) = true /\
  body_ok dgt body_997 = true /\ doc_layers_ok shipped_load shipped_idx (text dgt [] body_997) = true.
Proof. vm_compute. repeat split. Qed.

(* ... and the verdicts differ: '>' is not in the basic character set, ISA16 draws "contains an invalid character(>)" *)
Example isa16_validation_needed :
  snd (run (text da [] body_997)) = Ok true /\ snd (run (text dgt [] body_997)) = Ok false /\
  filter is_error (fst (run (text dgt [] body_997))) =
    [DEleErr (l "6") (l "Data element ""Component Element Separator"" (ISA16) is type AN, contains an invalid character(>)")
             (Some (l ">")) (Some (l "ISA16"))].
Proof. vm_compute. repeat split. Qed.

Theorem isa_valid_same_needed : ~ isa_valid_same shipped_load da dgt ex_fields.
Proof.
  intros H.
  destruct nv_reader_hyps as (A1 & _ & A3 & _ & A5 & _ & A7 & A8 & _ & _ & _ & _ & _ & A10 & _ & A12 & A13).
  destruct gt_other_hyps as (G1 & G2 & G3 & G4 & _).
  pose proof (driver_delims_layout_independent shipped_load shipped_idx da dgt [] [] ex_fields body_997
                A1 G1 A3 G2 A5 A5 A7 A8 G3 A10 G4 A12 A13 H (proj2 nv_layers_997)) as [E _].
  destruct isa16_validation_needed as (V1 & V2 & _). congruence.
Qed.

(* ------------------------------------------------------------------ *)
(* the layer hypotheses are needed                                      *)

(* AK101 (an ID element with a code list) given as HC<sep>X: AK1 is not matched, and the walker's message
   "Segment AK1*HC<sep>X not found" quotes the first element with the separator of the source *)
Definition seg_msgs (tr : list dev) : list str := flat_map (fun e => match e with DSegErr _ m _ _ => [m] | _ => [] end) tr.
Definition body_ref : list seg :=
  [ S1 "GS" [["FA"]; ["SS"]; ["RR"]; ["20030828"]; ["1128"]; ["17"]; ["X"]; ["004010"]];
    S1 "ST" [["997"]; ["0001"]];
    S1 "AK1" [["HC"; "X"]; ["1"]];
    S1 "AK9" [["A"]; ["1"]; ["1"]; ["1"]];
    S1 "SE" [["4"]; ["0001"]];
    S1 "GE" [["1"]; ["17"]];
    S1 "IEA" [["1"]; ["000000017"]] ].

Example layers_needed :
  body_ok da body_ref = true /\ body_ok db body_ref = true /\ forallb id_starts_plain body_ref = true /\ forallb ctl_simple body_ref = true /\
  doc_layers_ok shipped_load shipped_idx (text da [] body_ref) = false /\
  map strip_dev (fst (run (text da [] body_ref))) <> map strip_dev (fst (run (text db crlf body_ref))).
Proof. repeat split; try (vm_compute; reflexivity). apply (neq_by seg_msgs). vm_compute. discriminate. Qed.

(* ------------------------------------------------------------------ *)
(* the driver's own read of BHT02                                       *)

(* an index in which the 278 request is announced by BHT02 = "1!3" *)
Definition idx_bht : result (list map_entry) :=
  Ok [ {| mi_icvn := Some (l "00401"); mi_vriic := Some (l "004010X094A1"); mi_fic := Some (l "HI"); mi_tspc := Some (l "11");
          mi_file := Some (l "278.4010.X094.27.A1.xml"); mi_abbr := None |};
       {| mi_icvn := Some (l "00401"); mi_vriic := Some (l "004010X094A1"); mi_fic := Some (l "HI"); mi_tspc := Some (l "1!3");
          mi_file := Some (l "278.4010.X094.A1.xml"); mi_abbr := None |} ].

Definition body_bht : list seg :=
  [ S1 "GS" [["HI"]; ["SS"]; ["RR"]; ["20030828"]; ["1128"]; ["17"]; ["X"]; ["004010X094A1"]];
    S1 "ST" [["278"]; ["0001"]];
    S1 "BHT" [["0078"]; ["1"; "3"]; ["A"]; ["20030828"]; ["1128"]];
    S1 "SE" [["3"]; ["0001"]];
    S1 "GE" [["1"]; ["17"]];
    S1 "IEA" [["1"]; ["000000017"]] ].

(* the layer check without the conjunct seg_values_ok *)
Definition layers_without_values (E : denv) (st : dstate) (sg : seg) : bool := match_layer_ok st sg && valid_layer_ok E st sg.
Definition doc_checked (chk : denv -> dstate -> seg -> bool) (idx : result (list map_entry)) (t : str) : bool :=
  match doc_start shipped_load idx t with Ok (E, lines, s0) => run_checked chk E lines s0 | Raise _ => true end.

Example bht02_needed :
  body_ok da body_bht = true /\ body_ok db body_bht = true /\ forallb id_starts_plain body_bht = true /\ forallb ctl_simple body_bht = true /\
  doc_checked layers_without_values idx_bht (text da [] body_bht) = true /\
  doc_checked step_layers_ok idx_bht (text da [] body_bht) = false /\
  snd (run_document_gen shipped_load idx_bht (text da [] body_bht)) = Raise EngineError /\
  snd (run_document_gen shipped_load idx_bht (text db crlf body_bht)) = Ok false.
Proof. vm_compute. repeat split. Qed.

Print Assumptions delims_only_is_false.
Print Assumptions isa_valid_same_needed.
Print Assumptions layers_needed.
Print Assumptions bht02_needed.
