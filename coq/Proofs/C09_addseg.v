(* C09_addseg.v — _add_segment (CtxReader.add_segment_node) on an open tree: it moves up the rightmost
   path, hangs new loop nodes and the new segment node there, and (when every insertion went to the end
   of its children list) extends the traversal order by exactly the new node. *)
From Coq Require Import String List ZArith Lia Sorted Permutation.
From PX.Lib Require Import Base PyStr.
From PX.Model Require Import Path Segment MapLoad MapTree Walker Context CtxReader.
From PX.Spec Require Import C09_spec.
From PX.Proofs Require Import C09_heap.
Import ListNotations.

(* ---- the two local loops of add_segment_node, named ---- *)
Fixpoint pops_f (cur : pyref) (ps : list mnode) : H pyref :=
  match ps with
  | [] => h_ret cur
  | p :: r =>
      doh i <- h_read (fun h => ref_id h cur);
      doh pi <- h_lift (mn_id p);
      if negb (ostr_eqb i pi) then h_raise EngineError
      else doh up <- h_read (fun h => ref_parent h cur); pops_f up r
  end.

Fixpoint pushes_f (cur : pyref) (ps : list mnode) : H pyref :=
  match ps with
  | [] => h_ret cur
  | p :: r =>
      match cur with
      | RNone => h_raise EngineError
      | _ => doh nxt <- ref_add_loop_node cur p; pushes_f nxt r
      end
  end.

Definition asn_tail (seg_mn : mnode) (x : xsg) (cur : pyref) : H oid :=
  match cur with
  | RObj o =>
      doh ox <- h_obj o;
      match obj_children ox with
      | Raise _ => h_raise EngineError
      | Ok kids =>
          doh n <- h_new (new_seg (Some seg_mn) x cur [] []);
          doh_ h_put o (upd_children ox (kids ++ [n]));
          h_ret n
      end
  | _ => h_raise EngineError
  end.

Definition asn_cur (seg_mn : mnode) (cur0 : pyref) (pop push : list mnode) (differ : bool) : H pyref :=
  if differ then
    doh cur1 <- pops_f cur0 pop; pushes_f cur1 push
  else
    doh up <- h_read (fun h => ref_parent h cur0);
    doh first <- h_lift (mn_is_first_seg seg_mn);
    match up with
    | RNone => h_ret cur0
    | _ => if first then ref_add_loop_node up (mn_parent seg_mn) else h_ret cur0
    end.

Lemma asn_unfold cdn seg_mn x pop push :
  add_segment_node cdn seg_mn x pop push =
  (doh is_seg <- h_lift (mn_is_segment seg_mn);
   if negb is_seg then h_raise EngineError else
   doh cd <- h_obj cdn;
   let cur0 : pyref := if is_seg_typed cd then o_parent cd else RObj cdn in
   doh new_path <- h_lift (mn_x12path (mn_parent seg_mn));
   doh last_mn <- h_read (fun h => ref_map_node h cur0);
   doh last_path <- h_lift (mn_x12path last_mn);
   doh cur <- asn_cur seg_mn cur0 pop push (negb (path_eqb last_path new_path));
   asn_tail seg_mn x cur).
Proof. reflexivity. Qed.

(* ---- inversion of the store monad ---- *)
Lemma h_bind_ok {A B} (m : H A) (f : A -> H B) h h' b :
  h_bind m f h = (h', Ok b) -> exists h1 a, m h = (h1, Ok a) /\ f a h1 = (h', Ok b).
Proof.
  unfold h_bind. destruct (m h) as [h1 [a|e]]; intros E; [eauto | discriminate].
Qed.

Lemma h_read_ok {A} (f : heap -> result A) h h' a : h_read f h = (h', Ok a) -> h' = h /\ f h = Ok a.
Proof. unfold h_read. intros E. injection E as <- E. auto. Qed.
Lemma h_lift_ok {A} (r : result A) h h' a : h_lift r h = (h', Ok a) -> h' = h /\ r = Ok a.
Proof. unfold h_lift. intros E. injection E as <- E. auto. Qed.
Lemma h_ret_ok {A} (v : A) h h' a : h_ret v h = (h', Ok a) -> h' = h /\ a = v.
Proof. unfold h_ret. intros E. injection E as <- E. auto. Qed.
Lemma h_obj_ok o h h' x : h_obj o h = (h', Ok x) -> h' = h /\ nth_error h o = Some x.
Proof.
  unfold h_obj. intros E. apply h_read_ok in E. destruct E as [-> E]. split; auto.
  unfold h_get in E. destruct (nth_error h o); congruence.
Qed.

(* ---- monotonicity of the whole of _add_segment ---- *)
Lemma Hmono_ref_add_loop_node r m : Hmono (ref_add_loop_node r m).
Proof.
  destruct r; simpl; try apply Hmono_raise.
  apply Hmono_bind; [apply Hmono_obj|]. intros x. destruct (o_class x); [apply Hmono_raise|].
  apply Hmono_bind; [apply Hmono_add_loop_node|]. intros n. apply Hmono_ret.
Qed.

Lemma Hmono_pops ps : forall cur, Hmono (pops_f cur ps).
Proof.
  induction ps as [|p r IH]; intros cur; simpl; [apply Hmono_ret|].
  apply Hmono_bind; [apply Hmono_read|]. intros i. apply Hmono_bind; [apply Hmono_lift|]. intros pi.
  destruct (negb _); [apply Hmono_raise|]. apply Hmono_bind; [apply Hmono_read|]. intros up. apply IH.
Qed.

Lemma Hmono_pushes ps : forall cur, Hmono (pushes_f cur ps).
Proof.
  induction ps as [|p r IH]; intros cur; simpl; [apply Hmono_ret|].
  destruct cur; try apply Hmono_raise; (apply Hmono_bind; [apply Hmono_ref_add_loop_node|]; intros nxt; apply IH).
Qed.

Lemma Hmono_asn_tail seg_mn x cur : Hmono (asn_tail seg_mn x cur).
Proof.
  destruct cur as [|o|ms]; simpl; try apply Hmono_raise.
  intros h h' r E L. unfold h_bind, h_obj, h_read, h_get in E.
  destruct (nth_error h o) as [ox|] eqn:Eo; [|injection E as <- _; split; auto; apply hle_refl].
  destruct (obj_children ox) as [kids|e] eqn:Ek; [|injection E as <- _; split; auto; apply hle_refl].
  unfold h_new, h_put, h_ret in E. injection E as <- _.
  assert (all_live (h ++ [new_seg (Some seg_mn) x (RObj o) [] []])) as L1 by (apply Forall_app; split; auto).
  assert (o_children ox = kids) as K.
  { unfold obj_children in Ek. destruct (o_class ox), (o_live ox); congruence. }
  pose proof (nth_app_old h (new_seg (Some seg_mn) x (RObj o) [] []) o ox Eo) as Eo1.
  destruct (set_nth_mono _ o ox (upd_children ox (kids ++ [length h])) L1 Eo1) as [L2 S2].
  - simpl. unfold all_live in L. rewrite Forall_forall in L. apply L. eapply nth_error_In; eauto.
  - simpl. rewrite K. apply subl_snoc.
  - split; auto. eapply hle_trans; [|exact S2]. intros p y Ey. exists y. split; [apply nth_app_old; auto|apply subl_refl].
Qed.

Lemma Hmono_asn_cur seg_mn cur0 pop push b : Hmono (asn_cur seg_mn cur0 pop push b).
Proof.
  unfold asn_cur. destruct b.
  - apply Hmono_bind; [apply Hmono_pops|]. intros c. apply Hmono_pushes.
  - apply Hmono_bind; [apply Hmono_read|]. intros up. apply Hmono_bind; [apply Hmono_lift|]. intros first.
    destruct up; try apply Hmono_ret; (destruct first; [apply Hmono_ref_add_loop_node|apply Hmono_ret]).
Qed.

Lemma Hmono_add_segment_node cdn seg_mn x pop push : Hmono (add_segment_node cdn seg_mn x pop push).
Proof.
  rewrite asn_unfold. apply Hmono_bind; [apply Hmono_lift|]. intros b. destruct (negb b); [apply Hmono_raise|].
  apply Hmono_bind; [apply Hmono_obj|]. intros cd. cbv zeta.
  apply Hmono_bind; [apply Hmono_lift|]. intros np. apply Hmono_bind; [apply Hmono_read|]. intros lm.
  apply Hmono_bind; [apply Hmono_lift|]. intros lp. apply Hmono_bind; [apply Hmono_asn_cur|]. intros cur.
  apply Hmono_asn_tail.
Qed.

(* ------------------------------------------------------------------ *)
Definition ftop (fs : list frame) : oid := match fs with [] => 0 | f :: _ => fst f end.
Definition Zopen (h : heap) (t : oid) (lv : list oid) (fs : list frame) : Prop :=
  ZInv h fs /\ fs <> [] /\ froot fs = t /\ fleaves fs = lv.
Definition segs_kept (h h' : heap) : Prop :=
  forall o y, nth_error h o = Some y -> o_class y = CSeg -> nth_error h' o = Some y.

Lemma segs_kept_refl h : segs_kept h h.
Proof. intros o y E _. exact E. Qed.
Lemma segs_kept_trans a b c : segs_kept a b -> segs_kept b c -> segs_kept a c.
Proof. intros H1 H2 o y E C. apply H2; auto. Qed.

Lemma troot_in t : In (troot t) (toids t).
Proof. destruct t; simpl; auto. Qed.

Lemma troots_in L o : In o (map troot L) -> In o (flat_map toids L).
Proof.
  induction L as [|t L IH]; simpl; [tauto|]. intros [<-|I]; apply in_or_app; [left; apply troot_in | right; auto].
Qed.

(* _add_loop_node on a loop object whose children are older than the new node, in a store that keeps
   its children lists in allocation order: the new loop is the last child *)
Lemma add_loop_node_spec d p h h' n x :
  add_loop_node d p h = (h', Ok n) -> all_live h -> children_in_allocation_order h' ->
  nth_error h d = Some x -> Forall (fun c => c < length h) (o_children x) ->
  graft h h' d n (new_loop (Some p) [] (RObj d)).
Proof.
  intros E L S Ex B. unfold add_loop_node in E.
  apply h_bind_ok in E. destruct E as (h1 & n1 & E1 & E). unfold h_new in E1. injection E1 as <- <-.
  apply h_bind_ok in E. destruct E as (h2 & idx & E2 & E).
  apply get_insert_idx_live in E2; [|apply Forall_app; split; auto]. subst h2.
  apply h_bind_ok in E. destruct E as (h3 & u & E3 & E). apply h_ret_ok in E. destruct E as [-> ->].
  unfold insert_child, h_mod in E3. apply h_bind_ok in E3. destruct E3 as (h4 & x1 & E4 & E3).
  apply h_obj_ok in E4. destruct E4 as [-> E4]. rewrite (nth_app_old _ _ _ _ Ex) in E4. injection E4 as <-.
  unfold h_put in E3. injection E3 as <-.
  pose proof (nth_lt _ _ _ Ex) as Ld.
  assert (nth_error (set_nth (h ++ [new_loop (Some p) [] (RObj d)]) d
                       (upd_children x (insert_at (o_children x) idx (length h)))) d =
          Some (upd_children x (insert_at (o_children x) idx (length h)))) as Ed.
  { apply nth_set_nth_eq. rewrite app_length. simpl. lia. }
  pose proof (sorted_at _ _ _ S Ed) as Sd. simpl in Sd.
  pose proof (insert_at_sorted_end _ _ _ B Sd) as Ie. clear Ed Sd S. unfold oid in *. rewrite Ie.
  repeat split.
  - rewrite set_nth_length, app_length. simpl. lia.
  - rewrite nth_set_nth_ne by lia. apply nth_app_new.
  - exists x. split; auto. apply nth_set_nth_eq. rewrite app_length. simpl. lia.
  - intros o N Lo. rewrite nth_set_nth_ne by auto. apply nth_error_app1. exact Lo.
Qed.

Lemma ZInv_top h d L r : ZInv h ((d, L) :: r) ->
  exists x, nth_error h d = Some x /\ o_class x = CLoop /\ o_live x = true /\ o_children x = map troot L /\
            o_parent x = match r with [] => RNone | g :: _ => RObj (fst g) end /\
            Forall (fun c => c < length h) (o_children x).
Proof.
  intros [Z1 Z2 Z3 Z4]. destruct Z2 as [(x & E & C1 & C2 & C3 & C4) _]. simpl in *. rewrite app_nil_r in C3.
  exists x. repeat split; auto. rewrite C3. apply Forall_forall. intros c I. apply troots_in in I.
  rewrite Forall_forall in Z4. apply Z4. simpl. right. apply in_or_app. auto.
Qed.

Lemma graft_segs_kept h h' d n y x : graft h h' d n y -> nth_error h d = Some x -> o_class x = CLoop -> segs_kept h h'.
Proof.
  intros (Hn & Hl & Hy & Hd & Ho) Ex Cx o z Ez Cz. rewrite Ho; auto.
  - intros ->. congruence.
  - eapply nth_lt; eauto.
Qed.

Lemma graft_all_live h h' d n y : graft h h' d n y -> all_live h -> o_live y = true -> all_live h'.
Proof.
  intros (Hn & Hl & Hy & (x & Ex & Ex') & Ho) L Ly. apply Forall_forall. intros z I.
  apply In_nth_error in I. destruct I as [o Eo].
  unfold all_live in L. rewrite Forall_forall in L.
  destruct (Nat.eq_dec o d) as [->|N].
  - rewrite Ex' in Eo. injection Eo as <-. simpl. apply L. eapply nth_error_In; eauto.
  - destruct (Nat.eq_dec o n) as [->|N2]; [congruence|].
    pose proof (nth_lt _ _ _ Eo). rewrite Ho in Eo by lia. apply L. eapply nth_error_In; eauto.
Qed.

(* one `cur = cur._add_loop_node(p)` at the deepest frame *)
Lemma ral_spec h t lv fs p h1 nxt :
  Zopen h t lv fs -> all_live h -> children_in_allocation_order h1 ->
  ref_add_loop_node (RObj (ftop fs)) p h = (h1, Ok nxt) ->
  exists n, nxt = RObj n /\ Zopen h1 t lv ((n, []) :: fs) /\ all_live h1 /\ length h <= length h1 /\ segs_kept h h1.
Proof.
  intros (Z & N & R & Lv) L S E. destruct fs as [|[d Ls] r]; [congruence|]. simpl in E.
  destruct (ZInv_top _ _ _ _ Z) as (x & Ex & C1 & C2 & C3 & C4 & B).
  apply h_bind_ok in E. destruct E as (h2 & x1 & E1 & E). apply h_obj_ok in E1. destruct E1 as [-> E1].
  rewrite Ex in E1. injection E1 as <-. rewrite C1 in E.
  apply h_bind_ok in E. destruct E as (h3 & n & E2 & E). apply h_ret_ok in E. destruct E as [-> ->].
  pose proof (add_loop_node_spec _ _ _ _ _ _ E2 L S Ex B) as G.
  exists n. split; auto. split; [|split; [|split]].
  - split; [|split; [|split]].
    + eapply ZInv_graft_loop; eauto.
    + discriminate.
    + rewrite <- R. reflexivity.
    + rewrite fleaves_cons. simpl. rewrite app_nil_r. exact Lv.
  - eapply graft_all_live; eauto.
  - destruct G as (_ & Hl & _). lia.
  - eapply graft_segs_kept; eauto.
Qed.

Lemma pops_none ps h h' c : pops_f RNone ps h = (h', Ok c) -> ps = [] /\ h' = h /\ c = RNone.
Proof.
  destruct ps as [|p r]; simpl; intros E.
  - apply h_ret_ok in E. tauto.
  - apply h_bind_ok in E. destruct E as (h1 & i & E1 & _). apply h_read_ok in E1. destruct E1 as [_ E1]. discriminate.
Qed.

(* moving up along the parent pointers closes frames *)
Lemma pops_spec h t lv ps : forall fs cur1 h',
  Zopen h t lv fs -> pops_f (RObj (ftop fs)) ps h = (h', Ok cur1) ->
  h' = h /\ (cur1 = RNone \/ exists fs1, Zopen h t lv fs1 /\ cur1 = RObj (ftop fs1)).
Proof.
  induction ps as [|p ps IH]; intros fs cur1 h' ZO E; simpl in E.
  - apply h_ret_ok in E. destruct E as [-> ->]. split; auto. right. exists fs. auto.
  - destruct ZO as (Z & N & R & Lv). destruct fs as [|[d Ls] r]; [congruence|]. simpl ftop in E.
    destruct (ZInv_top _ _ _ _ Z) as (x & Ex & C1 & C2 & C3 & C4 & B).
    apply h_bind_ok in E. destruct E as (h1 & i & E1 & E). apply h_read_ok in E1. destruct E1 as [-> _].
    apply h_bind_ok in E. destruct E as (h1 & pi & E1 & E). apply h_lift_ok in E1. destruct E1 as [-> _].
    destruct (negb (ostr_eqb i pi)); [discriminate|].
    apply h_bind_ok in E. destruct E as (h1 & up & E1 & E). apply h_read_ok in E1. destruct E1 as [-> E1].
    simpl in E1. unfold h_get in E1. rewrite Ex in E1. simpl in E1. injection E1 as <-. rewrite C4 in E.
    destruct r as [|[d' L'] r'].
    + apply pops_none in E. destruct E as (-> & -> & ->). auto.
    + apply (IH ((d', L' ++ [TLoop d Ls]) :: r')); auto.
      split; [apply ZInv_close; auto|]. split; [discriminate|]. split; [rewrite froot_close; auto | rewrite fleaves_close; auto].
Qed.

Lemma pushes_spec t lv ps : forall h fs cur' h',
  Zopen h t lv fs -> all_live h -> children_in_allocation_order h' ->
  pushes_f (RObj (ftop fs)) ps h = (h', Ok cur') ->
  exists fs', Zopen h' t lv fs' /\ cur' = RObj (ftop fs') /\ all_live h' /\ length h <= length h' /\ segs_kept h h'.
Proof.
  induction ps as [|p ps IH]; intros h fs cur' h' ZO L S E.
  - simpl in E. apply h_ret_ok in E. destruct E as [-> ->]. exists fs. repeat split; auto; try apply ZO. apply segs_kept_refl.
  - change (pushes_f (RObj (ftop fs)) (p :: ps)) with (doh nxt <- ref_add_loop_node (RObj (ftop fs)) p; pushes_f nxt ps) in E.
    apply h_bind_ok in E. destruct E as (h1 & nxt & E1 & E).
    assert (children_in_allocation_order h1) as S1.
    { assert (all_live h1) as L1 by (eapply (Hmono_ref_add_loop_node (RObj (ftop fs)) p); eauto).
      destruct (Hmono_pushes ps nxt _ _ _ E L1) as [_ Le]. eapply hle_sorted; eauto. }
    destruct (ral_spec _ _ _ _ _ _ _ ZO L S1 E1) as (n & -> & ZO1 & L1 & Len1 & K1).
    destruct (IH h1 ((n, []) :: fs) cur' h' ZO1 L1 S E) as (fs' & ZO' & -> & L' & Len' & K').
    exists fs'. repeat split; auto; try apply ZO'; [lia | eapply segs_kept_trans; eauto].
Qed.

(* the new segment node at the deepest frame *)
Lemma tail_spec h t lv fs seg_mn x h' n :
  Zopen h t lv fs -> all_live h -> asn_tail seg_mn x (RObj (ftop fs)) h = (h', Ok n) ->
  exists d L r, fs = (d, L) :: r /\ Zopen h' t (lv ++ [n]) ((d, L ++ [TSeg n]) :: r) /\ n = length h /\
                nth_error h' n = Some (new_seg (Some seg_mn) x (RObj d) [] []) /\
                all_live h' /\ segs_kept h h'.
Proof.
  intros (Z & N & R & Lv) L E. destruct fs as [|[d Ls] r]; [congruence|]. simpl in E.
  destruct (ZInv_top _ _ _ _ Z) as (ox & Ex & C1 & C2 & C3 & C4 & B).
  apply h_bind_ok in E. destruct E as (h1 & ox1 & E1 & E). apply h_obj_ok in E1. destruct E1 as [-> E1].
  rewrite Ex in E1. injection E1 as <-. unfold obj_children in E. rewrite C1 in E.
  apply h_bind_ok in E. destruct E as (h1 & n1 & E1 & E). unfold h_new in E1. injection E1 as <- <-.
  apply h_bind_ok in E. destruct E as (h2 & u & E2 & E). apply h_ret_ok in E. destruct E as [-> ->].
  unfold h_put in E2. injection E2 as <-.
  pose proof (nth_lt _ _ _ Ex) as Ld.
  assert (graft h (set_nth (h ++ [new_seg (Some seg_mn) x (RObj d) [] []]) d (upd_children ox (o_children ox ++ [length h])))
                d (length h) (new_seg (Some seg_mn) x (RObj d) [] [])) as G.
  { repeat split.
    - rewrite set_nth_length, app_length. simpl. lia.
    - rewrite nth_set_nth_ne by lia. apply nth_app_new.
    - exists ox. split; auto. apply nth_set_nth_eq. rewrite app_length. simpl. lia.
    - intros o No Lo. rewrite nth_set_nth_ne by auto. apply nth_error_app1. exact Lo. }
  exists d, Ls, r. split; auto. split; [|split; [|split; [|split]]]; auto.
  - split; [eapply ZInv_graft_seg; eauto|]. split; [discriminate|]. split; [rewrite <- R; reflexivity|].
    rewrite <- Lv, !fleaves_cons. simpl. rewrite flat_map_app. simpl. rewrite app_assoc. reflexivity.
  - destruct G as (_ & _ & G & _). exact G.
  - eapply graft_all_live; eauto.
  - eapply graft_segs_kept; eauto.
Qed.

Lemma pushes_none ps h h' c : pushes_f RNone ps h = (h', Ok c) -> h' = h /\ c = RNone.
Proof.
  destruct ps as [|p r]; simpl; intros E; [apply h_ret_ok in E; tauto | discriminate].
Qed.

Lemma cur_spec h t lv fs seg_mn pop push b h1 cur :
  Zopen h t lv fs -> all_live h -> children_in_allocation_order h1 ->
  asn_cur seg_mn (RObj (ftop fs)) pop push b h = (h1, Ok cur) ->
  cur = RNone \/
  exists fs', Zopen h1 t lv fs' /\ cur = RObj (ftop fs') /\ all_live h1 /\ length h <= length h1 /\ segs_kept h h1.
Proof.
  intros ZO L S E. unfold asn_cur in E. destruct b.
  - apply h_bind_ok in E. destruct E as (h2 & cur1 & E1 & E).
    destruct (pops_spec _ _ _ _ _ _ _ ZO E1) as [-> [->|(fs1 & ZO1 & ->)]].
    + apply pushes_none in E. left. tauto.
    + right. eapply pushes_spec; eauto.
  - apply h_bind_ok in E. destruct E as (h2 & up & E1 & E). apply h_read_ok in E1. destruct E1 as [-> E1].
    apply h_bind_ok in E. destruct E as (h2 & first & E2 & E). apply h_lift_ok in E2. destruct E2 as [-> _].
    assert (exists fs', Zopen h t lv fs' /\ RObj (ftop fs) = RObj (ftop fs') /\ all_live h /\ length h <= length h /\ segs_kept h h) as Same.
    { exists fs. repeat split; auto; try apply ZO. apply segs_kept_refl. }
    destruct ZO as (Z & N & R & Lv). destruct fs as [|[d Ls] r]; [congruence|]. simpl ftop in *.
    destruct (ZInv_top _ _ _ _ Z) as (x & Ex & C1 & C2 & C3 & C4 & B).
    simpl in E1. unfold h_get in E1. rewrite Ex in E1. simpl in E1. injection E1 as <-. rewrite C4 in E.
    destruct r as [|[d' L'] r'].
    + apply h_ret_ok in E. destruct E as [-> ->]. right. exact Same.
    + destruct first.
      * right. simpl fst in E.
        assert (Zopen h t lv ((d', L' ++ [TLoop d Ls]) :: r')) as ZO1.
        { split; [apply ZInv_close; auto|]. split; [discriminate|]. split; [rewrite froot_close; auto | rewrite fleaves_close; auto]. }
        destruct (ral_spec _ _ _ _ _ _ _ ZO1 L S E) as (n & -> & ZO2 & L2 & Len2 & K2).
        eexists. split; [exact ZO2|]. auto.
      * apply h_ret_ok in E. destruct E as [-> ->]. right. exact Same.
Qed.

(* _add_segment on an open tree *)
Lemma asn_spec h t lv fs cdn seg_mn x pop push h' n :
  Zopen h t lv fs -> all_live h -> children_in_allocation_order h' ->
  (exists cdx, nth_error h cdn = Some cdx /\ (if is_seg_typed cdx then o_parent cdx else RObj cdn) = RObj (ftop fs)) ->
  add_segment_node cdn seg_mn x pop push h = (h', Ok n) ->
  exists d L r, Zopen h' t (lv ++ [n]) ((d, L ++ [TSeg n]) :: r) /\ length h <= n /\
                nth_error h' n = Some (new_seg (Some seg_mn) x (RObj d) [] []) /\
                all_live h' /\ segs_kept h h' /\ mn_is_segment seg_mn = Ok true.
Proof.
  intros ZO L S (cdx & Ecd & Ecur) E. rewrite asn_unfold in E.
  apply h_bind_ok in E. destruct E as (h1 & is_seg & E1 & E). apply h_lift_ok in E1. destruct E1 as [-> Eseg].
  destruct is_seg; simpl negb in E; cbv iota in E; [|discriminate].
  apply h_bind_ok in E. destruct E as (h1 & cd & E1 & E). apply h_obj_ok in E1. destruct E1 as [-> E1].
  rewrite Ecd in E1. injection E1 as <-. cbv zeta in E. rewrite Ecur in E.
  apply h_bind_ok in E. destruct E as (h1 & np & E1 & E). apply h_lift_ok in E1. destruct E1 as [-> _].
  apply h_bind_ok in E. destruct E as (h1 & lm & E1 & E). apply h_read_ok in E1. destruct E1 as [-> _].
  apply h_bind_ok in E. destruct E as (h1 & lp & E1 & E). apply h_lift_ok in E1. destruct E1 as [-> _].
  apply h_bind_ok in E. destruct E as (h1 & cur & E1 & E).
  assert (children_in_allocation_order h1) as S1.
  { assert (all_live h1) as L1 by (eapply Hmono_asn_cur; eauto).
    destruct (Hmono_asn_tail _ _ _ _ _ _ E L1) as [_ Le]. eapply hle_sorted; eauto. }
  destruct (cur_spec _ _ _ _ _ _ _ _ _ _ ZO L S1 E1) as [->|(fs' & ZO' & -> & L' & Len' & K')]; [discriminate|].
  destruct (tail_spec _ _ _ _ _ _ _ _ ZO' L' E) as (d & Ls & r & -> & ZO2 & -> & En & L2 & K2).
  exists d, Ls, r. repeat split; auto; try apply ZO2. eapply segs_kept_trans; eauto.
Qed.
