(* C06_ack997.v — the 997 visitor writes a complete, correctly counted interchange. *)
From Coq Require Import String Lia.
From PX.Lib Require Import Base PyStr PyInt.
From PX.Model Require Import Show Path Segment Errh Ack997.
From PX.Spec Require Import C06_spec.
From PX.Proofs Require Import C01_roundtrip C11_writer C06_lemmas.

Local Notation l := list_ascii_of_string.

(* the line the 997 visitor writes for a segment (exactly what Ack997.write appends) *)
Definition line_997 (s : seg) : str :=
  let sout := format_seg D s in
  let sout := if opt_eqb str_eqb (sid s) (Some (l "ISA"))
              then but_last sout ++ [ele_term D; subele_term D; seg_term D] else sout in
  sout ++ [ascii_of_nat 10].

Lemma write_eq s v :
  write s v = (v_upd v (v_h v) (v_out v ++ [line_997 s]) (v_seg_count v + 1)%Z
                     (v_isa_ctl v) (v_gs_loop_count v) (v_gs_id v) (v_gs_seg v) (v_st_ctl v) (v_st_loop_count v), Ok tt).
Proof. reflexivity. Qed.

(* ------------------------------------------------------------------ *)
(* "v' is v after writing the segments ss": nothing else changed but the handler *)
(* ------------------------------------------------------------------ *)
Record wrote (v v' : v997) (ss : list seg) : Prop := {
  w_out : v_out v' = v_out v ++ map line_997 ss;
  w_cnt : v_seg_count v' = (v_seg_count v + Z.of_nat (length ss))%Z;
  w_isa : v_isa_ctl v' = v_isa_ctl v;
  w_glc : v_gs_loop_count v' = v_gs_loop_count v;
  w_gid : v_gs_id v' = v_gs_id v;
  w_gseg : v_gs_seg v' = v_gs_seg v;
  w_stc : v_st_ctl v' = v_st_ctl v;
  w_slc : v_st_loop_count v' = v_st_loop_count v }.

Lemma wrote_refl v : wrote v v [].
Proof. constructor; try reflexivity. - cbn [map]. rewrite app_nil_r. reflexivity. - cbn [length]. lia. Qed.

Lemma wrote_trans v1 v2 v3 a b : wrote v1 v2 a -> wrote v2 v3 b -> wrote v1 v3 (a ++ b).
Proof.
  intros [A1 A2 A3 A4 A5 A6 A7 A8] [B1 B2 B3 B4 B5 B6 B7 B8]. constructor; try congruence.
  - rewrite B1, A1, map_app, app_assoc. reflexivity.
  - rewrite B2, A2, app_length. lia.
Qed.

Lemma wrote_write s v v' u : write s v = (v', Ok u) -> wrote v v' [s].
Proof. rewrite write_eq. intros H. injection H as <-. constructor; reflexivity. Qed.

Lemma wrote_in_h {A} (m : SE errh A) v v' a : in_h m v = (v', Ok a) -> wrote v v' [] /\ exists h', m (v_h v) = (h', Ok a).
Proof.
  unfold in_h. destruct (m (v_h v)) as [h' r] eqn:E. intros H. injection H as <- ->. split; [|eauto].
  constructor; try reflexivity. - cbn [map]. rewrite app_nil_r. reflexivity. - cbn [length]. cbn. lia.
Qed.

Definition emits {A} (P : seg -> Prop) (m : SE v997 A) : Prop :=
  forall v v' a, m v = (v', Ok a) -> exists ss, wrote v v' ss /\ Forall P ss.

Section Emits.
Variable P : seg -> Prop.
Lemma emits_ret {A} (x : A) : emits P (se_ret x).
Proof. intros v v' a H. se_inv H. exists []. split; [apply wrote_refl|constructor]. Qed.
Lemma emits_raise {A} e : emits P (@se_raise v997 A e).
Proof. intros v v' a H. se_inv H. Qed.
Lemma emits_write s : P s -> emits P (write s).
Proof. intros Ps v v' a H. exists [s]. split; [eapply wrote_write; eauto|repeat constructor; exact Ps]. Qed.
Lemma emits_bind {A B} (m : SE v997 A) (f : A -> SE v997 B) :
  emits P m -> (forall a, emits P (f a)) -> emits P (se_bind m f).
Proof.
  intros Hm Hf v v' b H. apply bind_ok in H as (v1 & a & H1 & H2).
  apply Hm in H1 as (s1 & W1 & F1). apply Hf in H2 as (s2 & W2 & F2).
  exists (s1 ++ s2). split; [eapply wrote_trans; eauto|apply Forall_app; auto].
Qed.
Lemma emits_get_bind {B} (f : v997 -> SE v997 B) : (forall x, emits P (f x)) -> emits P (se_bind se_get f).
Proof. intros Hf v v' b H. apply bind_ok in H as (v1 & a & H1 & H2). se_inv H1. eapply Hf; eauto. Qed.
Lemma emits_lift_bind {A B} (r : result A) (f : A -> SE v997 B) :
  (forall a, r = Ok a -> emits P (f a)) -> emits P (se_bind (se_lift r) f).
Proof. intros Hf v v' b H. apply bind_ok in H as (v1 & a & H1 & H2). se_inv H1. eapply Hf; eauto. Qed.
Lemma emits_deref_bind {A B} (o : option A) (f : A -> SE v997 B) :
  (forall a, o = Some a -> emits P (f a)) -> emits P (se_bind (deref o) f).
Proof. intros Hf v v' b H. apply bind_ok in H as (v1 & a & H1 & H2). se_inv H1. eapply Hf; eauto. Qed.
Lemma emits_in_h {A} (m : SE errh A) : emits P (in_h m).
Proof. intros v v' a H. apply wrote_in_h in H as [W _]. exists []. split; [exact W|constructor]. Qed.
Lemma emits_iter {A} (f : A -> SE v997 unit) xs : (forall x, emits P (f x)) -> emits P (se_iter f xs).
Proof.
  intros Hf. induction xs as [|x r IH]; cbn [se_iter]; [apply emits_ret|].
  apply emits_bind; [apply Hf|intros _; exact IH].
Qed.
End Emits.

(* ------------------------------------------------------------------ *)
(* inside a set: only non-envelope segments are written                *)
(* ------------------------------------------------------------------ *)
Ltac sid_step :=
  match goal with
  | H : seg_append _ _ = Ok ?s |- sid ?s = _ => rewrite (seg_append_sid _ _ _ H)
  | H : seg_set _ _ _ _ = Ok ?s |- sid ?s = _ => rewrite (seg_set_sid _ _ _ _ _ H)
  | H : seg_set_opt _ _ _ = Ok ?s |- sid ?s = _ => rewrite (seg_set_opt_sid _ _ _ _ H)
  | H : fold_left _ _ (Ok _) = Ok ?s |- sid ?s = _ => rewrite (fold_append_sid _ _ _ H)
  | H : Ok _ = Ok ?s |- sid ?s = _ => injection H as <-
  end.

Lemma body_sid s id : sid s = Some (l id) -> In id ["AK1"; "AK2"; "AK3"; "AK4"; "AK5"; "AK9"; "IK3"; "IK4"; "IK5"]%string -> body_seg s.
Proof.
  intros S H. apply (sid_not_env s (l id) S). cbn [In] in H.
  repeat (destruct H as [<-|H]; [reflexivity|]). destruct H.
Qed.
Ltac body_by id := apply (body_sid _ id); [|cbn [In]; tauto].

Lemma visit_st_pre_emits n : emits body_seg (visit_st_pre n).
Proof.
  unfold visit_st_pre. apply emits_lift_bind. intros ak2 E. apply emits_write. r_inv E.
  body_by "AK2"%string. repeat sid_step. reflexivity.
Qed.

Lemma visit_st_post_emits t : emits body_seg (visit_st_post t).
Proof.
  unfold visit_st_post. apply emits_bind; [apply emits_in_h|]. intros n. apply emits_get_bind. intros v.
  destruct (tn_ack n) as [ack|]; [|apply emits_raise].
  apply emits_lift_bind. intros ak5 E. apply emits_write. r_inv E.
  body_by "AK5"%string. repeat sid_step. reflexivity.
Qed.

Lemma visit_seg_emits n : emits body_seg (visit_seg n).
Proof.
  unfold visit_seg. apply emits_get_bind. intros v. apply emits_lift_bind. intros seg_str E. r_inv E.
  match goal with H : Ok (format_seg D ?s) = Ok _ |- _ => injection H as <-; set (s3 := s) end.
  assert (S3 : sid s3 = Some (l "AK3")) by (subst s3; repeat sid_step; reflexivity).
  assert (R : sid (parse_seg D (format_seg D s3)) = Some (l "AK3")) by (apply reparse_sid; [exact S3|apply nostar; reflexivity]).
  apply emits_bind.
  - apply emits_iter. intros cde. destruct (mem_str cde valid_AK3_codes); [|apply emits_ret].
    apply emits_lift_bind. intros s Es. apply emits_write. body_by "AK3"%string. repeat sid_step. exact R.
  - intros _. destruct (_ && _); [|apply emits_ret].
    apply emits_lift_bind. intros s Es. apply emits_write. body_by "AK3"%string. repeat sid_step. exact R.
Qed.

Lemma visit_ele_emits e : emits body_seg (visit_ele e).
Proof.
  unfold visit_ele. apply emits_lift_bind. intros seg_str E. r_inv E.
  match goal with H : Ok (format_seg D ?s) = Ok _ |- _ => injection H as <-; set (s4 := s) end.
  assert (S4 : sid s4 = Some (l "AK4")).
  { subst s4. destruct (truthy_s (en_ref_num e)); repeat sid_step; reflexivity. }
  assert (R : sid (parse_seg D (format_seg D s4)) = Some (l "AK4")) by (apply reparse_sid; [exact S4|apply nostar; reflexivity]).
  apply emits_iter. intros er. destruct (mem_str _ valid_AK4_codes); [|apply emits_ret].
  apply emits_lift_bind. intros s Es. apply emits_write. r_inv Es. body_by "AK4"%string.
  destruct (truthy_s (snd er)); repeat sid_step; exact R.
Qed.

Lemma accept_seg_emits k : emits body_seg (accept_seg k).
Proof.
  unfold accept_seg. apply emits_bind; [apply emits_in_h|]. intros n.
  apply emits_bind; [apply visit_seg_emits|]. intros _.
  apply emits_iter. intros e. apply emits_bind; [apply emits_in_h|]. intros en. apply visit_ele_emits.
Qed.

Lemma accept_st_emits t : emits body_seg (accept_st t).
Proof.
  unfold accept_st. apply emits_bind; [apply emits_in_h|]. intros n.
  apply emits_bind; [apply visit_st_pre_emits|]. intros _.
  apply emits_bind; [apply emits_iter; intros k; apply accept_seg_emits|]. intros _.
  apply visit_st_post_emits.
Qed.

(* ------------------------------------------------------------------ *)
(* one group node = one transaction set ST .. SE                       *)
(* ------------------------------------------------------------------ *)
Record Inv (isa gs : seg) (ctl : str) (k : nat) (rest : list seg) (v : v997) : Prop := {
  i_out : v_out v = map line_997 (isa :: gs :: rest);
  i_sets : sets_from 1 rest (S k);
  i_stc : v_st_ctl v = Z.of_nat k;
  i_slc : v_st_loop_count v = Z.of_nat k;
  i_gs : v_gs_seg v = Some gs;
  i_ctl : v_isa_ctl v = Some ctl }.

Definition st_seg (k : Z) : seg := parse_seg D (l "ST*997*" ++ fmt_04 k).
Definition ak1_seg (n : gs_node) : seg := parse_seg D (l "AK1*" ++ show_s (gn_fic n) ++ l "*" ++ show_s (gn_ctl n)).

Lemma visit_gs_pre_eq n v :
  visit_gs_pre n v =
  (v_upd v (v_h v) ((v_out v ++ [line_997 (st_seg (v_st_ctl v + 1))]) ++ [line_997 (ak1_seg n)]) 2%Z
         (v_isa_ctl v) (v_gs_loop_count v) (v_gs_id v) (v_gs_seg v) (v_st_ctl v + 1)%Z (v_st_loop_count v + 1)%Z, Ok tt).
Proof. reflexivity. Qed.

Lemma visit_gs_post_spec g v v' u : visit_gs_post g v = (v', Ok u) ->
  exists ak9, wrote v v' [ak9; {| sid := Some (l "SE");
                                  els := [split ":"%char (fmt_Zi (v_seg_count v + 2)); split ":"%char (fmt_04 (v_st_ctl v))] |}]
              /\ sid ak9 = Some (l "AK9").
Proof.
  unfold visit_gs_post. intros H. se_inv H.
  match goal with H : in_h _ v = (?x, Ok _) |- _ => apply wrote_in_h in H as [W1 _]; rename x into v1 end.
  match goal with H : _ v1 = (?x, Ok _) |- _ => rename x into v2; rename H into HIF end.
  assert (W2 : wrote v1 v2 []).
  { destruct (negb _); [destruct (negb _)|]; [apply wrote_in_h in HIF as [W _]; exact W| |]; se_inv HIF; apply wrote_refl. }
  match goal with H : in_h _ v2 = (?x, Ok _) |- _ => apply wrote_in_h in H as [W3 _]; rename x into v3 end.
  match goal with H : write ?s v3 = (?x, Ok _) |- _ => apply wrote_write in H; rename H into W4; rename x into v4; rename s into ak9 end.
  match goal with H : write ?s v4 = (_, Ok _) |- _ => apply wrote_write in H; rename H into W5; rename s into se end.
  pose proof (wrote_trans _ _ _ _ _ (wrote_trans _ _ _ _ _ (wrote_trans _ _ _ _ _ W1 W2) W3) W4) as W.
  cbn [app] in W.
  match goal with H : bind (seg_append (parse_seg D _) (Some (fmt_Zi _))) _ = Ok se |- _ => r_inv H end.
  repeat match goal with H : seg_append _ (Some _) = Ok _ |- _ => cbn [seg_append] in H; injection H as <- end.
  exists ak9. split.
  - pose proof (wrote_trans _ _ _ _ _ W W5) as W'. cbn [app] in W'.
    rewrite (w_cnt _ _ _ W), (w_stc _ _ _ W) in W'. cbn [length] in W'.
    replace (v_seg_count v + Z.of_nat 1 + 1)%Z with (v_seg_count v + 2)%Z in W' by lia. exact W'.
  - match goal with H : bind _ _ = Ok ak9 |- _ => r_inv H end. repeat sid_step. reflexivity.
Qed.

Lemma accept_gs_step isa gs ctl k rest g v v' u :
  Inv isa gs ctl k rest v -> accept_gs g v = (v', Ok u) ->
  exists set, Inv isa gs ctl (S k) (rest ++ set) v'.
Proof.
  intros [I1 I2 I3 I4 I5 I6] H. unfold accept_gs in H. se_inv H.
  match goal with H : in_h _ v = (?x, Ok ?a) |- _ => apply wrote_in_h in H as [W1 _]; rename x into v1; rename a into n end.
  match goal with H : visit_gs_pre n v1 = (?x, Ok _) |- _ => rewrite visit_gs_pre_eq in H; injection H as E2; rename x into v2 end.
  match goal with H : se_iter accept_st _ v2 = (?x, Ok _) |- _ =>
    apply (emits_iter body_seg accept_st _ accept_st_emits) in H as (ss & W3 & F3); rename x into v3 end.
  match goal with H : visit_gs_post g v3 = _ |- _ => apply visit_gs_post_spec in H as (ak9 & W4 & S9) end.
  assert (C3 : v_seg_count v3 = Z.of_nat (length ss + 2)).
  { rewrite (w_cnt _ _ _ W3), <- E2. cbn [v_seg_count v_upd]. lia. }
  assert (T3 : v_st_ctl v3 = Z.of_nat (S k)).
  { rewrite (w_stc _ _ _ W3), <- E2. cbn [v_st_ctl v_upd]. rewrite (w_stc _ _ _ W1), I3. lia. }
  rewrite C3, T3 in W4.
  replace (Z.of_nat (length ss + 2) + 2)%Z with (Z.of_nat (length (ak1_seg n :: ss ++ [ak9]) + 2)) in W4
    by (cbn [length]; rewrite app_length; cbn [length]; lia).
  rewrite fmt_Zi_nat, fmt_04_nat, split_dec, split_dec4 in W4.
  set (se := {| sid := Some (l "SE"); els := [[dec (length (ak1_seg n :: ss ++ [ak9]) + 2)]; [dec4 (S k)]] |}) in *.
  assert (ST : st_seg (v_st_ctl v1 + 1) = {| sid := Some (l "ST"); els := [[l "997"]; [dec4 (S k)]] |}).
  { rewrite (w_stc _ _ _ W1), I3. replace (Z.of_nat k + 1)%Z with (Z.of_nat (S k)) by lia.
    unfold st_seg. rewrite fmt_04_nat. apply parse_ST. }
  rewrite ST in E2. set (st := {| sid := Some (l "ST"); els := [[l "997"]; [dec4 (S k)]] |}) in *.
  exists (st :: (ak1_seg n :: ss ++ [ak9]) ++ [se]). constructor.
  - rewrite (w_out _ _ _ W4), (w_out _ _ _ W3), <- E2. cbn [v_out v_upd]. rewrite (w_out _ _ _ W1), I1.
    cbn [map app]. rewrite !map_app. cbn [map app]. rewrite app_nil_r, <- !app_assoc. cbn [app]. rewrite map_app.
    reflexivity.
  - apply sets_snoc; [exact I2|]. unfold one_set. repeat split; try reflexivity.
    + constructor; [|apply Forall_app; split; [exact F3|repeat constructor]].
      * body_by "AK1"%string. apply (parse_lit_sid (l "AK1")). apply nostar. reflexivity.
      * body_by "AK9"%string. exact S9.
    + apply (elc_is_intro st 2 _ [dec4 (S k)]); reflexivity.
    + apply (elc_is_intro se 2 _ [dec4 (S k)]); reflexivity.
    + apply (elc_is_intro se 1 _ [dec (length (ak1_seg n :: ss ++ [ak9]) + 2)]); reflexivity.
  - rewrite (w_stc _ _ _ W4). exact T3.
  - rewrite (w_slc _ _ _ W4), (w_slc _ _ _ W3), <- E2. cbn [v_st_loop_count v_upd]. rewrite (w_slc _ _ _ W1), I4. lia.
  - rewrite (w_gseg _ _ _ W4), (w_gseg _ _ _ W3), <- E2. cbn [v_gs_seg v_upd]. rewrite (w_gseg _ _ _ W1). exact I5.
  - rewrite (w_isa _ _ _ W4), (w_isa _ _ _ W3), <- E2. cbn [v_isa_ctl v_upd]. rewrite (w_isa _ _ _ W1). exact I6.
Qed.

(* ------------------------------------------------------------------ *)
(* the header: ISA and GS                                              *)
(* ------------------------------------------------------------------ *)
Definition ctl_of (ck : clock) : str := skipn 1 (ck_ymd6 ck ++ ck_hm ck).

(* GS06 of the group the handler points at: what the 997 echoes in its own GS06 and GE02 *)
Definition gs06_of (h : errh) : option str :=
  match c_gs h with
  | Some g => match nth_error (h_gs h) g with
              | Some n => match xget (gn_seg n) "GS06" with Ok (Some x) => Some x | _ => None end
              | None => None
              end
  | None => None
  end.

Lemma in_h_get_isa i v v' n : in_h (get_isa i) v = (v', Ok n) ->
  wrote v v' [] /\ v_h v' = v_h v /\ nth_error (h_isa (v_h v)) i = Some n.
Proof.
  intros H. pose proof (wrote_in_h _ _ _ _ H) as [W _]. split; [exact W|].
  unfold in_h, get_isa, heap_get, se_bind, se_get, se_lift in H.
  destruct (nth_error (h_isa (v_h v)) i); [|discriminate]. injection H as <- <-. split; reflexivity.
Qed.
Lemma in_h_get_gs g v v' n : in_h (get_gs g) v = (v', Ok n) ->
  wrote v v' [] /\ v_h v' = v_h v /\ nth_error (h_gs (v_h v)) g = Some n.
Proof.
  intros H. pose proof (wrote_in_h _ _ _ _ H) as [W _]. split; [exact W|].
  unfold in_h, get_gs, heap_get, se_bind, se_get, se_lift in H.
  destruct (nth_error (h_gs (v_h v)) g); [|discriminate]. injection H as <- <-. split; reflexivity.
Qed.
Lemma write_h s v v' u : write s v = (v', Ok u) -> v_h v' = v_h v.
Proof. rewrite write_eq. intros H. injection H as <-. reflexivity. Qed.

Ltac appends :=
  repeat match goal with
         | H : seg_append _ ?a = Ok _ |- _ => is_var a; destruct a; [|discriminate H]
         | H : rstrip_o ?a = Ok _ |- _ => is_var a; destruct a; [|discriminate H]
         end;
  repeat match goal with
         | H : seg_append _ (Some _) = Ok ?s |- _ => is_var s; cbv beta iota delta [seg_append] in H; injection H as <-
         | H : rstrip_o (Some _) = Ok ?s |- _ => is_var s; cbv beta iota delta [rstrip_o] in H; injection H as <-
         end.

Lemma visit_root_pre_spec ck h v' u : visit_root_pre ck (v997_init h) = (v', Ok u) ->
  exists isa gs x e1 e2 e3 e4 e5 e7,
    Inv isa gs (ctl_of ck) 0 [] v' /\ has_sid isa "ISA" = true /\ length (els isa) = 16 /\
    elc isa 13 = Some (split ":"%char (ctl_of ck)) /\
    gs = {| sid := Some (l "GS"); els := [e1; e2; e3; e4; e5; split ":"%char x; e7; [l "004010"]] |} /\
    gs06_of h = Some x.
Proof.
  intros H. unfold visit_root_pre in H. se_inv H. fold (ctl_of ck) in *.
  match goal with H : in_h (get_isa _) _ = (?x, Ok ?n) |- _ => apply in_h_get_isa in H as (W1 & H1 & N1); rename x into v1 end.
  match goal with H : write ?s (set_v_isa_ctl v1 _) = (?x, Ok _) |- _ =>
    pose proof (write_h _ _ _ _ H) as H2; apply wrote_write in H; rename H into W2; rename x into v2; rename s into isa end.
  match goal with H : in_h (get_gs ?g) _ = (?x, Ok ?n) |- _ =>
    apply in_h_get_gs in H as (W3 & H3 & N3); rename x into v3; rename n into gnode; rename g into gi end.
  match goal with H : write ?s v3 = (?x, Ok _) |- _ =>
    pose proof (write_h _ _ _ _ H) as H4; apply wrote_write in H; rename H into W4; rename x into v4; rename s into gs end.
  match goal with H : bind _ _ = Ok isa |- _ => r_inv H end.
  match goal with H : bind _ _ = Ok gs |- _ => r_inv H end.
  unl. rewrite parse_isa_lit in *. rewrite (parse_id_lit (l "GS")) in * by (try apply nostar; try discriminate; reflexivity).
  appends. cbn [sid els app] in *.
  cbn [v_h set_v_isa_ctl set_v_gs_loop_count v_upd v997_init] in *.
  match goal with H : c_gs h = Some _ |- _ => rename H into CG end.
  match goal with H : xget (gn_seg gnode) "GS06" = Ok ?a, H' : xget (gn_seg gnode) "GS06" = Ok (Some ?x) |- _ =>
    rewrite H' in H; injection H as <-; rename x into x6; rename H' into X6 end.
  eexists _, _, x6, _, _, _, _, _, _. split; [|split; [|split; [|split; [|split; [reflexivity|]]]]].
  - constructor.
    + cbn [v_out set_v_gs_loop_count set_v_st_loop_count set_v_gs v_upd].
      rewrite (w_out _ _ _ W4), (w_out _ _ _ W3). cbn [v_out set_v_gs_loop_count v_upd].
      rewrite (w_out _ _ _ W2). cbn [v_out set_v_isa_ctl v_upd]. rewrite (w_out _ _ _ W1). reflexivity.
    + constructor.
    + cbn [v_st_ctl set_v_gs_loop_count set_v_st_loop_count set_v_gs v_upd].
      rewrite (w_stc _ _ _ W4), (w_stc _ _ _ W3). cbn [v_st_ctl set_v_gs_loop_count v_upd].
      rewrite (w_stc _ _ _ W2). cbn [v_st_ctl set_v_isa_ctl v_upd]. rewrite (w_stc _ _ _ W1). reflexivity.
    + reflexivity.
    + reflexivity.
    + cbn [v_isa_ctl set_v_gs_loop_count set_v_st_loop_count set_v_gs v_upd].
      rewrite (w_isa _ _ _ W4), (w_isa _ _ _ W3). cbn [v_isa_ctl set_v_gs_loop_count v_upd].
      rewrite (w_isa _ _ _ W2). reflexivity.
  - reflexivity.
  - reflexivity.
  - reflexivity.
  - unfold gs06_of. rewrite CG. rewrite H2, H1 in N3. cbn [v_h v997_init] in N3. rewrite N3, X6. reflexivity.
Qed.

(* ------------------------------------------------------------------ *)
(* all groups of all interchanges                                      *)
(* ------------------------------------------------------------------ *)
Lemma Inv_wrote_nil isa gs ctl k rest v v' : Inv isa gs ctl k rest v -> wrote v v' [] -> Inv isa gs ctl k rest v'.
Proof.
  intros [I1 I2 I3 I4 I5 I6] W. constructor; try assumption.
  - rewrite (w_out _ _ _ W), I1. cbn [map]. apply app_nil_r.
  - rewrite (w_stc _ _ _ W). exact I3.
  - rewrite (w_slc _ _ _ W). exact I4.
  - rewrite (w_gseg _ _ _ W). exact I5.
  - rewrite (w_isa _ _ _ W). exact I6.
Qed.

Definition InvE isa gs ctl v : Prop := exists k rest, Inv isa gs ctl k rest v.

Lemma accept_isa_step isa gs ctl i v v' u : InvE isa gs ctl v -> accept_isa i v = (v', Ok u) -> InvE isa gs ctl v'.
Proof.
  intros I H. unfold accept_isa in H. se_inv H.
  match goal with H : in_h _ v = (?x, Ok _) |- _ => apply wrote_in_h in H as [W _]; rename x into v1 end.
  match goal with H : se_iter accept_gs _ v1 = _ |- _ => revert H end.
  apply iter_inv.
  - intros g s s' u' (k & rest & Is) Hg. destruct (accept_gs_step _ _ _ _ _ _ _ _ _ Is Hg) as (set & I'). exists (S k), (rest ++ set). exact I'.
  - destruct I as (k & rest & I). exists k, rest. eapply Inv_wrote_nil; eauto.
Qed.

(* ------------------------------------------------------------------ *)
(* the trailer: GE, TA1 when asked for, IEA                            *)
(* ------------------------------------------------------------------ *)
Lemma visit_root_post_spec isa gs ctl k rest v v' u : Inv isa gs ctl k rest v -> visit_root_post v = (v', Ok u) ->
  exists g06 tail,
    seg_get_value D gs (l "GS06") = Ok g06 /\
    v_out v' = map line_997 (isa :: gs :: rest ++ parse_seg D (l "GE*" ++ dec k ++ l "*" ++ show_s g06) :: tail) /\
    (tail = [parse_seg D (l "IEA*" ++ dec 1 ++ l "*" ++ ctl)] \/
     exists ta1, has_sid ta1 "TA1" = true /\ tail = [ta1; parse_seg D (l "IEA*" ++ dec 1 ++ l "*" ++ ctl)]).
Proof.
  intros [I1 I2 I3 I4 I5 I6] H. unfold visit_root_post in H. se_inv H.
  match goal with H : v_gs_seg v = Some ?g |- _ => rewrite I5 in H; injection H as <- end.
  match goal with H : seg_get_value D gs _ = Ok ?g |- _ => rename g into g06; rename H into G6 end.
  match goal with H : write _ v = (?x, Ok _) |- _ => apply wrote_write in H; rename H into W1; rename x into v1 end.
  match goal with H : in_h _ (set_v_gs_loop_count v1 1) = (?x, Ok ?n) |- _ => apply wrote_in_h in H as [W2 _]; rename x into v2; rename n into inode end.
  match goal with H : write _ ?y = (v', Ok _) |- _ => apply wrote_write in H; rename H into W4; rename y into v3 end.
  match goal with H : _ v2 = (v3, Ok _) |- _ => rename H into HT end.
  rewrite I4, fmt_Zi_nat in W1.
  assert (C3 : exists tl, wrote v2 v3 tl /\ (tl = [] \/ exists ta1, has_sid ta1 "TA1" = true /\ tl = [ta1])).
  { destruct (opt_eqb str_eqb (in_ta1 inode) _).
    - se_inv HT. match goal with H : write ?s v2 = _ |- _ => apply wrote_write in H; exists [s]; split; [exact H|]; rename s into ta1 end.
      right. exists ta1. split; [|reflexivity].
      assert (S : sid ta1 = Some (l "TA1")).
      { match goal with H : bind _ _ = Ok ta1 |- _ => r_inv H end.
        match goal with H : match ?c with [] => _ | _ => _ end = Ok ta1 |- _ => destruct c; r_inv H end; repeat sid_step; reflexivity. }
      unfold has_sid. rewrite S. reflexivity.
    - se_inv HT. exists []. split; [apply wrote_refl|left; reflexivity]. }
  destruct C3 as (tl & W3 & T3).
  assert (G : v_gs_loop_count v3 = 1%Z).
  { rewrite (w_glc _ _ _ W3), (w_glc _ _ _ W2). reflexivity. }
  assert (C : v_isa_ctl v3 = Some ctl).
  { rewrite (w_isa _ _ _ W3), (w_isa _ _ _ W2). cbn [v_isa_ctl set_v_gs_loop_count v_upd]. rewrite (w_isa _ _ _ W1). exact I6. }
  rewrite G, C in W4. change (fmt_Zi 1) with (dec 1) in W4. cbn [show_s] in W4.
  exists g06, (tl ++ [parse_seg D (l "IEA*" ++ dec 1 ++ l "*" ++ ctl)]). split; [exact G6|]. split.
  - rewrite (w_out _ _ _ W4), (w_out _ _ _ W3), (w_out _ _ _ W2). cbn [v_out set_v_gs_loop_count v_upd].
    rewrite (w_out _ _ _ W1), I1. cbn [map app]. rewrite !map_app. cbn [map app]. rewrite app_nil_r, <- !app_assoc.
    cbn [app]. rewrite map_app. reflexivity.
  - destruct T3 as [->|(ta1 & T & ->)]; [left; reflexivity|right; exists ta1; split; [exact T|reflexivity]].
Qed.

(* ------------------------------------------------------------------ *)
(* the theorem                                                         *)
(* ------------------------------------------------------------------ *)
(* a value that can be put behind "GE*n*" / "IEA*n*" and parsed back: no element separator in it, no
   segment terminator at its end *)
Definition tail_ok (y : str) : bool := negb (mem_ascii "*"%char y) && negb (ends_with "~"%char y).

(* the interchange control number made from the clock ('%y%m%d%H%M'[1:]) *)
Definition clock_ok (ck : clock) : bool := tail_ok (ctl_of ck).

(* the echoed group control number *)
Definition gs06_ok (h : errh) : bool :=
  match gs06_of h with Some x => tail_ok (echo x) | None => true end.

Lemma tail_ok_E y : tail_ok y = true -> ~ In "*"%char y /\ ends_with "~"%char y = false.
Proof.
  unfold tail_ok. rewrite andb_true_iff, !negb_true_iff. intros [A B]. split; [apply mem_false_notin; exact A|exact B].
Qed.

Theorem ack997_envelope_partial ck h h' lines :
  clock_ok ck = true -> gs06_ok h = true ->
  render_997 ck h = (h', lines, None) ->
  exists segs, lines = map line_997 segs /\ envelope_ok segs = true.
Proof.
  intros CK GK H. unfold render_997 in H. destruct (accept_root ck (v997_init h)) as [v r] eqn:E.
  destruct r as [u|e]; [|discriminate]. injection H as _ <-.
  unfold accept_root in E. se_inv E.
  match goal with H : visit_root_pre _ _ = (?x, Ok _) |- _ =>
    apply visit_root_pre_spec in H as (isa & gs & x6 & e1 & e2 & e3 & e4 & e5 & e7 & I0 & A1 & A2 & A3 & EG & G6); rename x into v1 end.
  match goal with H : se_iter accept_isa _ v1 = (?x, Ok _) |- _ =>
    apply (iter_inv (InvE isa gs (ctl_of ck)) accept_isa (accept_isa_step isa gs (ctl_of ck))) in H; [|eexists _, _; exact I0];
    destruct H as (k & rest & I1); rename x into v2 end.
  match goal with H : visit_root_post v2 = _ |- _ =>
    apply (visit_root_post_spec _ _ _ _ _ _ _ _ I1) in H as (g06 & tail & G & O & T) end.
  subst gs. rewrite get_gs06 in G. injection G as <-. fold (echo x6) in O. cbn [show_s] in O.
  unfold gs06_ok in GK. rewrite G6 in GK. apply tail_ok_E in GK as [GK1 GK2]. apply tail_ok_E in CK as [CK1 CK2].
  change (l "GE*" ++ dec k ++ l "*" ++ echo x6) with (l "GE" ++ "*"%char :: dec k ++ "*"%char :: echo x6) in O.
  rewrite parse_trailer in O by (try (apply nostar; reflexivity); try reflexivity; assumption).
  set (iea := parse_seg D (l "IEA*" ++ dec 1 ++ l "*" ++ ctl_of ck)) in *.
  assert (IE : iea = {| sid := Some (l "IEA"); els := [[dec 1]; split ":"%char (ctl_of ck)] |}).
  { subst iea. change (l "IEA*" ++ dec 1 ++ l "*" ++ ctl_of ck) with (l "IEA" ++ "*"%char :: dec 1 ++ "*"%char :: ctl_of ck).
    apply parse_trailer; try (apply nostar; reflexivity); try reflexivity; assumption. }
  set (gs := {| sid := Some (l "GS"); els := [e1; e2; e3; e4; e5; split ":"%char x6; e7; [l "004010"]] |}) in *.
  set (gs' := {| sid := Some (l "GS"); els := [e1; e2; e3; e4; e5; keep ele_empty (split ":"%char x6); e7; [l "004010"]] |}).
  assert (L : line_997 gs = line_997 gs').
  { unfold line_997. cbn [sid gs gs']. f_equal. apply format_seg_like.
    repeat (apply Forall2_cons; [first [apply comp_like_refl|apply comp_like_trim]|]). constructor. }
  set (ge := {| sid := Some (l "GE"); els := [[dec k]; split ":"%char (echo x6)] |}) in *.
  exists (isa :: gs' :: rest ++ ge :: tail). split.
  - rewrite O. cbn [map]. rewrite L. reflexivity.
  - apply (envelope_intro isa gs' rest k ge tail).
    + exact A1.
    + exact A2.
    + reflexivity.
    + exact (i_sets _ _ _ _ _ _ I1).
    + reflexivity.
    + apply (elc_is_intro ge 1 _ [dec k]); reflexivity.
    + unfold elc_same, ge, gs'. cbn [elc els nth_error]. rewrite split_echo. apply comp_eqb_refl.
    + exists iea. split; [|exact T].
      unfold iea_ok. rewrite IE. replace (has_sid _ "IEA") with true by reflexivity.
      rewrite (elc_is_intro _ 1 (dec 1) [dec 1]) by reflexivity. cbn [andb].
      unfold elc_same. rewrite A3. cbn [elc els nth_error].
      apply comp_eqb_refl.
Qed.

