(* C12_reader.v — the reader's output does not depend on the delimiters or the line layout. *)
From Coq Require Import String Lia.
From PX.Lib Require Import Base PyStr PyInt.
From PX.Model Require Import Path Segment Raw Reader.
From PX.Spec Require Import C01_spec C12_spec.
From PX.Proofs Require Import C01_raw C01_roundtrip.

Local Definition l (s : string) : str := list_ascii_of_string s.

(* a parsed-and-formatted segment does not depend on the delimiters used *)
Theorem parse_format_delims_irrelevant :
  forall d1 d2 s, distinct_delims d1 = true -> distinct_delims d2 = true ->
    clean_seg d1 s = true -> clean_seg d2 s = true ->
    parse_seg d1 (format_seg d1 s) = parse_seg d2 (format_seg d2 s).
Admitted.

(* line breaks after terminators do not change the raw segment strings *)
Theorem raw_spec_breaks :
  forall d conv segs, distinct_delims d = true -> delims_not_break d = true -> is_break conv = true ->
    forallb (clean_seg d) segs = true -> forallb id_starts_plain segs = true ->
    raw_spec (seg_term d) (encode d conv segs) = raw_spec (seg_term d) (encode d [] segs).
Admitted.

(* THE THEOREM: the same document (fields f of the header, body) written with two delimiter triples and two
   line-break conventions is read, under any chunking of the input, as the same segments (ISA16 apart) with the
   same errors at the same segment positions *)
Theorem reading_delims_layout_independent :
  forall d1 d2 conv1 conv2 f body lx sch1 sch2,
    distinct_delims d1 = true -> distinct_delims d2 = true ->
    delims_not_break d1 = true -> delims_not_break d2 = true ->
    is_break conv1 = true -> is_break conv2 = true ->
    isa_fields_ok f = true ->
    clean_seg d1 (isa_for d1 f) = true -> clean_seg d2 (isa_for d2 f) = true ->
    body_ok d1 body = true -> body_ok d2 body = true ->
    forallb id_starts_plain body = true -> forallb ctl_simple body = true ->
    reading lx (encode d1 conv1 (isa_for d1 f :: body)) sch1 =
    reading lx (encode d2 conv2 (isa_for d2 f :: body)) sch2
    /\ exists v, reading lx (encode d1 conv1 (isa_for d1 f :: body)) sch1 = Ok v.
Admitted.

(* non-vacuity: a two-set interchange with an HL error, written as "~*:" without breaks and as "|^>" with CRLF *)
Definition ex_fields : list str :=
  map l ["00"; "          "; "00"; "          "; "ZZ"; "SENDER         "; "ZZ"; "RECEIVER       ";
         "030828"; "1128"; "U"; "00401"; "000000017"; "0"; "T"]%string.
Definition ex_body : list seg :=
  [ {| sid := Some (l "GS"); els := map (fun v => [l v]) ["HC"; "S"; "R"; "20030828"; "1128"; "17"; "X"; "004010X098A1"]%string |};
    {| sid := Some (l "ST"); els := [[l "837"]; [l "0001"]] |};
    {| sid := Some (l "HL"); els := [[l "2"]; [[]]; [l "20"]; [l "1"]] |};
    {| sid := Some (l "CLM"); els := [[l "A 1"]; [l "100"]; [[]]; [[]]; [l "11"; []; l "1"]] |};
    {| sid := Some (l "SE"); els := [[l "9"]; [l "0001"]] |};
    {| sid := Some (l "GE"); els := [[l "1"]; [l "17"]] |};
    {| sid := Some (l "IEA"); els := [[l "1"]; [l "000000017"]] |} ].
Example ex_hyps :
  let d1 := {| seg_term := "~"%char; ele_term := "*"%char; subele_term := ":"%char |} in
  let d2 := {| seg_term := "|"%char; ele_term := "^"%char; subele_term := ">"%char |} in
  isa_fields_ok ex_fields = true /\ clean_seg d1 (isa_for d1 ex_fields) = true /\ clean_seg d2 (isa_for d2 ex_fields) = true /\
  body_ok d1 ex_body = true /\ body_ok d2 ex_body = true /\ forallb id_starts_plain ex_body = true /\ forallb ctl_simple ex_body = true /\
  exists icvn out fin, reading false (encode d2 [ascii_of_nat 13; ascii_of_nat 10] (isa_for d2 ex_fields :: ex_body)) [] = Ok (icvn, out, fin)
                       /\ length out = 8 /\ existsb (fun p => negb (match snd p with [] => true | _ => false end)) out = true.
Proof. vm_compute. repeat split; try reflexivity. do 3 eexists. repeat split; reflexivity. Qed.
