(* C12_reader.v — the reader's output does not depend on the delimiters or the line layout. *)
From Coq Require Import String Lia.
From PX.Lib Require Import Base PyStr PyInt.
From PX.Model Require Import Path Segment Raw Reader.
From PX.Spec Require Import C01_spec C12_spec.
From PX.Proofs Require Import C01_raw C01_roundtrip C12_lemmas.

Local Definition l (s : string) : str := list_ascii_of_string s.

(* a parsed-and-formatted segment does not depend on the delimiters used *)
Theorem parse_format_delims_irrelevant :
  forall d1 d2 s, distinct_delims d1 = true -> distinct_delims d2 = true ->
    clean_seg d1 s = true -> clean_seg d2 s = true ->
    parse_seg d1 (format_seg d1 s) = parse_seg d2 (format_seg d2 s).
Proof.
  intros d1 d2 s D1 D2 C1 C2. apply clean_iff in C1, C2.
  rewrite (parse_format d1 s D1 C1), (parse_format d2 s D2 C2). reflexivity.
Qed.

(* line breaks after terminators do not change the raw segment strings *)
Theorem raw_spec_breaks :
  forall d conv segs, distinct_delims d = true -> delims_not_break d = true -> is_break conv = true ->
    forallb (clean_seg d) segs = true -> forallb id_starts_plain segs = true ->
    raw_spec (seg_term d) (encode d conv segs) = raw_spec (seg_term d) (encode d [] segs).
Proof.
  intros d conv segs Hd Hnb Hc Hcl Hp.
  pose proof (raw_spec_encode d conv Hd Hnb Hc segs [] eq_refl Hcl Hp) as E1.
  pose proof (raw_spec_encode d [] Hd Hnb eq_refl segs [] eq_refl Hcl Hp) as E2.
  cbn [app] in E1, E2. rewrite E1, E2. reflexivity.
Qed.

(* THE THEOREM: the same document (fields f of the header, body) written with two delimiter triples and two
   line-break conventions is read, under any chunking of the input, as the same segments (ISA16 apart) with the
   same errors at the same segment positions *)
Theorem reading_delims_layout_independent :
  forall d1 d2 conv1 conv2 f body lx sch1 sch2,
    distinct_delims d1 = true -> distinct_delims d2 = true ->
    delims_not_break d1 = true -> delims_not_break d2 = true ->
    is_break conv1 = true -> is_break conv2 = true ->
    isa_fields_ok f = true ->
    clean_seg d1 (isa_for d1 f) = true -> clean_seg d2 (isa_for d2 f) = true ->
    body_ok d1 body = true -> body_ok d2 body = true ->
    forallb id_starts_plain body = true -> forallb ctl_simple body = true ->
    reading lx (encode d1 conv1 (isa_for d1 f :: body)) sch1 =
    reading lx (encode d2 conv2 (isa_for d2 f :: body)) sch2
    /\ exists v, reading lx (encode d1 conv1 (isa_for d1 f :: body)) sch1 = Ok v.
Proof.
  intros d1 d2 conv1 conv2 f body lx sch1 sch2 D1 D2 N1 N2 K1 K2 Hf C1 C2 B1 B2 Hp Hc.
  assert (Hb1 : forallb (clean_seg d1) body = true)
    by (unfold body_ok in B1; apply andb_true_iff in B1 as [H _]; exact H).
  assert (Hb2 : forallb (clean_seg d2) body = true)
    by (unfold body_ok in B2; apply andb_true_iff in B2 as [H _]; exact H).
  rewrite (reading_encode d1 conv1 f body lx sch1 D1 N1 K1 Hf C1 Hb1 Hp).
  rewrite (reading_encode d2 conv2 f body lx sch2 D2 N2 K2 Hf C2 Hb2 Hp).
  rewrite (run_indep d1 d2 f body lx D1 D2 Hf C1 C2 B1 B2 Hp Hc).
  split; [reflexivity|]. eexists. reflexivity.
Qed.

(* non-vacuity: a two-set interchange with an HL error, written as "~*:" without breaks and as "|^>" with CRLF *)
Definition ex_fields : list str :=
  map l ["00"; "          "; "00"; "          "; "ZZ"; "SENDER         "; "ZZ"; "RECEIVER       ";
         "030828"; "1128"; "U"; "00401"; "000000017"; "0"; "T"]%string.
Definition ex_body : list seg :=
  [ {| sid := Some (l "GS"); els := map (fun v => [l v]) ["HC"; "S"; "R"; "20030828"; "1128"; "17"; "X"; "004010X098A1"]%string |};
    {| sid := Some (l "ST"); els := [[l "837"]; [l "0001"]] |};
    {| sid := Some (l "HL"); els := [[l "2"]; [[]]; [l "20"]; [l "1"]] |};
    {| sid := Some (l "CLM"); els := [[l "A 1"]; [l "100"]; [[]]; [[]]; [l "11"; []; l "1"]] |};
    {| sid := Some (l "SE"); els := [[l "9"]; [l "0001"]] |};
    {| sid := Some (l "GE"); els := [[l "1"]; [l "17"]] |};
    {| sid := Some (l "IEA"); els := [[l "1"]; [l "000000017"]] |} ].
Example ex_hyps :
  let d1 := {| seg_term := "~"%char; ele_term := "*"%char; subele_term := ":"%char |} in
  let d2 := {| seg_term := "|"%char; ele_term := "^"%char; subele_term := ">"%char |} in
  isa_fields_ok ex_fields = true /\ clean_seg d1 (isa_for d1 ex_fields) = true /\ clean_seg d2 (isa_for d2 ex_fields) = true /\
  body_ok d1 ex_body = true /\ body_ok d2 ex_body = true /\ forallb id_starts_plain ex_body = true /\ forallb ctl_simple ex_body = true /\
  exists icvn out fin, reading false (encode d2 [ascii_of_nat 13; ascii_of_nat 10] (isa_for d2 ex_fields :: ex_body)) [] = Ok (icvn, out, fin)
                       /\ length out = 8 /\ existsb (fun p => negb (match snd p with [] => true | _ => false end)) out = true.
Proof. vm_compute. repeat split; try reflexivity. do 3 eexists. repeat split; reflexivity. Qed.

Print Assumptions parse_format_delims_irrelevant.
Print Assumptions raw_spec_breaks.
Print Assumptions reading_delims_layout_independent.
