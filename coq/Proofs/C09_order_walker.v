(* C09_order_walker.v — what the map walker (Model/Walker.v) answers, as far as the context reader's
   _add_segment depends on it: the SHAPE of (node, pop_loops, push_loops) relative to the start node, and
   the map positions of the first pushed loop and the last popped one.

   Partial correctness only (nothing is claimed when the walker raises), on a map that satisfies
   Spec/C09_order_spec.v: shape_ok and depth_ok.

   walk_shape:  if walk from the segment node `start` answers (Some r', pop, push) then, with
                ancs x = the enclosing loops of x from the innermost one to the map root,
                  ancs start = pop ++ tail      and      ancs r' = rev push ++ tail      for some tail,
                and when push is not empty its first loop has a map position >= that of the last popped
                loop (>= that of `start` when nothing was popped). *)
From Coq Require Import String List ZArith Lia.
From PX.Lib Require Import Base PyStr PyInt Regex Xml.
From PX.Model Require Import Path Segment Syntax MapLoad MapTree Element Counter Walker.
From PX.Spec Require Import C07_walker_wf C09_order_spec.
From PX.Proofs Require Import C07_walker_lemmas.
Import ListNotations.

(* ------------------------------------------------------------------ *)
(* partial correctness in the W monad *)

Definition wpc {A} (c : W A) (P : A -> Prop) : Prop := forall s s' x, c s = (s', Ok x) -> P x.

Lemma wpc_ret {A} (v : A) (P : A -> Prop) : P v -> wpc (w_ret v) P.
Proof. intros H s s' x E. unfold w_ret in E. injection E as _ <-. exact H. Qed.

Lemma wpc_raise {A} e (P : A -> Prop) : wpc (w_raise e) P.
Proof. intros s s' x E. discriminate E. Qed.

Lemma wpc_bind {A B} (c : W A) (f : A -> W B) (Q : A -> Prop) (P : B -> Prop) :
  wpc c Q -> (forall v, Q v -> wpc (f v) P) -> wpc (w_bind c f) P.
Proof.
  intros H1 H2 s s' x E. unfold w_bind in E. destruct (c s) as [s1 [v|e]] eqn:Ec; [|discriminate E].
  eapply H2; [eapply H1; exact Ec | exact E].
Qed.

Lemma wpc_seq {A B} (c : W A) (f : A -> W B) (P : B -> Prop) : (forall v, wpc (f v) P) -> wpc (w_bind c f) P.
Proof. intros H. apply wpc_bind with (Q := fun _ => True); [intros s s' x _; exact I | intros v _; apply H]. Qed.

Lemma wpc_lift {A} (r : result A) (P : A -> Prop) : (forall v, r = Ok v -> P v) -> wpc (w_lift r) P.
Proof. intros H s s' x E. unfold w_lift in E. injection E as _ E. apply H. exact E. Qed.

Lemma wpc_conseq {A} (c : W A) (Q P : A -> Prop) : wpc c Q -> (forall v, Q v -> P v) -> wpc c P.
Proof. intros H1 H2 s s' x E. apply H2. eapply H1. exact E. Qed.

(* ------------------------------------------------------------------ *)
(* the local loops of the walker, named (the model has them as anonymous fixpoints) *)

Definition ilm_go (m : xmap) (a : wargs) (f : nat) (r : nref) :=
  fix go (i : nat) (cs : list node) : W bool :=
    match cs with
    | [] => w_ret false
    | c :: cs' =>
        match c with
        | NLoop _ _ _ _ _ _ _ =>
            dow b <- is_loop_match f m a (r ++ [i]) c;
            if b then w_ret true else go (S i) cs'
        | NSeg _ => go (S i) cs'
        end
    end.

Definition goto_go (m : xmap) (a : wargs) (f : nat) (r : nref) :=
  fix go (i : nat) (cs : list node) : W (option nref * list nref) :=
    match cs with
    | [] => w_ret (None, [])
    | c :: cs' =>
        match c with
        | NLoop _ _ _ _ _ _ _ =>
            dow res <- goto_seg_match f m a (r ++ [i]) c;
            match fst res with
            | Some r1 =>
                dow t <- w_lift (node_truthy m r1);
                if t then w_ret (Some r1, r :: snd res) else go (S i) cs'
            | None => go (S i) cs'
            end
        | NSeg _ => go (S i) cs'
        end
    end.

Definition wl_scan (m : xmap) (a : wargs) (orig orig_loop cur : nref) (pop : list nref) :=
  fix scan (cs : list (nat * node)) : W (option walk_result) :=
    match cs with
    | [] => w_ret None
    | (i, c) :: rest =>
        let cr := cur ++ [i] in
        match c with
        | NSeg s0 =>
            dow b <- w_lift (seg_is_match (xg_d (a_x a)) (m_dataele m) s0 (xg_s (a_x a)));
            if b then
              dow lm <- (match cur with
                         | [] => w_ret false
                         | _ => dow n <- w_lift (get_node m cur); is_loop_match 40 m a cur n
                         end);
              if lm then
                dow_ (if orig_is_segment m orig then note_missing_children m a cur else w_ret tt);
                dow n <- w_lift (get_node m cur);
                dow g <- goto_seg_match 40 m a cur n;
                dow same <- w_lift (node_eq m cur orig_loop);
                if same then w_ret (Some (fst g, [cur], [cur]))
                else w_ret (Some (fst g, pop, snd g))
              else
                dow xp <- w_lift (node_x12path m cr);
                dow cn <- w_counter_get;
                dow_ w_counter_set (increment cn xp);
                dow_ check_seg_usage m cr s0 a;
                dow pid <- w_lift (parent_id m cr);
                dow ms <- w_missing_get;
                dow_ w_missing_set (filter (fun e => negb (ostr_eqb (me_id e) (s_id s0) && ostr_eqb (me_pid e) pid)) ms);
                dow_ flush_mandatory_segs (Some (s_pos s0));
                w_ret (Some (Some cr, pop, []))
            else if usage_is (s_usage s0) "R" then
              dow xp <- w_lift (node_x12path m cr);
              dow cn <- w_counter_get;
              dow_ (if (get_count cn xp <? 1)%Z
                    then append_missing m cr c (Walker.l "Mandatory segment """ ++ ostr0 (s_name s0) ++ Walker.l """ (" ++
                                                ostr0 (s_id s0) ++ Walker.l ") missing") a
                    else w_ret tt);
              scan rest
            else scan rest
        | NLoop _ _ _ _ _ _ _ =>
            dow lm <- is_loop_match 40 m a cr c;
            if lm then
              dow g <- goto_seg_match 40 m a cr c;
              w_ret (Some (fst g, pop, snd g))
            else scan rest
        end
    end.

Lemma walk_loop_S m a f orig orig_loop cur npos pop :
  walk_loop (S f) m a orig orig_loop cur npos pop =
  (dow kids <- w_lift (container_children m cur);
   dow found <- wl_scan m a orig orig_loop cur pop (filter (fun ic => (npos <=? node_pos (snd ic))%Z) (enumerate 0 kids));
   match found with
   | Some res => w_ret res
   | None =>
       match cur with
       | [] => dow_ seg_not_found_error m orig a; w_ret (None, [], [])
       | _ => dow n <- w_lift (get_node m cur);
              walk_loop f m a orig orig_loop (pop_to_parent_loop cur) (node_pos n) (pop ++ [cur])
       end
   end).
Proof. reflexivity. Qed.

Lemma list_case {A B} (x : list A) (u v : B) :
  x <> [] -> match x with [] => u | _ :: _ => v end = v.
Proof. destruct x; congruence. Qed.

(* ------------------------------------------------------------------ *)
(* the enclosing loops of a reference, innermost first, the map root ([]) last *)

Fixpoint ancs_f (k : nat) (r : nref) : list nref :=
  match k with 0 => [] | S k' => removelast r :: ancs_f k' (removelast r) end.
Definition ancs (r : nref) : list nref := ancs_f (length r) r.

Lemma ancs_snoc r i : ancs (r ++ [i]) = r :: ancs r.
Proof.
  unfold ancs. rewrite app_length. cbn [length]. rewrite Nat.add_1_r. cbn [ancs_f]. rewrite removelast_snoc. reflexivity.
Qed.

Lemma ancs_nonnil r : r <> [] -> ancs r = removelast r :: ancs (removelast r).
Proof.
  intros H. destruct (exists_last H) as [r' [x ->]]. rewrite ancs_snoc, removelast_snoc. reflexivity.
Qed.

Fixpoint chain_of (r : nref) (js : list nat) : list nref :=
  match js with [] => [r] | i :: js' => r :: chain_of (r ++ [i]) js' end.

Lemma ancs_chain js : forall r, ancs (r ++ js ++ [0]) = rev (chain_of r js) ++ ancs r.
Proof.
  induction js as [|i js IH]; intros r.
  - cbn [app chain_of rev]. apply ancs_snoc.
  - replace (r ++ (i :: js) ++ [0]) with ((r ++ [i]) ++ js ++ [0]) by (rewrite <- app_assoc; reflexivity).
    rewrite IH, ancs_snoc. cbn [chain_of rev]. rewrite <- app_assoc. reflexivity.
Qed.

Lemma seg_is_match_id d de n sg : seg_is_match d de n sg = Ok true -> ostr_eqb (sid sg) (s_id n) = true.
Proof.
  unfold seg_is_match. destruct (ostr_eqb (sid sg) (s_id n)); cbn [negb]; [reflexivity | discriminate].
Qed.

Lemma ostr_eqb_refl a : ostr_eqb a a = true.
Proof. unfold ostr_eqb, opt_eqb. destruct a; [apply str_eqb_refl | reflexivity]. Qed.

Section Shape.
Variable m : xmap.
Hypothesis DEPTH : forallb (depth_ok 40) (root_nodes m) = true.
Hypothesis SHAPE : shape_ok m = true.
Variable a : wargs.

Notation ns := (root_nodes m).
Notation smatch s0 := (seg_is_match (xg_d (a_x a)) (m_dataele m) s0 (xg_s (a_x a))).
Notation sidhit ids := (existsb (ostr_eqb (sid (xg_s (a_x a)))) ids).

Lemma shape_at r n : node_at ns r = Some n -> node_shape_ok n = true.
Proof.
  intros H. unfold shape_ok in SHAPE. rewrite forallb_forall in SHAPE.
  specialize (SHAPE r (all_refs_complete m r n DEPTH H)). rewrite H in SHAPE. exact SHAPE.
Qed.

(* ------------------------------------------------------------------ *)
(* _is_loop_match *)

Definition ilm_post (f : nat) (n : node) (b : bool) : Prop :=
  b = true -> sidhit (start_ids f n) = true /\
              forall s0 rest, node_children n = NSeg s0 :: rest -> smatch s0 = Ok true.

Lemma ilm_go_pc f r :
  (forall r' n', wpc (is_loop_match f m a r' n') (ilm_post f n')) ->
  forall cs i, wpc (ilm_go m a f r i cs)
                   (fun b => b = true -> sidhit (flat_map (fun c => if node_is_loop c then start_ids f c else []) cs) = true).
Proof.
  intros IH. induction cs as [|c cs IHcs]; intros i.
  - apply wpc_ret. discriminate.
  - destruct c as [id ty nm u p rep pm | s0].
    + change (wpc (dow b <- is_loop_match f m a (r ++ [i]) (NLoop id ty nm u p rep pm);
                   if b then w_ret true else ilm_go m a f r (S i) cs)
                  (fun b => b = true ->
                     sidhit (flat_map (fun c => if node_is_loop c then start_ids f c else []) (NLoop id ty nm u p rep pm :: cs)) = true)).
      eapply wpc_bind; [apply IH|]. intros b Hb. cbn [flat_map node_is_loop]. destruct b.
      * apply wpc_ret. intros _. rewrite existsb_app. destruct (Hb eq_refl) as [-> _]. reflexivity.
      * eapply wpc_conseq; [apply (IHcs (S i))|]. intros b' Hb' E. rewrite existsb_app, (Hb' E). apply orb_true_r.
    + change (wpc (ilm_go m a f r (S i) cs)
                  (fun b => b = true ->
                     sidhit (flat_map (fun c => if node_is_loop c then start_ids f c else []) (NSeg s0 :: cs)) = true)).
      cbn [flat_map node_is_loop app]. apply IHcs.
Qed.

Lemma ilm_pc : forall f r n, wpc (is_loop_match f m a r n) (ilm_post f n).
Proof.
  induction f as [|f IHf]; intros r n; [apply wpc_raise|].
  destruct n as [id ty nm u p rep pm | s]; [|apply wpc_raise].
  cbn [is_loop_match]. destruct (pm_nodes pm) as [|first rest] eqn:E.
  - apply wpc_ret. discriminate.
  - destruct first as [id1 ty1 nm1 u1 p1 rep1 pm1 | s0].
    + change (wpc (ilm_go m a f r 0 (NLoop id1 ty1 nm1 u1 p1 rep1 pm1 :: rest)) (ilm_post (S f) (NLoop id ty nm u p rep pm))).
      eapply wpc_conseq; [apply (ilm_go_pc f r IHf)|].
      intros b Hb Eb. split.
      * cbn [start_ids]. rewrite E. apply Hb, Eb.
      * intros s0 rest' E'. cbn [node_children] in E'. rewrite E in E'. discriminate E'.
    + eapply wpc_bind; [apply wpc_lift; intros v Hv; exact Hv|]. intros b Hb. cbv beta in Hb. destruct b.
      * apply wpc_ret. intros _. split.
        -- cbn [start_ids]. rewrite E. cbn [existsb]. rewrite (seg_is_match_id _ _ _ _ Hb). reflexivity.
        -- intros s1 rest' E'. cbn [node_children] in E'. rewrite E in E'. injection E' as <- _. exact Hb.
      * destruct (usage_is u "R"); [|apply wpc_ret; discriminate].
        apply wpc_seq. intros xp. apply wpc_seq. intros c.
        destruct (get_count c xp <? 1)%Z; [|apply wpc_ret; discriminate].
        apply wpc_seq. intros _. apply wpc_ret. discriminate.
Qed.

(* ------------------------------------------------------------------ *)
(* _goto_seg_match *)

Definition gpc (r : nref) (n : node) (res : option nref * list nref) : Prop :=
  match fst res with
  | Some r1 => exists js, r1 = r ++ js ++ [0] /\ snd res = chain_of r js /\
                          (forall s0 rest, node_children n = NSeg s0 :: rest -> smatch s0 = Ok true -> js = [])
  | None => forall s0 rest, node_children n = NSeg s0 :: rest -> smatch s0 = Ok true -> False
  end.

Lemma goto_go_pc f r :
  (forall r' n', wpc (goto_seg_match f m a r' n') (gpc r' n')) ->
  forall cs i, wpc (goto_go m a f r i cs)
                   (fun res => match fst res with
                               | Some r1 => exists js, r1 = r ++ js ++ [0] /\ snd res = chain_of r js
                               | None => True
                               end).
Proof.
  intros IH. induction cs as [|c cs IHcs]; intros i.
  - apply wpc_ret. exact I.
  - destruct c as [id ty nm u p rep pm | s0].
    + change (wpc (dow res <- goto_seg_match f m a (r ++ [i]) (NLoop id ty nm u p rep pm);
                   match fst res with
                   | Some r1 =>
                       dow t <- w_lift (node_truthy m r1);
                       if t then w_ret (Some r1, r :: snd res) else goto_go m a f r (S i) cs
                   | None => goto_go m a f r (S i) cs
                   end)
                  (fun res => match fst res with
                              | Some r1 => exists js, r1 = r ++ js ++ [0] /\ snd res = chain_of r js
                              | None => True
                              end)).
      eapply wpc_bind; [apply IH|]. intros res Hres. unfold gpc in Hres.
      destruct (fst res) as [r1|]; [|apply IHcs].
      destruct Hres as [js [E1 [E2 _]]].
      apply wpc_seq. intros t. destruct t; [|apply IHcs].
      apply wpc_ret. cbn [fst snd]. exists (i :: js). split.
      * rewrite E1. rewrite <- app_assoc. reflexivity.
      * cbn [chain_of]. rewrite E2. reflexivity.
    + change (wpc (goto_go m a f r (S i) cs)
                  (fun res => match fst res with
                              | Some r1 => exists js, r1 = r ++ js ++ [0] /\ snd res = chain_of r js
                              | None => True
                              end)).
      apply IHcs.
Qed.

Lemma goto_pc : forall f r n, wpc (goto_seg_match f m a r n) (gpc r n).
Proof.
  induction f as [|f IHf]; intros r n; [apply wpc_raise|].
  destruct n as [id ty nm u p rep pm | s]; [|apply wpc_raise].
  cbn [goto_seg_match]. destruct (pm_nodes pm) as [|first rest] eqn:E; [apply wpc_raise|].
  change (wpc (dow hit <- (match first with
                           | NSeg s0 => w_lift (smatch s0)
                           | NLoop _ _ _ _ _ _ _ => w_ret false
                           end);
               if hit then
                 dow_ check_loop_usage m r (NLoop id ty nm u p rep pm) a;
                 dow xp <- w_lift (node_x12path m (r ++ [0]));
                 dow c <- w_counter_get;
                 dow_ w_counter_set (increment c xp);
                 dow_ flush_mandatory_segs None;
                 w_ret (Some (r ++ [0]), [r])
               else goto_go m a f r 0 (first :: rest))
              (gpc r (NLoop id ty nm u p rep pm))).
  eapply wpc_bind with (Q := fun hit => forall s0, first = NSeg s0 -> smatch s0 = Ok hit).
  - destruct first as [id1 ty1 nm1 u1 p1 rep1 pm1 | s0].
    + apply wpc_ret. intros s0 E0. discriminate E0.
    + apply wpc_lift. intros v Hv s1 E1. injection E1 as <-. exact Hv.
  - intros hit Hhit. destruct hit.
    + apply wpc_seq. intros _. apply wpc_seq. intros xp. apply wpc_seq. intros c. apply wpc_seq. intros _.
      apply wpc_seq. intros _. apply wpc_ret. unfold gpc. cbn [fst snd]. exists []. split; [reflexivity|].
      split; [reflexivity|]. intros; reflexivity.
    + eapply wpc_conseq; [apply (goto_go_pc f r IHf)|]. intros res Hres. cbv beta in Hres. unfold gpc.
      assert (NoHit : forall s0 rest', node_children (NLoop id ty nm u p rep pm) = NSeg s0 :: rest' -> smatch s0 = Ok true -> False).
      { intros s0 rest' E' M'. cbn [node_children] in E'. rewrite E in E'. injection E' as -> _.
        rewrite (Hhit s0 eq_refl) in M'. discriminate M'. }
      destruct res as [o ps]. cbn [fst snd] in *. destruct o as [r1|]; [|exact NoHit].
      destruct Hres as [js [E1 E2]]. exists js. split; [exact E1|]. split; [exact E2|].
      intros s0 rest' E' M'. destruct (NoHit s0 rest' E' M').
Qed.

(* ------------------------------------------------------------------ *)
(* walk *)

Variable start : nref.
Variable nstart : node.
Hypothesis Hstart : node_at ns start = Some nstart.

(* the position the scan starts from: that of the loop popped last, or of the start node *)
Definition base_of (pop : list nref) (base : Z) : Prop :=
  match rev pop with
  | [] => base = node_pos nstart
  | p :: _ => exists np, node_at ns p = Some np /\ base = node_pos np
  end.

Definition push_pos (pop push : list nref) : Prop :=
  match push with
  | [] => True
  | q :: _ => exists nq base, node_at ns q = Some nq /\ base_of pop base /\ (base <= node_pos nq)%Z
  end.

Definition wshape (res : walk_result) : Prop :=
  match res with
  | (o, pop, push) =>
      exists tail, ancs start = pop ++ tail /\
        match o with
        | Some r' => ancs r' = rev push ++ tail /\ push_pos pop push
        | None => True
        end
  end.

(* the state of one turn of `while True` *)
Definition turn_inv (cur : nref) (npos : Z) (pop : list nref) : Prop :=
  ancs start = pop ++ cur :: ancs cur /\ base_of pop npos /\
  match rev pop with
  | [] => cur = removelast start
  | K :: _ => exists ik nK, K = cur ++ [ik] /\ node_at ns K = Some nK /\ node_is_loop nK = true /\ npos = node_pos nK
  end.

Lemma node_eq_refl cur b : cur <> [] -> node_eq m cur cur = Ok b -> b = true.
Proof.
  intros Hne. unfold node_eq. destruct cur as [|c0 cur']; [congruence|].
  destruct (get_node m (c0 :: cur')) as [n|e]; cbn [bind]; [|discriminate]. rewrite ostr_eqb_refl. cbn [negb].
  destruct (parent_id m (c0 :: cur')) as [pa|e]; cbn [bind]; [|discriminate].
  rewrite ostr_eqb_refl. intros E. injection E as <-. reflexivity.
Qed.

Lemma scan_pc cur npos pop :
  lref m cur -> turn_inv cur npos pop ->
  forall cs, (forall i c, In (i, c) cs -> nth_error (kids m cur) i = Some c /\ (npos <= node_pos c)%Z) ->
  wpc (wl_scan m a start (removelast start) cur pop cs)
      (fun found => match found with Some res => wshape res | None => True end).
Proof.
  intros Hl [Hanc [Hbase Hlast]]. induction cs as [|[i c] rest IH]; intros Hc; [apply wpc_ret; exact I|].
  assert (Tail : wpc (wl_scan m a start (removelast start) cur pop rest)
                     (fun found => match found with Some res => wshape res | None => True end)).
  { apply IH. intros i' c' Hin. apply Hc. right. exact Hin. }
  destruct (Hc i c (or_introl eq_refl)) as [Hi Hpos].
  assert (Hcr : node_at ns (cur ++ [i]) = Some c) by (rewrite (node_at_kids _ _ _ Hl); exact Hi).
  destruct c as [id ty nm u p rep pm | s0]; cbn [wl_scan].
  - (* a child loop *)
    eapply wpc_bind; [apply ilm_pc|]. intros lm _. destruct lm; [|exact Tail].
    eapply wpc_bind; [apply goto_pc|]. intros g Hg. apply wpc_ret. unfold wshape.
    exists (cur :: ancs cur). split; [exact Hanc|]. unfold gpc in Hg.
    destruct (fst g) as [r1|]; [|exact I]. destruct Hg as [js [E1 [E2 _]]]. split.
    + rewrite E1, ancs_chain, ancs_snoc, E2. reflexivity.
    + unfold push_pos. rewrite E2. destruct js; cbn [chain_of]; exists (NLoop id ty nm u p rep pm), npos; auto.
  - (* a child segment *)
    eapply wpc_bind; [apply wpc_lift; intros v Hv; exact Hv|]. intros b Hb. cbv beta in Hb. destruct b.
    + eapply wpc_bind with (Q := fun lm => lm = true -> cur <> [] /\ exists n, node_at ns cur = Some n /\ ilm_post 40 n true).
      * destruct Hl as [-> | [n [Hn Ln]]]; [apply wpc_ret; discriminate|].
        assert (Hne : cur <> []) by (intros ->; discriminate Hn).
        rewrite (list_case _ _ _ Hne).
        eapply wpc_bind; [apply wpc_lift; intros v Hv; exact Hv|]. intros n' Hn'. cbv beta in Hn'.
        rewrite (get_node_ok _ _ _ Hn) in Hn'. injection Hn' as <-.
        eapply wpc_conseq; [apply ilm_pc|]. intros lm Hlm ->. split; [exact Hne|]. exists n. split; [exact Hn | exact Hlm].
      * intros lm Hlm. destruct lm.
        -- destruct (Hlm eq_refl) as [Hne [n [Hn Hpost]]]. destruct (Hpost eq_refl) as [Hids Hfirst].
           (* the loop starts with a segment and nothing was popped: anything else contradicts shape_ok *)
           pose proof (shape_at _ _ Hn) as Sh.
           assert (Lk : kids m cur = node_children n).
           { unfold kids. destruct cur; [congruence|]. rewrite Hn. reflexivity. }
           destruct n as [idn tyn nmn un pn repn pmn | sn].
           2:{ cbn [start_ids] in Hids. discriminate Hids. }
           cbn [node_shape_ok] in Sh. rewrite forallb_forall in Sh.
           cbn [node_children] in Lk.
           assert (Hin : In (NSeg s0) (pm_nodes pmn)) by (rewrite <- Lk; exact (nth_error_In _ _ Hi)).
           specialize (Sh _ Hin). cbv beta iota in Sh.
           assert (Ex : exposed (pm_nodes pmn) (NSeg s0) = false).
           { destruct (exposed (pm_nodes pmn) (NSeg s0)); [|reflexivity]. cbn [negb orb] in Sh.
             pose proof (seg_is_match_id _ _ _ _ Hb) as Eid. apply ostr_eqb_eq in Eid.
             rewrite <- Eid, Hids in Sh. discriminate Sh. }
           unfold exposed in Ex. apply orb_false_iff in Ex as [Ex1 Ex2].
           destruct (rev pop) as [|K pop'] eqn:Erev.
           2:{ exfalso. destruct Hlast as [ik [nK [EK [HK [LK Enpos]]]]].
               rewrite EK, (node_at_kids _ _ _ Hl), Lk in HK.
               assert (existsb (fun k => node_is_loop k && (node_pos k <=? node_pos (NSeg s0))%Z) (pm_nodes pmn) = true) as X.
               { apply existsb_exists. exists nK. split; [exact (nth_error_In _ _ HK)|].
                 rewrite LK. cbn [andb]. apply Z.leb_le. rewrite <- Enpos. exact Hpos. }
               rewrite X in Ex2. discriminate Ex2. }
           destruct (pm_nodes pmn) as [|first rest'] eqn:Epm; [destruct Hin|].
           destruct first as [id1 ty1 nm1 u1 p1 rep1 pm1 | sf]; [discriminate Ex1|].
           assert (Mf : smatch sf = Ok true) by (apply (Hfirst sf rest'); cbn [node_children]; exact Epm).
           apply wpc_seq. intros _.
           eapply wpc_bind; [apply wpc_lift; intros v Hv; exact Hv|]. intros n' Hn'. cbv beta in Hn'.
           rewrite (get_node_ok _ _ _ Hn) in Hn'. injection Hn' as <-.
           eapply wpc_bind; [apply goto_pc|]. intros g Hg.
           eapply wpc_bind; [apply wpc_lift; intros v Hv; exact Hv|]. intros same Hsame. cbv beta in Hsame.
           assert (pop = []) as -> by (destruct pop as [|x pop0]; [reflexivity|]; cbn [rev] in Erev; destruct (rev pop0); discriminate Erev).
           rewrite <- Hlast in Hsame. apply (node_eq_refl _ _ Hne) in Hsame. subst same.
           apply wpc_ret. unfold wshape. exists (ancs cur). split; [exact Hanc|].
           unfold gpc in Hg. destruct (fst g) as [r1|]; [|exact I].
           destruct Hg as [js [E1 [E2 E3]]].
           assert (js = []) as -> by (apply (E3 sf rest'); [cbn [node_children]; exact Epm | exact Mf]).
           cbn [app] in E1. split.
           ++ rewrite E1, ancs_snoc. reflexivity.
           ++ unfold push_pos. exists (NLoop idn tyn nmn un pn repn pmn), (node_pos (NLoop idn tyn nmn un pn repn pmn)).
              split; [exact Hn|]. split; [|lia]. unfold base_of. cbn [rev app]. eauto.
        -- apply wpc_seq. intros xp. apply wpc_seq. intros cn. apply wpc_seq. intros _. apply wpc_seq. intros _.
           apply wpc_seq. intros pid. apply wpc_seq. intros ms. apply wpc_seq. intros _. apply wpc_seq. intros _.
           apply wpc_ret. unfold wshape. exists (cur :: ancs cur). split; [exact Hanc|]. split; [|exact I].
           cbn [rev app]. apply ancs_snoc.
    + destruct (usage_is (s_usage s0) "R"); [|exact Tail].
      apply wpc_seq. intros xp. apply wpc_seq. intros cn. apply wpc_seq. intros _. exact Tail.
Qed.

Lemma walk_loop_pc :
  forall fuel cur npos pop,
    lref m cur -> turn_inv cur npos pop ->
    wpc (walk_loop fuel m a start (removelast start) cur npos pop) wshape.
Proof.
  induction fuel as [|fuel IH]; intros cur npos pop Hl Hinv; [apply wpc_raise|].
  rewrite walk_loop_S.
  eapply wpc_bind; [apply wpc_lift; intros v Hv; exact Hv|]. intros kids0 Hk. cbv beta in Hk.
  rewrite (container_children_kids _ _ Hl) in Hk. injection Hk as <-.
  eapply wpc_bind.
  - apply (scan_pc cur npos pop Hl Hinv). intros i c Hin. apply filter_In in Hin as [Hin Hp].
    apply enumerate_nth in Hin as [_ Hin]. rewrite Nat.sub_0_r in Hin. cbn [snd] in Hp. apply Z.leb_le in Hp. auto.
  - intros found Hf. destruct found as [res|]; [apply wpc_ret; exact Hf|].
    destruct Hl as [-> | [n [Hn Ln]]].
    + apply wpc_seq. intros _. apply wpc_ret. unfold wshape. exists (ancs start). split; [reflexivity | exact I].
    + assert (Hne : cur <> []) by (intros ->; discriminate Hn).
      rewrite (list_case _ _ _ Hne).
      eapply wpc_bind; [apply wpc_lift; intros v Hv; exact Hv|]. intros n' Hn'. cbv beta in Hn'.
      rewrite (get_node_ok _ _ _ Hn) in Hn'. injection Hn' as <-. unfold pop_to_parent_loop.
      apply IH.
      * apply lref_removelast. right. eauto.
      * destruct Hinv as [Hanc [Hbase Hlast]]. split; [|split].
        -- rewrite Hanc, (ancs_nonnil _ Hne), <- app_assoc. reflexivity.
        -- unfold base_of. rewrite rev_app_distr. cbn [rev app]. eauto.
        -- rewrite rev_app_distr. cbn [rev app]. destruct (exists_last Hne) as [c' [ik Ec]].
           exists ik, n. rewrite Ec, removelast_snoc. repeat split; try reflexivity; [rewrite <- Ec; exact Hn | exact Ln].
Qed.

End Shape.

(* ------------------------------------------------------------------ *)
(* the statement used by the context reader *)

Theorem walk_shape m start sn w d sg sc cl ls w' evs o pop push :
  forallb (depth_ok 40) (root_nodes m) = true -> shape_ok m = true ->
  node_at (root_nodes m) start = Some (NSeg sn) ->
  walk_st m w start d sg sc cl ls = (w', evs, Ok (o, pop, push)) ->
  wshape m start (NSeg sn) (o, pop, push).
Proof.
  intros D SH Hs E. unfold walk_st in E.
  destruct (walk_w m start d sg sc cl ls {| ws := w; wlog := [] |}) as [st r] eqn:Ew.
  injection E as _ _ ->.
  revert Ew. unfold walk_w.
  set (a := {| a_x := {| xg_d := d; xg_s := sg |}; a_seg_count := sc; a_cur_line := cl; a_ls := ls |}).
  intros Ew.
  assert (Hne : start <> []) by (intros ->; discriminate Hs).
  assert (W : wpc (dow_ w_missing_set [];
                   match start with
                   | [] => w_raise AttributeError
                   | _ =>
                       dow n0 <- w_lift (get_node m start);
                       let cur0 := if node_is_loop n0 then start else pop_to_parent_loop start in
                       walk_loop (S (length start)) m a start cur0 cur0 (node_pos n0) []
                   end) (wshape m start (NSeg sn))).
  { apply wpc_seq. intros _. rewrite (list_case _ _ _ Hne).
    eapply wpc_bind; [apply wpc_lift; intros v Hv; exact Hv|]. intros n0 Hn0. cbv beta in Hn0.
    rewrite (get_node_ok _ _ _ Hs) in Hn0. injection Hn0 as <-. cbn [node_is_loop]. cbv zeta. unfold pop_to_parent_loop.
    apply (walk_loop_pc m D SH a start (NSeg sn)).
    - destruct (node_at_removelast _ _ _ Hs) as [E0 | [q [Hq Lq]]]; [left; exact E0 | right; eauto].
    - split; [|split].
      + cbn [app]. apply ancs_nonnil, Hne.
      + unfold base_of. cbn [rev]. reflexivity.
      + cbn [rev]. reflexivity. }
  exact (W _ _ _ Ew).
Qed.

(* ------------------------------------------------------------------ *)
(* the node found is a segment node that matches the data segment (no condition on the map) *)

Section Found.
Variable m : xmap.
Variable a : wargs.
Notation ns := (root_nodes m).
Notation smatch s0 := (seg_is_match (xg_d (a_x a)) (m_dataele m) s0 (xg_s (a_x a))).

Definition is_match_ref (r1 : nref) : Prop := exists s1, node_at ns r1 = Some (NSeg s1) /\ smatch s1 = Ok true.

Definition gfound (res : option nref * list nref) : Prop :=
  match fst res with Some r1 => is_match_ref r1 | None => True end.

Lemma goto_go_found f r pn :
  node_at ns r = Some pn ->
  (forall r' n', node_at ns r' = Some n' -> wpc (goto_seg_match f m a r' n') gfound) ->
  forall cs i, (forall j c, nth_error cs j = Some c -> nth_error (node_children pn) (i + j) = Some c) ->
  wpc (goto_go m a f r i cs) gfound.
Proof.
  intros Hr IH. induction cs as [|c cs IHcs]; intros i Hs.
  - apply wpc_ret. exact I.
  - assert (Hs' : forall j c', nth_error cs j = Some c' -> nth_error (node_children pn) (S i + j) = Some c').
    { intros j c' Hj. replace (S i + j) with (i + S j) by lia. apply Hs. exact Hj. }
    destruct c as [id ty nm u p rep pm | s0].
    + change (wpc (dow res <- goto_seg_match f m a (r ++ [i]) (NLoop id ty nm u p rep pm);
                   match fst res with
                   | Some r1 =>
                       dow t <- w_lift (node_truthy m r1);
                       if t then w_ret (Some r1, r :: snd res) else goto_go m a f r (S i) cs
                   | None => goto_go m a f r (S i) cs
                   end) gfound).
      eapply wpc_bind.
      * apply IH. rewrite (node_at_snoc _ _ _ _ Hr). rewrite <- (Nat.add_0_r i). apply Hs. reflexivity.
      * intros res Hres. unfold gfound in Hres. destruct res as [o ps]. cbn [fst snd] in *.
        destruct o as [r1|]; [|apply IHcs; exact Hs'].
        apply wpc_seq. intros t. destruct t; [|apply IHcs; exact Hs']. apply wpc_ret. exact Hres.
    + change (wpc (goto_go m a f r (S i) cs) gfound). apply IHcs. exact Hs'.
Qed.

Lemma goto_found : forall f r n, node_at ns r = Some n -> wpc (goto_seg_match f m a r n) gfound.
Proof.
  induction f as [|f IHf]; intros r n Hr; [apply wpc_raise|].
  destruct n as [id ty nm u p rep pm | s]; [|apply wpc_raise].
  cbn [goto_seg_match]. destruct (pm_nodes pm) as [|first rest] eqn:E; [apply wpc_raise|].
  change (wpc (dow hit <- (match first with
                           | NSeg s0 => w_lift (smatch s0)
                           | NLoop _ _ _ _ _ _ _ => w_ret false
                           end);
               if hit then
                 dow_ check_loop_usage m r (NLoop id ty nm u p rep pm) a;
                 dow xp <- w_lift (node_x12path m (r ++ [0]));
                 dow c <- w_counter_get;
                 dow_ w_counter_set (increment c xp);
                 dow_ flush_mandatory_segs None;
                 w_ret (Some (r ++ [0]), [r])
               else goto_go m a f r 0 (first :: rest)) gfound).
  eapply wpc_bind with (Q := fun hit => hit = true -> exists s0, first = NSeg s0 /\ smatch s0 = Ok true).
  - destruct first as [id1 ty1 nm1 u1 p1 rep1 pm1 | s0].
    + apply wpc_ret. discriminate.
    + apply wpc_lift. intros v Hv ->. eauto.
  - intros hit Hhit. destruct hit.
    + destruct (Hhit eq_refl) as (s0 & -> & M0).
      apply wpc_seq. intros _. apply wpc_seq. intros xp. apply wpc_seq. intros c. apply wpc_seq. intros _.
      apply wpc_seq. intros _. apply wpc_ret. unfold gfound. cbn [fst]. exists s0. split; [|exact M0].
      rewrite (node_at_snoc _ _ _ _ Hr). cbn [node_children]. rewrite E. reflexivity.
    + rewrite <- E. apply (goto_go_found f r _ Hr IHf). intros j c Hj. exact Hj.
Qed.

Definition wfound (res : walk_result) : Prop :=
  match fst (fst res) with Some r' => is_match_ref r' | None => True end.

Lemma scan_found orig orig_loop cur pop :
  lref m cur ->
  forall cs, (forall i c, In (i, c) cs -> nth_error (kids m cur) i = Some c) ->
  wpc (wl_scan m a orig orig_loop cur pop cs) (fun found => match found with Some res => wfound res | None => True end).
Proof.
  intros Hl. induction cs as [|[i c] rest IH]; intros Hc; [apply wpc_ret; exact I|].
  assert (Tail : wpc (wl_scan m a orig orig_loop cur pop rest) (fun found => match found with Some res => wfound res | None => True end)).
  { apply IH. intros i' c' Hin. apply Hc. right. exact Hin. }
  assert (Hcr : node_at ns (cur ++ [i]) = Some c).
  { rewrite (node_at_kids _ _ _ Hl). apply Hc. left. reflexivity. }
  destruct c as [id ty nm u p rep pm | s0]; cbn [wl_scan].
  - apply wpc_seq. intros lm. destruct lm; [|exact Tail].
    eapply wpc_bind; [apply (goto_found 40 _ _ Hcr)|]. intros g Hg. apply wpc_ret. exact Hg.
  - eapply wpc_bind; [apply wpc_lift; intros v Hv; exact Hv|]. intros b Hb. cbv beta in Hb. destruct b.
    + apply wpc_seq. intros lm. destruct lm.
      * apply wpc_seq. intros _.
        eapply wpc_bind; [apply wpc_lift; intros v Hv; exact Hv|]. intros n Hn. cbv beta in Hn.
        assert (node_at ns cur = Some n) as Hn'.
        { unfold get_node in Hn. destruct (node_at ns cur); [injection Hn as ->; reflexivity | discriminate Hn]. }
        eapply wpc_bind; [apply (goto_found 40 _ _ Hn')|]. intros g Hg.
        apply wpc_seq. intros same. destruct same; apply wpc_ret; exact Hg.
      * apply wpc_seq. intros xp. apply wpc_seq. intros cn. apply wpc_seq. intros _. apply wpc_seq. intros _.
        apply wpc_seq. intros pid. apply wpc_seq. intros ms. apply wpc_seq. intros _. apply wpc_seq. intros _.
        apply wpc_ret. unfold wfound. cbn [fst]. exists s0. auto.
    + destruct (usage_is (s_usage s0) "R"); [|exact Tail].
      apply wpc_seq. intros xp. apply wpc_seq. intros cn. apply wpc_seq. intros _. exact Tail.
Qed.

Lemma walk_loop_found orig orig_loop :
  forall fuel cur npos pop, lref m cur -> wpc (walk_loop fuel m a orig orig_loop cur npos pop) wfound.
Proof.
  induction fuel as [|fuel IH]; intros cur npos pop Hl; [apply wpc_raise|].
  rewrite walk_loop_S.
  eapply wpc_bind; [apply wpc_lift; intros v Hv; exact Hv|]. intros kids0 Hk. cbv beta in Hk.
  rewrite (container_children_kids _ _ Hl) in Hk. injection Hk as <-.
  eapply wpc_bind.
  - apply (scan_found orig orig_loop cur pop Hl). intros i c Hin. apply filter_In in Hin as [Hin _].
    apply enumerate_nth in Hin as [_ Hin]. rewrite Nat.sub_0_r in Hin. exact Hin.
  - intros found Hf. destruct found as [res|]; [apply wpc_ret; exact Hf|].
    destruct Hl as [-> | [n [Hn Ln]]].
    + apply wpc_seq. intros _. apply wpc_ret. exact I.
    + assert (Hne : cur <> []) by (intros ->; discriminate Hn).
      rewrite (list_case _ _ _ Hne). apply wpc_seq. intros n'. unfold pop_to_parent_loop.
      apply IH. apply lref_removelast. right. eauto.
Qed.

End Found.

Theorem walk_found m start sn w d sg sc cl ls w' evs r' pop push :
  node_at (root_nodes m) start = Some (NSeg sn) ->
  walk_st m w start d sg sc cl ls = (w', evs, Ok (Some r', pop, push)) ->
  exists s1, node_at (root_nodes m) r' = Some (NSeg s1) /\ seg_is_match d (m_dataele m) s1 sg = Ok true.
Proof.
  intros Hs E. unfold walk_st in E.
  destruct (walk_w m start d sg sc cl ls {| ws := w; wlog := [] |}) as [st r] eqn:Ew.
  injection E as _ _ ->.
  revert Ew. unfold walk_w.
  set (a := {| a_x := {| xg_d := d; xg_s := sg |}; a_seg_count := sc; a_cur_line := cl; a_ls := ls |}).
  intros Ew.
  assert (Hne : start <> []) by (intros ->; discriminate Hs).
  assert (W : wpc (dow_ w_missing_set [];
                   match start with
                   | [] => w_raise AttributeError
                   | _ =>
                       dow n0 <- w_lift (get_node m start);
                       let cur0 := if node_is_loop n0 then start else pop_to_parent_loop start in
                       walk_loop (S (length start)) m a start cur0 cur0 (node_pos n0) []
                   end) (wfound m a)).
  { apply wpc_seq. intros _. rewrite (list_case _ _ _ Hne).
    eapply wpc_bind; [apply wpc_lift; intros v Hv; exact Hv|]. intros n0 Hn0. cbv beta in Hn0.
    rewrite (get_node_ok _ _ _ Hs) in Hn0. injection Hn0 as <-. cbn [node_is_loop]. cbv zeta. unfold pop_to_parent_loop.
    apply walk_loop_found.
    destruct (node_at_removelast _ _ _ Hs) as [E0 | [q [Hq Lq]]]; [left; exact E0 | right; eauto]. }
  exact (W _ _ _ Ew).
Qed.

Print Assumptions walk_shape.
Print Assumptions walk_found.
