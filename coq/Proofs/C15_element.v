(* C15_element.v — the codes element_if.is_valid reports are exactly the codes
   the definition implies (Spec/C15_spec.v), except that a control character
   pre-empts the later checks; the boolean result is false exactly when an
   error was reported. *)
From Coq Require Import String.
From PX.Lib Require Import Base PyStr PyInt Regex.
From PX.Model Require Import Path Segment Syntax Validation MapLoad MapTree Element.
From PX.Spec Require Import C13_spec C13_dec C15_spec C15_link.
From PX.Proofs Require Import C13_main.

Definition codes_of (evs : list hev) : list str :=
  flat_map (fun h => match h with HEleErr code _ _ _ => [code] | HAddEle _ => [] end) evs.

(* well-formed definition in a context: what C16 establishes for the shipped maps *)
Definition wf_def (c : ectx) (e : elem) (de : dataele) : Prop :=
  get_by_elem_num (x_de c) (e_data_ele e) = Ok de /\
  (C15_spec.usage_is (e_usage e) "R" = true \/ C15_spec.usage_is (e_usage e) "S" = true \/ C15_spec.usage_is (e_usage e) "N" = true) /\
  de_type de <> Some [] /\
  (match e_external e with
   | Some k => k <> [] /\ (mem_str k (x_exclude c) = true \/ cs_find (x_codes c) (Some k) None <> None)
   | None => True end) /\
  (x_charset c = cs "B" \/ x_charset c = cs "E").

(* a single (non-composite) value or an absent one *)
Definition edata_of (v : option str) : edata := match v with Some x => Some [x] | None => None end.

Definition formats_datetime (fs : list (option str)) : Prop :=
  Forall (fun t => match t with Some x => In x [cs "RD8"; cs "DT"; cs "D8"; cs "D6"; cs "TM"] | None => False end) fs.

(* ---------------- auxiliary lemmas ---------------- *)
Lemma codes_of_app a b : codes_of (a ++ b) = codes_of a ++ codes_of b.
Proof. unfold codes_of. apply flat_map_app. Qed.

Lemma codes_of_ev r code m v : codes_of [mk_ev r code m v] = [cs code].
Proof. reflexivity. Qed.

Lemma codes_of_if (b : bool) r code m v :
  codes_of (if b then [mk_ev r code m v] else []) = if b then [cs code] else [].
Proof. destruct b; reflexivity. Qed.

Lemma codes_of_ifn (b : bool) r code m v :
  codes_of (if b then [] else [mk_ev r code m v]) = if b then [] else [cs code].
Proof. destruct b; reflexivity. Qed.

Lemma ostr_eqb_eq a b : ostr_eqb a b = true <-> a = b.
Proof.
  destruct a, b; cbn; try (split; congruence).
  rewrite str_eqb_eq. split; congruence.
Qed.

Lemma usage_same u x : MapTree.usage_is u x = C15_spec.usage_is u x.
Proof. reflexivity. Qed.

Lemma no_ctl_nil : contains_control_character [] = None.
Proof. vm_compute. reflexivity. Qed.

Definition isnil {A} (l : list A) : bool := match l with [] => true | _ => false end.

Lemma isnil_app {A} (a b : list A) : isnil (a ++ b) = isnil a && isnil b.
Proof. destruct a; reflexivity. Qed.

Definition is_err (h : hev) : bool := match h with HEleErr _ _ _ _ => true | HAddEle _ => false end.

Lemma isnil_codes l : forallb is_err l = true -> isnil (codes_of l) = isnil l.
Proof. destruct l as [|[|] l]; cbn; intros; congruence. Qed.

Lemma numeric_same ty :
  is_numeric_type ty =
  match ty with
  | Some t => str_eqb t (cs "R") || match t with c0 :: _ => Ascii.eqb c0 "N"%char | [] => false end
  | None => false
  end.
Proof. destruct ty as [[|[[] [] [] [] [] [] [] []] [|? ?]]|]; reflexivity. Qed.

Lemma numeric_ok ty : ty <> Some [] ->
  match ty with
  | Some t => if str_eqb t (cs "R") then Ok true
              else match t with c0 :: _ => Ok (Ascii.eqb c0 "N"%char) | [] => Raise IndexError end
  | None => Ok false
  end = Ok (is_numeric_type ty).
Proof.
  intros H. rewrite numeric_same. destruct ty as [[|c0 t]|]; try congruence; try reflexivity.
  destruct (str_eqb (c0 :: t) (cs "R")); reflexivity.
Qed.

Lemma filter_two v :
  replace_char "."%char (replace_char "-"%char v) =
  filter (fun c => negb (Ascii.eqb c "-"%char) && negb (Ascii.eqb c "."%char)) v.
Proof.
  unfold replace_char. induction v as [|a v IH]; [reflexivity|].
  cbn [filter]. destruct (Ascii.eqb a "-"%char); cbn [negb andb]; [exact IH|].
  cbn [filter]. destruct (Ascii.eqb a "."%char); cbn [negb]; [exact IH|]. f_equal. exact IH.
Qed.

Lemma measured_same ty v :
  Z.of_nat (length (if is_numeric_type ty then replace_char "."%char (replace_char "-"%char v) else v)) = x12_len ty v.
Proof. unfold x12_len. rewrite filter_two. reflexivity. Qed.

Lemma last_char_ok v : v <> [] -> exists c r, last_char v = Ok c /\ rev v = c :: r.
Proof.
  intros H. unfold last_char. destruct (rev v) as [|c r] eqn:E.
  - exfalso. apply H. rewrite <- (rev_involutive v), E. reflexivity.
  - eauto.
Qed.

Lemma valid_code_ok c e de pc v : wf_def c e de ->
  is_valid_code c e v = Ok (in_code_lists (def_of c e de pc) v).
Proof.
  intros (_ & _ & _ & Hext & _). unfold is_valid_code, in_code_lists, def_of, ext_of. cbn [d_codes d_external].
  destruct (e_external e) as [k|].
  - destruct Hext as (Hk & Hx). destruct k as [|k0 k]; [congruence|]. unfold ext_is_valid.
    destruct (mem_str _ (x_exclude c)).
    + cbn [bind]. rewrite !orb_true_r. reflexivity.
    + destruct Hx as [Hx|Hx]; [discriminate|].
      destruct (cs_find _ _ _) eqn:E; [|exfalso; exact (Hx eq_refl)].
      cbn [bind]. rewrite andb_false_r. reflexivity.
  - rewrite orb_false_r. reflexivity.
Qed.

Lemma valid_type_ok c v ty (w : bool) :
  (x_charset c = cs "B" \/ x_charset c = cs "E") ->
  valid_type c v ty w = Ok (of_type (x_charset c) (if w then icvn_of c else cs "00401") ty v).
Proof.
  intros H. unfold valid_type, of_type. destruct ty as [ty|]; [|reflexivity].
  rewrite model_decides by exact H. destruct w; reflexivity.
Qed.

Lemma any_valid_ok c v fs :
  (x_charset c = cs "B" \/ x_charset c = cs "E") ->
  any_valid_type c v fs = Ok (existsb (fun t => of_type (x_charset c) (cs "00401") t v) fs).
Proof.
  intros H. induction fs as [|t fs IH]; [reflexivity|].
  cbn [any_valid_type existsb]. rewrite (valid_type_ok c v t false H), IH. reflexivity.
Qed.

Lemma type_ev_ok (ok : bool) ty r m1 m2 m3 v1 v2 v3 :
  let evs := if ok then []
             else if is_date_type ty then [mk_ev r "8" m1 v1]
             else if ostr_eqb ty (Some (cs "TM")) then [mk_ev r "9" m2 v2]
             else [mk_ev r "6" m3 v3] in
  codes_of evs = (if ok then [] else [type_code ty]) /\ forallb is_err evs = true.
Proof.
  cbv zeta. destruct ok; [split; reflexivity|].
  unfold is_date_type, type_code. change Element.l with cs. destruct ty as [t|]; [|split; reflexivity].
  destruct (mem_str t _); [split; reflexivity|].
  cbn [ostr_eqb opt_eqb]. destruct (str_eqb t (cs "TM")); split; reflexivity.
Qed.

Definition dt_b (t : option str) : bool :=
  match t with Some x => mem_str x [cs "RD8"; cs "DT"; cs "D8"; cs "D6"; cs "TM"] | None => false end.

Lemma formats_datetime_b fs : formats_datetime fs -> forallb dt_b fs = true.
Proof.
  induction 1 as [|t fs H _ IH]; [reflexivity|]. cbn [forallb]. rewrite IH, andb_true_r.
  destruct t as [x|]; [|contradiction]. unfold dt_b. apply mem_str_In. exact H.
Qed.

Lemma dt_split t : dt_b t = ostr_eqb (Some (cs "TM")) t || is_date_type t.
Proof.
  destruct t as [x|]; [|reflexivity]. unfold dt_b, is_date_type. change Element.l with cs. cbn [ostr_eqb opt_eqb mem_str].
  replace (str_eqb (cs "TM") x) with (str_eqb x (cs "TM")).
  - destruct (str_eqb x (cs "RD8")), (str_eqb x (cs "DT")), (str_eqb x (cs "D8")), (str_eqb x (cs "D6")), (str_eqb x (cs "TM")); reflexivity.
  - destruct (str_eqb x (cs "TM")) eqn:E1, (str_eqb (cs "TM") x) eqn:E2; try reflexivity.
    + apply str_eqb_eq in E1. subst. discriminate.
    + apply str_eqb_eq in E2. subst. discriminate.
Qed.

Lemma tl_ok c v fs r m9 m8 v9 v8 :
  (x_charset c = cs "B" \/ x_charset c = cs "E") ->
  exists tl,
    match fs with
    | [] => Ok (true, [])
    | _ :: _ =>
        do anyv <- any_valid_type c v fs;
        if anyv then Ok (true, [])
        else if existsb (ostr_eqb (Some (cs "TM"))) fs then Ok (false, [mk_ev r "9" m9 v9])
        else if existsb is_date_type fs then Ok (false, [mk_ev r "8" m8 v8])
        else Ok (false, [])
    end = Ok tl /\
    codes_of (snd tl) = (match qualified_code (x_charset c) fs v with Some q => [q] | None => [] end) /\
    forallb is_err (snd tl) = true /\
    (fst tl = true -> snd tl = []) /\
    (formats_datetime fs -> fst tl = isnil (snd tl)).
Proof.
  intros H. destruct fs as [|f fs'].
  - eexists; split; [reflexivity|]. cbn. auto.
  - rewrite (any_valid_ok c v _ H). cbn [bind]. unfold qualified_code.
    destruct (existsb (fun t => of_type (x_charset c) (cs "00401") t v) (f :: fs')).
    { eexists; split; [reflexivity|]. cbn. auto. }
    destruct (existsb (ostr_eqb (Some (cs "TM"))) (f :: fs')) eqn:E9.
    { eexists; split; [reflexivity|]. cbn. repeat split; auto; discriminate. }
    change (existsb (fun t => match t with Some x => mem_str x [cs "RD8"; cs "DT"; cs "D8"; cs "D6"] | None => false end) (f :: fs'))
      with (existsb is_date_type (f :: fs')).
    destruct (existsb is_date_type (f :: fs')) eqn:E8.
    { eexists; split; [reflexivity|]. cbn. repeat split; auto; discriminate. }
    eexists; split; [reflexivity|]. cbn [fst snd]. repeat split; auto; try discriminate.
    intros Hf. apply formats_datetime_b in Hf. cbn [forallb] in Hf. apply andb_true_iff in Hf as [Hf _].
    rewrite dt_split in Hf. cbn [existsb] in E9, E8.
    apply orb_false_iff in E9 as [E9 _]. apply orb_false_iff in E8 as [E8 _]. rewrite E9, E8 in Hf. discriminate.
Qed.

Definition spec_codes (charset icvn : str) (d : edef) (fs : list (option str)) (s : str) : list str :=
  (if (x12_len (d_type d) s <? d_min d)%Z then [cs "4"] else []) ++
  (if (d_max d <? x12_len (d_type d) s)%Z then [cs "5"] else []) ++
  (if needless_trailing_blank d s then [cs "6"] else []) ++
  (if in_code_lists d s then [] else [cs "7"]) ++
  (if of_type charset icvn (d_type d) s then [] else [type_code (d_type d)]) ++
  (match qualified_code charset fs s with Some q => [q] | None => [] end) ++
  (if matches_pattern d s then [] else [cs "7"]).

Lemma main_case sub c e de pc v fs :
  wf_def c e de -> v <> [] -> C15_spec.usage_is (e_usage e) "N" = false ->
  contains_control_character v = None ->
  match elem_is_valid sub c e pc (Some [v]) fs with
  | Ok (b, evs) =>
      codes_of evs = spec_codes (x_charset c) (icvn_of c) (def_of c e de pc) fs v /\
      (formats_datetime fs -> b = isnil (codes_of evs))
  | Raise _ => False
  end.
Proof.
  intros Hwf Hv HN Hctl. pose proof Hwf as (Hde & Hu & Hty & Hext & Hcs).
  destruct (last_char_ok v Hv) as (lc & lr & Hlc & Hrev).
  destruct v as [|a x]; [congruence|].
  unfold elem_is_valid. cbn [ed_value].
  change (MapTree.usage_is (e_usage e) "N") with (C15_spec.usage_is (e_usage e) "N"). rewrite HN.
  cbn [andb]. rewrite Hde. cbn [bind].
  change Element.l with cs.
  match goal with |- context [@bind bool _ ?X _] =>
    replace X with (Ok (is_numeric_type (de_type de))) by (symmetry; apply numeric_ok; exact Hty) end.
  cbn [bind].
  rewrite Hctl, Hlc. cbn [bind].
  rewrite (valid_code_ok c e de pc _ Hwf). cbn [bind].
  rewrite (valid_type_ok c _ _ true Hcs). cbn [bind].
  rewrite !measured_same.
  edestruct (tl_ok c (a :: x) fs) as (tl & Htl & Htl1 & Htl2 & Htl3 & Htl4); [exact Hcs|].
  rewrite Htl. cbn [bind].
  match goal with |- context [ [HAddEle ?i] ++ ?E4 ++ ?E5 ++ ?E6 ++ ?E7 ++ ?ET ++ snd tl ++ ?ER ] =>
    set (e4 := E4); set (e5 := E5); set (e6 := E6); set (e7 := E7); set (eT := ET); set (eR := ER); set (inf := i) end.
  assert (H4 : codes_of e4 = (if (x12_len (de_type de) (a :: x) <? de_min de)%Z then [cs "4"] else []) /\ forallb is_err e4 = true)
    by (subst e4; destruct (x12_len (de_type de) (a :: x) <? de_min de)%Z; split; reflexivity).
  assert (H5 : codes_of e5 = (if (de_max de <? x12_len (de_type de) (a :: x))%Z then [cs "5"] else []) /\ forallb is_err e5 = true)
    by (subst e5; destruct (de_max de <? x12_len (de_type de) (a :: x))%Z; split; reflexivity).
  assert (H6 : codes_of e6 = (if needless_trailing_blank (def_of c e de pc) (a :: x) then [cs "6"] else []) /\ forallb is_err e6 = true).
  { subst e6. unfold needless_trailing_blank. rewrite Hrev. unfold is_text_type, def_of. cbn [d_type d_min].
    destruct (_ && _ && _); split; reflexivity. }
  assert (H7 : codes_of e7 = (if in_code_lists (def_of c e de pc) (a :: x) then [] else [cs "7"]) /\ forallb is_err e7 = true)
    by (subst e7; destruct (in_code_lists _ _); split; reflexivity).
  assert (HT : codes_of eT = (if of_type (x_charset c) (icvn_of c) (de_type de) (a :: x) then [] else [type_code (de_type de)]) /\ forallb is_err eT = true)
    by (subst eT; apply type_ev_ok).
  assert (HR : codes_of eR = (if matches_pattern (def_of c e de pc) (a :: x) then [] else [cs "7"]) /\ forallb is_err eR = true).
  { subst eR. unfold matches_pattern, def_of. cbn [d_regex]. destruct (e_rec e) as [r|]; [|split; reflexivity].
    destruct (search r (a :: x)); split; reflexivity. }
  destruct H4 as [H4 G4], H5 as [H5 G5], H6 as [H6 G6], H7 as [H7 G7], HT as [HT GT], HR as [HR GR].
  split.
  - rewrite !codes_of_app, H4, H5, H6, H7, HT, HR, Htl1. reflexivity.
  - intros Hf.
    change (match e4 ++ e5 with [] => true | _ :: _ => false end) with (isnil (e4 ++ e5)).
    change (match e6 ++ e7 ++ eT ++ eR with [] => true | _ :: _ => false end) with (isnil (e6 ++ e7 ++ eT ++ eR)).
    rewrite (Htl4 Hf). rewrite !codes_of_app, !isnil_app.
    rewrite (isnil_codes e4 G4), (isnil_codes e5 G5), (isnil_codes e6 G6), (isnil_codes e7 G7),
            (isnil_codes eT GT), (isnil_codes eR GR), (isnil_codes _ Htl2).
    change (isnil (codes_of [HAddEle inf])) with true.
    destruct (isnil e4), (isnil e5), (isnil e6), (isnil e7), (isnil eT), (isnil eR), (isnil (snd tl)); reflexivity.
Qed.

Lemma ctl_case sub c e de pc v fs bad :
  wf_def c e de -> v <> [] -> C15_spec.usage_is (e_usage e) "N" = false ->
  contains_control_character v = Some bad ->
  match elem_is_valid sub c e pc (Some [v]) fs with
  | Ok (b, evs) =>
      b = false /\
      codes_of evs = (if (x12_len (de_type de) v <? de_min de)%Z then [cs "4"] else []) ++
                     (if (de_max de <? x12_len (de_type de) v)%Z then [cs "5"] else []) ++ [cs "6"]
  | Raise _ => False
  end.
Proof.
  intros Hwf Hv HN Hctl. pose proof Hwf as (Hde & Hu & Hty & Hext & Hcs).
  destruct v as [|a x]; [congruence|].
  unfold elem_is_valid. cbn [ed_value].
  change (MapTree.usage_is (e_usage e) "N") with (C15_spec.usage_is (e_usage e) "N"). rewrite HN.
  cbn [andb]. rewrite Hde. cbn [bind].
  change Element.l with cs.
  match goal with |- context [@bind bool _ ?X _] =>
    replace X with (Ok (is_numeric_type (de_type de))) by (symmetry; apply numeric_ok; exact Hty) end.
  cbn [bind].
  rewrite Hctl. rewrite !measured_same.
  split; [reflexivity|].
  rewrite !codes_of_app, !codes_of_if. reflexivity.
Qed.

Lemma notused_case sub c e pc v fs :
  v <> [] -> C15_spec.usage_is (e_usage e) "N" = true ->
  match elem_is_valid sub c e pc (Some [v]) fs with
  | Ok (b, evs) => b = false /\ codes_of evs = [cs "10"]
  | Raise _ => False
  end.
Proof.
  intros Hv HN. destruct v as [|a x]; [congruence|].
  unfold elem_is_valid. cbn [ed_value].
  change (MapTree.usage_is (e_usage e) "N") with (C15_spec.usage_is (e_usage e) "N"). rewrite HN.
  cbn [andb negb]. split; reflexivity.
Qed.

Lemma usage_excl u a b : C15_spec.usage_is u a = true -> String.eqb a b = false -> C15_spec.usage_is u b = false.
Proof.
  unfold C15_spec.usage_is. intros H1 H2. apply ostr_eqb_eq in H1. subst u. cbn [ostr_eqb opt_eqb].
  apply str_eqb_neq. intros E. unfold cs in E.
  assert (a = b).
  { rewrite <- (string_of_list_ascii_of_string a), <- (string_of_list_ascii_of_string b), E. reflexivity. }
  subst. rewrite String.eqb_refl in H2. discriminate.
Qed.

Definition missing_b (e : elem) (pc : option (option str * Z)) : bool :=
  C15_spec.usage_is (e_usage e) "R".

Lemma empty_case sub c e de pc d fs :
  wf_def c e de -> d = None \/ d = Some [[]] ->
  match elem_is_valid sub c e pc d fs with
  | Ok (b, evs) => b = negb (missing_b e pc) /\ codes_of evs = if missing_b e pc then [cs "1"] else []
  | Raise _ => False
  end.
Proof.
  intros (_ & Hu & _) Hd. unfold missing_b.
  destruct Hd; subst d; unfold elem_is_valid; cbn [ed_value];
  change MapTree.usage_is with C15_spec.usage_is;
  destruct Hu as [Hu|[Hu|Hu]].
  all: try (rewrite (usage_excl _ "R" "N" Hu eq_refl), (usage_excl _ "R" "S" Hu eq_refl), Hu; cbn [orb andb negb];
    split; reflexivity).
  all: try (rewrite Hu, (usage_excl _ "S" "R" Hu eq_refl), orb_true_r; split; reflexivity).
  all: rewrite Hu, (usage_excl _ "N" "R" Hu eq_refl); split; reflexivity.
Qed.

Lemma in_if code (b : bool) k : In code (if b then [k] else []) <-> str_eqb code k && b = true.
Proof.
  destruct b; cbn [In]; rewrite ?andb_true_r, ?andb_false_r.
  - rewrite str_eqb_eq. intuition congruence.
  - intuition discriminate.
Qed.

Lemma in_ifn code (b : bool) k : In code (if b then [] else [k]) <-> str_eqb code k && negb b = true.
Proof. rewrite <- in_if. destruct b; reflexivity. Qed.

Lemma in_opt code (o : option str) :
  In code (match o with Some q => [q] | None => [] end) <-> match o with Some q => str_eqb code q | None => false end = true.
Proof.
  destruct o as [q|]; cbn [In].
  - rewrite str_eqb_eq. intuition congruence.
  - intuition discriminate.
Qed.

Lemma spec_codes_in ch iv d fs a x code :
  C15_spec.usage_is (d_usage d) "N" = false -> has_control_char (a :: x) = false ->
  In code (spec_codes ch iv d fs (a :: x)) <-> implies ch iv d fs (Some (a :: x)) code = true.
Proof.
  intros HN Hc. unfold implies, spec_codes. cbv zeta. cbv iota. rewrite HN, Hc, andb_false_r, orb_false_r.
  rewrite !in_app_iff, !in_if, !in_ifn, in_opt, !orb_true_iff. tauto.
Qed.

Lemma ctl_codes_in d v code :
  In code ((if (x12_len (d_type d) v <? d_min d)%Z then [cs "4"] else []) ++
           (if (d_max d <? x12_len (d_type d) v)%Z then [cs "5"] else []) ++ [cs "6"]) <->
  implies_with_control_char d v code = true.
Proof.
  unfold implies_with_control_char. rewrite !in_app_iff, !in_if, !orb_true_iff. cbn [In].
  rewrite str_eqb_eq. intuition congruence.
Qed.

Lemma implies_ctl ch iv d fs a x code :
  C15_spec.usage_is (d_usage d) "N" = false -> has_control_char (a :: x) = true ->
  implies_with_control_char d (a :: x) code = true -> implies ch iv d fs (Some (a :: x)) code = true.
Proof.
  intros HN Hc. unfold implies, implies_with_control_char. cbv zeta. cbv iota. rewrite HN, Hc, andb_true_r.
  rewrite !orb_true_iff. tauto.
Qed.

Lemma has_ctl_nonempty x : has_control_char x = true -> x <> [].
Proof. intros H E. subst. unfold has_control_char in H. rewrite no_ctl_nil in H. discriminate. Qed.

Lemma implies_absent ch iv c e de pc fs v code :
  v = None \/ v = Some [] ->
  implies ch iv (def_of c e de pc) fs v code = str_eqb code (cs "1") && missing_b e pc.
Proof.
  intros [H|H]; subst v; unfold implies, missing_b, def_of; cbn [d_usage];
  reflexivity.
Qed.

(* the four situations of a call *)
Inductive situation (c : ectx) (e : elem) (de : dataele) (pc : option (option str * Z)) (fs : list (option str))
          (v : option str) (b : bool) (evs : list hev) : Prop :=
| SitAbsent : v = None \/ v = Some [] -> b = negb (missing_b e pc) ->
    codes_of evs = (if missing_b e pc then [cs "1"] else []) -> situation c e de pc fs v b evs
| SitNotUsed a x : v = Some (a :: x) -> C15_spec.usage_is (e_usage e) "N" = true -> b = false ->
    codes_of evs = [cs "10"] -> situation c e de pc fs v b evs
| SitCtl a x : v = Some (a :: x) -> C15_spec.usage_is (e_usage e) "N" = false -> has_control_char (a :: x) = true ->
    b = false ->
    codes_of evs = (if (x12_len (de_type de) (a :: x) <? de_min de)%Z then [cs "4"] else []) ++
                   (if (de_max de <? x12_len (de_type de) (a :: x))%Z then [cs "5"] else []) ++ [cs "6"] ->
    situation c e de pc fs v b evs
| SitMain a x : v = Some (a :: x) -> C15_spec.usage_is (e_usage e) "N" = false -> has_control_char (a :: x) = false ->
    codes_of evs = spec_codes (x_charset c) (icvn_of c) (def_of c e de pc) fs (a :: x) ->
    (formats_datetime fs -> b = isnil (codes_of evs)) ->
    situation c e de pc fs v b evs.

Lemma situations sub c e de pc v fs :
  wf_def c e de ->
  exists b evs, elem_is_valid sub c e pc (edata_of v) fs = Ok (b, evs) /\ situation c e de pc fs v b evs.
Proof.
  intros Hwf.
  assert (Habs : v = None \/ v = Some [] -> exists b evs, elem_is_valid sub c e pc (edata_of v) fs = Ok (b, evs) /\ situation c e de pc fs v b evs).
  { intros Hv. assert (Hd : edata_of v = None \/ edata_of v = Some [[]]) by (destruct Hv; subst; auto).
    pose proof (empty_case sub c e de pc (edata_of v) fs Hwf Hd) as H.
    destruct (elem_is_valid sub c e pc (edata_of v) fs) as [[b evs]|]; [|contradiction].
    destruct H as [H1 H2].
    exists b, evs. split; [reflexivity|]. apply SitAbsent; assumption. }
  destruct v as [[|a x]|]; [apply Habs; auto| |apply Habs; auto]. clear Habs.
  cbn [edata_of]. assert (Hv : a :: x <> []) by discriminate.
  destruct (C15_spec.usage_is (e_usage e) "N") eqn:HN.
  { pose proof (notused_case sub c e pc (a :: x) fs Hv HN) as H.
    destruct (elem_is_valid sub c e pc (Some [a :: x]) fs) as [[b evs]|] eqn:E; [|contradiction].
    destruct H as [H1 H2]. exists b, evs. split; [exact E|]. eapply SitNotUsed; eauto. }
  destruct (contains_control_character (a :: x)) as [bad|] eqn:Hc.
  { pose proof (ctl_case sub c e de pc (a :: x) fs bad Hwf Hv HN Hc) as H.
    destruct (elem_is_valid sub c e pc (Some [a :: x]) fs) as [[b evs]|] eqn:E; [|contradiction].
    destruct H as [H1 H2]. exists b, evs. split; [exact E|]. eapply SitCtl; eauto.
    unfold has_control_char. rewrite Hc. reflexivity. }
  pose proof (main_case sub c e de pc (a :: x) fs Hwf Hv HN Hc) as H.
  destruct (elem_is_valid sub c e pc (Some [a :: x]) fs) as [[b evs]|] eqn:E; [|contradiction].
  destruct H as [H1 H2]. exists b, evs. split; [exact E|]. eapply SitMain; eauto.
  unfold has_control_char. rewrite Hc. reflexivity.
Qed.

Lemma situation_of sub c e de pc v fs b evs :
  wf_def c e de -> elem_is_valid sub c e pc (edata_of v) fs = Ok (b, evs) -> situation c e de pc fs v b evs.
Proof.
  intros Hwf H. destruct (situations sub c e de pc v fs Hwf) as (b' & evs' & H' & S).
  rewrite H in H'. injection H' as -> ->. exact S.
Qed.

(* GOAL E1: never raises on a well-formed definition *)
Theorem elem_total sub c e de pc v fs :
  wf_def c e de -> exists b evs, elem_is_valid sub c e pc (edata_of v) fs = Ok (b, evs).
Proof.
  intros Hwf. destruct (situations sub c e de pc v fs Hwf) as (b & evs & H & _). eauto.
Qed.

(* GOAL E2: without a control character the reported codes are exactly the implied ones *)
Theorem elem_exact sub c e de pc v fs b evs :
  wf_def c e de -> formats_datetime fs ->
  has_control_char (match v with Some x => x | None => [] end) = false ->
  elem_is_valid sub c e pc (edata_of v) fs = Ok (b, evs) ->
  forall code, In code (codes_of evs) <-> implies (x_charset c) (icvn_of c) (def_of c e de pc) fs v code = true.
Proof.
  intros Hwf Hf Hnc H code. pose proof (situation_of _ _ _ _ _ _ _ _ _ Hwf H) as S.
  destruct S as [Hv Hb Hc | a x Hv HN Hb Hc | a x Hv HN Hctl Hb Hc | a x Hv HN Hctl Hc Hb].
  - rewrite (implies_absent _ _ _ _ _ _ _ _ _ Hv), Hc. apply in_if.
  - subst v. rewrite Hc. unfold implies, def_of. cbn [d_usage]. cbv zeta. cbv iota. rewrite HN.
    cbn [In]. rewrite str_eqb_eq. intuition congruence.
  - subst v. congruence.
  - subst v. rewrite Hc. apply spec_codes_in; assumption.
Qed.

(* GOAL E3: always sound: every reported code is implied *)
Theorem elem_sound sub c e de pc v fs b evs :
  wf_def c e de -> formats_datetime fs ->
  elem_is_valid sub c e pc (edata_of v) fs = Ok (b, evs) ->
  forall code, In code (codes_of evs) -> implies (x_charset c) (icvn_of c) (def_of c e de pc) fs v code = true.
Proof.
  intros Hwf Hf H code. pose proof (situation_of _ _ _ _ _ _ _ _ _ Hwf H) as S.
  destruct S as [Hv Hb Hc | a x Hv HN Hb Hc | a x Hv HN Hctl Hb Hc | a x Hv HN Hctl Hc Hb].
  - rewrite (implies_absent _ _ _ _ _ _ _ _ _ Hv), Hc. apply in_if.
  - subst v. rewrite Hc. unfold implies, def_of. cbn [d_usage]. cbv zeta. cbv iota. rewrite HN.
    cbn [In]. rewrite str_eqb_eq. intuition congruence.
  - subst v. rewrite Hc. intros Hin. apply implies_ctl; [exact HN|exact Hctl|].
    apply (ctl_codes_in (def_of c e de pc)). exact Hin.
  - subst v. rewrite Hc. apply spec_codes_in; assumption.
Qed.

(* GOAL E4: with a control character (value present, element used): length codes and 6, nothing else *)
Theorem elem_control_char sub c e de pc x fs b evs :
  wf_def c e de -> has_control_char x = true -> C15_spec.usage_is (e_usage e) "N" = false ->
  elem_is_valid sub c e pc (Some [x]) fs = Ok (b, evs) ->
  b = false /\ forall code, In code (codes_of evs) <-> implies_with_control_char (def_of c e de pc) x code = true.
Proof.
  intros Hwf Hctl HN H.
  pose proof (situation_of sub c e de pc (Some x) fs b evs Hwf H) as S.
  pose proof (has_ctl_nonempty x Hctl) as Hx.
  destruct S as [Hv Hb Hc | a y Hv HN' Hb Hc | a y Hv HN' Hctl' Hb Hc | a y Hv HN' Hctl' Hc Hb].
  - destruct Hv as [Hv|Hv]; congruence.
  - congruence.
  - injection Hv as ->. split; [exact Hb|]. intros code. rewrite Hc. apply (ctl_codes_in (def_of c e de pc)).
  - injection Hv as ->. congruence.
Qed.

(* GOAL E5: the boolean is false exactly when an error was reported *)
Theorem elem_bool sub c e de pc v fs b evs :
  wf_def c e de -> formats_datetime fs ->
  elem_is_valid sub c e pc (edata_of v) fs = Ok (b, evs) ->
  (b = false <-> codes_of evs <> []).
Proof.
  intros Hwf Hf H. pose proof (situation_of _ _ _ _ _ _ _ _ _ Hwf H) as S.
  destruct S as [Hv Hb Hc | a x Hv HN Hb Hc | a x Hv HN Hctl Hb Hc | a x Hv HN Hctl Hc Hb].
  - rewrite Hb, Hc. destruct (missing_b e pc); cbn; split; congruence.
  - rewrite Hb, Hc. split; congruence.
  - rewrite Hb, Hc. split; [|reflexivity]. intros _ E. apply app_eq_nil in E as [_ E]. apply app_eq_nil in E as [_ E]. discriminate.
  - rewrite (Hb Hf). destruct (codes_of evs); cbn; split; congruence.
Qed.

Print Assumptions elem_total.
Print Assumptions elem_exact.
Print Assumptions elem_sound.
Print Assumptions elem_control_char.
Print Assumptions elem_bool.
