(* NV_C14.v — non-vacuity of the hypotheses of the theorems of Props/C14.v.
   Existing example: C14_syntax.ex_syntax (seg_wf of a parsed segment, one
   violated and one satisfied note).  The examples below state ALL hypotheses
   (note letter, arity, index range, seg_wf) and cover the five letters, arity
   three, a composite that is all-empty, and positions beyond the segment. *)
From Coq Require Import String.
From PX.Lib Require Import Base.
From PX.Model Require Import Segment Syntax.
From PX.Spec Require Import C14_spec.
From PX.Proofs Require Import C14_syntax.

Definition nv_d : delims := {| seg_term := "~"%char; ele_term := "*"%char; subele_term := ":"%char |}.

(* 8 elements: 1 "A1", 2 empty, 3 composite ":B:", 4 "100", 5 an all-empty
   composite "::", 6 empty, 7 composite "11:B:1", 8 "Y" *)
Definition nv_sg : seg := parse_seg nv_d (list_ascii_of_string "CLM*A1**:B:*100*::**11:B:1*Y").

Lemma nv_idxs l : forallb (fun i => (1 <=? i)%N && (i <=? 99)%N) l = true -> Forall idx_ok l.
Proof.
  intros H. apply Forall_forall. intros i Hi. rewrite forallb_forall in H. specialize (H i Hi).
  apply andb_true_iff in H as [H1 H2]. apply N.leb_le in H1. apply N.leb_le in H2. split; assumption.
Qed.

Lemma nv_le a b : (a <=? b) = true -> a <= b.
Proof. apply Nat.leb_le. Qed.

(* the four hypotheses for one note *)
Definition nv_hyps (sg : seg) (code : ascii) (idxs : list N) : Prop :=
  note_letter code = true /\ 2 <= length idxs /\ Forall idx_ok idxs /\ seg_wf sg.

Lemma nv_hyps_intro sg code idxs :
  note_letter code = true -> (2 <=? length idxs) = true ->
  forallb (fun i => (1 <=? i)%N && (i <=? 99)%N) idxs = true -> seg_wf sg -> nv_hyps sg code idxs.
Proof. intros A B C0 D. repeat split; [exact A | apply nv_le; exact B | apply nv_idxs; exact C0 | exact D]. Qed.

Ltac hyps := apply nv_hyps_intro; [reflexivity | reflexivity | reflexivity | apply parse_seg_wf].

(* C14_syntax_exact: every letter, violated and satisfied, arities 2 and 3,
   the all-empty composite (5) and positions beyond the end (9, 12, 99) *)
Example nv_C14_syntax_exact :
  present_spec nv_sg 3 = true /\ present_spec nv_sg 5 = false /\ present_spec nv_sg 9 = false /\
  (nv_hyps nv_sg "P" [1; 4; 7]%N /\ is_syntax_valid nv_d nv_sg "P" [1; 4; 7]%N = Ok true /\ violated "P" (map (present_spec nv_sg) [1; 4; 7]%N) = false) /\
  (nv_hyps nv_sg "P" [4; 5]%N /\ is_syntax_valid nv_d nv_sg "P" [4; 5]%N = Ok false /\ violated "P" (map (present_spec nv_sg) [4; 5]%N) = true) /\
  (nv_hyps nv_sg "R" [2; 6; 12]%N /\ is_syntax_valid nv_d nv_sg "R" [2; 6; 12]%N = Ok false /\ violated "R" (map (present_spec nv_sg) [2; 6; 12]%N) = true) /\
  (nv_hyps nv_sg "R" [2; 3]%N /\ is_syntax_valid nv_d nv_sg "R" [2; 3]%N = Ok true /\ violated "R" (map (present_spec nv_sg) [2; 3]%N) = false) /\
  (nv_hyps nv_sg "E" [1; 2; 8]%N /\ is_syntax_valid nv_d nv_sg "E" [1; 2; 8]%N = Ok false /\ violated "E" (map (present_spec nv_sg) [1; 2; 8]%N) = true) /\
  (nv_hyps nv_sg "E" [5; 8; 99]%N /\ is_syntax_valid nv_d nv_sg "E" [5; 8; 99]%N = Ok true /\ violated "E" (map (present_spec nv_sg) [5; 8; 99]%N) = false) /\
  (nv_hyps nv_sg "C" [7; 8; 9]%N /\ is_syntax_valid nv_d nv_sg "C" [7; 8; 9]%N = Ok false /\ violated "C" (map (present_spec nv_sg) [7; 8; 9]%N) = true) /\
  (nv_hyps nv_sg "C" [6; 9]%N /\ is_syntax_valid nv_d nv_sg "C" [6; 9]%N = Ok true /\ violated "C" (map (present_spec nv_sg) [6; 9]%N) = false) /\
  (nv_hyps nv_sg "L" [3; 2; 5; 6]%N /\ is_syntax_valid nv_d nv_sg "L" [3; 2; 5; 6]%N = Ok false /\ violated "L" (map (present_spec nv_sg) [3; 2; 5; 6]%N) = true) /\
  (nv_hyps nv_sg "L" [3; 2; 8]%N /\ is_syntax_valid nv_d nv_sg "L" [3; 2; 8]%N = Ok true /\ violated "L" (map (present_spec nv_sg) [3; 2; 8]%N) = false).
Proof.
  split; [vm_compute; reflexivity|]. split; [vm_compute; reflexivity|]. split; [vm_compute; reflexivity|].
  repeat (split; [split; [hyps | vm_compute; split; reflexivity]|]).
  split; [hyps | vm_compute; split; reflexivity].
Qed.

(* C14_syntax_routing: a list of six well-formed notes of which three are violated *)
Definition nv_notes : list (ascii * list N) :=
  [("P"%char, [4; 5]%N); ("R"%char, [2; 3]%N); ("E"%char, [1; 2; 8]%N);
   ("C"%char, [6; 9]%N); ("L"%char, [3; 2; 5; 6]%N); ("E"%char, [5; 8; 99]%N)].

Example nv_C14_syntax_routing :
  Forall note_ok nv_notes /\ seg_wf nv_sg /\
  syntax_loop nv_d nv_sg nv_notes = Ok [list_ascii_of_string "2"; list_ascii_of_string "10"; list_ascii_of_string "2"] /\
  syntax_loop nv_d nv_sg nv_notes = Ok (map (fun n => note_code (fst n)) (filter (note_violated nv_sg) nv_notes)).
Proof.
  split.
  - repeat (constructor; [split; [reflexivity | split; [apply nv_le; reflexivity | apply nv_idxs; reflexivity]]|]).
    constructor.
  - split; [apply parse_seg_wf|]. vm_compute. split; reflexivity.
Qed.

(* C14_parsed_segments_wf has no hypothesis. *)
