(* C12_layers.v — the layers that consume parsed segments do not depend on the delimiters they carry
   (definitions: Spec/C12b_spec.v):
     1. segment validation   validation_delims_irrelevant
     2. segment matching     matching_delims_irrelevant
     3. the map walker       walker_delims_irrelevant
   with, for every hypothesis, the smallest data that shows it cannot be dropped. *)
From Coq Require Import String Lia.
From PX.Lib Require Import Base PyStr PyInt Regex Xml.
From PX.Model Require Import Path Segment Syntax Validation MapLoad MapTree Element Counter Walker.
From PX.Spec Require Import C12b_spec.
From PX.Proofs Require Import C07_valid.
From PX.Proofs Require C0203_segment.

Local Definition l (x : string) : str := list_ascii_of_string x.

(* ================================================================== *)
(* 0. formatting                                                       *)

Lemma format_single_valued s1 s2 c : single_valued c = true -> format_comp s1 c = format_comp s2 c.
Proof.
  unfold single_valued, format_comp. intros H. apply Nat.eqb_eq in H. rewrite H.
  destruct c as [|x r]; reflexivity.
Qed.

Lemma single_valued_short c : length c <= 1 -> single_valued c = true.
Proof. destruct c as [|x [|y r]]; cbn [length]; intros H; [reflexivity | reflexivity | lia]. Qed.

Lemma last_nonempty_idx_lt {A} (emp : A -> bool) xs : xs <> [] -> last_nonempty_idx emp xs < length xs.
Proof.
  induction xs as [|x r IH]; [congruence|]. intros _. cbn [last_nonempty_idx length].
  destruct (forallb emp r) eqn:E; [lia|].
  destruct r as [|y r']; [discriminate E|]. specialize (IH ltac:(discriminate)). lia.
Qed.

(* ... and single_valued is exactly that: otherwise the text shows which separator was used *)
Lemma format_depends_on_separator s1 s2 c :
  single_valued c = false -> s1 <> s2 -> format_comp s1 c <> format_comp s2 c.
Proof.
  unfold single_valued, format_comp. intros H Hs. apply Nat.eqb_neq in H.
  destruct c as [|x r]; [exfalso; apply H; reflexivity|].
  pose proof (last_nonempty_idx_lt ele_empty (x :: r) ltac:(discriminate)) as L.
  destruct (last_nonempty_idx ele_empty (x :: r)) as [|k]; [congruence|].
  destruct r as [|y r']; [cbn [length] in L; lia|].
  cbn [firstn]. change (join s1 (x :: y :: firstn k r')) with (x ++ s1 :: join s1 (y :: firstn k r')).
  change (join s2 (x :: y :: firstn k r')) with (x ++ s2 :: join s2 (y :: firstn k r')).
  intros E. apply app_inv_head in E. congruence.
Qed.

Lemma seg_val_free d1 d2 sg k : ele_free sg k = true -> seg_val d1 sg (S k) = seg_val d2 sg (S k).
Proof.
  unfold ele_free, seg_val. intros H.
  destruct (Nat.leb_spec (length (els sg)) k) as [L|L]; [reflexivity|].
  destruct (nth_error (els sg) k) as [c|] eqn:E.
  - rewrite (nth_error_nth _ _ _ E). f_equal. apply format_single_valued, H.
  - apply nth_error_None in E. lia.
Qed.

(* ================================================================== *)
(* 1. validation                                                       *)

Lemma elem_sub_irrelevant s1 s2 c e pc (d : option (list str)) tl :
  match d with Some v => single_valued v = true | None => True end ->
  elem_is_valid s1 c e pc d tl = elem_is_valid s2 c e pc d tl.
Proof.
  intros H. unfold elem_is_valid.
  destruct d as [[|a [|b r]]|]; try reflexivity.
  rewrite (format_single_valued s1 s2 _ H). reflexivity.
Qed.

Lemma comp_sub_irrelevant s1 s2 c cn d : comp_is_valid s1 c cn d = comp_is_valid s2 c cn d.
Proof.
  unfold comp_is_valid.
  destruct (_ && _); [reflexivity|].
  destruct (_ && _); [reflexivity|].
  destruct d as [dd|]; [|reflexivity].
  destruct (_ && _); [reflexivity|].
  match goal with |- _ 0 _ dd ?b ?a = _ => generalize b; generalize a end.
  generalize 0.
  generalize dd. clear dd.
  induction (c_children cn) as [|k kids IH]; intros vals i acc valid; [reflexivity|].
  destruct vals as [|v r].
  - rewrite (elem_sub_irrelevant s1 s2 c k (Some (c_usage cn, c_seq cn)) None [] I).
    destruct (elem_is_valid s2 c k _ _ _) as [res|ex]; [cbn [bind]; apply IH | reflexivity].
  - rewrite (elem_sub_irrelevant s1 s2 c k (Some (c_usage cn, c_seq cn)) (Some [v]) [] eq_refl).
    destruct (elem_is_valid s2 c k _ _ _) as [res|ex]; [cbn [bind]; apply IH | reflexivity].
Qed.

(* ---- the syntax notes only ask whether a value is empty ---- *)
Lemma value_nonempty_irrelevant d1 d2 g :
  match value_of d1 g with Some [] => false | _ => true end =
  match value_of d2 g with Some [] => false | _ => true end.
Proof.
  destruct g as [|c|v]; cbn [value_of]; [reflexivity| |reflexivity].
  pose proof (C0203_segment.format_comp_empty_all (subele_term d1) c) as E1.
  pose proof (C0203_segment.format_comp_empty_all (subele_term d2) c) as E2.
  destruct (format_comp (subele_term d1) c), (format_comp (subele_term d2) c); congruence.
Qed.

Lemma present_irrelevant d1 d2 sg i : present d1 sg i = present d2 sg i.
Proof.
  unfold present, seg_get_value. destruct (seg_get sg (fmt_02 i)) as [g|e]; [|reflexivity].
  cbn [bind]. rewrite (value_nonempty_irrelevant d1 d2 g). reflexivity.
Qed.

Lemma first_present_irrelevant d1 d2 sg i : first_present d1 sg i = first_present d2 sg i.
Proof.
  unfold first_present, seg_get_value. destruct (_ <=? _)%N; [|reflexivity].
  destruct (seg_get sg (fmt_02 i)) as [g|e]; [|reflexivity].
  cbn [bind]. rewrite (value_nonempty_irrelevant d1 d2 g). reflexivity.
Qed.

Lemma count_present_irrelevant d1 d2 sg idxs : count_present d1 sg idxs = count_present d2 sg idxs.
Proof.
  induction idxs as [|i r IH]; [reflexivity|]. cbn [count_present].
  rewrite (present_irrelevant d1 d2), IH. reflexivity.
Qed.

Lemma is_syntax_valid_irrelevant d1 d2 sg code idxs : is_syntax_valid d1 sg code idxs = is_syntax_valid d2 sg code idxs.
Proof.
  unfold is_syntax_valid.
  destruct idxs as [|i0 rest]; [reflexivity|].
  rewrite !(count_present_irrelevant d1 d2), (first_present_irrelevant d1 d2). reflexivity.
Qed.

Lemma syntax_loop_irrelevant d1 d2 sg notes : syntax_loop d1 sg notes = syntax_loop d2 sg notes.
Proof.
  induction notes as [|[code idxs] r IH]; [reflexivity|]. cbn [syntax_loop].
  rewrite (is_syntax_valid_irrelevant d1 d2), IH. reflexivity.
Qed.

(* ---- the elements the data does not have ---- *)
Lemma missing_irrelevant d1 d2 c sn sg : forall fuel j valid acc,
  seg_missing d1 c sn sg j fuel valid acc = seg_missing d2 c sn sg j fuel valid acc.
Proof.
  induction fuel as [|f IH]; intros j valid acc.
  - rewrite !seg_missing_zero. rewrite (syntax_loop_irrelevant d1 d2). reflexivity.
  - rewrite !seg_missing_step. destruct (child_by_idx sn j) as [ch|e]; [|reflexivity]. cbn [bind].
    assert (E : match ch with
                | SubE e => elem_is_valid (subele_term d1) c e None None []
                | SubC cn => comp_is_valid (subele_term d1) c cn None
                end =
                match ch with
                | SubE e => elem_is_valid (subele_term d2) c e None None []
                | SubC cn => comp_is_valid (subele_term d2) c cn None
                end).
    { destruct ch as [e|cn]; [apply (elem_sub_irrelevant _ _ c e None None []); exact I | apply comp_sub_irrelevant]. }
    rewrite E. destruct (match ch with SubE _ => _ | SubC _ => _ end) as [r|e]; [cbn [bind]; apply IH | reflexivity].
Qed.

Lemma seg_many_irrelevant d1 d2 sn sg :
  ele_free sg (length (s_children sn)) = true -> seg_many d1 sn sg = seg_many d2 sn sg.
Proof. intros H. unfold seg_many. rewrite (seg_val_free d1 d2 sg _ H). reflexivity. Qed.

Lemma dtp_formats_irrelevant d1 d2 sg i dtype :
  (i = 1 -> ele_free sg 1 = true) -> dtp_formats d1 sg i dtype = dtp_formats d2 sg i dtype.
Proof.
  intros H. unfold dtp_formats. destruct (Nat.eqb_spec i 1) as [E|E]; [|reflexivity].
  rewrite (seg_val_free d1 d2 sg 1 (H E)). reflexivity.
Qed.

Definition simple_at (sn : segm) (i : nat) (v : composite) : bool :=
  if length (s_children sn) <=? i then true
  else match child_by_idx sn i with Ok (SubE _) => single_valued v | _ => true end.
Definition overflow_at (sn : segm) (i : nat) (v : composite) : bool :=
  if length (s_children sn) <=? i then true
  else match child_by_idx sn i with
       | Ok (SubC cn) => if (length (c_children cn) <? length v) && negb (usage_is (c_usage cn) "N")
                         then single_valued v else true
       | _ => true
       end.

Lemma present_loop_irrelevant d1 d2 c sn sg : forall vals i dtype tl valid acc,
  skipn i (els sg) = vals ->
  forall_pos (simple_at sn) i vals = true -> forall_pos (overflow_at sn) i vals = true ->
  seg_present d1 c sn sg i vals dtype tl valid acc = seg_present d2 c sn sg i vals dtype tl valid acc.
Proof.
  induction vals as [|v vals IH]; intros i dtype tl valid acc Hv H1 H2.
  - cbn [seg_present]. apply missing_irrelevant.
  - apply C0203_segment.skipn_cons_inv in Hv as [Hv Hn].
    cbn [forall_pos] in H1, H2. apply andb_true_iff in H1 as [A1 H1]. apply andb_true_iff in H2 as [A2 H2].
    rewrite !seg_present_step. unfold simple_at in A1. unfold overflow_at in A2.
    destruct (length (s_children sn) <=? i); [apply IH; assumption|].
    destruct (child_by_idx sn i) as [[e|cn]|ex]; [| |reflexivity]; cbn [bind].
    + assert (F : i = 1 -> ele_free sg 1 = true) by (intros ->; unfold ele_free; rewrite Hn; exact A1).
      rewrite (dtp_formats_irrelevant d1 d2 sg i dtype F).
      rewrite (elem_sub_irrelevant (subele_term d1) (subele_term d2) c e None (Some v) _ A1).
      destruct (elem_is_valid (subele_term d2) c e None (Some v) _) as [r|ex]; [cbn [bind]; apply IH; assumption | reflexivity].
    + rewrite (comp_sub_irrelevant (subele_term d1) (subele_term d2)).
      assert (E : comp_sub_ev d1 sg cn i v = comp_sub_ev d2 sg cn i v).
      { unfold comp_sub_ev. destruct (_ && _); [|reflexivity].
        rewrite (seg_val_free d1 d2 sg i); [reflexivity|]. unfold ele_free. rewrite Hn. exact A2. }
      rewrite E.
      destruct (comp_is_valid (subele_term d2) c cn (Some v)) as [r|ex]; [cbn [bind]; apply IH; assumption | reflexivity].
Qed.

Theorem validation_delims_irrelevant :
  forall d1 d2 c sn sg, simple_positions_ok sn sg = true -> overflow_ok sn sg = true ->
    seg_is_valid d1 c sn sg = seg_is_valid d2 c sn sg.
Proof.
  intros d1 d2 c sn sg H1 H2. unfold overflow_ok in H2. apply andb_true_iff in H2 as [H0 H2].
  rewrite !seg_unfold, (seg_many_irrelevant d1 d2 sn sg H0).
  apply present_loop_irrelevant; [reflexivity | exact H1 | exact H2].
Qed.

(* a condition on the data alone: no element of the segment needs a separator (whatever the node) *)
Lemma forall_pos_all (p : nat -> composite -> bool) vs :
  (forall i v, In v vs -> p i v = true) -> forall i, forall_pos p i vs = true.
Proof.
  induction vs as [|v r IH]; intros H i; [reflexivity|]. cbn [forall_pos].
  rewrite (H i v (or_introl eq_refl)), IH; [reflexivity|]. intros j w Hw. apply H. right. exact Hw.
Qed.

Corollary validation_delims_irrelevant_plain :
  forall d1 d2 c sn sg, forallb single_valued (els sg) = true ->
    seg_is_valid d1 c sn sg = seg_is_valid d2 c sn sg.
Proof.
  intros d1 d2 c sn sg H. rewrite forallb_forall in H.
  apply validation_delims_irrelevant.
  - apply forall_pos_all. intros i v Hv. rewrite (H v Hv).
    destruct (_ <=? _); [reflexivity|]. destruct (child_by_idx sn i) as [[e|cn]|ex]; reflexivity.
  - unfold overflow_ok. apply andb_true_iff. split.
    + unfold ele_free. destruct (nth_error (els sg) _) as [v|] eqn:E; [|reflexivity]. apply H. eapply nth_error_In, E.
    + apply forall_pos_all. intros i v Hv. rewrite (H v Hv).
      destruct (_ <=? _); [reflexivity|]. destruct (child_by_idx sn i) as [[e|cn]|ex]; try reflexivity.
      destruct (_ && _); reflexivity.
Qed.

(* ================================================================== *)
(* 2. matching                                                         *)

Lemma nth_sub_simple n k e : nth_sub n k = Ok (SubE e) -> expects_simple n k = true.
Proof. unfold nth_sub, expects_simple. destruct (nth_error (s_children n) k) as [[e'|c']|]; intros H; inversion H; reflexivity. Qed.

Theorem matching_delims_irrelevant :
  forall d1 d2 de n sg, match_positions_ok n sg = true ->
    seg_is_match d1 de n sg = seg_is_match d2 de n sg.
Proof.
  intros d1 d2 de n sg H. unfold match_positions_ok in H. unfold seg_is_match.
  change (MapTree.l "ENT") with (C12b_spec.l "ENT"). change (MapTree.l "HL") with (C12b_spec.l "HL").
  change (MapTree.l "CTX") with (C12b_spec.l "CTX").
  destruct (negb (ostr_eqb (sid sg) (s_id n))); [reflexivity|]. cbn [orb] in H.
  apply andb_true_iff in H as [H H3]. apply andb_true_iff in H as [H1 H2].
  destruct (nth_sub n 0) as [c0|ex] eqn:E0; [|reflexivity]. cbn [bind].
  assert (V1 : match c0 with SubE _ => seg_val d1 sg 1 = seg_val d2 sg 1 | SubC _ => True end).
  { destruct c0 as [e|c]; [|exact I]. rewrite (nth_sub_simple n 0 e E0) in H1. apply seg_val_free, H1. }
  assert (V2 : forall c1, ostr_eqb (sid sg) (Some (C12b_spec.l "ENT")) = true -> nth_sub n 1 = Ok c1 ->
               match c1 with SubE _ => seg_val d1 sg 2 = seg_val d2 sg 2 | SubC _ => True end).
  { intros [e|c] He E1; [|exact I]. rewrite He, (nth_sub_simple n 1 e E1) in H2. apply seg_val_free, H2. }
  assert (V3 : forall c2, ostr_eqb (sid sg) (Some (C12b_spec.l "HL")) = true -> nth_sub n 2 = Ok c2 ->
               match c2 with SubE _ => seg_val d1 sg 3 = seg_val d2 sg 3 | SubC _ => True end).
  { intros [e|c] He E2; [|exact I]. rewrite He, (nth_sub_simple n 2 e E2) in H3. apply seg_val_free, H3. }
  clear H1 H2 H3.
  assert (B1 : match c0 with
               | SubE e => do t <- elem_type de e;
                           Ok (is_type t "ID" && usage_is (e_usage e) "R" && negb (no_codes e) && negb (in_codes (seg_val d1 sg 1) e))
               | SubC _ => Ok false end =
               match c0 with
               | SubE e => do t <- elem_type de e;
                           Ok (is_type t "ID" && usage_is (e_usage e) "R" && negb (no_codes e) && negb (in_codes (seg_val d2 sg 1) e))
               | SubC _ => Ok false end).
  { destruct c0; [rewrite V1|]; reflexivity. }
  rewrite B1. clear B1 V1.
  destruct (match c0 with SubE _ => _ | SubC _ => _ end) as [[|]|ex]; cbn [bind]; try reflexivity.
  assert (B2 : (if ostr_eqb (sid sg) (Some (C12b_spec.l "ENT")) then
                  do c1 <- nth_sub n 1;
                  match c1 with
                  | SubE e => do t <- elem_type de e; Ok (is_type t "ID" && negb (no_codes e) && negb (in_codes (seg_val d1 sg 2) e))
                  | SubC _ => Ok false end
                else Ok false) =
               (if ostr_eqb (sid sg) (Some (C12b_spec.l "ENT")) then
                  do c1 <- nth_sub n 1;
                  match c1 with
                  | SubE e => do t <- elem_type de e; Ok (is_type t "ID" && negb (no_codes e) && negb (in_codes (seg_val d2 sg 2) e))
                  | SubC _ => Ok false end
                else Ok false)).
  { destruct (ostr_eqb (sid sg) (Some (C12b_spec.l "ENT"))) eqn:He; [|reflexivity].
    destruct (nth_sub n 1) as [c1|ex] eqn:E1; [|reflexivity]. cbn [bind].
    specialize (V2 c1 eq_refl eq_refl). destruct c1; [rewrite V2|]; reflexivity. }
  rewrite B2. clear B2 V2.
  destruct (if ostr_eqb (sid sg) (Some (C12b_spec.l "ENT")) then _ else _) as [[|]|ex]; cbn [bind]; try reflexivity.
  destruct (if ostr_eqb (sid sg) (Some (C12b_spec.l "CTX")) then _ else _) as [[|]|ex]; cbn [bind]; try reflexivity.
  destruct (match c0 with SubE _ => _ | SubC _ => _ end) as [[|]|ex]; cbn [bind]; try reflexivity.
  destruct (ostr_eqb (sid sg) (Some (C12b_spec.l "HL"))) eqn:He; [|reflexivity].
  destruct (nth_sub n 2) as [c2|ex] eqn:E2; [|reflexivity]. cbn [bind].
  specialize (V3 c2 eq_refl eq_refl). destruct c2; [rewrite V3|]; reflexivity.
Qed.

Lemma match_elements_plain_ok n sg : match_elements_plain sg = true -> match_positions_ok n sg = true.
Proof.
  unfold match_elements_plain, match_positions_ok. intros H.
  apply andb_true_iff in H as [H H3]. apply andb_true_iff in H as [H1 H2].
  apply orb_true_iff. right. rewrite H1.
  destruct (ostr_eqb (sid sg) (Some (C12b_spec.l "ENT"))); cbn [implb andb] in *;
  destruct (ostr_eqb (sid sg) (Some (C12b_spec.l "HL"))); cbn [implb andb] in *;
  rewrite ?H2, ?H3; destruct (expects_simple n 0), (expects_simple n 1), (expects_simple n 2); reflexivity.
Qed.

(* ================================================================== *)
(* 3. the walker                                                       *)

(* ---- two runs of a walker computation that stay in step ---- *)
Definition sim (s1 s2 : wst) : Prop :=
  ws s1 = ws s2 /\ map strip_delims (wlog s1) = map strip_delims (wlog s2).

Definition Wsim {A} (m1 m2 : W A) : Prop :=
  forall s1 s2, sim s1 s2 -> sim (fst (m1 s1)) (fst (m2 s2)) /\ snd (m1 s1) = snd (m2 s2).

Lemma Wsim_ret {A} (a : A) : Wsim (w_ret a) (w_ret a).
Proof. intros s1 s2 H. split; [exact H | reflexivity]. Qed.
Lemma Wsim_raise {A} e : Wsim (@w_raise A e) (w_raise e).
Proof. intros s1 s2 H. split; [exact H | reflexivity]. Qed.
Lemma Wsim_lift {A} (r1 r2 : result A) : r1 = r2 -> Wsim (w_lift r1) (w_lift r2).
Proof. intros -> s1 s2 H. split; [exact H | reflexivity]. Qed.
Lemma Wsim_bind {A B} (m1 m2 : W A) (f1 f2 : A -> W B) :
  Wsim m1 m2 -> (forall a, Wsim (f1 a) (f2 a)) -> Wsim (w_bind m1 f1) (w_bind m2 f2).
Proof.
  intros Hm Hf s1 s2 H. unfold w_bind. destruct (Hm s1 s2 H) as [H1 H2].
  destruct (m1 s1) as [s1' r1], (m2 s2) as [s2' r2]. cbn [fst snd] in *. subst r2.
  destruct r1 as [a|e]; [apply Hf, H1 | split; [exact H1 | reflexivity]].
Qed.
Lemma Wsim_emit e1 e2 : strip_delims e1 = strip_delims e2 -> Wsim (w_emit e1) (w_emit e2).
Proof.
  intros E s1 s2 [H1 H2]. unfold w_emit. cbn [fst snd]. split; [|reflexivity].
  split; cbn [ws wlog]; [exact H1|]. rewrite !map_app, H2. cbn [map]. rewrite E. reflexivity.
Qed.
Lemma Wsim_counter_get : Wsim w_counter_get w_counter_get.
Proof. intros s1 s2 [H1 H2]. unfold w_counter_get. cbn [fst snd]. rewrite H1. split; [split; assumption | reflexivity]. Qed.
Lemma Wsim_counter_set c : Wsim (w_counter_set c) (w_counter_set c).
Proof.
  intros s1 s2 [H1 H2]. unfold w_counter_set. cbn [fst snd]. split; [|reflexivity].
  split; cbn [ws wlog]; [rewrite H1; reflexivity | exact H2].
Qed.
Lemma Wsim_missing_get : Wsim w_missing_get w_missing_get.
Proof. intros s1 s2 [H1 H2]. unfold w_missing_get. cbn [fst snd]. rewrite H1. split; [split; assumption | reflexivity]. Qed.
Lemma Wsim_missing_set ms1 ms2 : ms1 = ms2 -> Wsim (w_missing_set ms1) (w_missing_set ms2).
Proof.
  intros -> s1 s2 [H1 H2]. unfold w_missing_set. cbn [fst snd]. split; [|reflexivity].
  split; cbn [ws wlog]; [rewrite H1; reflexivity | exact H2].
Qed.
Lemma Wsim_iter {A} (f1 f2 : A -> W unit) xs : (forall x, Wsim (f1 x) (f2 x)) -> Wsim (w_iter f1 xs) (w_iter f2 xs).
Proof.
  intros H. induction xs as [|x r IH]; cbn [w_iter]; [apply Wsim_ret|].
  apply Wsim_bind; [apply H | intros _; exact IH].
Qed.

Ltac wstep :=
  lazymatch goal with
  | |- Wsim (w_ret ?a) (w_ret ?a) => apply Wsim_ret
  | |- Wsim (w_raise _) (w_raise _) => apply Wsim_raise
  | |- Wsim (w_lift ?r) (w_lift ?r) => apply Wsim_lift; reflexivity
  | |- Wsim (w_emit _) (w_emit _) => apply Wsim_emit; reflexivity
  | |- Wsim w_counter_get w_counter_get => apply Wsim_counter_get
  | |- Wsim (w_counter_set ?c) (w_counter_set ?c) => apply Wsim_counter_set
  | |- Wsim w_missing_get w_missing_get => apply Wsim_missing_get
  | |- Wsim (w_missing_set _) (w_missing_set _) => apply Wsim_missing_set; reflexivity
  | |- Wsim (w_iter _ ?xs) (w_iter _ ?xs) => apply Wsim_iter; intros ?
  | |- Wsim (w_bind _ _) (w_bind _ _) => apply Wsim_bind; [| intros ?]
  | |- Wsim (if ?b then _ else _) (if ?b then _ else _) => destruct b
  | |- Wsim (match ?x with _ => _ end) (match ?x with _ => _ end) => destruct x
  end.

(* ---- every node the walker meets is a node of the map ---- *)
Lemma forallb_pm_nodes (f : node -> bool) pm :
  forallb (fun p => forallb f (snd p)) pm = forallb f (pm_nodes pm).
Proof.
  unfold pm_nodes. induction pm as [|p r IH]; [reflexivity|].
  cbn [forallb flat_map]. rewrite forallb_app, IH. reflexivity.
Qed.

Lemma node_match_ok_children sg n : node_match_ok sg n = true -> forallb (node_match_ok sg) (node_children n) = true.
Proof.
  destruct n as [i t nm u p rp pm|sn]; cbn [node_match_ok node_children]; [|reflexivity].
  rewrite forallb_pm_nodes. exact (fun H => H).
Qed.

Lemma forallb_nth_error {A} (f : A -> bool) xs i x : forallb f xs = true -> nth_error xs i = Some x -> f x = true.
Proof. intros H E. rewrite forallb_forall in H. apply H. eapply nth_error_In, E. Qed.

Lemma node_at_match_ok sg r : forall ns n,
  forallb (node_match_ok sg) ns = true -> node_at ns r = Some n -> node_match_ok sg n = true.
Proof.
  induction r as [|i rest IH]; intros ns n H E; [discriminate E|].
  cbn [node_at] in E. destruct (nth_error ns i) as [n0|] eqn:En; [|discriminate E].
  pose proof (forallb_nth_error _ _ _ _ H En) as H0.
  destruct rest as [|j rest']; [inversion E; subst; exact H0|].
  apply (IH (node_children n0)); [apply node_match_ok_children, H0 | exact E].
Qed.

Section Walker.
  Variables (m : xmap) (sg : seg) (sc cl : Z) (ls : option str) (d1 d2 : delims).
  Hypothesis Hmap : forallb (node_match_ok sg) (root_nodes m) = true.
  Hypothesis Hnf : not_found_text_ok sg = true.

  Definition mk_a (d : delims) : wargs :=
    {| a_x := {| xg_d := d; xg_s := sg |}; a_seg_count := sc; a_cur_line := cl; a_ls := ls |}.

  Lemma get_node_ok r n : get_node m r = Ok n -> node_match_ok sg n = true.
  Proof.
    unfold get_node. destruct (node_at (root_nodes m) r) as [n0|] eqn:E; intros H; inversion H; subst.
    apply (node_at_match_ok sg r _ _ Hmap E).
  Qed.

  Lemma container_children_ok r kids : container_children m r = Ok kids -> forallb (node_match_ok sg) kids = true.
  Proof.
    unfold container_children. destruct r as [|i r']; [intros H; inversion H; subst; exact Hmap|].
    destruct (get_node m (i :: r')) as [n|e] eqn:E; [|discriminate]. cbn [bind].
    destruct n as [a b c0 d e f pm|sn]; intros H; inversion H; subst.
    apply (node_match_ok_children sg _ (get_node_ok _ _ E)).
  Qed.

  Lemma match_sim s0 : match_positions_ok s0 sg = true ->
    Wsim (w_lift (seg_is_match (xg_d (a_x (mk_a d1))) (m_dataele m) s0 (xg_s (a_x (mk_a d1)))))
         (w_lift (seg_is_match (xg_d (a_x (mk_a d2))) (m_dataele m) s0 (xg_s (a_x (mk_a d2))))).
  Proof. intros H. apply Wsim_lift. cbn [mk_a a_x xg_d xg_s]. apply matching_delims_irrelevant, H. Qed.

  Lemma append_missing_sim r n msg : Wsim (append_missing m r n msg (mk_a d1)) (append_missing m r n msg (mk_a d2)).
  Proof. unfold append_missing. repeat wstep. Qed.

  Lemma flush_sim p : Wsim (flush_mandatory_segs p) (flush_mandatory_segs p).
  Proof. unfold flush_mandatory_segs. repeat wstep. Qed.

  Lemma check_seg_usage_sim r sn : Wsim (check_seg_usage m r sn (mk_a d1)) (check_seg_usage m r sn (mk_a d2)).
  Proof. unfold check_seg_usage. repeat wstep. Qed.

  Lemma check_loop_usage_sim r n : Wsim (check_loop_usage m r n (mk_a d1)) (check_loop_usage m r n (mk_a d2)).
  Proof. unfold check_loop_usage. repeat wstep. Qed.

  Lemma first_value_free : seg_get_value d1 sg (Walker.l "01") = seg_get_value d2 sg (Walker.l "01") \/
                           opt_eqb str_eqb (sid sg) (Some (Walker.l "HL")) = true.
  Proof.
    unfold not_found_text_ok in Hnf. apply orb_true_iff in Hnf as [H|H]; [right; exact H | left].
    change (Walker.l "01") with (fmt_02 1%N).
    rewrite !(C14_syntax.value_at _ sg 1%N) by (unfold C14_syntax.idx_ok; lia).
    destruct (_ <? _)%N; [reflexivity|]. f_equal. f_equal.
    unfold ele_free in H. change (N.to_nat 1 - 1) with 0.
    destruct (els sg) as [|c r]; [reflexivity|]. cbn [nth_error nth] in *. apply format_single_valued, H.
  Qed.

  Lemma seg_not_found_sim orig : Wsim (seg_not_found_error m orig (mk_a d1)) (seg_not_found_error m orig (mk_a d2)).
  Proof.
    unfold seg_not_found_error. apply Wsim_bind.
    - apply Wsim_lift. cbn [mk_a a_x xg_d xg_s].
      destruct first_value_free as [E|E]; [rewrite E; reflexivity | rewrite E; reflexivity].
    - intros seg_str. repeat wstep.
  Qed.

  Lemma is_loop_match_sim : forall fuel r n, node_match_ok sg n = true ->
    Wsim (is_loop_match fuel m (mk_a d1) r n) (is_loop_match fuel m (mk_a d2) r n).
  Proof.
    induction fuel as [|f IH]; intros r n Hn; cbn [is_loop_match]; [apply Wsim_raise|].
    destruct n as [id ty name usage pos rp pm|sn]; [|apply Wsim_raise].
    pose proof (node_match_ok_children sg _ Hn) as Hk. cbn [node_children] in Hk.
    set (X1 := (fix go (i : nat) (cs : list node) {struct cs} : W bool := _) 0 (pm_nodes pm)).
    set (X2 := (fix go (i : nat) (cs : list node) {struct cs} : W bool := _) 0 (pm_nodes pm)).
    assert (G : Wsim X1 X2).
    { subst X1 X2. revert Hk. generalize 0.
      induction (pm_nodes pm) as [|c cs IHc]; intros i Hk; [apply Wsim_ret|].
      cbn [forallb] in Hk. apply andb_true_iff in Hk as [Hc Hcs].
      destruct c as [id2 ty2 name2 usage2 pos2 rp2 pm2|s2]; [|apply IHc, Hcs].
      apply Wsim_bind; [apply IH, Hc|]. intros [|]; [apply Wsim_ret | apply IHc, Hcs]. }
    clearbody X1 X2.
    destruct (pm_nodes pm) as [|first rest]; [apply Wsim_ret|].
    destruct first as [id' ty' name' usage' pos' rp' pm'|s0]; [exact G|].
    cbn [forallb] in Hk. apply andb_true_iff in Hk as [Hs _]. cbn [node_match_ok] in Hs.
    apply Wsim_bind; [apply match_sim, Hs|]. intros b.
    repeat first [wstep | apply append_missing_sim].
  Qed.

  Lemma goto_seg_match_sim : forall fuel r n, node_match_ok sg n = true ->
    Wsim (goto_seg_match fuel m (mk_a d1) r n) (goto_seg_match fuel m (mk_a d2) r n).
  Proof.
    induction fuel as [|f IH]; intros r n Hn; cbn [goto_seg_match]; [apply Wsim_raise|].
    pose proof (node_match_ok_children sg _ Hn) as Hk.
    pose proof (check_loop_usage_sim r n) as Hclu.
    destruct n as [id ty name usage pos rp pm|sn]; [|apply Wsim_raise].
    cbn [node_children] in Hk.
    set (X1 := (fix go (i : nat) (cs : list node) {struct cs} : W (option nref * list nref) := _) 0 (pm_nodes pm)).
    set (X2 := (fix go (i : nat) (cs : list node) {struct cs} : W (option nref * list nref) := _) 0 (pm_nodes pm)).
    assert (G : Wsim X1 X2).
    { subst X1 X2. revert Hk. generalize 0.
      induction (pm_nodes pm) as [|c cs IHc]; intros i Hk; [apply Wsim_ret|].
      cbn [forallb] in Hk. apply andb_true_iff in Hk as [Hc Hcs].
      destruct c as [id2 ty2 name2 usage2 pos2 rp2 pm2|s2]; [|apply IHc, Hcs].
      apply Wsim_bind; [apply IH, Hc|]. intros res.
      destruct (fst res) as [r1|]; [|apply IHc, Hcs].
      apply Wsim_bind; [wstep|]. intros [|]; [apply Wsim_ret | apply IHc, Hcs]. }
    clearbody X1 X2.
    destruct (pm_nodes pm) as [|first rest]; [apply Wsim_raise|].
    apply Wsim_bind.
    - destruct first as [id' ty' name' usage' pos' rp' pm'|s0]; [apply Wsim_ret|].
      apply match_sim. cbn [forallb] in Hk. apply andb_true_iff in Hk as [Hs _]. exact Hs.
    - intros [|]; [|exact G].
      apply Wsim_bind; [exact Hclu|]. intros _. repeat first [wstep | apply flush_sim].
  Qed.

  (* _note_missing_children reads the counter and the pending list only; of `a` it keeps seg_count, cur_line, ls_id *)
  Lemma note_missing_children_sim r :
    Wsim (note_missing_children m (mk_a d1) r) (note_missing_children m (mk_a d2) r).
  Proof. unfold note_missing_children. cbv zeta. repeat first [apply append_missing_sim | wstep]. Qed.

  Lemma Wsim_bind_lift {A B} (r : result A) (f1 f2 : A -> W B) :
    (forall a, r = Ok a -> Wsim (f1 a) (f2 a)) -> Wsim (w_bind (w_lift r) f1) (w_bind (w_lift r) f2).
  Proof.
    intros H. destruct r as [a|e].
    - intros s1 s2 Hs. exact (H a eq_refl s1 s2 Hs).
    - intros s1 s2 Hs. split; [exact Hs | reflexivity].
  Qed.

  Lemma enumerate_In {A} (xs : list A) : forall k i x, In (i, x) (enumerate k xs) -> In x xs.
  Proof.
    induction xs as [|y r IH]; intros k i x H; [destruct H|].
    cbn [enumerate] in H. destruct H as [H|H]; [inversion H; left; reflexivity | right; eapply IH, H].
  Qed.

  Ltac wauto :=
    repeat first
      [ assumption | apply append_missing_sim | apply note_missing_children_sim | apply flush_sim | apply check_seg_usage_sim | apply check_loop_usage_sim
      | apply seg_not_found_sim
      | (apply is_loop_match_sim; first [assumption | eapply get_node_ok; eassumption])
      | (apply goto_seg_match_sim; first [assumption | eapply get_node_ok; eassumption])
      | match goal with |- Wsim (w_bind (w_lift ?r) _) (w_bind (w_lift ?r) _) => apply Wsim_bind_lift; intros ? ? end
      | wstep ].

  Lemma walk_loop_sim : forall fuel orig orig_loop cur npos pop,
    Wsim (walk_loop fuel m (mk_a d1) orig orig_loop cur npos pop) (walk_loop fuel m (mk_a d2) orig orig_loop cur npos pop).
  Proof.
    induction fuel as [|f IH]; intros orig orig_loop cur npos pop; cbn [walk_loop]; [apply Wsim_raise|].
    apply Wsim_bind_lift. intros kids Hkids. apply container_children_ok in Hkids.
    apply Wsim_bind.
    - assert (Hcs : forall ic, In ic (filter (fun ic => (npos <=? node_pos (snd ic))%Z) (enumerate 0 kids)) ->
                               node_match_ok sg (snd ic) = true).
      { intros [i c] H. apply filter_In in H as [H _]. apply enumerate_In in H.
        rewrite forallb_forall in Hkids. apply Hkids, H. }
      revert Hcs. generalize (filter (fun ic => (npos <=? node_pos (snd ic))%Z) (enumerate 0 kids)).
      intros cs. induction cs as [|[i c] rest IHr]; intros Hcs; [apply Wsim_ret|].
      pose proof (Hcs (i, c) (or_introl eq_refl)) as Hc. cbn [snd] in Hc.
      pose proof (IHr (fun ic H => Hcs ic (or_intror H))) as Hrest.
      revert Hrest.
      set (X1 := (fix scan (cs : list (nat * node)) : W (option walk_result) := _) rest).
      set (X2 := (fix scan (cs : list (nat * node)) : W (option walk_result) := _) rest).
      intros Hrest. clearbody X1 X2. clear IHr Hcs.
      destruct c as [id2 ty2 name2 usage2 pos2 rp2 pm2|s0].
      + wauto.
      + cbn [node_match_ok] in Hc. apply Wsim_bind; [apply match_sim, Hc|]. intros b. wauto.
    - intros found. destruct found as [res|]; [apply Wsim_ret|].
      destruct cur as [|c0 cur']; wauto. apply IH.
  Qed.

  Lemma walk_w_sim start : Wsim (walk_w m start d1 sg sc cl ls) (walk_w m start d2 sg sc cl ls).
  Proof.
    unfold walk_w. fold (mk_a d1). fold (mk_a d2).
    apply Wsim_bind; [apply Wsim_missing_set; reflexivity|]. intros _.
    destruct start as [|i r]; [apply Wsim_raise|].
    apply Wsim_bind_lift. intros n0 _. apply walk_loop_sim.
  Qed.
End Walker.

Theorem walker_delims_irrelevant :
  forall m w start d1 d2 sg sc cl ls, match_ok_everywhere m sg = true ->
    let '(w1, ev1, r1) := walk_st m w start d1 sg sc cl ls in
    let '(w2, ev2, r2) := walk_st m w start d2 sg sc cl ls in
    w1 = w2 /\ r1 = r2 /\ map strip_delims ev1 = map strip_delims ev2.
Proof.
  intros m w start d1 d2 sg sc cl ls H. unfold match_ok_everywhere in H. apply andb_true_iff in H as [H1 H2].
  unfold walk_st.
  pose proof (walk_w_sim m sg sc cl ls d1 d2 H1 H2 start {| ws := w; wlog := [] |} {| ws := w; wlog := [] |}
                (conj eq_refl eq_refl)) as [[Hw Hl] Hr].
  destruct (walk_w m start d1 sg sc cl ls _) as [st1 r1].
  destruct (walk_w m start d2 sg sc cl ls _) as [st2 r2].
  cbn [fst snd] in *. auto.
Qed.

(* the pure view: same node, pops, pushes and walker state; the handler calls agree once the delimiters are erased *)
Corollary walk_delims_irrelevant :
  forall m w start d1 d2 sg sc cl ls, match_ok_everywhere m sg = true ->
    match walk m w start d1 sg sc cl ls, walk m w start d2 sg sc cl ls with
    | Ok (n1, pop1, push1, w1, ev1), Ok (n2, pop2, push2, w2, ev2) =>
        n1 = n2 /\ pop1 = pop2 /\ push1 = push2 /\ w1 = w2 /\ map strip_delims ev1 = map strip_delims ev2
    | Raise e1, Raise e2 => e1 = e2
    | _, _ => False
    end.
Proof.
  intros m w start d1 d2 sg sc cl ls H.
  pose proof (walker_delims_irrelevant m w start d1 d2 sg sc cl ls H) as P. unfold walk_st, walk in *.
  destruct (walk_w m start d1 sg sc cl ls _) as [st1 r1].
  destruct (walk_w m start d2 sg sc cl ls _) as [st2 r2].
  destruct P as (Hw & Hr & Hl). subst r2.
  destruct r1 as [[[n pop] push]|e]; [|reflexivity]. auto.
Qed.

(* a condition on the data alone *)
Lemma node_match_ok_plain sg : match_elements_plain sg = true -> forall n, node_match_ok sg n = true.
Proof.
  intros H. fix IH 1. intros [id ty name usage pos rp pm|sn]; cbn [node_match_ok].
  - induction pm as [|[z ns] r IHr]; [reflexivity|]. cbn [forallb snd]. rewrite IHr, andb_true_r.
    induction ns as [|n ns IHn]; [reflexivity|]. cbn [forallb]. rewrite (IH n), IHn. reflexivity.
  - apply match_elements_plain_ok, H.
Qed.

Lemma match_ok_everywhere_plain m sg : match_elements_plain sg = true -> match_ok_everywhere m sg = true.
Proof.
  intros H. unfold match_ok_everywhere. apply andb_true_iff. split.
  - apply forallb_forall. intros n _. apply node_match_ok_plain, H.
  - unfold match_elements_plain in H. apply andb_true_iff in H as [H _]. apply andb_true_iff in H as [H _].
    unfold not_found_text_ok. rewrite H. apply orb_true_r.
Qed.

(* ================================================================== *)
(* 4. why each hypothesis is there: smallest witnesses                 *)
Module Witness12.
  Import C0203_segment.Witness.
  Local Open Scope string_scope.
  Local Definition cs (s : string) : str := list_ascii_of_string s.
  (* the same segments read from a document written with ':' and from one written with '^' *)
  Definition dc : delims := d0.
  Definition dh : delims := {| seg_term := "~"%char; ele_term := "*"%char; subele_term := "^"%char |}.
  Definition S0 (id : string) (e : list (list string)) : seg := {| sid := Some (cs id); els := map (map cs) e |}.
  Definition tsn : segm := ts [].      (* TS01 ID R (AA, BB); TS02 AN S; TS03 composite S of (ID R X1, AN S) *)

  (* non-vacuity: a segment with a genuine composite where the node has one satisfies both conditions *)
  Example composite_in_place :
    simple_positions_ok tsn (S0 "TS" [["AA"]; ["HELLO"]; ["X1"; "AB"]]) = true /\
    overflow_ok tsn (S0 "TS" [["AA"]; ["HELLO"]; ["X1"; "AB"]]) = true /\
    single_valued (map cs ["X1"; "AB"]) = false.
  Proof. vm_compute. auto. Qed.

  (* trailing empty components are not written: "A:" given for a simple element is single valued *)
  Example trailing_empty_component :
    single_valued (map cs ["A"; ""]) = true /\ simple_positions_ok tsn (S0 "TS" [["AA"]; ["A"; ""]]) = true.
  Proof. vm_compute. auto. Qed.

  (* simple_positions_ok: TS02 = "A:B" is reported as an invalid composite with value "A:B" / "A^B" *)
  Example simple_position_needed :
    simple_positions_ok tsn (S0 "TS" [["AA"]; ["A"; "B"]]) = false /\
    overflow_ok tsn (S0 "TS" [["AA"]; ["A"; "B"]]) = true /\
    seg_is_valid dc c0 tsn (S0 "TS" [["AA"]; ["A"; "B"]]) <> seg_is_valid dh c0 tsn (S0 "TS" [["AA"]; ["A"; "B"]]).
  Proof. vm_compute. repeat split; discriminate. Qed.

  (* overflow_ok, first clause: a fourth element "A:B" is the value of the "too many elements" error *)
  Example overflow_element_needed :
    simple_positions_ok tsn (S0 "TS" [["AA"]; ["A"]; ["X1"]; ["A"; "B"]]) = true /\
    overflow_ok tsn (S0 "TS" [["AA"]; ["A"]; ["X1"]; ["A"; "B"]]) = false /\
    seg_is_valid dc c0 tsn (S0 "TS" [["AA"]; ["A"]; ["X1"]; ["A"; "B"]]) <>
    seg_is_valid dh c0 tsn (S0 "TS" [["AA"]; ["A"]; ["X1"]; ["A"; "B"]]).
  Proof. vm_compute. repeat split; discriminate. Qed.

  (* overflow_ok, second clause: three components for the two of TS03: "too many sub-elements", value "X1:B:C" *)
  Example overflow_component_needed :
    simple_positions_ok tsn (S0 "TS" [["AA"]; ["A"]; ["X1"; "B"; "C"]]) = true /\
    overflow_ok tsn (S0 "TS" [["AA"]; ["A"]; ["X1"; "B"; "C"]]) = false /\
    seg_is_valid dc c0 tsn (S0 "TS" [["AA"]; ["A"]; ["X1"; "B"; "C"]]) <>
    seg_is_valid dh c0 tsn (S0 "TS" [["AA"]; ["A"]; ["X1"; "B"; "C"]]).
  Proof. vm_compute. repeat split; discriminate. Qed.

  (* matching: a node whose key element lists the code "A:B" matches HL*A:B read with ':' only *)
  Definition hl : segm :=
    mk_seg "HL" [] [SubE (mk_elem "HL01" "100" "R" 1 [Some (cs "A:B")]); SubE (mk_elem "HL02" "200" "S" 2 []);
                    SubE (mk_elem "HL03" "200" "S" 3 [])].
  Example match_position_needed :
    match_positions_ok hl (S0 "HL" [["A"; "B"]]) = false /\
    seg_is_match dc (x_de c0) hl (S0 "HL" [["A"; "B"]]) = Ok true /\
    seg_is_match dh (x_de c0) hl (S0 "HL" [["A"; "B"]]) = Ok false.
  Proof. vm_compute. auto. Qed.

  (* the walker on the map [AA; HL] *)
  Definition aa : segm := mk_seg "AA" [] [SubE (mk_elem "AA01" "200" "R" 1 [])].
  Definition mp : xmap :=
    {| m_id := Some (cs "M"); m_name := None; m_pos_map := [(10%Z, [NSeg aa]); (20%Z, [NSeg hl])];
       m_dataele := x_de c0; m_codes := []; m_exclude := []; m_charset := cs "B"; m_icvn := None |}.
  Definition decision (x : wstate * list wev * result walk_result) : result walk_result := snd x.
  Definition messages (x : wstate * list wev * result walk_result) : list str :=
    flat_map (fun e => match e with WSegErr _ msg _ => [msg] | _ => [] end) (snd (fst x)).

  (* the nodes of the map: HL*A:B is found when read with ':' and not found when read with '^' *)
  Example walker_match_needed :
    forallb (node_match_ok (S0 "HL" [["A"; "B"]])) (root_nodes mp) = false /\
    not_found_text_ok (S0 "HL" [["A"; "B"]]) = true /\
    decision (walk_st mp wstate_init [0] dc (S0 "HL" [["A"; "B"]]) 1 1 None) = Ok (Some [1], [], []) /\
    decision (walk_st mp wstate_init [0] dh (S0 "HL" [["A"; "B"]]) 1 1 None) = Ok (None, [], []).
  Proof. vm_compute. auto. Qed.

  (* not_found_text_ok: no node is concerned by ZZ*A:B, but the message quotes its first element *)
  Example walker_not_found_text_needed :
    forallb (node_match_ok (S0 "ZZ" [["A"; "B"]])) (root_nodes mp) = true /\
    not_found_text_ok (S0 "ZZ" [["A"; "B"]]) = false /\
    messages (walk_st mp wstate_init [0] dc (S0 "ZZ" [["A"; "B"]]) 1 1 None) = [cs "Segment ZZ*A:B not found.  Started at /AA"] /\
    messages (walk_st mp wstate_init [0] dh (S0 "ZZ" [["A"; "B"]]) 1 1 None) = [cs "Segment ZZ*A^B not found.  Started at /AA"].
  Proof. vm_compute. auto. Qed.

  (* non-vacuity of the walker theorem on the same map: a found segment and one that is not *)
  Example walker_ok :
    match_ok_everywhere mp (S0 "HL" [["A:B"]]) = true /\
    decision (walk_st mp wstate_init [0] dh (S0 "HL" [["A:B"]]) 1 1 None) = Ok (Some [1], [], []) /\
    match_ok_everywhere mp (S0 "ZZ" [["A"]; ["B"; "C"]]) = true /\
    messages (walk_st mp wstate_init [0] dh (S0 "ZZ" [["A"]; ["B"; "C"]]) 1 1 None) = [cs "Segment ZZ*A not found.  Started at /AA"].
  Proof. vm_compute. auto. Qed.
End Witness12.
