(* C07_pipeline.v — totality of the WHOLE of x12n_document (Model/Pipeline.v) for every subset of the
   three output sinks, up to the two documented refusals (X12Error, EngineError).

   The driver proof (Proofs/C07_driver.v) is reused component-wise: the sinks never write the driver
   part of the state (ps_d), so `step` / `finish` keep their totality statements (dsafe); what the
   sinks additionally need is carried by a partial-correctness invariant of the same computations
   (Proofs/C07_sink_step.v):  the handler heap is a forest (H2) that only grows (ext), `node` lies in a
   map on which the per-map sink facts hold.

   acknowledgement  ack_part never returns a Raise: run_visitor discards whatever the visitor raises
                    (general, no per-map fact)
   XML              simple_seg (Proofs/C07_sink_xml.v): TNotSeg / seg_child_by_idx -> EngineError (allowed);
                    target_of None, GotNone, GotEle, write_subeles: general lemmas; gi_parent_path,
                    cur_path[-1], the designator of element 100: the per-map fact xml_ok
   HTML             html_loop_node on LNMapRoot: the per-map fact html_ok; collect_new (Proofs/C07_sink_iter.v):
                    no IExn and the fuel suffices, from H2 and the iterator invariant ItInv (general);
                    html_gen_seg / html_footer (Proofs/C07_sink_html.v): never raise under H2, for the nodes
                    collect_new returns, sid <> None (the reader never yields a segment without id from a
                    non-empty raw line) and cur_line = Some _ (general) *)
From Coq Require Import String.
From PX.Lib Require Import Base PyStr PyInt Regex Xml.
From PX.Model Require Import Show Path Segment Raw Reader Syntax MapLoad MapTree Element Counter Walker MapEnv Driver Pipeline.
From PX.Model Require Errh ErrIter OutW Html XmlOut Ack997 Ack999.
From PX.Spec Require Import C01_spec C07_walker_wf C07_valid_wf C07_spec C07_sinks_spec.
From PX.Proofs Require Import C01_raw C04_reader C07_walker_lemmas C07_walker C07_errh C07_zone C07_driver C07_text.
From PX.Proofs Require Import C07_sink_defs C07_sink_errh C07_sink_step.
From PX.Proofs Require C07_sink_iter C07_sink_html C07_sink_xml.

Local Definition l (x : string) : str := list_ascii_of_string x.

(* ------------------------------------------------------------------ *)
(* a Hoare logic for P                                                  *)

Definition psafe {A} (c : P A) (s : pstate) (Q : A -> pstate -> Prop) : Prop :=
  match c s with (s', Ok a) => Q a s' | (_, Raise e) => allowed e = true end.

Lemma psafe_ret {A} (a : A) s (Q : A -> pstate -> Prop) : Q a s -> psafe (p_ret a) s Q.
Proof. intros H. exact H. Qed.

Lemma psafe_bind {A B} (m : P A) (f : A -> P B) s (Q : B -> pstate -> Prop) :
  psafe m s (fun a s' => psafe (f a) s' Q) -> psafe (p_bind m f) s Q.
Proof. unfold psafe, p_bind. destruct (m s) as [s' [a|e]]; auto. Qed.

Lemma psafe_get s (Q : pstate -> pstate -> Prop) : Q s s -> psafe p_get s Q.
Proof. intros H. exact H. Qed.

Lemma psafe_mod f s (Q : unit -> pstate -> Prop) : Q tt (f s) -> psafe (p_mod f) s Q.
Proof. intros H. exact H. Qed.

Lemma psafe_conseq {A} (c : P A) s (Q Q' : A -> pstate -> Prop) :
  psafe c s Q -> (forall a s', Q a s' -> Q' a s') -> psafe c s Q'.
Proof. unfold psafe. destruct (c s) as [s' [a|e]]; auto. Qed.

(* a driver computation: its totality statement and its partial-correctness statement together *)
Lemma psafe_liftD {A} (m : D A) s (Q1 Q2 : A -> dstate -> Prop) (Q : A -> pstate -> Prop) :
  dsafe m (ps_d s) Q1 -> dpc m (ps_d s) Q2 ->
  (forall a d', Q1 a d' -> Q2 a d' -> Q a (set_d s d')) ->
  psafe (p_liftD m) s Q.
Proof.
  unfold dsafe, dpc, psafe, p_liftD. destruct (m (ps_d s)) as [d' [a|e]]; auto.
Qed.

Ltac qstep :=
  cbn beta;
  lazymatch goal with
  | |- psafe (p_bind _ _) _ _ => apply psafe_bind
  | |- psafe p_get _ _ => apply psafe_get
  | |- psafe (p_mod _) _ _ => apply psafe_mod
  | |- psafe (p_ret _) _ _ => apply psafe_ret
  end.

(* ------------------------------------------------------------------ *)
(* map facts                                                            *)

Lemma node_at_parent : forall r ns sn,
  node_at ns r = Some (NSeg sn) -> removelast r <> [] ->
  exists i ty nm u ps rp pm, node_at ns (removelast r) = Some (NLoop i ty nm u ps rp pm).
Proof.
  induction r as [|i r IH]; intros ns sn H NE; [discriminate|].
  destruct r as [|j r']; [cbn in NE; congruence|].
  cbn [node_at] in H. destruct (nth_error ns i) as [n|] eqn:Ei; [|discriminate].
  change (removelast (i :: j :: r')) with (i :: removelast (j :: r')).
  destruct r' as [|k r''].
  - cbn [removelast node_at]. rewrite Ei.
    destruct n as [i0 ty nm u ps rp pm|sg]; [eauto 10|].
    cbn [node_children node_at] in H. destruct j; discriminate.
  - cbn [node_at]. rewrite Ei.
    assert (NE' : removelast (j :: k :: r'') <> []) by (cbn; discriminate).
    destruct (IH (node_children n) sn H NE') as (i0 & ty & nm & u & ps & rp & pm & E).
    change (removelast (j :: k :: r'')) with (j :: removelast (k :: r'')) in *.
    eauto 10.
Qed.

Lemma node_parent_ok m r :
  html_ok m = true -> seg_ref m r -> exists i nm ty, node_parent m r = Ok (Html.LNLoop i nm ty).
Proof.
  intros HO [sn Hsn]. unfold node_parent.
  assert (NE : removelast r <> []).
  { destruct r as [|i [|j r']]; [discriminate Hsn| |cbn; discriminate].
    cbn [node_at] in Hsn. destruct (nth_error (root_nodes m) i) as [n|] eqn:Ei; [|discriminate].
    injection Hsn as ->. unfold html_ok in HO. rewrite forallb_forall in HO.
    specialize (HO _ (nth_error_In _ _ Ei)). discriminate HO. }
  destruct (node_at_parent r _ sn Hsn NE) as (i & ty & nm & u & ps & rp & pm & E).
  destruct (removelast r) as [|a b] eqn:ER; [congruence|].
  unfold get_node. rewrite E. cbn [bind]. eauto.
Qed.

(* ------------------------------------------------------------------ *)
(* the reader never yields a segment without an id from a non-empty raw line *)

Lemma split_aux_nonempty c : forall s cur, split_aux c s cur <> [].
Proof. induction s as [|x s IH]; intros cur; cbn [split_aux]; [discriminate|]. destruct (Ascii.eqb x c); [discriminate | apply IH]. Qed.

Lemma parse_seg_sid d line : line <> [] -> sid (parse_seg d line) <> None.
Proof.
  intros NE. unfold parse_seg. destruct line as [|c r]; [congruence|].
  match goal with |- context [split (ele_term d) ?b] => generalize b end. intros body.
  unfold split. pose proof (split_aux_nonempty (ele_term d) body []) as N.
  destruct (split_aux (ele_term d) body []) as [|id rest]; [congruence|]. cbn [sid]. discriminate.
Qed.

Lemma reader_sid d x ln x' sg es :
  reader_line_opt d x ln = Ok (x', Some sg, es) -> ln <> [] -> sid sg <> None.
Proof.
  intros H NE. unfold reader_line_opt in H.
  destruct (match ln with c :: _ => Ascii.eqb c " "%char | [] => false end) eqn:LD.
  - destruct (lstrip_ws ln) as [|c0 r0] eqn:LS; cbn [andb] in H; [discriminate|].
    unfold reader_line in H. cbv zeta in H. rewrite LD, LS in H.
    destruct (reader_step d x (parse_seg d (c0 :: r0))) as [[x1 e3]|e]; cbn [bind] in H; [|discriminate].
    pose proof (parse_seg_sid d (c0 :: r0) ltac:(discriminate)) as PS.
    injection H as <- <- <-. exact PS.
  - cbn [andb] in H. unfold reader_line in H. cbv zeta in H. rewrite LD in H.
    destruct (reader_step d x (parse_seg d ln)) as [[x1 e3]|e]; cbn [bind] in H; [|discriminate].
    pose proof (parse_seg_sid d ln NE) as PS.
    injection H as <- <- <-. exact PS.
Qed.

Lemma raw_spec_nonempty T t : Forall (fun ln => ln <> []) (raw_spec T t).
Proof.
  unfold raw_spec. apply Forall_forall. intros ln H. apply filter_In in H as [_ H].
  destruct ln; [discriminate H | discriminate].
Qed.

(* ------------------------------------------------------------------ *)
(* the sinks, one segment                                               *)

Lemma html_step_safe E sg s :
  NodeOK (ds_node (ps_d s)) -> H2 (ds_errh (ps_d s)) -> html_ok (fst (ds_node (ps_d s))) = true ->
  ItInv (ds_errh (ps_d s)) (ps_iter s) -> sid sg <> None ->
  psafe (html_step E sg) s (fun _ s' => ps_d s' = ps_d s /\ ItInv (ds_errh (ps_d s)) (ps_iter s')).
Proof.
  intros (MO & SR) I HO V SI. unfold html_step. cbv zeta.
  qstep. qstep. qstep.
  apply (psafe_conseq _ _ (fun _ s1 => ps_d s1 = ps_d s /\ ps_iter s1 = ps_iter s)).
  { destruct (node_is_first _ _).
    - destruct (node_parent_ok _ _ HO SR) as (i & nm & ty & EP). qstep.
      unfold psafe at 1, p_lift. rewrite EP.
      unfold psafe. cbn [Html.html_loop_node]. split; reflexivity.
    - qstep. split; reflexivity. }
  cbn beta. intros _ s1 [D1 T1]. qstep.
  unfold psafe at 1. rewrite D1, T1.
  destruct (C07_sink_iter.collect_new_ok _ _ I V) as (it' & nodes & EC & V' & F). rewrite EC.
  qstep. qstep. qstep. qstep.
  unfold psafe, p_html. cbn [ps_html ps_d set_iter add_call]. rewrite D1.
  match goal with |- context [Html.html_gen_seg ?c ?h ?x (Some ?z) ?ns ?hs] =>
    destruct (C07_sink_html.html_gen_seg_safe c h x z ns hs I F SI) as (hs' & ws & EG); rewrite EG end.
  cbn [ps_d ps_iter add_html_out set_html]. split; [exact D1 | exact V'].
Qed.

Lemma xml_step_safe E sg s :
  NodeOK (ds_node (ps_d s)) -> xml_ok (fst (ds_node (ps_d s))) = true ->
  psafe (xml_step E sg) s (fun _ s' => ps_d s' = ps_d s /\ ps_iter s' = ps_iter s).
Proof.
  intros (MO & SR) XO. unfold xml_step. qstep. qstep.
  destruct (C07_sink_xml.target_of_seg _ _ SR) as [gi ET]. rewrite ET.
  destruct (full_ok_parts _ MO) as (WF & _).
  pose proof (C07_sink_xml.simple_seg_safe _ _ gi (de_d E) sg (ps_xml s) WF XO SR ET) as X.
  unfold psafe, p_xml. destruct (XmlOut.simple_seg _ _ _ _) as [[xs' ws] [u|e]]; [|exact X].
  split; reflexivity.
Qed.

(* ------------------------------------------------------------------ *)
(* the invariant of the loop                                            *)

Definition KIc (d : dstate) : Prop := KI (ds_errh d) d.

Definition PInv (s : pstate) : Prop :=
  Good (ps_d s) /\ KIc (ps_d s) /\ ItInv (ds_errh (ps_d s)) (ps_iter s).

Lemma KI_self h0 d : KI h0 d -> KIc d.
Proof. intros (H & _ & N & C). split; [exact H|]. split; [apply ext_refl|]. split; assumption. Qed.

Lemma p_step_safe E sk sg s :
  EnvS E ->
  dsafe (step E sg) (ps_d s) (fun _ d' => Good d') ->
  KIc (ps_d s) -> ItInv (ds_errh (ps_d s)) (ps_iter s) -> sid sg <> None ->
  psafe (p_step E sk sg) s (fun _ s' => PInv s').
Proof.
  intros ES DS K V SI. unfold p_step. qstep.
  eapply psafe_liftD; [exact DS | apply (step_pc E sg _ _ ES K)|]. cbn beta.
  intros _ d' G' K'.
  set (s1 := set_d s d').
  assert (V1 : ItInv (ds_errh (ps_d s1)) (ps_iter s1)).
  { cbn [s1 ps_d ps_iter set_d]. destruct K as (H & _). destruct K' as (H' & X' & _).
    exact (C07_sink_iter.ItInv_ext _ _ _ H H' X' V). }
  assert (P1 : PInv s1).
  { split; [exact G'|]. split; [exact (KI_self _ _ K') | exact V1]. }
  clearbody s1. clear - P1 SI.
  destruct P1 as (G1 & K1 & V1). pose proof G1 as (_ & N1 & _). pose proof K1 as (H1 & _ & (XO & HO) & _).
  qstep.
  apply (psafe_conseq _ _ (fun _ s2 => PInv s2)).
  { destruct (want_html sk).
    - eapply psafe_conseq; [apply html_step_safe; assumption|]. cbn beta.
      intros _ s2 [D2 V2]. unfold PInv. rewrite D2. split; [exact G1|]. split; [exact K1 | exact V2].
    - qstep. split; [exact G1|]. split; assumption. }
  cbn beta. intros _ s2 (G2 & K2 & V2). pose proof G2 as (_ & N2 & _). pose proof K2 as (H2' & _ & (XO2 & HO2) & _).
  destruct (want_xml sk).
  - eapply psafe_conseq; [apply xml_step_safe; assumption|]. cbn beta.
    intros _ s3 [D3 T3]. unfold PInv. rewrite D3, T3. split; [exact G2|]. split; assumption.
  - qstep. split; [exact G2|]. split; assumption.
Qed.

(* reading one raw line *)
Lemma read_line_safe E ln s (Q : option seg -> pstate -> Prop) :
  (forall x' os es, reader_line_opt (de_d E) (ds_x (ps_d s)) ln = Ok (x', os, es) ->
     Q os (set_d s (with_pending (with_x (ps_d s) x') (ds_pending (ps_d s) ++ es)))) ->
  psafe (p_liftD (read_line E ln)) s Q.
Proof.
  intros HQ. unfold psafe, p_liftD, read_line, d_bind, d_get, d_lift, d_mod, d_ret.
  destruct (reader_line_opt (de_d E) (ds_x (ps_d s)) ln) as [[[x' os] es]|e] eqn:RL.
  - cbn beta iota. apply HQ. reflexivity.
  - apply reader_line_opt_raise in RL. subst e. reflexivity.
Qed.

Lemma p_lines_good E sk : EnvOK E -> EnvS E ->
  forall lines s, Forall (fun ln => ln <> []) lines -> PInv s ->
  psafe (p_lines E sk lines) s (fun _ s' => PInv s').
Proof.
  intros EO ES. induction lines as [|ln rest IH]; intros s NE PI; cbn [p_lines].
  - qstep. exact PI.
  - inversion NE as [|? ? NE1 NE2]; subst. qstep.
    apply read_line_safe. intros x' os es RL.
    set (s1 := set_d s _).
    assert (P1 : PInv s1) by exact PI.
    qstep. destruct os as [sg|].
    + destruct P1 as (G1 & K1 & V1).
      eapply psafe_conseq; [apply p_step_safe; [exact ES | | exact K1 | exact V1 | eapply reader_sid; eauto]|].
      * apply step_good; [exact EO | | exact G1]. intros S. eapply reader_isa16; eauto.
      * cbn beta. intros _ s2 P2. apply IH; assumption.
    + qstep. apply IH; assumption.
Qed.

(* ------------------------------------------------------------------ *)
(* after the loop                                                       *)

Lemma ack_part_ok clk sk s : exists s', ack_part clk sk s = (s', Ok tt) /\ True.
Proof.
  unfold ack_part, p_bind, p_get, p_ret, run_visitor.
  destruct (want_ack sk && _).
  - destruct (vriic_is _ "004010").
    + destruct (Ack997.render_997 clk _) as [[h' ws] o].
      destruct (vriic_is _ "005010"); [|eauto].
      cbn [ps_d add_ack_out set_d]. destruct (Ack999.render_999 clk _) as [[h'' ws'] o']. eauto.
    + destruct (vriic_is _ "005010"); [|eauto].
      destruct (Ack999.render_999 clk _) as [[h'' ws'] o']. eauto.
  - eauto.
Qed.

Lemma p_finish_safe clk sk s :
  HInv (ds_errh (ps_d s)) ->
  (Errh.c_isa (ds_errh (ps_d s)) <> None \/ (ds_pending (ps_d s) = [] /\ ds_x (ps_d s) = x_init)) ->
  KIc (ps_d s) ->
  psafe (p_finish clk sk) s (fun _ _ => True).
Proof.
  intros I C K. unfold p_finish. qstep.
  eapply psafe_liftD; [apply finish_safe; assumption | apply (finish_pc _ _ K)|]. cbn beta.
  intros b d' _ (H' & _). set (s1 := set_d s d'). assert (H1 : H2 (ds_errh (ps_d s1))) by exact H'.
  clearbody s1. clear - H1.
  qstep.
  apply (psafe_conseq _ _ (fun _ s2 => True)).
  { destruct (want_html sk); [|qstep; exact Logic.I].
    qstep. qstep. unfold psafe, p_html_unit.
    destruct (C07_sink_html.html_footer_safe (ds_errh (ps_d s1)) tt H1) as (u' & ws & ->). exact Logic.I. }
  cbn beta. intros _ s2 _. qstep.
  apply (psafe_conseq _ _ (fun _ s3 => True)).
  { destruct (want_xml sk); [|qstep; exact Logic.I].
    qstep. unfold psafe at 1, p_xml.
    destruct (C07_sink_xml.simple_del_safe (ps_xml s2)) as (xs' & ws & ->). qstep. exact Logic.I. }
  cbn beta. intros _ s3 _. qstep.
  unfold psafe at 1. destruct (ack_part_ok clk sk s3) as (s4 & -> & _).
  unfold verdict. qstep. qstep. qstep. exact Logic.I.
Qed.

Lemma p_open_safe htime dtd sk s :
  psafe (p_open htime dtd sk) s (fun _ s' => ps_d s' = ps_d s /\ ps_iter s' = ps_iter s).
Proof.
  unfold p_open. qstep.
  apply (psafe_conseq _ _ (fun _ s1 => ps_d s1 = ps_d s /\ ps_iter s1 = ps_iter s)).
  { destruct (want_html sk); qstep; split; reflexivity. }
  cbn beta. intros _ s1 [D1 T1]. destruct (want_xml sk); [|qstep; split; assumption].
  qstep. qstep. unfold psafe, p_xml.
  match goal with |- context [XmlOut.simple_init dtd ?xs] =>
    destruct (C07_sink_xml.simple_init_safe dtd xs) as (xs' & ws & ->) end.
  cbn [ps_d ps_iter add_xml_out set_xml set_xml_live]. split; assumption.
Qed.

(* ------------------------------------------------------------------ *)
(* the theorem                                                          *)

Lemma o_result_outputs_of s r : o_result (outputs_of s r) = r.
Proof. reflexivity. Qed.

Theorem pipeline_total_isa :
  forall load idx clk htime dtd sk text,
    env_ok_sinks load idx -> first_is_isa text ->
    match o_result (run_pipeline_gen load idx clk htime dtd sk text) with
    | Ok _ => True | Raise e => allowed e = true end.
Proof.
  intros load idx clk htime dtd sk text ((EL & ER & EI) & SK) FI. unfold run_pipeline_gen.
  destruct (header_ok text) eqn:HO.
  2:{ rewrite (raw_rejects text [] HO). exact Logic.I. }
  destruct (raw_chunk_independent text [] HO) as (r & RA & _).
  specialize (FI _ _ RA). rewrite RA. cbv zeta.
  pose proof (raw_spec_nonempty (seg_term (header_delims text)) text) as NE.
  set (lines := raw_spec _ _) in *.
  destruct (load (control_name (r_icvn r))) as [cm|e] eqn:LC; cbn [bind].
  2:{ exact (ER _ _ LC). }
  destruct idx as [ix|e] eqn:EX; cbn [bind].
  2:{ exact (EI e eq_refl). }
  destruct (map_ok_paths _ (EL _ _ LC)) as (PI & _).
  destruct (getnode cm "/ISA_LOOP/ISA") as [n0|e] eqn:GN; cbn [bind]; [|exact PI].
  destruct PI as [MC _].
  set (E := {| de_load := load; de_idx := ix; de_cm := cm; de_d := delims_of r |}).
  set (d0 := Build_dstate _ _ _ _ _ _ _ _).
  set (s0 := Build_pstate _ _ _ _ _ _ _ _ _).
  assert (EO : EnvOK E) by (constructor; [exact EL | exact ER | exact MC]).
  assert (ES : EnvS E) by (constructor; [exact (SK _ _ LC) | exact SK]).
  assert (I0 : HInv (ds_errh d0)) by exact HInv_init.
  assert (SO0 : SelOK (ds_sel d0)) by (intros mp Hmp; discriminate Hmp).
  assert (K0 : KIc d0).
  { split; [exact H2_init|]. split; [apply ext_refl|]. split.
    - apply sinks_usable; [exact (SK _ _ LC) | eapply usable_isa; exact GN].
    - intros mp Hmp. discriminate Hmp. }
  assert (X : psafe (dop_ p_open htime dtd sk; dop_ p_lines E sk lines; p_finish clk sk) s0 (fun _ _ => True)).
  { qstep. eapply psafe_conseq; [apply p_open_safe|]. cbn beta. intros _ s1 [D1 T1].
    assert (V1 : ItInv (ds_errh (ps_d s1)) (ps_iter s1)) by (rewrite T1; apply C07_sink_iter.ItInv_init).
    qstep. destruct lines as [|ln rest].
    - cbn [p_lines]. qstep. apply p_finish_safe; rewrite D1; [exact I0 | right; split; reflexivity | exact K0].
    - cbn [p_lines]. inversion NE as [|? ? NE1 NE2]; subst. qstep.
      apply read_line_safe. rewrite D1. intros x' os es RL.
      destruct (FI _ _ _ _ RL) as (sg & -> & SI).
      set (s2 := set_d s1 _).
      qstep.
      eapply psafe_conseq; [apply p_step_safe; [exact ES | | exact K0 | | eapply reader_sid; eauto]|].
      + apply step_isa; [exact EO | exact SI | eapply reader_isa16; eauto | exact I0 | exact SO0].
      + cbn [s2 ps_d ps_iter set_d ds_errh with_pending with_x]. rewrite T1. apply C07_sink_iter.ItInv_init.
      + cbn beta. intros _ s3 P3.
        eapply psafe_conseq; [apply p_lines_good; [exact EO | exact ES | exact NE2 | exact P3]|]. cbn beta.
        intros _ s4 (G4 & K4 & _). destruct G4 as ((I4 & C4 & _) & _).
        apply p_finish_safe; [exact I4 | left; exact C4 | exact K4]. }
  unfold psafe in X.
  destruct ((dop_ p_open htime dtd sk; dop_ p_lines E sk lines; p_finish clk sk) s0) as [s1 [b|e]];
    rewrite o_result_outputs_of; [exact Logic.I | exact X].
Qed.

Theorem pipeline_total :
  forall load idx clk htime dtd sk text,
    env_ok_sinks load idx -> plain_delims text = true ->
    match o_result (run_pipeline_gen load idx clk htime dtd sk text) with
    | Ok _ => True | Raise e => allowed e = true end.
Proof.
  intros load idx clk htime dtd sk text EO P.
  apply pipeline_total_isa; [exact EO | apply plain_delims_first_isa; exact P].
Qed.

Print Assumptions pipeline_total.
