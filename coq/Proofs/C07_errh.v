(* C07_errh.v — the error handler's operations (Model/Errh.v) are safe under cursor preconditions:
   each returns, or raises EngineError (a segment of the wrong id handed to a constructor), keeps the
   heap invariant HInv and never unsets a cursor. *)
From Coq Require Import String.
From PX.Lib Require Import Base PyStr PyInt.
From PX.Model Require Import Path Segment Errh.
From PX.Spec Require Import C07_spec.

Local Definition l (x : string) : str := list_ascii_of_string x.

(* ------------------------------------------------------------------ *)
(* seg_get_value with a constant designator                             *)

Lemma nth_res_lt {A} : forall (xs : list A) n, n < length xs -> exists a, nth_res xs n = Ok a.
Proof.
  induction xs as [|x xs IH]; intros n H; cbn [length] in H; [lia|].
  destruct n as [|n]; cbn [nth_res]; [eauto|]. apply IH. lia.
Qed.

Definition ok_or_engine {A} (r : result A) : Prop :=
  match r with Ok _ => True | Raise e => e = EngineError end.

Lemma get_value_safe ref xp n :
  parse_path ref = Ok xp -> ele_idx xp = Some n -> (0 < n)%N -> subele_idx xp = None ->
  forall d s, ok_or_engine (seg_get_value d s ref).
Proof.
  intros P E N S d s. unfold seg_get_value, seg_get, parse_refdes. rewrite P. cbn [bind].
  rewrite E, S. cbn [option_map].
  assert (G : exists g, get_ix s (Some (Z.of_N n - 1)%Z, None) = Ok g).
  { unfold get_ix. cbn [fst snd].
    destruct (Z.of_nat (length (els s)) <=? Z.of_N n - 1)%Z eqn:L; [eauto|].
    apply Z.leb_gt in L. unfold py_nth.
    destruct (Z.of_N n - 1 <? 0)%Z eqn:L0; [apply Z.ltb_lt in L0; lia|].
    destruct (nth_res_lt (els s) (Z.to_nat (Z.of_N n - 1))) as [a Ha]; [lia|].
    rewrite Ha. cbn [bind]. eauto. }
  destruct G as [g G].
  destruct (seg_id xp) as [x|]; [destruct (opt_eqb str_eqb (Some x) (sid s))|]; cbn [bind];
    try rewrite G; cbn [bind]; exact I || reflexivity.
Qed.

Ltac gv_safe := intros; eapply get_value_safe; [vm_compute; reflexivity | reflexivity | reflexivity | reflexivity].

Lemma gv_ISA09 d s : ok_or_engine (seg_get_value d s (l "ISA09")). Proof. gv_safe. Qed.
Lemma gv_ISA10 d s : ok_or_engine (seg_get_value d s (l "ISA10")). Proof. gv_safe. Qed.
Lemma gv_ISA12 d s : ok_or_engine (seg_get_value d s (l "ISA12")). Proof. gv_safe. Qed.
Lemma gv_ISA13 d s : ok_or_engine (seg_get_value d s (l "ISA13")). Proof. gv_safe. Qed.
Lemma gv_ISA14 d s : ok_or_engine (seg_get_value d s (l "ISA14")). Proof. gv_safe. Qed.
Lemma gv_GS01 d s : ok_or_engine (seg_get_value d s (l "GS01")). Proof. gv_safe. Qed.
Lemma gv_GS08 d s : ok_or_engine (seg_get_value d s (l "GS08")). Proof. gv_safe. Qed.
Lemma gv_ST01 d s : ok_or_engine (seg_get_value d s (l "ST01")). Proof. gv_safe. Qed.
Lemma gv_ST03 d s : ok_or_engine (seg_get_value d s (l "ST03")). Proof. gv_safe. Qed.
Lemma gv_GE01 d s : ok_or_engine (seg_get_value d s (l "GE01")). Proof. gv_safe. Qed.
Lemma gv_BHT02 d s : ok_or_engine (seg_get_value d s (l "BHT02")). Proof. gv_safe. Qed.

(* ------------------------------------------------------------------ *)
(* the constructors                                                     *)

Ltac xg H := let E := fresh "E" in
  unfold xget;
  match goal with |- context [bind (seg_get_value ?d ?s ?r) _] =>
    pose proof (H d s) as E; change (ok_or_engine (seg_get_value d s r)) in E;
    destruct (seg_get_value d s r); cbn [bind]; cbn [ok_or_engine] in E; [clear E | exact E]
  end.

Lemma mk_isa_safe x src :
  match mk_isa x src with Ok n => in_line_isa n = src_line src | Raise e => e = EngineError end.
Proof. unfold mk_isa. xg gv_ISA13. xg gv_ISA14. xg gv_ISA09. xg gv_ISA10. reflexivity. Qed.

Lemma mk_gs_safe x src :
  match mk_gs x src with Ok n => gn_line_gs n = src_line src | Raise e => e = EngineError end.
Proof. unfold mk_gs. xg gv_GS01. xg gv_GS08. reflexivity. Qed.

Lemma mk_st_safe x src :
  match mk_st x src with Ok n => tn_line_st n = src_line src | Raise e => e = EngineError end.
Proof. unfold mk_st. xg gv_ST01. xg gv_ST03. reflexivity. Qed.

Lemma ge01_safe x : ok_or_engine (ge01_count x).
Proof.
  unfold ge01_count. xg gv_GE01.
  match goal with |- context [match ?o with Some _ => _ | None => _ end] => destruct o as [s|] end;
    [destruct (py_int s)|]; exact I.
Qed.

(* ------------------------------------------------------------------ *)
(* the heap invariant                                                   *)

Definition ref_valid (h : errh) (r : nref) : Prop :=
  match r with
  | NIsa i => i < length (h_isa h) | NGs i => i < length (h_gs h)
  | NSt i => i < length (h_st h) | NSeg i => i < length (h_seg h)
  end.

Record HInv (h : errh) : Prop := {
  hv_isa : forall i, c_isa h = Some i -> i < length (h_isa h);
  hv_gs : forall i, c_gs h = Some i -> i < length (h_gs h);
  hv_st : forall i, c_st h = Some i -> i < length (h_st h);
  hv_seg : forall r, c_seg h = Some r -> ref_valid h r;
  hv_added : seg_added h = false -> c_st h = None \/ exists k, c_seg h = Some (NSeg k);
  hv_ea : ele_added h <> None -> c_ele h <> None;
  hv_lisa : Forall (fun n => in_line_isa n <> None) (h_isa h);
  hv_lgs : Forall (fun n => gn_line_gs n <> None) (h_gs h);
  hv_lst : Forall (fun n => tn_line_st n <> None) (h_st h);
  hv_lseg : Forall (fun n => sn_cur_line n <> None) (h_seg h)
}.

Definition mono (h h' : errh) : Prop :=
  (c_isa h <> None -> c_isa h' <> None) /\ (c_gs h <> None -> c_gs h' <> None) /\
  (c_st h <> None -> c_st h' <> None) /\ (c_seg h <> None -> c_seg h' <> None) /\
  (ele_added h <> None -> ele_added h' <> None).

Lemma mono_refl h : mono h h.
Proof. unfold mono; tauto. Qed.

Lemma mono_trans a b c : mono a b -> mono b c -> mono a c.
Proof. unfold mono; tauto. Qed.

Lemma HInv_init : HInv errh_init.
Proof. constructor; cbn; intros; try discriminate; try constructor; try congruence. Qed.

Definition hsafe (c : SE errh unit) (h : errh) (Q : errh -> Prop) : Prop :=
  match c h with
  | (h', Ok _) => HInv h' /\ mono h h' /\ Q h'
  | (_, Raise e) => allowed e = true
  end.

Lemma upd_nth_length {A} (f : A -> A) : forall xs n, length (upd_nth xs n f) = length xs.
Proof. induction xs as [|x xs IH]; intros [|n]; cbn; auto. Qed.

Lemma Forall_upd_nth {A} (P : A -> Prop) (f : A -> A) :
  (forall x, P x -> P (f x)) -> forall xs n, Forall P xs -> Forall P (upd_nth xs n f).
Proof.
  intros Hf. induction xs as [|x xs IH]; intros [|n] H; cbn; auto; inversion H; subst; constructor; auto.
Qed.

Lemma Forall_snoc {A} (P : A -> Prop) xs x : Forall P xs -> P x -> Forall P (xs ++ [x]).
Proof. intros H Hx. apply Forall_app. split; [exact H | constructor; [exact Hx | constructor]]. Qed.

Lemma nth_error_lt {A} (xs : list A) i : i < length xs -> exists a, nth_error xs i = Some a.
Proof. intros H. destruct (nth_error xs i) eqn:E; [eauto|]. apply nth_error_None in E. lia. Qed.

Lemma Forall_nth {A} (P : A -> Prop) xs i a : Forall P xs -> nth_error xs i = Some a -> P a.
Proof. intros H E. rewrite Forall_forall in H. apply H. eapply nth_error_In; eauto. Qed.

Global Hint Rewrite @upd_nth_length @app_length : hlen.

(* ---- node.get_cur_line() of the current node is an int ---- *)
Lemma node_cur_line_ok h r : HInv h -> ref_valid h r -> exists z, node_cur_line r h = (h, Ok (Some z)).
Proof.
  intros I V. destruct r as [i|i|i|i]; cbn [ref_valid] in V;
    unfold node_cur_line, get_isa, get_gs, get_st, get_seg, se_bind, se_get, heap_get, se_lift, se_ret;
    destruct (nth_error_lt _ _ V) as [n En]; rewrite En.
  - pose proof (Forall_nth _ _ _ _ (hv_lisa h I) En) as L. cbn beta in L. unfold isa_cur_line.
    destruct (in_line_iea n) as [z|] eqn:Ez; cbn [truthy_Z].
    + destruct (negb (z =? 0)%Z); [eauto|]. destruct (in_line_isa n); [eauto|congruence].
    + destruct (in_line_isa n); [eauto|congruence].
  - pose proof (Forall_nth _ _ _ _ (hv_lgs h I) En) as L. cbn beta in L. unfold gs_cur_line.
    destruct (gn_line_ge n) as [z|] eqn:Ez; cbn [truthy_Z].
    + destruct (negb (z =? 0)%Z); [eauto|]. destruct (gn_line_gs n); [eauto|congruence].
    + destruct (gn_line_gs n); [eauto|congruence].
  - pose proof (Forall_nth _ _ _ _ (hv_lst h I) En) as L. cbn beta in L. unfold st_cur_line.
    destruct (tn_line_se n) as [z|] eqn:Ez; cbn [truthy_Z].
    + destruct (negb (z =? 0)%Z); [eauto|]. destruct (tn_line_st n); [eauto|congruence].
    + destruct (tn_line_st n); [eauto|congruence].
  - pose proof (Forall_nth _ _ _ _ (hv_lseg h I) En) as L. cbn beta in L.
    destruct (sn_cur_line n); [eauto|congruence].
Qed.

(* ------------------------------------------------------------------ *)
(* the operations                                                       *)

Ltac inj_some :=
  repeat match goal with
         | H : Some _ = Some _ |- _ => injection H as H; try subst
         | H : Some _ = None |- _ => discriminate H
         | H : None = Some _ |- _ => discriminate H
         end.

Ltac hsolve1 :=
  try solve [ lia | congruence | eauto | discriminate | tauto
            | apply Forall_snoc; [assumption | cbn; congruence]
            | repeat (apply Forall_upd_nth; [intros ? ?; cbn; assumption |]); assumption
            | match goal with H : forall i, _ = Some i -> _ |- _ => solve [apply H; assumption | specialize (H _ eq_refl); cbn in H; lia] end
            | match goal with E : _ = Some ?p |- context [Some ?p] => rewrite <- E; solve [eauto | tauto] end
            | match goal with
              | Hs : forall r, c_seg ?h = Some r -> ref_valid ?h r, H : c_seg ?h = Some ?r |- ref_valid _ ?r =>
                  specialize (Hs r H); destruct r; cbn in *; autorewrite with hlen; cbn [length]; lia
              end ].

Ltac hsolve :=
  cbn; intros; inj_some; cbn; autorewrite with hlen; cbn [length ref_valid];
  repeat match goal with |- _ /\ _ => split end; intros; hsolve1.

Lemma add_isa_loop_safe x src h :
  HInv h -> src_line src <> None ->
  hsafe (add_isa_loop x src) h (fun h' => c_isa h' <> None /\ c_seg h' <> None).
Proof.
  intros I L. unfold hsafe, add_isa_loop, se_bind, se_lift, se_mod.
  pose proof (mk_isa_safe x src) as M. destruct (mk_isa x src) as [n|e]; [|subst; reflexivity].
  destruct I as [Hisa Hgs Hst Hseg Hadd Hea Lisa Lgs Lst Lseg].
  split; [constructor|split; [unfold mono|]]; hsolve.
Qed.

Ltac hstart I :=
  unfold hsafe; destruct I as [Hisa Hgs Hst Hseg Hadd Hea Lisa Lgs Lst Lseg].
Ltac hfin := split; [constructor|split; [unfold mono|]]; hsolve.

Lemma add_gs_loop_safe x src h :
  HInv h -> src_line src <> None -> c_isa h <> None ->
  hsafe (add_gs_loop x src) h (fun h' => c_gs h' <> None /\ c_seg h' <> None).
Proof.
  intros I L C. unfold hsafe, add_gs_loop, se_bind, se_get, deref, se_lift, se_mod, mod_isa.
  destruct (c_isa h) as [p|] eqn:Ep; [|congruence].
  pose proof (mk_gs_safe x src) as M. destruct (mk_gs x src) as [n|e]; [|subst; reflexivity].
  destruct I as [Hisa Hgs Hst Hseg Hadd Hea Lisa Lgs Lst Lseg]. hfin.
Qed.

Lemma add_st_loop_safe x src h :
  HInv h -> src_line src <> None -> c_gs h <> None ->
  hsafe (add_st_loop x src) h (fun h' => c_st h' <> None /\ c_seg h' <> None).
Proof.
  intros I L C. unfold hsafe, add_st_loop, se_bind, se_get, deref, se_lift, se_mod, mod_gs.
  destruct (c_gs h) as [p|] eqn:Ep; [|congruence].
  pose proof (mk_st_safe x src) as M. destruct (mk_st x src) as [n|e]; [|subst; reflexivity].
  destruct I as [Hisa Hgs Hst Hseg Hadd Hea Lisa Lgs Lst Lseg]. hfin.
Qed.

Lemma add_seg_safe mn x sc cl ls h :
  HInv h -> hsafe (add_seg mn x (Some sc) (Some cl) ls) h (fun h' => c_seg h' <> None).
Proof.
  intros I. unfold hsafe, add_seg, se_mod.
  destruct I as [Hisa Hgs Hst Hseg Hadd Hea Lisa Lgs Lst Lseg]. hfin.
Qed.

Lemma add_ele_safe mn h :
  HInv h -> c_seg h <> None -> hsafe (add_ele mn) h (fun h' => ele_added h' <> None).
Proof.
  intros I C. unfold hsafe, add_ele, se_bind, se_get, deref, se_lift, se_mod.
  destruct (c_seg h) as [p|] eqn:Ep; [|congruence].
  destruct I as [Hisa Hgs Hst Hseg Hadd Hea Lisa Lgs Lst Lseg]. hfin.
Qed.

Lemma isa_cl n : in_line_isa n <> None -> exists z, isa_cur_line n = Some z.
Proof.
  intros L. unfold isa_cur_line. destruct (in_line_iea n) as [z|]; cbn [truthy_Z].
  - destruct (negb (z =? 0)%Z); [eauto|]. destruct (in_line_isa n); [eauto|congruence].
  - destruct (in_line_isa n); [eauto|congruence].
Qed.
Lemma gs_cl n : gn_line_gs n <> None -> exists z, gs_cur_line n = Some z.
Proof.
  intros L. unfold gs_cur_line. destruct (gn_line_ge n) as [z|]; cbn [truthy_Z].
  - destruct (negb (z =? 0)%Z); [eauto|]. destruct (gn_line_gs n); [eauto|congruence].
  - destruct (gn_line_gs n); [eauto|congruence].
Qed.
Lemma st_cl n : tn_line_st n <> None -> exists z, st_cur_line n = Some z.
Proof.
  intros L. unfold st_cur_line. destruct (tn_line_se n) as [z|]; cbn [truthy_Z].
  - destruct (negb (z =? 0)%Z); [eauto|]. destruct (tn_line_st n); [eauto|congruence].
  - destruct (tn_line_st n); [eauto|congruence].
Qed.

Lemma isa_error_safe c m h : HInv h -> c_isa h <> None -> hsafe (isa_error c m) h (fun _ => True).
Proof.
  intros I C. cbv [hsafe isa_error se_bind se_get deref se_lift get_isa heap_get mod_isa se_mod].
  destruct (c_isa h) as [i|] eqn:Ei; [|congruence].
  destruct I as [Hisa Hgs Hst Hseg Hadd Hea Lisa Lgs Lst Lseg].
  destruct (nth_error_lt _ _ (Hisa i Ei)) as [n En]. rewrite En.
  destruct (isa_cl n (Forall_nth _ _ _ _ Lisa En)) as [z Ez]. rewrite Ez. cbn [fmt_i]. hfin.
Qed.

Lemma gs_error_safe c m h : HInv h -> hsafe (gs_error c m) h (fun _ => True).
Proof.
  intros I. cbv [hsafe gs_error se_bind se_get deref se_lift get_gs heap_get mod_gs se_mod].
  destruct (c_gs h) as [i|] eqn:Ei.
  - destruct I as [Hisa Hgs Hst Hseg Hadd Hea Lisa Lgs Lst Lseg].
    destruct (nth_error_lt _ _ (Hgs i Ei)) as [n En]. rewrite En.
    destruct (gs_cl n (Forall_nth _ _ _ _ Lgs En)) as [z Ez]. rewrite Ez. cbn [fmt_i]. hfin.
  - destruct (c_isa h) eqn:Eisa.
    + apply isa_error_safe; [exact I | congruence].
    + unfold se_ret. split; [exact I | split; [apply mono_refl | exact Logic.I]].
Qed.

Lemma st_error_safe c m h : HInv h -> hsafe (st_error c m) h (fun _ => True).
Proof.
  intros I. cbv [hsafe st_error se_bind se_get deref se_lift get_st heap_get mod_st se_mod].
  destruct (c_st h) as [i|] eqn:Ei.
  - destruct I as [Hisa Hgs Hst Hseg Hadd Hea Lisa Lgs Lst Lseg].
    destruct (nth_error_lt _ _ (Hst i Ei)) as [n En]. rewrite En.
    destruct (st_cl n (Forall_nth _ _ _ _ Lst En)) as [z Ez]. rewrite Ez. cbn [fmt_i]. hfin.
  - destruct (c_isa h) eqn:Eisa.
    + apply isa_error_safe; [exact I | congruence].
    + unfold se_ret. split; [exact I | split; [apply mono_refl | exact Logic.I]].
Qed.

(* ---- operations that return and leave every cursor as it is ---- *)
Definition cursors_eq (h h' : errh) : Prop :=
  c_isa h' = c_isa h /\ c_gs h' = c_gs h /\ c_st h' = c_st h /\ c_seg h' = c_seg h /\
  c_ele h' = c_ele h /\ ele_added h' = ele_added h.

Lemma cursors_eq_mono h h' : cursors_eq h h' -> mono h h'.
Proof. intros (a & b & c & d & e & f). unfold mono. rewrite a, b, c, d, f. tauto. Qed.

Lemma cursors_eq_trans a b c : cursors_eq a b -> cursors_eq b c -> cursors_eq a c.
Proof. unfold cursors_eq. intros (a1&a2&a3&a4&a5&a6) (b1&b2&b3&b4&b5&b6). repeat split; congruence. Qed.

Lemma add_cur_seg_ok h : HInv h -> exists h', add_cur_seg h = (h', Ok tt) /\ HInv h' /\ cursors_eq h h'.
Proof.
  intros I. cbv [add_cur_seg se_bind se_get se_ret mod_st se_mod se_raise].
  destruct (seg_added h) eqn:Ea.
  { exists h. split; [reflexivity|]. split; [exact I|]. unfold cursors_eq; tauto. }
  destruct (c_st h) as [t|] eqn:Et.
  2:{ exists h. split; [reflexivity|]. split; [exact I|]. unfold cursors_eq; tauto. }
  destruct (hv_added h I Ea) as [N|[k Ek]]; [congruence|]. rewrite Ek.
  eexists. split; [reflexivity|].
  destruct I as [Hisa Hgs Hst Hseg Hadd Hea Lisa Lgs Lst Lseg].
  split; [constructor|unfold cursors_eq]; hsolve.
Qed.

Definition seg_error_tail (src_ln : option Z) : SE errh unit :=
  dos h <- se_get;
  if truthy_Z src_ln then se_ret tt
  else match c_seg h with
       | None => se_ret tt
       | Some r => dos ln <- node_cur_line r; dos _ <- se_lift (fmt_i ln); se_ret tt
       end.

Lemma seg_error_tail_ok ln hx : HInv hx -> seg_error_tail ln hx = (hx, Ok tt).
Proof.
  intros Ix. cbv [seg_error_tail se_bind se_get se_ret se_lift].
  destruct (truthy_Z ln); [reflexivity|].
  destruct (c_seg hx) as [r|] eqn:Er; [|reflexivity].
  destruct (node_cur_line_ok hx r Ix (hv_seg hx Ix r Er)) as [z Ez]. rewrite Ez. reflexivity.
Qed.

Lemma seg_error_ok c m v ln h :
  HInv h -> exists h', seg_error c m v ln h = (h', Ok tt) /\ HInv h' /\ cursors_eq h h'.
Proof.
  intros I.
  change (seg_error c m v ln) with
    (dos _ <- se_try (
       dos_ add_cur_seg;
       dos h <- se_get;
       dos r <- deref (c_seg h);
       match r with
       | NSeg k => mod_seg k (fun n => seg_set_errors n (sn_errors n ++ [(c, m, v)]))
       | _ => se_raise TypeError
       end);
     seg_error_tail ln).
  cbv [se_try se_bind se_get deref se_lift se_raise mod_seg se_mod].
  destruct (add_cur_seg_ok h I) as (h1 & E1 & I1 & C1). rewrite E1.
  destruct (c_seg h1) as [[k|k|k|k]|] eqn:Es;
    try (rewrite (seg_error_tail_ok ln h1 I1); exists h1; split; [reflexivity|]; split; assumption).
  rewrite seg_error_tail_ok.
  - eexists. split; [reflexivity|]. split.
    + destruct I1 as [Hisa Hgs Hst Hseg Hadd Hea Lisa Lgs Lst Lseg]. constructor; hsolve.
    + eapply cursors_eq_trans; [exact C1|]. unfold cursors_eq; cbn; tauto.
  - destruct I1 as [Hisa Hgs Hst Hseg Hadd Hea Lisa Lgs Lst Lseg]. constructor; hsolve.
Qed.

Lemma seg_error_safe c m v ln h : HInv h -> hsafe (seg_error c m v ln) h (fun _ => True).
Proof.
  intros I. destruct (seg_error_ok c m v ln h I) as (h' & E & I' & C). unfold hsafe. rewrite E.
  split; [exact I'|]. split; [apply cursors_eq_mono; exact C | exact Logic.I].
Qed.

Lemma add_cur_ele_ok h :
  HInv h -> ele_added h <> None ->
  exists h', add_cur_ele h = (h', Ok tt) /\ HInv h' /\ mono h h' /\ c_seg h' = c_seg h /\ c_ele h' = c_ele h.
Proof.
  intros I A. cbv [add_cur_ele se_bind se_get deref se_lift se_ret se_raise se_mod].
  destruct (add_cur_seg_ok h I) as (h1 & E1 & I1 & C1). rewrite E1.
  pose proof C1 as (c1 & c2 & c3 & c4 & c5 & c6).
  destruct (ele_added h1) as [ea|] eqn:Ea; [|congruence].
  destruct ea; cbn [negb].
  { exists h1. split; [reflexivity|]. split; [exact I1|]. split; [apply cursors_eq_mono; exact C1|]. split; assumption. }
  destruct (c_seg h1) as [r|] eqn:Er.
  2:{ exists h1. split; [reflexivity|]. split; [exact I1|]. split; [apply cursors_eq_mono; exact C1|]. split; congruence. }
  destruct (c_ele h1) as [e|] eqn:Ee.
  2:{ exfalso. apply (hv_ea h1 I1); congruence. }
  assert (X : exists h2, append_element r e h1 = (h2, Ok tt) /\ HInv h2 /\ cursors_eq h1 h2).
  { destruct I1 as [Hisa Hgs Hst Hseg Hadd Hea Lisa Lgs Lst Lseg].
    destruct r as [k|k|k|k]; cbv [append_element mod_isa mod_gs mod_st mod_seg se_mod];
      (eexists; split; [reflexivity|]; split; [constructor; hsolve | unfold cursors_eq; cbn; tauto]). }
  destruct X as (h2 & E2 & I2 & C2). rewrite E2.
  pose proof C2 as (d1 & d2 & d3 & d4 & d5 & d6).
  eexists. split; [reflexivity|].
  destruct I2 as [Hisa Hgs Hst Hseg Hadd Hea Lisa Lgs Lst Lseg].
  split; [constructor; hsolve|]. split; [|cbn; split; congruence].
  unfold mono; cbn. repeat split; intros; congruence.
Qed.

Lemma ele_error_safe c m bad h :
  HInv h -> c_seg h <> None -> ele_added h <> None -> hsafe (ele_error c m bad) h (fun _ => True).
Proof.
  intros I S A. cbv [hsafe ele_error se_bind se_get deref se_lift se_ret mod_ele se_mod].
  destruct (add_cur_ele_ok h I A) as (h1 & E1 & I1 & M1 & Es & Ee). rewrite E1.
  destruct (c_ele h1) as [e|] eqn:Ece.
  2:{ exfalso. apply (hv_ea h I A). congruence. }
  destruct (c_seg h1) as [r|] eqn:Er; [|congruence].
  set (h2 := set_h_ele h1 _).
  assert (I2 : HInv h2).
  { subst h2. destruct I1 as [Hisa Hgs Hst Hseg Hadd Hea Lisa Lgs Lst Lseg]. constructor; hsolve. }
  assert (V : ref_valid h2 r) by (apply (hv_seg h2 I2); exact Er).
  destruct (node_cur_line_ok h2 r I2 V) as [z Ez]. rewrite Ez. cbn [fmt_i].
  split; [exact I2|]. split; [|exact Logic.I].
  eapply mono_trans; [exact M1|]. subst h2. unfold mono; cbn; tauto.
Qed.

Lemma close_isa_loop_safe src h :
  HInv h -> c_isa h <> None -> hsafe (close_isa_loop src) h (fun h' => c_seg h' <> None).
Proof.
  intros I C. cbv [hsafe close_isa_loop se_bind se_get deref se_lift mod_isa se_mod].
  destruct (c_isa h) as [i|] eqn:Ei; [|congruence].
  destruct I as [Hisa Hgs Hst Hseg Hadd Hea Lisa Lgs Lst Lseg]. hfin.
Qed.

Lemma close_gs_loop_safe x src h :
  HInv h -> c_gs h <> None -> hsafe (close_gs_loop (Some x) src) h (fun h' => c_seg h' <> None).
Proof.
  intros I C. cbv [hsafe close_gs_loop se_bind se_get deref se_lift get_gs heap_get mod_gs se_mod].
  destruct (c_gs h) as [i|] eqn:Ei; [|congruence].
  destruct (nth_error_lt _ _ (hv_gs h I i Ei)) as [n En]. rewrite En.
  pose proof (ge01_safe x) as G. destruct (ge01_count x) as [z|e]; cbn [ok_or_engine] in G; [|subst; reflexivity].
  destruct I as [Hisa Hgs Hst Hseg Hadd Hea Lisa Lgs Lst Lseg]. hfin.
Qed.

Lemma close_st_loop_safe src h :
  HInv h -> c_st h <> None -> hsafe (close_st_loop src) h (fun h' => c_seg h' <> None).
Proof.
  intros I C. cbv [hsafe close_st_loop se_bind se_get deref se_lift get_st heap_get mod_st se_mod].
  destruct (c_st h) as [i|] eqn:Ei; [|congruence].
  destruct (nth_error_lt _ _ (hv_st h I i Ei)) as [n En]. rewrite En.
  destruct I as [Hisa Hgs Hst Hseg Hadd Hea Lisa Lgs Lst Lseg]. hfin.
Qed.
