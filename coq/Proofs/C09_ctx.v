(* C09_ctx.v — X12ContextReader.iter_segments delivers every segment exactly once and in order.

   RESULT.  The statement asked for (`ctx_no_loss_no_reorder` for every map set) is FALSE: see
   `counterexample` at the end of this file (a map in which two sibling loops carry the same id lets
   _get_insert_idx put a new loop node in the MIDDLE of a children list; the run completes and yields
   ISA K P Q for the source ISA K Q P).  What is proved is `ctx_no_loss_no_reorder_partial`: the
   statement under the premise that in the final store every `children` list is in allocation order
   (Spec.children_in_allocation_order), i.e. that no insertion went anywhere but to the end. *)
From Coq Require Import String List ZArith Lia Sorted Permutation.
From PX.Lib Require Import Base PyStr PyInt Regex Xml.
From PX.Model Require Import Show Path Segment Raw Reader Syntax MapLoad MapTree Element Counter Walker MapEnv Driver Context CtxReader.
From PX.Spec Require Import C09_spec.
From PX.Proofs Require Import C09_reader C09_heap C09_addseg.
Import ListNotations.

(* ------------------------------------------------------------------ *)
(* the reader-state monad: inversion *)

Lemma c_bind_ok {A B} (m : C A) (f : A -> C B) s s' b :
  c_bind m f s = (s', Ok b) -> exists s1 a, m s = (s1, Ok a) /\ f a s1 = (s', Ok b).
Proof. unfold c_bind. destruct (m s) as [s1 [a|e]]; intros E; [eauto|discriminate]. Qed.

Lemma c_get_ok s s' a : c_get s = (s', Ok a) -> s' = s /\ a = s.
Proof. unfold c_get. intros E. injection E as <- <-. auto. Qed.
Lemma c_ret_ok {A} (v : A) s s' a : c_ret v s = (s', Ok a) -> s' = s /\ a = v.
Proof. unfold c_ret. intros E. injection E as <- <-. auto. Qed.
Lemma c_lift_ok {A} (r : result A) s s' a : c_lift r s = (s', Ok a) -> s' = s /\ r = Ok a.
Proof. unfold c_lift. intros E. injection E as <- E. auto. Qed.
Lemma c_mod_ok f s s' a : c_mod f s = (s', Ok a) -> s' = f s.
Proof. unfold c_mod. intros E. injection E as <- _. auto. Qed.
Lemma c_yield_ok o s s' a : c_yield o s = (s', Ok a) -> s' = set_out s ((cs_heap s, o) :: cs_out s).
Proof. unfold c_yield. apply c_mod_ok. Qed.
Lemma c_heap_ok {A} (m : H A) s s' a : c_heap m s = (s', Ok a) -> exists h', m (cs_heap s) = (h', Ok a) /\ s' = set_heap s h'.
Proof. unfold c_heap. destruct (m (cs_heap s)) as [h' r]. intros E. injection E as <- ->. eauto. Qed.

(* ------------------------------------------------------------------ *)
(* what finding the map node and selecting the map leave alone *)

Definition core (s : cstate) := (cs_heap s, cs_out s, cs_tree s, cs_data s, seg_count (cs_x s), cur_line (cs_x s)).

Definition Cframe {A} (m : C A) : Prop := forall s s' r, m s = (s', r) -> core s' = core s.

Lemma Cframe_ret {A} (a : A) : Cframe (c_ret a).
Proof. intros s s' r E. injection E as <- _. reflexivity. Qed.
Lemma Cframe_lift {A} (a : result A) : Cframe (c_lift a).
Proof. intros s s' r E. injection E as <- _. reflexivity. Qed.
Lemma Cframe_raise {A} e : Cframe (@c_raise A e).
Proof. intros s s' r E. injection E as <- _. reflexivity. Qed.
Lemma Cframe_get : Cframe c_get.
Proof. intros s s' r E. injection E as <- _. reflexivity. Qed.
Lemma Cframe_local {A} (v : option A) : Cframe (c_local v).
Proof. destruct v; [apply Cframe_ret|apply Cframe_raise]. Qed.
Lemma Cframe_mod f : (forall s, core (f s) = core s) -> Cframe (c_mod f).
Proof. intros F s s' r E. injection E as <- _. apply F. Qed.
Lemma Cframe_bind {A B} (m : C A) (f : A -> C B) : Cframe m -> (forall a, Cframe (f a)) -> Cframe (c_bind m f).
Proof.
  intros Hm Hf s s' r E. unfold c_bind in E. destruct (m s) as [s1 [a|e]] eqn:Em.
  - rewrite (Hf a _ _ _ E). eapply Hm; eauto.
  - injection E as <- _. eapply Hm; eauto.
Qed.

Ltac cframe :=
  repeat first
    [ apply Cframe_ret | apply Cframe_lift | apply Cframe_raise | apply Cframe_get | apply Cframe_local
    | (apply Cframe_mod; intros; reflexivity)
    | (apply Cframe_bind; [|intros])
    | match goal with
      | |- Cframe (if ?c then _ else _) => destruct c
      | |- Cframe (match ?c with _ => _ end) => destruct c
      end ].

Lemma Cframe_reset_counter a b : Cframe (reset_counter a b).
Proof. unfold reset_counter. cframe. Qed.

Lemma Cframe_switch_map E new : Cframe (ctx_switch_map E new).
Proof. unfold ctx_switch_map. cframe. Qed.

Lemma Cframe_find_node E s : Cframe (ctx_find_node E s).
Proof. unfold ctx_find_node. cframe. Qed.

Lemma Cframe_select_map E s : Cframe (ctx_select_map E s).
Proof.
  unfold ctx_select_map.
  repeat first
    [ apply Cframe_reset_counter | apply Cframe_switch_map
    | apply Cframe_ret | apply Cframe_lift | apply Cframe_raise | apply Cframe_get | apply Cframe_local
    | (apply Cframe_mod; intros; reflexivity)
    | (apply Cframe_bind; [|intros])
    | match goal with
      | |- Cframe (if ?c then _ else _) => destruct c
      | |- Cframe (match ?c with _ => _ end) => destruct c
      end ].
Qed.

(* ------------------------------------------------------------------ *)
(* the store only grows during the whole iteration *)

Definition Cmono {A} (m : C A) : Prop :=
  forall s s' r, m s = (s', r) -> all_live (cs_heap s) -> all_live (cs_heap s') /\ hle (cs_heap s) (cs_heap s').

Lemma Cmono_frame {A} (m : C A) : Cframe m -> Cmono m.
Proof.
  intros F s s' r E L. apply F in E. unfold core in E. injection E as E _ _ _ _ _. rewrite E. split; auto. apply hle_refl.
Qed.
Lemma Cmono_ret {A} (a : A) : Cmono (c_ret a). Proof. apply Cmono_frame, Cframe_ret. Qed.
Lemma Cmono_lift {A} (a : result A) : Cmono (c_lift a). Proof. apply Cmono_frame, Cframe_lift. Qed.
Lemma Cmono_raise {A} e : Cmono (@c_raise A e). Proof. apply Cmono_frame, Cframe_raise. Qed.
Lemma Cmono_get : Cmono c_get. Proof. apply Cmono_frame, Cframe_get. Qed.
Lemma Cmono_mod f : (forall s, cs_heap (f s) = cs_heap s) -> Cmono (c_mod f).
Proof. intros F s s' r E L. injection E as <- _. rewrite F. split; auto. apply hle_refl. Qed.
Lemma Cmono_yield o : Cmono (c_yield o).
Proof. apply Cmono_mod. reflexivity. Qed.
Lemma Cmono_bind {A B} (m : C A) (f : A -> C B) : Cmono m -> (forall a, Cmono (f a)) -> Cmono (c_bind m f).
Proof.
  intros Hm Hf s s' r E L. unfold c_bind in E. destruct (m s) as [s1 [a|e]] eqn:Em.
  - destruct (Hm _ _ _ Em L) as [L1 S1]. destruct (Hf a _ _ _ E L1) as [L2 S2]. split; auto. eapply hle_trans; eauto.
  - injection E as <- _. eapply Hm; eauto.
Qed.
Lemma Cmono_heap {A} (m : H A) : Hmono m -> Cmono (c_heap m).
Proof.
  intros Hm s s' r E L. unfold c_heap in E. destruct (m (cs_heap s)) as [h' r'] eqn:Em. injection E as <- _.
  simpl. eapply Hm; eauto.
Qed.

Lemma Cmono_stamp n : Cmono (stamp n).
Proof.
  unfold stamp. apply Cmono_bind; [apply Cmono_get|]. intros s. apply Cmono_heap. apply Hmono_mod; intros x; simpl; auto.
  apply subl_refl.
Qed.

Lemma Cmono_attach n w : Cmono (attach_errors n w).
Proof.
  unfold attach_errors. apply Cmono_bind; [apply Cmono_get|]. intros s.
  apply Cmono_bind; [apply Cmono_mod; reflexivity|]. intros _.
  apply Cmono_heap. apply Hmono_mod; intros x; simpl; auto. apply subl_refl.
Qed.

Lemma Cmono_step E sg : Cmono (ctx_step E sg).
Proof.
  unfold ctx_step.
  apply Cmono_bind; [apply Cmono_get|]. intros st0.
  apply Cmono_bind; [apply Cmono_frame, Cframe_find_node|]. intros [[[ok pop] push] werrs].
  apply Cmono_bind; [destruct ok; [apply Cmono_frame, Cframe_select_map | apply Cmono_mod; reflexivity]|]. intros _.
  apply Cmono_bind; [apply Cmono_get|]. intros st.
  apply Cmono_bind; [apply Cmono_lift|]. intros xp. cbv zeta.
  match goal with |- Cmono (if ?c then _ else _) => destruct c end.
  - apply Cmono_bind; [apply Cmono_lift|]. intros first.
    match goal with |- Cmono (if ?c then _ else _) => destruct c end.
    + apply Cmono_bind; [destruct (cs_tree st); [apply Cmono_yield|apply Cmono_ret]|]. intros _.
      apply Cmono_bind; [apply Cmono_heap, Hmono_new; reflexivity|]. intros t.
      apply Cmono_bind; [apply Cmono_mod; reflexivity|]. intros _.
      apply Cmono_bind; [apply Cmono_heap, Hmono_add_segment_node|]. intros n.
      apply Cmono_bind; [apply Cmono_mod; reflexivity|]. intros _. apply Cmono_stamp.
    + destruct (cs_data st); [|apply Cmono_raise].
      apply Cmono_bind; [apply Cmono_heap, Hmono_add_segment_node|]. intros n.
      apply Cmono_bind; [apply Cmono_mod; reflexivity|]. intros _. apply Cmono_stamp.
  - apply Cmono_bind.
    { destruct (cs_tree st); [|apply Cmono_ret]. apply Cmono_bind; [apply Cmono_yield|]. intros _. apply Cmono_mod; reflexivity. }
    intros _. apply Cmono_bind.
    { destruct (cs_data st).
      - apply Cmono_bind; [destruct (ce_loop E) as [[|c r]|]; try apply Cmono_ret; apply Cmono_lift|]. intros pop'.
        apply Cmono_bind; [apply Cmono_lift|]. intros pids. apply Cmono_bind; [apply Cmono_lift|]. intros qids.
        match goal with |- Cmono (if ?c then _ else _) => destruct c end; [apply Cmono_raise|].
        apply Cmono_heap, Hmono_new; reflexivity.
      - apply Cmono_heap, Hmono_new; reflexivity. }
    intros n. apply Cmono_bind; [apply Cmono_mod; reflexivity|]. intros _.
    apply Cmono_bind; [apply Cmono_stamp|]. intros _. apply Cmono_bind; [apply Cmono_attach|]. intros _.
    apply Cmono_bind; [apply Cmono_heap, Hmono_obj|]. intros nx. apply Cmono_bind; [apply Cmono_lift|]. intros i.
    apply Cmono_bind; [match goal with |- Cmono (if ?c then _ else _) => destruct c end; [apply Cmono_raise|apply Cmono_ret]|].
    intros _. apply Cmono_yield.
Qed.

Lemma Cmono_run E lines : Cmono (ctx_run_lines E lines).
Proof.
  induction lines as [|ln rest IH]; simpl.
  - apply Cmono_bind; [apply Cmono_get|]. intros st. destruct (cs_tree st); [apply Cmono_yield|apply Cmono_ret].
  - apply Cmono_bind; [apply Cmono_get|]. intros st. apply Cmono_bind; [apply Cmono_lift|]. intros [[x' os] es].
    apply Cmono_bind; [apply Cmono_mod; reflexivity|]. intros _.
    apply Cmono_bind; [destruct os; [apply Cmono_step|apply Cmono_ret]|]. intros _. exact IH.
Qed.

(* ------------------------------------------------------------------ *)
(* segment nodes and what iterate_segments reports of them *)

Definition good_leaf (h : heap) (o : oid) (tr : seg * Z * Z) : Prop :=
  exists x mn i xp sd c ln,
    nth_error h o = Some x /\ o_class x = CSeg /\ o_map x = Some mn /\ mn_id mn = Ok i /\ mn_x12path mn = Ok xp /\
    o_seg x = Some sd /\ o_seg_count x = Some c /\ o_cur_line x = Some ln /\ tr = (xg_s (sd_x sd), c, ln).

Lemma good_leaf_tr h o tr : good_leaf h o tr -> exists it, leaf_tr h o = g_one it /\ item_triple it = Ok tr.
Proof.
  intros (x & mn & i & xp & sd & c & ln & E & C & M & Ei & Ep & Es & Ec & El & ->).
  unfold leaf_tr. rewrite iter_S. unfold h_get. rewrite E. simpl. rewrite C, M, Ei. simpl. rewrite Ep. simpl.
  eexists. split; [reflexivity|]. unfold item_triple. simpl. rewrite Es, Ec, El. reflexivity.
Qed.

Lemma leaves_items h lv its :
  Forall2 (good_leaf h) lv its -> exists items, g_flat (leaf_tr h) lv = (items, None) /\ all_ok item_triple items = Ok its.
Proof.
  induction 1 as [|o tr lv its G F IH].
  - exists []. split; reflexivity.
  - destruct IH as (items & E1 & E2). destruct (good_leaf_tr _ _ _ G) as (it & Et & Etr).
    exists (it :: items). split.
    + rewrite g_flat_cons, Et, E1. reflexivity.
    + simpl. rewrite Etr. simpl. rewrite E2. reflexivity.
Qed.

Lemma yield_open h t lv fs its : Zopen h t lv fs -> Forall2 (good_leaf h) lv its -> yield_items (h, t) = Ok its.
Proof.
  intros (Z & N & R & Lv) G. unfold yield_items. simpl fst. simpl snd. rewrite <- R, (open_tree_iter _ _ Z N), Lv.
  destruct (leaves_items _ _ _ G) as (items & E1 & E2). rewrite E1. simpl. exact E2.
Qed.

Lemma yield_plain h n tr : good_leaf h n tr -> yield_items (h, n) = Ok [tr].
Proof.
  intros G. destruct (good_leaf_tr _ _ _ G) as (it & Et & Etr).
  destruct G as (x & mn & i & xp & sd & c & ln & E & C & M & Ei & Ep & Es & Ec & El & ->).
  unfold yield_items, node_iterate_segments. simpl fst. simpl snd.
  assert (iter_segments_tr (S (length h)) h n = leaf_tr h n) as ->.
  { unfold leaf_tr. rewrite !iter_S. unfold h_get. rewrite E. simpl. rewrite C. reflexivity. }
  rewrite Et. simpl. rewrite Etr. reflexivity.
Qed.

Lemma good_leaf_kept h h' o tr : segs_kept h h' -> good_leaf h o tr -> good_leaf h' o tr.
Proof.
  intros K (x & mn & i & xp & sd & c & ln & E & C & R). exists x, mn, i, xp, sd, c, ln. split; auto.
Qed.

Lemma good_leaves_kept h h' lv its : segs_kept h h' -> Forall2 (good_leaf h) lv its -> Forall2 (good_leaf h') lv its.
Proof. intros K F. induction F; constructor; auto. eapply good_leaf_kept; eauto. Qed.

Lemma good_leaf_lt h o tr : good_leaf h o tr -> o < length h.
Proof. intros (x & mn & i & xp & sd & c & ln & E & _). eapply nth_lt; eauto. Qed.

Lemma good_leaves_set h n y lv its :
  Forall (fun o => o <> n) lv -> Forall2 (good_leaf h) lv its -> Forall2 (good_leaf (set_nth h n y)) lv its.
Proof.
  intros N F. induction F as [|o tr lv its G F IH]; constructor; inversion N; subst; auto.
  destruct G as (x & mn & i & xp & sd & c & ln & E & R). exists x, mn, i, xp, sd, c, ln. split; auto.
  rewrite nth_set_nth_ne; auto.
Qed.

Lemma mn_is_segment_id a b : mn_is_segment a = Ok b -> exists i, mn_id a = Ok i.
Proof.
  unfold mn_is_segment, mn_id. destruct (mn_view a); simpl; [eauto|discriminate].
Qed.

(* cur_data_node.seg_count = ...; cur_data_node.cur_line_number = ... *)
Definition stampf (sc cl : Z) (x : dobj) : dobj :=
  {| o_class := o_class x; o_live := o_live x; o_map := o_map x; o_seg := o_seg x; o_parent := o_parent x;
     o_children := o_children x; o_seg_count := Some sc; o_cur_line := Some cl;
     o_start := o_start x; o_end := o_end x;
     o_err_isa := o_err_isa x; o_err_gs := o_err_gs x; o_err_st := o_err_st x; o_err_seg := o_err_seg x |}.

Lemma stamp_ok n s s' u :
  stamp n s = (s', Ok u) ->
  exists x, nth_error (cs_heap s) n = Some x /\
            s' = set_heap s (set_nth (cs_heap s) n (stampf (seg_count (cs_x s)) (cur_line (cs_x s)) x)).
Proof.
  unfold stamp. intros E. apply c_bind_ok in E. destruct E as (s1 & st & E1 & E). apply c_get_ok in E1. destruct E1 as [-> ->].
  apply c_heap_ok in E. destruct E as (h' & E & ->). unfold h_mod in E.
  apply h_bind_ok in E. destruct E as (h1 & x & E1 & E). apply h_obj_ok in E1. destruct E1 as [-> E1].
  unfold h_put in E. injection E as <-. exists x. auto.
Qed.

(* the fields of a segment node that attaching errors leaves alone *)
Definition seg_fields (x y : dobj) : Prop :=
  o_class y = o_class x /\ o_live y = o_live x /\ o_map y = o_map x /\ o_seg y = o_seg x /\ o_parent y = o_parent x /\
  o_children y = o_children x /\ o_seg_count y = o_seg_count x /\ o_cur_line y = o_cur_line x.

Lemma attach_ok n w s s' u :
  attach_errors n w s = (s', Ok u) ->
  exists x y, nth_error (cs_heap s) n = Some x /\ seg_fields x y /\
              s' = set_heap (set_pending s []) (set_nth (cs_heap s) n y).
Proof.
  unfold attach_errors. intros E. apply c_bind_ok in E. destruct E as (s1 & st & E1 & E). apply c_get_ok in E1. destruct E1 as [-> ->].
  apply c_bind_ok in E. destruct E as (s1 & u1 & E1 & E). apply c_mod_ok in E1. subst s1.
  apply c_heap_ok in E. destruct E as (h' & E & ->). unfold h_mod in E.
  apply h_bind_ok in E. destruct E as (h1 & x & E1 & E). apply h_obj_ok in E1. destruct E1 as [-> E1].
  unfold h_put in E. injection E as <-. simpl in E1. eexists x, _. split; [exact E1|]. split; [|reflexivity].
  repeat split.
Qed.

Lemma agree_set_nth h n x y : nth_error h n = Some x -> osame x y -> forall o, agree h (set_nth h n y) o.
Proof.
  intros E S o z Ez. destruct (Nat.eq_dec n o) as [<-|N].
  - exists y. split; [apply nth_set_nth_eq; eapply nth_lt; eauto|]. congruence.
  - exists z. split; [rewrite nth_set_nth_ne; auto|]. repeat split.
Qed.

(* ------------------------------------------------------------------ *)
(* the invariant of the `for seg in self.src` loop *)

Definition plain (h : heap) (cd : oid) : Prop :=
  exists x, nth_error h cd = Some x /\ is_seg_typed x = true /\ forall o, o_parent x <> RObj o.

Definition Inv (s : cstate) (pre : list (seg * Z * Z)) : Prop :=
  exists yss, Forall2 (fun y ys => yield_items y = Ok ys) (cs_out s) yss /\
  match cs_tree s with
  | None => concat (rev yss) = pre /\ match cs_data s with None => True | Some cd => plain (cs_heap s) cd end
  | Some t => exists lv its d L cd r x,
       Zopen (cs_heap s) t lv ((d, L ++ [TSeg cd]) :: r) /\ cs_data s = Some cd /\
       nth_error (cs_heap s) cd = Some x /\ o_parent x = RObj d /\
       Forall2 (good_leaf (cs_heap s)) lv its /\ concat (rev yss) ++ its = pre
  end.

Lemma Inv_core s s' pre : core s' = core s -> Inv s pre -> Inv s' pre.
Proof.
  unfold core, Inv. intros E. injection E as E1 E2 E3 E4 _ _. rewrite E1, E2, E3, E4. auto.
Qed.

(* _add_segment followed by the two assignments to the new node *)
Lemma add_stamp h t lv its fs cdn node x pop push h1 n y sc cl xp :
  Zopen h t lv fs -> all_live h ->
  (exists cdx, nth_error h cdn = Some cdx /\ (if is_seg_typed cdx then o_parent cdx else RObj cdn) = RObj (ftop fs)) ->
  Forall2 (good_leaf h) lv its ->
  add_segment_node cdn node x pop push h = (h1, Ok n) ->
  nth_error h1 n = Some y ->
  children_in_allocation_order (set_nth h1 n (stampf sc cl y)) ->
  mn_x12path node = Ok xp ->
  exists d L r x',
    Zopen (set_nth h1 n (stampf sc cl y)) t (lv ++ [n]) ((d, L ++ [TSeg n]) :: r) /\
    nth_error (set_nth h1 n (stampf sc cl y)) n = Some x' /\ o_parent x' = RObj d /\
    Forall2 (good_leaf (set_nth h1 n (stampf sc cl y))) (lv ++ [n]) (its ++ [(xg_s x, sc, cl)]).
Proof.
  intros ZO L Cur G E Ey S Ep.
  assert (all_live h1) as L1 by (eapply Hmono_add_segment_node; eauto).
  assert (children_in_allocation_order h1) as S1.
  { eapply hle_sorted; [|exact S]. eapply set_nth_mono; eauto.
    - simpl. unfold all_live in L1. rewrite Forall_forall in L1. apply L1. eapply nth_error_In; eauto.
    - simpl. apply subl_refl. }
  destruct (asn_spec _ _ _ _ _ _ _ _ _ _ _ ZO L S1 Cur E) as (d & Ls & r & ZO1 & Len & En & _ & K & Es).
  rewrite En in Ey. injection Ey as <-.
  assert (osame (new_seg (Some node) x (RObj d) [] []) (stampf sc cl (new_seg (Some node) x (RObj d) [] []))) as Os
    by (repeat split).
  pose proof (nth_lt _ _ _ En) as Ln.
  exists d, Ls, r, (stampf sc cl (new_seg (Some node) x (RObj d) [] [])). split; [|split; [|split]].
  - destruct ZO1 as (Z1 & N1 & R1 & Lv1). split; [|auto].
    eapply ZInv_agree; [| |exact Z1]; [intros o _; eapply agree_set_nth; eauto | rewrite set_nth_length; lia].
  - apply nth_set_nth_eq. exact Ln.
  - reflexivity.
  - apply Forall2_app.
    + apply good_leaves_set; [|eapply good_leaves_kept; eauto].
      clear -G Len. induction G; constructor; auto. apply good_leaf_lt in H. lia.
    + constructor; [|constructor]. destruct (mn_is_segment_id _ _ Es) as (i & Ei).
      eexists _, node, i, xp, (mk_sdata x), sc, cl. split; [apply nth_set_nth_eq; exact Ln|]. repeat split; auto.
Qed.

(* ------------------------------------------------------------------ *)
(* one segment of the loop *)

Definition Yok (y : heap * oid) (ys : list (seg * Z * Z)) : Prop := yield_items y = Ok ys.

Lemma concat_rev_cons {A} (x : list A) xs : concat (rev (x :: xs)) = concat (rev xs) ++ x.
Proof. simpl. rewrite concat_app. simpl. rewrite app_nil_r. reflexivity. Qed.

(* `if cur_tree is not None: yield cur_tree` *)
Lemma yield_old sb pre sc u :
  Inv sb pre ->
  (match cs_tree sb with Some t => c_yield t | None => c_ret tt end) sb = (sc, Ok u) ->
  cs_heap sc = cs_heap sb /\ cs_x sc = cs_x sb /\ cs_data sc = cs_data sb /\
  exists yss, Forall2 Yok (cs_out sc) yss /\ concat (rev yss) = pre.
Proof.
  intros (yss & F & M) E. destruct (cs_tree sb) as [t|].
  - apply c_yield_ok in E. subst sc. simpl. repeat split; auto.
    destruct M as (lv & its & d & L & cd & r & x & ZO & _ & _ & _ & G & M).
    exists (its :: yss). split; [constructor; auto; eapply yield_open; eauto|]. rewrite concat_rev_cons. exact M.
  - apply c_ret_ok in E. destruct E as [-> _]. repeat split; auto. exists yss. tauto.
Qed.

Lemma yield_old_reset sb pre sc u :
  Inv sb pre ->
  (match cs_tree sb with Some t => doc_ c_yield t; c_mod (fun st => set_tree st None) | None => c_ret tt end) sb = (sc, Ok u) ->
  cs_heap sc = cs_heap sb /\ cs_x sc = cs_x sb /\ cs_data sc = cs_data sb /\ cs_tree sc = None /\
  exists yss, Forall2 Yok (cs_out sc) yss /\ concat (rev yss) = pre.
Proof.
  intros (yss & F & M) E. destruct (cs_tree sb) as [t|] eqn:Et.
  - apply c_bind_ok in E. destruct E as (s1 & u1 & E1 & E). apply c_yield_ok in E1. subst s1.
    apply c_mod_ok in E. subst sc. simpl. repeat split; auto.
    destruct M as (lv & its & d & L & cd & r & x & ZO & _ & _ & _ & G & M).
    exists (its :: yss). split; [constructor; auto; eapply yield_open; eauto|]. rewrite concat_rev_cons. exact M.
  - apply c_ret_ok in E. destruct E as [-> _]. repeat split; auto. exists yss. tauto.
Qed.

Lemma asn_plain_fails h cd node x pop push h' n : plain h cd -> add_segment_node cd node x pop push h = (h', Ok n) -> False.
Proof.
  intros (cdx & Ecd & Ty & Par) E. rewrite asn_unfold in E.
  apply h_bind_ok in E. destruct E as (h1 & is_seg & E1 & E). apply h_lift_ok in E1. destruct E1 as [-> _].
  destruct (negb is_seg); [discriminate|].
  apply h_bind_ok in E. destruct E as (h1 & cd' & E1 & E). apply h_obj_ok in E1. destruct E1 as [-> E1].
  rewrite Ecd in E1. injection E1 as <-. cbv zeta in E. rewrite Ty in E.
  apply h_bind_ok in E. destruct E as (h1 & np & E1 & E). apply h_lift_ok in E1. destruct E1 as [-> _].
  apply h_bind_ok in E. destruct E as (h1 & lm & E1 & E). apply h_read_ok in E1. destruct E1 as [-> E1].
  destruct (o_parent cdx) as [|o|ms] eqn:Ep; simpl in E1; try discriminate. eapply Par; eauto.
Qed.

Lemma Zopen_fresh h m e :
  Zopen (h ++ [new_loop m e RNone]) (length h) [] [(length h, [])].
Proof.
  split; [|split; [discriminate|split; reflexivity]]. split.
  - constructor; [constructor|constructor].
  - simpl. split; auto. exists (new_loop m e RNone). split; [apply nth_app_new|]. repeat split.
  - simpl. constructor; [simpl; tauto|constructor].
  - simpl. constructor; [|constructor]. rewrite app_length. simpl. lia.
Qed.

Lemma Zopen_cd h t lv d L cd r x :
  Zopen h t lv ((d, L ++ [TSeg cd]) :: r) -> nth_error h cd = Some x -> is_seg_typed x = true.
Proof.
  intros ([Z1 _ _ _] & _) E. inversion Z1 as [|? ? Zd _]; subst. simpl in Zd.
  apply Forall_app in Zd. destruct Zd as [_ Zd]. inversion Zd as [|? ? R _]; subst.
  destruct R as (x0 & E0 & C & Lv). rewrite E in E0. injection E0 as <-. unfold is_seg_typed. rewrite C, Lv. reflexivity.
Qed.

Lemma step_inv E sg s s' pre :
  ctx_step E sg s = (s', Ok tt) -> all_live (cs_heap s) -> children_in_allocation_order (cs_heap s') -> Inv s pre ->
  Inv s' (pre ++ [(sg, seg_count (cs_x s), cur_line (cs_x s))]) /\ xeq (cs_x s') (cs_x s).
Proof.
  intros H L S I. unfold ctx_step in H.
  apply c_bind_ok in H. destruct H as (s1 & st0 & H1 & H). apply c_get_ok in H1. destruct H1 as [-> ->].
  apply c_bind_ok in H. destruct H as (sa & found & Hf & H).
  pose proof (Cframe_find_node _ _ _ _ _ Hf) as Ca.
  destruct found as [[[ok pop] push] werrs].
  apply c_bind_ok in H. destruct H as (sb & u & Hs & H).
  assert (core sb = core s) as Cb.
  { rewrite <- Ca. destruct ok; [eapply Cframe_select_map; eauto | apply c_mod_ok in Hs; subst; reflexivity]. }
  clear Hf Hs Ca.
  apply (Inv_core _ _ _ Cb) in I. unfold core in Cb. injection Cb as Eh _ _ _ Esc Ecl.
  rewrite <- Eh in L. rewrite <- Esc, <- Ecl.
  assert (forall x', xeq x' (cs_x sb) -> xeq x' (cs_x s)) as Xq by (unfold xeq; intros x' [? ?]; split; congruence).
  clear Eh Esc Ecl.
  apply c_bind_ok in H. destruct H as (s1 & st & H1 & H). apply c_get_ok in H1. destruct H1 as [-> ->].
  apply c_bind_ok in H. destruct H as (s1 & xp & H1 & H). apply c_lift_ok in H1. destruct H1 as [-> Exp].
  cbv zeta in H.
  match type of H with (if ?c then _ else _) _ = _ => destruct c eqn:Hin end.
  - apply c_bind_ok in H. destruct H as (s1 & first & H1 & H). apply c_lift_ok in H1. destruct H1 as [-> Efirst].
    match type of H with (if ?c then _ else _) _ = _ => destruct c eqn:Hst end.
    + (* a new tree starts *)
      apply c_bind_ok in H. destruct H as (sc & u1 & H1 & H).
      destruct (yield_old _ _ _ _ I H1) as (Hh & Hx & Hd & yss & F & M). clear H1.
      apply c_bind_ok in H. destruct H as (sd & t & H1 & H). apply c_heap_ok in H1. destruct H1 as (h1 & H1 & ->).
      unfold h_new in H1. injection H1 as <- <-.
      apply c_bind_ok in H. destruct H as (se & u2 & H1 & H). apply c_mod_ok in H1. subst se.
      apply c_bind_ok in H. destruct H as (sf & n & H1 & H). apply c_heap_ok in H1. destruct H1 as (h2 & H1 & ->).
      apply c_bind_ok in H. destruct H as (sg' & u3 & H2 & H). apply c_mod_ok in H2. subst sg'.
      apply stamp_ok in H. destruct H as (y & Ey & ->). simpl in H1, Ey, S. simpl.
      rewrite Hh in *. rewrite Hx in *.
      pose proof (Zopen_fresh (cs_heap sb) (Some (mn_parent (cs_node sb))) pop) as ZOf.
      assert (all_live (cs_heap sb ++ [new_loop (Some (mn_parent (cs_node sb))) pop RNone])) as Lf
        by (apply Forall_app; split; auto).
      assert (exists cdx, nth_error (cs_heap sb ++ [new_loop (Some (mn_parent (cs_node sb))) pop RNone]) (length (cs_heap sb)) = Some cdx /\
                (if is_seg_typed cdx then o_parent cdx else RObj (length (cs_heap sb))) = RObj (ftop [(length (cs_heap sb), [])])) as Curf
        by (eexists; split; [apply nth_app_new|reflexivity]).
      destruct (add_stamp _ _ _ _ _ _ _ _ _ _ _ _ _ _ _ _ ZOf Lf Curf (Forall2_nil _) H1 Ey S Exp) as (d & Ls & r & x' & ZO & En & Pn & G).
      split; [|apply Xq; split; reflexivity].
      exists yss. split; [exact F|]. simpl.
      exists ([] ++ [n]), ([] ++ [(sg, seg_count (cs_x sb), cur_line (cs_x sb))]), d, Ls, n, r, x'.
      repeat split; auto; try apply ZO. simpl. rewrite M. reflexivity.
    + (* the tree goes on *)
      destruct (cs_data sb) as [cd|] eqn:Ecd; [|discriminate].
      apply c_bind_ok in H. destruct H as (sf & n & H1 & H). apply c_heap_ok in H1. destruct H1 as (h2 & H1 & ->).
      apply c_bind_ok in H. destruct H as (sg' & u3 & H2 & H). apply c_mod_ok in H2. subst sg'.
      apply stamp_ok in H. destruct H as (y & Ey & ->). simpl in Ey, S. simpl.
      destruct I as (yss & F & M). destruct (cs_tree sb) as [t|] eqn:Et.
      * destruct M as (lv & its & d & Ls & cd' & r & x & ZO & Ecd' & Ex & Px & G & M).
        rewrite Ecd in Ecd'. injection Ecd' as <-.
        assert (exists cdx, nth_error (cs_heap sb) cd = Some cdx /\
                  (if is_seg_typed cdx then o_parent cdx else RObj cd) = RObj (ftop ((d, Ls ++ [TSeg cd]) :: r))) as Cur.
        { exists x. split; auto. rewrite (Zopen_cd _ _ _ _ _ _ _ _ ZO Ex). exact Px. }
        destruct (add_stamp _ _ _ _ _ _ _ _ _ _ _ _ _ _ _ _ ZO L Cur G H1 Ey S Exp) as (d' & Ls' & r' & x' & ZO' & En & Pn & G').
        split; [|apply Xq; split; reflexivity].
        exists yss. split; [exact F|]. simpl. rewrite Et.
        exists (lv ++ [n]), (its ++ [(sg, seg_count (cs_x sb), cur_line (cs_x sb))]), d', Ls', n, r', x'.
        repeat split; auto; try apply ZO'. rewrite app_assoc, M. reflexivity.
      * exfalso. destruct M as [_ P]. rewrite Ecd in P. eapply asn_plain_fails; eauto.
  - (* a segment outside the loop *)
    apply c_bind_ok in H. destruct H as (sc & u1 & H1 & H).
    destruct (yield_old_reset _ _ _ _ I H1) as (Hh & Hx & Hd & Ht & yss & F & M). clear H1.
    apply c_bind_ok in H. destruct H as (sd & n & H1 & H).
    assert (exists par stl, (forall o, par <> RObj o) /\ n = length (cs_heap sc) /\
              sd = set_heap sc (cs_heap sc ++ [new_seg (Some (cs_node sb)) {| xg_d := de_d (ce_d E); xg_s := sg |} par stl []]))
      as (par & stl & Par & -> & ->).
    { destruct (cs_data sb).
      - apply c_bind_ok in H1. destruct H1 as (s1 & pop' & H0 & H1).
        assert (s1 = sc) as ->
          by (destruct (ce_loop E) as [[|c r]|]; [apply c_ret_ok in H0|apply c_lift_ok in H0|apply c_ret_ok in H0]; tauto).
        apply c_bind_ok in H1. destruct H1 as (s1 & pids & H2 & H1). apply c_lift_ok in H2. destruct H2 as [-> _].
        apply c_bind_ok in H1. destruct H1 as (s1 & qids & H2 & H1). apply c_lift_ok in H2. destruct H2 as [-> _].
        match type of H1 with (if ?c then _ else _) _ = _ => destruct c end; [discriminate|].
        apply c_heap_ok in H1. destruct H1 as (h1 & H1 & ->). unfold h_new in H1. injection H1 as <- <-.
        exists (RList push), pop'. repeat split; auto. discriminate.
      - apply c_heap_ok in H1. destruct H1 as (h1 & H1 & ->). unfold h_new in H1. injection H1 as <- <-.
        exists RNone, []. repeat split; auto. discriminate. }
    clear H1.
    apply c_bind_ok in H. destruct H as (s1 & u2 & H1 & H). apply c_mod_ok in H1. subst s1.
    apply c_bind_ok in H. destruct H as (s1 & u3 & H1 & H). apply stamp_ok in H1. destruct H1 as (y & Ey & ->).
    apply c_bind_ok in H. destruct H as (s1 & u4 & H1 & H). apply attach_ok in H1. destruct H1 as (y1 & y2 & Ey1 & Sf & ->).
    apply c_bind_ok in H. destruct H as (s1 & nx & H1 & H). unfold c_obj in H1. apply c_heap_ok in H1.
    destruct H1 as (h1 & H1 & ->). apply h_obj_ok in H1. destruct H1 as [-> Enx].
    apply c_bind_ok in H. destruct H as (s1 & i & H1 & H). apply c_lift_ok in H1. destruct H1 as [-> Ei].
    apply c_bind_ok in H. destruct H as (s1 & u5 & H1 & H).
    match type of H1 with (if ?c then _ else _) _ = _ => destruct c end; [discriminate|].
    apply c_ret_ok in H1. destruct H1 as [-> _].
    apply c_yield_ok in H. subst s'. simpl in Ey, Ey1, Enx. simpl. rewrite Hh, Hx in *.
    rewrite nth_app_new in Ey. injection Ey as <-.
    rewrite nth_set_nth_eq in Ey1 by (rewrite app_length; simpl; lia). injection Ey1 as <-.
    rewrite nth_set_nth_eq in Enx by (rewrite set_nth_length, app_length; simpl; lia). injection Enx as <-.
    destruct Sf as (F1 & F2 & F3 & F4 & F5 & F6 & F7 & F8). simpl in F1, F2, F3, F4, F5, F6, F7, F8.
    set (h3 := set_nth _ (length (cs_heap sb)) y2).
    assert (nth_error h3 (length (cs_heap sb)) = Some y2) as E3
      by (apply nth_set_nth_eq; rewrite set_nth_length, app_length; simpl; lia).
    assert (good_leaf h3 (length (cs_heap sb)) (sg, seg_count (cs_x sb), cur_line (cs_x sb))) as G.
    { unfold obj_id in Ei. rewrite F3 in Ei.
      exists y2, (cs_node sb), i, xp, (mk_sdata {| xg_d := de_d (ce_d E); xg_s := sg |}), (seg_count (cs_x sb)), (cur_line (cs_x sb)).
      repeat split; auto. }
    split; [|apply Xq; split; reflexivity].
    unfold Inv. simpl. rewrite Ht. fold h3.
    exists ([(sg, seg_count (cs_x sb), cur_line (cs_x sb))] :: yss). split.
    + constructor; [apply yield_plain; exact G|exact F].
    + split; [rewrite concat_rev_cons, M; reflexivity|].
      exists y2. split; [exact E3|]. split; [unfold is_seg_typed; rewrite F1, F2; reflexivity|]. rewrite F5. exact Par.
Qed.

Lemma Inv_same s s' pre :
  cs_heap s' = cs_heap s -> cs_out s' = cs_out s -> cs_tree s' = cs_tree s -> cs_data s' = cs_data s -> Inv s pre -> Inv s' pre.
Proof. unfold Inv. intros -> -> -> ->. auto. Qed.

(* ------------------------------------------------------------------ *)
(* the loop *)

Lemma run_inv E : forall lines s s1 xs pre,
  ctx_run_lines E lines s = (s1, Ok tt) ->
  all_live (cs_heap s) -> children_in_allocation_order (cs_heap s1) ->
  Inv s pre -> xeq (cs_x s) xs ->
  exists rest_items yss,
    source_fold (de_d (ce_d E)) xs lines = Ok rest_items /\
    Forall2 Yok (cs_out s1) yss /\ concat (rev yss) = pre ++ rest_items.
Proof.
  induction lines as [|ln rest IH]; intros s s1 xs pre H L S I X.
  - simpl in H. apply c_bind_ok in H. destruct H as (s0 & st & H1 & H). apply c_get_ok in H1. destruct H1 as [-> ->].
    destruct (yield_old _ _ _ _ I H) as (_ & _ & _ & yss & F & M).
    exists [], yss. simpl. rewrite app_nil_r. auto.
  - change (ctx_run_lines E (ln :: rest)) with
      (doc st <- c_get;
       doc r <- c_lift (reader_line_opt (de_d (ce_d E)) (cs_x st) ln);
       match r with
       | (x', os, es) =>
           doc_ c_mod (fun st => set_pending (set_x st x') (cs_pending st ++ es));
           doc_ (match os with Some s => ctx_step E s | None => c_ret tt end);
           ctx_run_lines E rest
       end) in H.
    apply c_bind_ok in H. destruct H as (s0 & st & H1 & H). apply c_get_ok in H1. destruct H1 as [-> ->].
    apply c_bind_ok in H. destruct H as (s0 & [[x' os] es] & H1 & H). apply c_lift_ok in H1. destruct H1 as [-> Erl].
    apply c_bind_ok in H. destruct H as (sp & u1 & H1 & H). apply c_mod_ok in H1.
    apply c_bind_ok in H. destruct H as (s2 & u2 & Hstep & H).
    pose proof (rlo_proj (de_d (ce_d E)) _ _ ln X) as P. rewrite Erl in P. simpl in P.
    simpl source_fold.
    destruct (reader_line_opt (de_d (ce_d E)) xs ln) as [[[xs' os'] es']|e'] eqn:Es; simpl in P; [|discriminate].
    injection P as <- Hsc Hcl. simpl.
    assert (Inv sp pre) as Ip by (subst sp; eapply Inv_same; [| | | |exact I]; reflexivity).
    assert (all_live (cs_heap sp)) as Lp by (subst sp; exact L).
    assert (cs_x sp = x') as Xp by (subst sp; reflexivity).
    clear H1.
    destruct os as [sg|].
    + destruct u2.
      destruct (Cmono_step _ _ _ _ _ Hstep Lp) as [L2 _].
      destruct (Cmono_run _ _ _ _ _ H L2) as [_ Le].
      pose proof (hle_sorted _ _ Le S) as S2.
      destruct (step_inv _ _ _ _ _ Hstep Lp S2 Ip) as [I2 X2]. rewrite Xp in I2, X2.
      assert (xeq (cs_x s2) xs') as X2' by (destruct X2; split; congruence).
      destruct (IH _ _ _ _ H L2 S I2 X2') as (ri & yss & Ef & F & M).
      rewrite Ef. simpl. exists ((sg, seg_count xs', cur_line xs') :: ri), yss. split; auto. split; auto.
      rewrite M, <- app_assoc, Hsc, Hcl. reflexivity.
    + apply c_ret_ok in Hstep. destruct Hstep as [-> _].
      assert (xeq (cs_x sp) xs') as X2' by (rewrite Xp; split; auto).
      destruct (IH _ _ _ _ H Lp S Ip X2') as (ri & yss & Ef & F & M).
      rewrite Ef. simpl. exists ri, yss. auto.
Qed.

(* ------------------------------------------------------------------ *)
(* the theorem, under the premise that no insertion went into the middle of a children list *)

Theorem ctx_no_loss_no_reorder_partial :
  forall load idx loop_id text r,
    r = iter_segments_gen load idx loop_id text -> ir_res r = Ok tt ->
    children_in_allocation_order (ir_heap r) ->
    exists src yss,
      source_items text = Ok src /\
      Forall2 (fun y ys => yield_items y = Ok ys) (ir_yields r) yss /\
      concat yss = src.
Proof.
  intros load idx loop_id text r -> Hres Hs. unfold iter_segments_gen in *. unfold source_items.
  destruct (raw_all {| rest := text; sched := [] |}) as [[r0 lines]|e]; [|discriminate].
  destruct (do cm <- load (control_name (r_icvn r0)); do ix <- idx; do n0 <- getnode cm "/ISA_LOOP/ISA"; Ok (cm, ix, n0))
    as [[[cm ix] n0]|e]; [|discriminate].
  match type of Hres with context [ctx_run_lines ?E ?l ?s] => destruct (ctx_run_lines E l s) as [s1 res] eqn:Er end.
  simpl in Hres, Hs. subst res. simpl.
  match type of Er with ctx_run_lines ?E _ ?s0 = _ =>
    assert (Inv s0 []) as I0 by (exists []; split; [constructor|]; split; [reflexivity|exact Logic.I]);
    assert (xeq (cs_x s0) x_init) as X0 by (split; reflexivity);
    destruct (run_inv E lines s0 s1 x_init [] Er (Forall_nil _) Hs I0 X0) as (ri & yss & Ef & F & M)
  end.
  exists ri, (rev yss). split; [exact Ef|]. split; [apply Forall2_rev; exact F|exact M].
Qed.

(* ------------------------------------------------------------------ *)
(* without the premise the statement is false.
   One map serves as control map and transaction map.  /ISA_LOOP has the segment ISA and the loop G;
   G has three child loops: K (pos 5, first segment K), M (pos 10, first segment P) and a second loop
   with the SAME id M (pos 50, first segment Q).
   Source: ISA, K, Q, P.  For P the walker leaves the second M, leaves G, re-enters G and finds the
   first M; both M loops have the path /ISA_LOOP/G/M, so _add_segment takes the "same loop again"
   branch and calls G_node._add_loop_node(first M); _get_insert_idx places it by pos 10 — after the
   K node (pos 5) and BEFORE the node of the second M (pos 50).  iterate_segments then gives P before Q. *)

Local Definition cl (x : string) : str := list_ascii_of_string x.

Definition cex_elem : elem :=
  {| e_id := Some (cl "X01"); e_data_ele := Some (cl "1"); e_usage := Some (cl "R"); e_name := None; e_seq := 1;
     e_path := Some (cl "01"); e_max_use := None; e_res := None; e_rec := None; e_codes := []; e_external := None |}.
Definition cex_seg (id : string) (pos : Z) : node :=
  NSeg {| s_id := Some (cl id); s_path := Some (cl id); s_type := None; s_name := None; s_usage := Some (cl "S");
          s_pos := pos; s_max_use := None; s_repeat := None; s_end_tag := None; s_syntax := []; s_children := [SubE cex_elem] |}.
Definition cex_loop (id : string) (pos : Z) (kids : list node) : node :=
  NLoop (Some (cl id)) None None (Some (cl "S")) pos None [(0%Z, kids)].
Definition cex_map : xmap :=
  {| m_id := Some (cl "TEST"); m_name := None;
     m_pos_map := [(0%Z, [cex_loop "ISA_LOOP" 1
                            [cex_seg "ISA" 1;
                             cex_loop "G" 2 [cex_loop "K" 5 [cex_seg "K" 1];
                                             cex_loop "M" 10 [cex_seg "P" 1];
                                             cex_loop "M" 50 [cex_seg "Q" 1]]]])];
     m_dataele := [{| de_num := Some (cl "1"); de_type := Some (cl "AN"); de_min := 1; de_max := 99; de_name := None |}];
     m_codes := []; m_exclude := []; m_charset := cl "E"; m_icvn := None |}.
Definition cex_text : str :=
  cl ("ISA*00*          *00*          *ZZ*ZZ000          *ZZ*ZZ001          *030828*1128*U*00401*000010121*0*T*:~" ++
      "K*1~Q*1~P*1~").
Definition cex_run : iter_result := iter_segments_gen (fun _ => Ok cex_map) (Ok []) (Some (cl "ISA_LOOP")) cex_text.

Definition show_triples (ts : list (seg * Z * Z)) : list (option string * Z * Z) :=
  map (fun t => (option_map string_of_list_ascii (sid (fst (fst t))), snd (fst t), snd t)) ts.

Lemma cex_completes : ir_res cex_run = Ok tt.
Proof. vm_compute. reflexivity. Qed.

Lemma cex_source :
  match source_items cex_text with Ok src => show_triples src | Raise _ => [] end =
  [(Some "ISA", 0, 1); (Some "K", 1, 2); (Some "Q", 2, 3); (Some "P", 3, 4)]%string%Z.
Proof. vm_compute. reflexivity. Qed.

Lemma cex_yields :
  map (fun y => match yield_items y with Ok ys => Some (show_triples ys) | Raise _ => None end) (ir_yields cex_run) =
  [Some [(Some "ISA", 0, 1); (Some "K", 1, 2); (Some "P", 3, 4); (Some "Q", 2, 3)]]%string%Z.
Proof. vm_compute. reflexivity. Qed.

(* the children list of the G node: the node of the first M (7) went between K (3) and the second M (5) *)
Lemma cex_store : map o_children (ir_heap cex_run) = [[1; 2]; []; [3; 7; 5]; [4]; []; [6]; []; [8]; []].
Proof. vm_compute. reflexivity. Qed.

Lemma cex_one_yield : exists y0, ir_yields cex_run = [y0].
Proof. vm_compute. eexists. reflexivity. Qed.
Lemma cex_run_eq : cex_run = iter_segments_gen (fun _ => Ok cex_map) (Ok []) (Some (cl "ISA_LOOP")) cex_text.
Proof. unfold cex_run. reflexivity. Qed.

Theorem ctx_no_loss_no_reorder_false :
  ~ (forall load idx loop_id text r,
       r = iter_segments_gen load idx loop_id text -> ir_res r = Ok tt ->
       exists src yss,
         source_items text = Ok src /\
         Forall2 (fun y ys => yield_items y = Ok ys) (ir_yields r) yss /\
         concat yss = src).
Proof.
  intros Hall.
  destruct (Hall (fun _ => Ok cex_map) (Ok []) (Some (cl "ISA_LOOP")) cex_text cex_run cex_run_eq cex_completes)
    as (src & yss & Es & F & M).
  pose proof cex_source as Cs. rewrite Es in Cs.
  pose proof cex_yields as Cy.
  destruct cex_one_yield as (y0 & Ey0). rewrite Ey0 in F, Cy.
  inversion F as [|y ys l l' Ey F' E1 E2]; subst. inversion F'; subst.
  cbn [map] in Cy. rewrite Ey in Cy. simpl in Cs. rewrite app_nil_r in Cs.
  rewrite Cs in Cy. discriminate Cy.
Qed.
