(* C19_lemmas.v — auxiliary facts for C19_html.v: escaping as a character map, compositional
   "chunks" of report text for the tag stripper, the writer monad, numerals. *)
From Coq Require Import String Lia.
From PX.Lib Require Import Base PyStr.
From PX.Model Require Import Path Segment Errh ErrIter OutW Html.
From PX.Spec Require Import C17_spec C19_spec.
From PX.Proofs Require Import C17_path C17_segment C17_link.

Local Definition l (s : string) : str := list_ascii_of_string s.
Local Open Scope char_scope.

(* ---------- replace of a one-character pattern is a character map ---------- *)

Definition rep1 (c : ascii) (r : str) (x : ascii) : str := if Ascii.eqb x c then r else [x].

Lemma replace_fuel_char c r : forall s fuel, length s < fuel ->
  replace_fuel fuel [c] r s = flat_map (rep1 c r) s.
Proof.
  induction s as [|x s IH]; intros [|f] H; cbn [length] in H; try lia.
  - reflexivity.
  - cbn [replace_fuel starts_with flat_map length skipn]. unfold rep1 at 1.
    rewrite (Ascii.eqb_sym c x), andb_true_r.
    destruct (Ascii.eqb x c); rewrite IH by lia; reflexivity.
Qed.

Lemma replace_char c r s : replace [c] r s = flat_map (rep1 c r) s.
Proof. unfold replace. apply replace_fuel_char. lia. Qed.

Lemma esc_flat v :
  esc v = flat_map (rep1 "<" (l "&lt;")) (flat_map (rep1 ">" (l "&gt;"))
            (flat_map (rep1 " " (l "&nbsp;")) (flat_map (rep1 "&" (l "&amp;")) v))).
Proof.
  unfold esc, escape_html_chars. cbv zeta.
  change (Html.l "&") with ["&"]. change (Html.l " ") with [" "].
  change (Html.l ">") with [">"]. change (Html.l "<") with ["<"].
  rewrite !replace_char. reflexivity.
Qed.

Lemma esc_app a b : esc (a ++ b) = esc a ++ esc b.
Proof. rewrite !esc_flat, !flat_map_app. reflexivity. Qed.

Lemma esc_nil : esc [] = [].
Proof. reflexivity. Qed.

Lemma esc_cons c v : esc (c :: v) = esc [c] ++ esc v.
Proof. apply (esc_app [c] v). Qed.

Definition esc1 (c : ascii) : str :=
  if Ascii.eqb c "&" then l "&amp;"
  else if Ascii.eqb c " " then l "&nbsp;"
  else if Ascii.eqb c ">" then l "&gt;"
  else if Ascii.eqb c "<" then l "&lt;"
  else [c].

Lemma esc_one : forall c, esc [c] = esc1 c.
Proof.
  intros c. apply str_eqb_eq. revert c. apply forall_ascii. vm_compute. reflexivity.
Qed.

Lemma esc_one_no_angle : forall c,
  forallb (fun c => negb (Ascii.eqb c "<" || Ascii.eqb c ">")) (esc [c]) = true.
Proof. apply forall_ascii. vm_compute. reflexivity. Qed.

Lemma esc_nonempty c v : esc (c :: v) <> [].
Proof.
  rewrite esc_cons, esc_one. unfold esc1.
  destruct (Ascii.eqb c "&"); [discriminate|]. destruct (Ascii.eqb c " "); [discriminate|].
  destruct (Ascii.eqb c ">"); [discriminate|]. destruct (Ascii.eqb c "<"); discriminate.
Qed.

(* ---------- the stripper and the tag collector on one ordinary character ---------- *)

Lemma strip_other c r : c <> "<" -> c <> "&" -> strip false (c :: r) = c :: strip false r.
Proof.
  intros H1 H2.
  destruct c as [[] [] [] [] [] [] [] []]; try reflexivity; congruence.
Qed.

Lemma tags_other c r : c <> "<" -> tags_of None (c :: r) = tags_of None r.
Proof.
  intros H. apply Ascii.eqb_neq in H. cbn [tags_of]. rewrite H. reflexivity.
Qed.

(* ---------- chunks ---------- *)

Definition schunk (a p : str) : Prop := forall rest, strip false (a ++ rest) = p ++ strip false rest.
Definition tchunk (a : str) : Prop :=
  exists ts, incl ts report_tags /\ forall rest, tags_of None (a ++ rest) = ts ++ tags_of None rest.
Definition chunk (a p : str) : Prop := schunk a p /\ tchunk a.

Lemma chunk_nil : chunk [] [].
Proof.
  split; [intro; reflexivity|]. exists []. split; [intros t []|intro; reflexivity].
Qed.

Lemma chunk_app a p b q : chunk a p -> chunk b q -> chunk (a ++ b) (p ++ q).
Proof.
  intros [Ha [ta [Ia Ta]]] [Hb [tb [Ib Tb]]]. split.
  - intro rest. rewrite <- !app_assoc. rewrite Ha, Hb. reflexivity.
  - exists (ta ++ tb). split; [apply incl_app; assumption|].
    intro rest. rewrite <- !app_assoc. rewrite Ta, Tb. reflexivity.
Qed.

Lemma chunk_strip a p : chunk a p -> strip_markup a = p.
Proof.
  intros [H _]. unfold strip_markup. specialize (H []). rewrite !app_nil_r in H. exact H.
Qed.

Lemma chunk_tags a p : chunk a p -> forall t, In t (tags a) -> In t report_tags.
Proof.
  intros [_ [ts [I T]]] t Ht. unfold tags in Ht. specialize (T []). rewrite !app_nil_r in T.
  rewrite T in Ht. apply I. exact Ht.
Qed.

Lemma chunk_esc1 c : chunk (esc [c]) [c].
Proof.
  rewrite esc_one. unfold esc1.
  destruct (Ascii.eqb_spec c "&") as [->|N1]; [split; [intro; reflexivity | exists []; split; [intros t []|intro; reflexivity]]|].
  destruct (Ascii.eqb_spec c " ") as [->|N2]; [split; [intro; reflexivity | exists []; split; [intros t []|intro; reflexivity]]|].
  destruct (Ascii.eqb_spec c ">") as [->|N3]; [split; [intro; reflexivity | exists []; split; [intros t []|intro; reflexivity]]|].
  destruct (Ascii.eqb_spec c "<") as [->|N4]; [split; [intro; reflexivity | exists []; split; [intros t []|intro; reflexivity]]|].
  split.
  - intro rest. cbn [app]. apply strip_other; assumption.
  - exists []. split; [intros t []|]. intro rest. cbn [app]. apply tags_other; assumption.
Qed.

Lemma chunk_esc v : chunk (esc v) v.
Proof.
  induction v as [|c v IH]; [apply chunk_nil|].
  rewrite esc_cons. change (chunk (esc [c] ++ esc v) ([c] ++ v)). apply chunk_app; [apply chunk_esc1 | exact IH].
Qed.

Lemma chunk_free s : markup_free s = true -> chunk s s.
Proof.
  induction s as [|c s IH]; intros H; [apply chunk_nil|].
  cbn [markup_free forallb] in H. apply andb_true_iff in H as [H1 H2].
  apply negb_true_iff in H1. apply orb_false_iff in H1 as [H1 Ha]. apply orb_false_iff in H1 as [Hl Hg].
  apply Ascii.eqb_neq in Hl, Ha.
  change (c :: s) with ([c] ++ s). apply chunk_app; [|apply IH; exact H2].
  split.
  - intro rest. cbn [app]. apply strip_other; assumption.
  - exists []. split; [intros t []|]. intro rest. cbn [app]. apply tags_other; assumption.
Qed.

Lemma incl_b (ts L : list str) : forallb (fun t => mem_str t L) ts = true -> incl ts L.
Proof.
  intros H t Ht. rewrite forallb_forall in H. apply mem_str_In. apply H. exact Ht.
Qed.

(* a fixed piece of template text: both parts by computation *)
Ltac chunk_const ts :=
  split; [intro; reflexivity | exists ts; split; [apply incl_b; vm_compute; reflexivity | intro; reflexivity]].

Lemma chunk_NL : chunk NLs NL.
Proof. chunk_const (@nil str). Qed.

(* ---------- the writer monad ---------- *)

Lemma w_bind_inv {S A B} (m : W S A) (f : A -> W S B) s s' o b :
  w_bind m f s = (s', o, Ok b) ->
  exists s1 o1 a o2, m s = (s1, o1, Ok a) /\ f a s1 = (s', o2, Ok b) /\ o = o1 ++ o2.
Proof.
  unfold w_bind. destruct (m s) as [[s1 o1] [a|e]]; [|discriminate].
  destruct (f a s1) as [[s2 o2] r] eqn:E. intros [= <- <- ->].
  exists s1, o1, a, o2. auto.
Qed.

Lemma w_lift_inv {S A} (r : result A) (s s' : S) o a :
  w_lift r s = (s', o, Ok a) -> s' = s /\ o = [] /\ r = Ok a.
Proof. unfold w_lift. intros [= <- <- ->]. auto. Qed.

(* a computation that leaves the state alone and whose output, if it completes, is a chunk for p *)
Definition wspec {S} (m : W S unit) (p : str) : Prop :=
  forall s s' o, m s = (s', o, Ok tt) -> s' = s /\ chunk (concat o) p.

Lemma wspec_ret {S} : wspec (@w_ret S unit tt) [].
Proof. intros s s' o [= <- <-]. split; [reflexivity | apply chunk_nil]. Qed.

Lemma wspec_write {S} x p : chunk x p -> wspec (@w_write S x) p.
Proof.
  intros H s s' o [= <- <-]. split; [reflexivity|]. cbn [concat]. rewrite app_nil_r. exact H.
Qed.

Lemma wspec_seq {S} (m k : W S unit) p q : wspec m p -> wspec k q -> wspec (dow_ m; k) (p ++ q).
Proof.
  intros Hm Hk s s' o H. apply w_bind_inv in H as (s1 & o1 & a & o2 & H1 & H2 & ->).
  destruct a. apply Hm in H1 as [-> C1]. apply Hk in H2 as [-> C2].
  split; [reflexivity|]. rewrite concat_app. apply chunk_app; assumption.
Qed.

Lemma wspec_lift {S A} (r : result A) (k : A -> W S unit) p :
  (forall a, r = Ok a -> wspec (k a) p) -> wspec (dow a <- w_lift r; k a) p.
Proof.
  intros Hk s s' o H. apply w_bind_inv in H as (s1 & o1 & a & o2 & H1 & H2 & ->).
  apply w_lift_inv in H1 as (-> & -> & E). apply (Hk a E) in H2 as [-> C]. auto.
Qed.

Lemma wspec_iter {S A} (f : A -> W S unit) (g : A -> str) xs :
  (forall x, In x xs -> wspec (f x) (g x)) -> wspec (w_iter f xs) (concat (map g xs)).
Proof.
  induction xs as [|x xs IH]; intros H; cbn [w_iter map concat].
  - apply wspec_ret.
  - apply wspec_seq; [apply H; left; reflexivity | apply IH; intros y Hy; apply H; right; exact Hy].
Qed.

Lemma wspec_eq {S} (m : W S unit) p q : p = q -> wspec m p -> wspec m q.
Proof. intros ->. auto. Qed.

(* ---------- the message lines ---------- *)

Lemma chunk_seg_err e : markup_free (fst e) = true -> chunk (seg_err_line (snd e) (fst e)) (plain_seg_err e).
Proof.
  intros F. unfold seg_err_line, plain_seg_err.
  apply chunk_app; [chunk_const [l "<span class=""error"">"]|].
  apply chunk_app; [apply chunk_esc|].
  apply chunk_app; [chunk_const (@nil str)|].
  apply chunk_app; [apply chunk_free; exact F|].
  apply chunk_app; [chunk_const [l "</span>"; l "<br />"] | apply chunk_NL].
Qed.

Lemma chunk_ele_err e : markup_free (fst e) = true -> chunk (ele_err_line (snd e) (fst e)) (plain_ele_err e).
Proof.
  intros F. unfold ele_err_line, plain_ele_err.
  apply chunk_app; [chunk_const [l "<span class=""error"">"]|].
  apply chunk_app; [apply chunk_esc|].
  apply chunk_app; [chunk_const (@nil str)|].
  apply chunk_app; [apply chunk_free; exact F|].
  apply chunk_app; [chunk_const [l "</span>"; l "<br />"] | apply chunk_NL].
Qed.

(* a filtered loop of conditional writes *)
Lemma wspec_iter_filter {S A} (t : A -> bool) (w : A -> str) (g : A -> str) (xs : list A) :
  (forall x, In x xs -> t x = true -> chunk (w x) (g x)) ->
  wspec (@w_iter S A (fun x => if t x then w_write (w x) else w_ret tt) xs) (concat (map g (filter t xs))).
Proof.
  induction xs as [|x xs IH]; intros H; cbn [w_iter filter].
  - apply wspec_ret.
  - assert (IH' := IH (fun y Hy => H y (or_intror Hy))). destruct (t x) eqn:E.
    + cbn [map concat]. apply wspec_seq; [apply wspec_write; apply H; [left; reflexivity | exact E] | exact IH'].
    + apply (wspec_seq _ _ [] _); [apply wspec_ret | exact IH'].
Qed.

Lemma wspec_iter_filter_neg {S A} (t : A -> bool) (w : A -> str) (g : A -> str) (xs : list A) :
  (forall x, In x xs -> t x = false -> chunk (w x) (g x)) ->
  wspec (@w_iter S A (fun x => if t x then w_ret tt else w_write (w x)) xs)
        (concat (map g (filter (fun x => negb (t x)) xs))).
Proof.
  induction xs as [|x xs IH]; intros H; cbn [w_iter filter].
  - apply wspec_ret.
  - assert (IH' := IH (fun y Hy => H y (or_intror Hy))). destruct (t x) eqn:E; cbn [negb].
    + apply (wspec_seq _ _ [] _); [apply wspec_ret | exact IH'].
    + cbn [map concat]. apply wspec_seq; [apply wspec_write; apply H; [left; reflexivity | exact E] | exact IH'].
Qed.

(* ---------- the error loops of gen_seg ---------- *)

Lemma wspec_pre h seg_id r :
  (forall e, In e (node_errors h seg_id r) -> markup_free (fst e) = true) ->
  wspec (write_pre_errors h seg_id r) (concat (map plain_seg_err (filter is3 (node_errors h seg_id r)))).
Proof.
  intros F. unfold write_pre_errors. apply wspec_lift. intros es E.
  unfold node_errors in *. rewrite E in *.
  apply (wspec_iter_filter is3 (fun e => seg_err_line (snd e) (fst e)) plain_seg_err).
  intros e He _. apply chunk_seg_err. apply F. exact He.
Qed.

Lemma wspec_ele_errors h seg_id k :
  (forall e, In e (node_errors h seg_id (REle k)) -> markup_free (fst e) = true) ->
  wspec (write_ele_errors h seg_id k)
        (concat (map plain_ele_err (filter (fun er => negb (ge_gs_hidden seg_id er)) (node_errors h seg_id (REle k))))).
Proof.
  intros F. unfold write_ele_errors. apply wspec_lift. intros es E.
  unfold node_errors in *. rewrite E in *.
  apply (wspec_iter_filter_neg (ge_gs_hidden seg_id) (fun e => ele_err_line (snd e) (fst e)) plain_ele_err).
  intros e He _. apply chunk_ele_err. apply F. exact He.
Qed.

Lemma wspec_post h seg_id r :
  (forall e, In e (node_errors h seg_id r) -> markup_free (fst e) = true) ->
  (forall k e, In k (node_elements h r) -> In e (node_errors h seg_id (REle k)) -> markup_free (fst e) = true) ->
  wspec (write_post_errors h seg_id r) (plain_post_node h seg_id r).
Proof.
  intros F G. unfold write_post_errors, plain_post_node. apply wspec_lift. intros es E.
  apply wspec_seq.
  - unfold node_errors in *. rewrite E in *.
    apply (wspec_iter_filter_neg is3 (fun e => seg_err_line (snd e) (fst e)) plain_seg_err).
    intros e He _. apply chunk_seg_err. apply F. exact He.
  - apply wspec_lift. intros ks Ek. unfold node_elements in *. rewrite Ek in *.
    apply wspec_iter. intros k Hk. apply wspec_ele_errors. intros e He. apply (G k e Hk He).
Qed.

(* ---------- numerals: dec_val inverts fmt_d ---------- *)

Lemma digit_char_ok : forall d, d < 10 -> is_digit (digit_char d) = true /\ digit_val (digit_char d) = d /\
                                          (d <> 0 -> digit_char d <> "0").
Proof.
  intros d H. do 10 (destruct d as [|d]; [repeat split; try reflexivity; try congruence; intros _; discriminate|]). lia.
Qed.

Lemma show_spec : forall fuel n acc, fuel <> 0 -> (n < 2 ^ N.of_nat fuel)%N ->
  exists u, show_N_fuel fuel n acc = u ++ acc /\ all_digits u = true /\ dec_val u = n /\
            u <> [] /\ (n <> 0%N -> hd "0" u <> "0").
Proof.
  induction fuel as [|f IH]; intros n acc F0 H; [congruence|].
  - cbn [show_N_fuel].
    assert (D : N.to_nat (n mod 10) < 10).
    { pose proof (N.mod_lt n 10 ltac:(lia)). lia. }
    destruct (digit_char_ok _ D) as (D1 & D2 & D3).
    destruct (N.eqb_spec (n / 10) 0) as [Q|Q].
    + exists [digit_char (N.to_nat (n mod 10))]. split; [reflexivity|].
      assert (Hn : (n mod 10 = n)%N).
      { pose proof (N.div_mod' n 10). lia. }
      split; [unfold all_digits; cbn [forallb]; rewrite D1; reflexivity|]. split.
      * unfold dec_val. cbn [fold_left]. rewrite D2. lia.
      * split; [discriminate|]. intros NZ. cbn [hd]. apply D3. lia.
    + assert (Hq : (n / 10 < 2 ^ N.of_nat f)%N).
      { rewrite Nat2N.inj_succ, N.pow_succ_r' in H. pose proof (N.div_mod' n 10).
        pose proof (N.mod_lt n 10 ltac:(lia)). lia. }
      assert (F1 : f <> 0).
      { intros ->. change (2 ^ N.of_nat 0)%N with 1%N in Hq. apply Q. apply N.lt_1_r. exact Hq. }
      destruct (IH (n / 10)%N (digit_char (N.to_nat (n mod 10)) :: acc) F1 Hq) as (u & E & A & V & NE & HD).
      exists (u ++ [digit_char (N.to_nat (n mod 10))]). split; [rewrite E, <- app_assoc; reflexivity|].
      split; [unfold all_digits in *; rewrite forallb_app, A; cbn [forallb]; rewrite D1; reflexivity|].
      split; [rewrite dec_val_snoc, V, D2; pose proof (N.div_mod' n 10); lia|].
      split; [destruct u; discriminate|]. intros _. destruct u as [|a u]; [congruence|]. cbn [app hd]. apply (HD Q).
Qed.

Lemma fmt_d_spec n :
  all_digits (fmt_d n) = true /\ dec_val (fmt_d n) = n /\ fmt_d n <> [] /\ (n <> 0%N -> hd "0" (fmt_d n) <> "0").
Proof.
  unfold fmt_d.
  assert (H : (n < 2 ^ N.of_nat (S (N.to_nat (N.log2 n))))%N).
  { rewrite Nat2N.inj_succ, N2Nat.id. destruct n as [|p]; [vm_compute; reflexivity|].
    apply (N.log2_spec (N.pos p)). vm_compute; reflexivity. }
  destruct (show_spec _ n [] (Nat.neq_succ_0 _) H) as (u & E & A & V & NE & HD).
  rewrite E, app_nil_r. auto.
Qed.

(* ---------- the text of the segment line ---------- *)

Ltac bind_inv H :=
  match type of H with
  | bind ?r _ = Ok _ => let E := fresh "E" in destruct r eqn:E; [cbn [bind] in H | discriminate H]
  end.

Definition ochunk (o : option str) (v : str) : Prop := exists a, o = Some a /\ chunk a v.

Lemma ochunk_esc v : ochunk (escape_html_chars (Some v)) v.
Proof. exists (esc v). split; [reflexivity | apply chunk_esc]. Qed.

Lemma chunk_wrap a v : chunk a v -> chunk (Html.l "<span class=""ele_err"">" ++ a ++ Html.l "</span>") v.
Proof.
  intros H. assert (E : v = [] ++ v ++ []) by (rewrite app_nil_r; reflexivity). rewrite E.
  apply chunk_app; [chunk_const [l "<span class=""ele_err"">"]|].
  apply chunk_app; [exact H | chunk_const [l "</span>"]].
Qed.

Lemma ochunk_wrap o v : ochunk o v -> ochunk (wrap_ele_error o) v.
Proof.
  intros (a & -> & H). eexists. split; [reflexivity|]. cbn [pct_s]. apply chunk_wrap. exact H.
Qed.

Lemma all_some_chunks : forall os vs, Forall2 ochunk os vs -> forall a', all_some os = Ok a' -> Forall2 chunk a' vs.
Proof.
  induction 1 as [|o v os vs (a & -> & C) F IH]; intros a' H; cbn [all_some] in H.
  - injection H as <-. constructor.
  - bind_inv H. injection H as <-. constructor; [exact C | apply IH; reflexivity].
Qed.

Lemma join_chunk S c : chunk S [c] -> forall xs ps, Forall2 chunk xs ps -> chunk (join_s S xs) (join c ps).
Proof.
  intros HS. induction 1 as [|x p xs ps C F IH]; [apply chunk_nil|].
  destruct F as [|x' p' xs' ps' C' F'].
  - exact C.
  - change (join_s S (x :: x' :: xs')) with (x ++ S ++ join_s S (x' :: xs')).
    change (join c (p :: p' :: ps')) with (p ++ [c] ++ join c (p' :: ps')).
    apply chunk_app; [exact C|]. apply chunk_app; [exact HS | exact IH].
Qed.

Lemma format_comp_short sub c : length c <= 1 -> format_comp sub c = join sub c.
Proof.
  destruct c as [|v [|w c]]; cbn [length]; intros H; [reflexivity | apply format_comp_single | lia].
Qed.

Section Items.
Variables (x : xseg) (m : pos_map).
Let s := xs_s x.
Let d := xs_d x.

Lemma tseg_subs_spec i : forall subs j, Forall2 ochunk (tseg_subs m i j subs) subs.
Proof.
  induction subs as [|v subs IH]; intros j; cbn [tseg_subs]; [constructor|].
  cbv zeta. constructor; [|apply IH].
  destruct (pm_get m (Z.of_nat i)) as [[sp|]|]; try apply ochunk_esc.
  destruct (sp =? Z.of_nat j)%Z; [apply ochunk_wrap|]; apply ochunk_esc.
Qed.

Lemma tseg_items_spec : forall cs i tmp tmp',
  seg_str_items (esc [subele_term d]) (tseg_items x m i cs) = Ok tmp -> all_some tmp = Ok tmp' ->
  Forall2 chunk tmp' (map (join (subele_term d)) cs).
Proof.
  induction cs as [|c cs IH]; intros i tmp tmp' H1 H2; cbn [tseg_items] in H1.
  - cbn in H1. injection H1 as <-. cbn in H2. injection H2 as <-. constructor.
  - fold s d in H1. cbn [map]. destruct (1 <? length c)%nat eqn:L.
    + cbn [seg_str_items] in H1.
      destruct (all_some (tseg_subs m i 1 c)) as [a'|] eqn:Ea; [|discriminate H1]. cbn [bind] in H1.
      destruct (seg_str_items (esc [subele_term d]) (tseg_items x m (S i) cs)) as [tmore|] eqn:Et; [|discriminate H1].
      cbn [bind] in H1. injection H1 as <-.
      cbn [all_some] in H2. bind_inv H2. injection H2 as <-.
      constructor.
      * apply join_chunk; [apply chunk_esc1|].
        apply (all_some_chunks (tseg_subs m i 1 c)); [apply tseg_subs_spec | assumption].
      * eapply IH; eauto.
    + apply Nat.ltb_ge in L. cbv zeta in H1. cbn [seg_str_items] in H1.
      destruct (seg_str_items (esc [subele_term d]) (tseg_items x m (S i) cs)) as [tmore|] eqn:Et; [|discriminate H1].
      cbn [bind] in H1. injection H1 as <-.
      match type of H2 with all_some (?o :: _) = _ => assert (O : ochunk o (join (subele_term d) c)) end.
      { rewrite <- (format_comp_short (subele_term d) c L).
        destruct (pm_get m (Z.of_nat i)); [apply ochunk_wrap|]; apply ochunk_esc. }
      destruct O as (t & Eo & Ct). rewrite Eo in H2. cbn [all_some] in H2. bind_inv H2. injection H2 as <-.
      constructor; [exact Ct|].
      eapply IH; eauto.
Qed.

End Items.

Lemma digit_free : forall c, is_digit c = true -> negb (Ascii.eqb c "<" || Ascii.eqb c ">" || Ascii.eqb c "&") = true.
Proof.
  assert (H : forall c, implb (is_digit c) (negb (Ascii.eqb c "<" || Ascii.eqb c ">" || Ascii.eqb c "&")) = true).
  { apply forall_ascii. vm_compute. reflexivity. }
  intros c D. specialize (H c). rewrite D in H. exact H.
Qed.

Lemma digits_free u : all_digits u = true -> markup_free u = true.
Proof.
  unfold all_digits, markup_free. rewrite !forallb_forall. intros H c Hc. apply digit_free. apply H. exact Hc.
Qed.

Lemma fmt_Zi_free z : markup_free (fmt_Zi z) = true.
Proof.
  destruct z as [|p|p]; cbn [fmt_Zi].
  - apply digits_free. apply fmt_d_spec.
  - apply digits_free. apply fmt_d_spec.
  - change (markup_free ("-" :: fmt_d (N.pos p))) with (true && markup_free (fmt_d (N.pos p))).
    apply digits_free. apply fmt_d_spec.
Qed.

Lemma seg_line_chunk x m body :
  html_seg_str (cfg_of (xs_d x)) (sid (xs_s x)) (tseg_items x m 1 (els (xs_s x))) = Ok body ->
  chunk body (plain_seg (xs_d x) (xs_s x)).
Proof.
  intros Eb. unfold html_seg_str in Eb. destruct (sid (xs_s x)) as [sid0|] eqn:Es; [|discriminate Eb].
  unfold seg_str in Eb. cbn [cfg_of hc_seg_term hc_ele_term hc_subele_term] in Eb.
  destruct (seg_str_items (esc [subele_term (xs_d x)]) (tseg_items x m 1 (els (xs_s x)))) as [tmp|] eqn:E1; [|discriminate Eb].
  cbn [bind] in Eb.
  destruct (all_some tmp) as [tmp'|] eqn:E2; [|discriminate Eb]. cbn [bind] in Eb. injection Eb as <-.
  unfold plain_seg. rewrite Es. cbn [show_sid].
  apply chunk_app; [apply chunk_esc|].
  change (ele_term (xs_d x) :: join (ele_term (xs_d x)) (map (join (subele_term (xs_d x))) (els (xs_s x))) ++ [seg_term (xs_d x)])
    with ([ele_term (xs_d x)] ++ join (ele_term (xs_d x)) (map (join (subele_term (xs_d x))) (els (xs_s x))) ++ [seg_term (xs_d x)]).
  apply chunk_app; [apply chunk_esc1|].
  apply chunk_app.
  - apply join_chunk; [apply chunk_esc1|].
    exact (tseg_items_spec x m _ _ _ _ E1 E2).
  - unfold hc_eol. rewrite app_nil_r. apply chunk_esc1.
Qed.
