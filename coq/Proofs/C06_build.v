(* C06_build.v — generated: Segment.set on an explicit element list appends the next element
   (one vm_compute each; the values stay symbolic) *)
From Coq Require Import String.
From PX.Lib Require Import Base PyStr PyInt.
From PX.Model Require Import Path Segment Errh Ack997.
Local Notation l := list_ascii_of_string.

Lemma set_isa_05 e1 e2 e3 e4 x :
  seg_set_opt {| sid := Some (l "ISA"); els := [e1; e2; e3; e4] |} "05" (Some x) =
  Ok {| sid := Some (l "ISA"); els := [e1; e2; e3; e4; split ":"%char x] |}.
Proof. vm_compute. reflexivity. Qed.

Lemma set_isa_06 e1 e2 e3 e4 e5 x :
  seg_set_opt {| sid := Some (l "ISA"); els := [e1; e2; e3; e4; e5] |} "06" (Some x) =
  Ok {| sid := Some (l "ISA"); els := [e1; e2; e3; e4; e5; split ":"%char x] |}.
Proof. vm_compute. reflexivity. Qed.

Lemma set_isa_07 e1 e2 e3 e4 e5 e6 x :
  seg_set_opt {| sid := Some (l "ISA"); els := [e1; e2; e3; e4; e5; e6] |} "07" (Some x) =
  Ok {| sid := Some (l "ISA"); els := [e1; e2; e3; e4; e5; e6; split ":"%char x] |}.
Proof. vm_compute. reflexivity. Qed.

Lemma set_isa_08 e1 e2 e3 e4 e5 e6 e7 x :
  seg_set_opt {| sid := Some (l "ISA"); els := [e1; e2; e3; e4; e5; e6; e7] |} "08" (Some x) =
  Ok {| sid := Some (l "ISA"); els := [e1; e2; e3; e4; e5; e6; e7; split ":"%char x] |}.
Proof. vm_compute. reflexivity. Qed.

Lemma set_isa_09 e1 e2 e3 e4 e5 e6 e7 e8 x :
  seg_set_opt {| sid := Some (l "ISA"); els := [e1; e2; e3; e4; e5; e6; e7; e8] |} "09" (Some x) =
  Ok {| sid := Some (l "ISA"); els := [e1; e2; e3; e4; e5; e6; e7; e8; split ":"%char x] |}.
Proof. vm_compute. reflexivity. Qed.

Lemma set_isa_10 e1 e2 e3 e4 e5 e6 e7 e8 e9 x :
  seg_set_opt {| sid := Some (l "ISA"); els := [e1; e2; e3; e4; e5; e6; e7; e8; e9] |} "10" (Some x) =
  Ok {| sid := Some (l "ISA"); els := [e1; e2; e3; e4; e5; e6; e7; e8; e9; split ":"%char x] |}.
Proof. vm_compute. reflexivity. Qed.

Lemma set_isa_11 e1 e2 e3 e4 e5 e6 e7 e8 e9 e10 x :
  seg_set_opt {| sid := Some (l "ISA"); els := [e1; e2; e3; e4; e5; e6; e7; e8; e9; e10] |} "11" (Some x) =
  Ok {| sid := Some (l "ISA"); els := [e1; e2; e3; e4; e5; e6; e7; e8; e9; e10; split ":"%char x] |}.
Proof. vm_compute. reflexivity. Qed.

Lemma set_isa_12 e1 e2 e3 e4 e5 e6 e7 e8 e9 e10 e11 x :
  seg_set_opt {| sid := Some (l "ISA"); els := [e1; e2; e3; e4; e5; e6; e7; e8; e9; e10; e11] |} "12" (Some x) =
  Ok {| sid := Some (l "ISA"); els := [e1; e2; e3; e4; e5; e6; e7; e8; e9; e10; e11; split ":"%char x] |}.
Proof. vm_compute. reflexivity. Qed.

Lemma set_isa_13 e1 e2 e3 e4 e5 e6 e7 e8 e9 e10 e11 e12 x :
  seg_set_opt {| sid := Some (l "ISA"); els := [e1; e2; e3; e4; e5; e6; e7; e8; e9; e10; e11; e12] |} "13" (Some x) =
  Ok {| sid := Some (l "ISA"); els := [e1; e2; e3; e4; e5; e6; e7; e8; e9; e10; e11; e12; split ":"%char x] |}.
Proof. vm_compute. reflexivity. Qed.

Lemma set_isa_14 e1 e2 e3 e4 e5 e6 e7 e8 e9 e10 e11 e12 e13 x :
  seg_set_opt {| sid := Some (l "ISA"); els := [e1; e2; e3; e4; e5; e6; e7; e8; e9; e10; e11; e12; e13] |} "14" (Some x) =
  Ok {| sid := Some (l "ISA"); els := [e1; e2; e3; e4; e5; e6; e7; e8; e9; e10; e11; e12; e13; split ":"%char x] |}.
Proof. vm_compute. reflexivity. Qed.

Lemma set_isa_15 e1 e2 e3 e4 e5 e6 e7 e8 e9 e10 e11 e12 e13 e14 x :
  seg_set_opt {| sid := Some (l "ISA"); els := [e1; e2; e3; e4; e5; e6; e7; e8; e9; e10; e11; e12; e13; e14] |} "15" (Some x) =
  Ok {| sid := Some (l "ISA"); els := [e1; e2; e3; e4; e5; e6; e7; e8; e9; e10; e11; e12; e13; e14; split ":"%char x] |}.
Proof. vm_compute. reflexivity. Qed.

Lemma set_isa_16 e1 e2 e3 e4 e5 e6 e7 e8 e9 e10 e11 e12 e13 e14 e15 x :
  seg_set_opt {| sid := Some (l "ISA"); els := [e1; e2; e3; e4; e5; e6; e7; e8; e9; e10; e11; e12; e13; e14; e15] |} "16" (Some x) =
  Ok {| sid := Some (l "ISA"); els := [e1; e2; e3; e4; e5; e6; e7; e8; e9; e10; e11; e12; e13; e14; e15; split "*"%char x] |}.
Proof. vm_compute. reflexivity. Qed.

Lemma set_gs_01 x :
  seg_set_opt {| sid := Some (l "GS"); els := [] |} "01" (Some x) =
  Ok {| sid := Some (l "GS"); els := [split ":"%char x] |}.
Proof. vm_compute. reflexivity. Qed.

Lemma set_gs_02 e1 x :
  seg_set_opt {| sid := Some (l "GS"); els := [e1] |} "02" (Some x) =
  Ok {| sid := Some (l "GS"); els := [e1; split ":"%char x] |}.
Proof. vm_compute. reflexivity. Qed.

Lemma set_gs_03 e1 e2 x :
  seg_set_opt {| sid := Some (l "GS"); els := [e1; e2] |} "03" (Some x) =
  Ok {| sid := Some (l "GS"); els := [e1; e2; split ":"%char x] |}.
Proof. vm_compute. reflexivity. Qed.

Lemma set_gs_04 e1 e2 e3 x :
  seg_set_opt {| sid := Some (l "GS"); els := [e1; e2; e3] |} "04" (Some x) =
  Ok {| sid := Some (l "GS"); els := [e1; e2; e3; split ":"%char x] |}.
Proof. vm_compute. reflexivity. Qed.

Lemma set_gs_05 e1 e2 e3 e4 x :
  seg_set_opt {| sid := Some (l "GS"); els := [e1; e2; e3; e4] |} "05" (Some x) =
  Ok {| sid := Some (l "GS"); els := [e1; e2; e3; e4; split ":"%char x] |}.
Proof. vm_compute. reflexivity. Qed.

Lemma set_gs_06 e1 e2 e3 e4 e5 x :
  seg_set_opt {| sid := Some (l "GS"); els := [e1; e2; e3; e4; e5] |} "06" (Some x) =
  Ok {| sid := Some (l "GS"); els := [e1; e2; e3; e4; e5; split ":"%char x] |}.
Proof. vm_compute. reflexivity. Qed.

Lemma set_gs_07 e1 e2 e3 e4 e5 e6 x :
  seg_set_opt {| sid := Some (l "GS"); els := [e1; e2; e3; e4; e5; e6] |} "07" (Some x) =
  Ok {| sid := Some (l "GS"); els := [e1; e2; e3; e4; e5; e6; split ":"%char x] |}.
Proof. vm_compute. reflexivity. Qed.

Lemma set_gs_08 e1 e2 e3 e4 e5 e6 e7 x :
  seg_set_opt {| sid := Some (l "GS"); els := [e1; e2; e3; e4; e5; e6; e7] |} "08" (Some x) =
  Ok {| sid := Some (l "GS"); els := [e1; e2; e3; e4; e5; e6; e7; split ":"%char x] |}.
Proof. vm_compute. reflexivity. Qed.

Lemma set_st_02 e1 x :
  seg_set_opt {| sid := Some (l "ST"); els := [e1] |} "02" (Some x) =
  Ok {| sid := Some (l "ST"); els := [e1; split ":"%char x] |}.
Proof. vm_compute. reflexivity. Qed.

Lemma set_st_03 e1 e2 x :
  seg_set_opt {| sid := Some (l "ST"); els := [e1; e2] |} "03" (Some x) =
  Ok {| sid := Some (l "ST"); els := [e1; e2; split ":"%char x] |}.
Proof. vm_compute. reflexivity. Qed.

Lemma fix_isa_10 e1 e2 e3 e4 e5 e6 e7 e8 e9 e10 e11 e12 e13 e14 e15 e16 r :
  set_ix D {| sid := Some (l "ISA"); els := [e1; e2; e3; e4; e5; e6; e7; e8; e9; e10; e11; e12; e13; e14; e15; e16] |} (Some 10%Z, None) r =
  Ok {| sid := Some (l "ISA"); els := [e1; e2; e3; e4; e5; e6; e7; e8; e9; e10; split ":"%char r; e12; e13; e14; e15; e16] |}.
Proof. vm_compute. reflexivity. Qed.
Lemma fix_isa_15 e1 e2 e3 e4 e5 e6 e7 e8 e9 e10 e11 e12 e13 e14 e15 e16 r :
  set_ix D {| sid := Some (l "ISA"); els := [e1; e2; e3; e4; e5; e6; e7; e8; e9; e10; e11; e12; e13; e14; e15; e16] |} (Some 15%Z, None) r =
  Ok {| sid := Some (l "ISA"); els := [e1; e2; e3; e4; e5; e6; e7; e8; e9; e10; e11; e12; e13; e14; e15; split "*"%char r] |}.
Proof. vm_compute. reflexivity. Qed.
