(* UnitsOut.v — entry points of the correspondence check for the report
   generators: units "html" (error_html + err_iter), "xmlout" (x12xml_simple)
   and "xmlin" (xmlx12_simple).  harness/out_impl.py prints the same text from
   the real objects.  US = 0x1f separates fields.

   html   args = time string, term (seg_term US ele_term US subele_term), then a script, one command per arg:
            <errh event>   the UnitsErrh encoding (kinds I G T S E i g t s e X Z Y H C)  -> "e:ok" | "e:!Exn" | "e:<count>"
            R dl US text US optZ(cur_line)      collect the new error nodes with the iterator, then gen_seg
            Q mode US dl US text US optZ        the same with the handler itself put in front of the node list
                                                (mode r) or cur_ele_node appended to it (mode e, if there is one)
            L optS(id) US optS(name) US optS(type)     html.loop(loop_node);  "LM": loop_node is the map root (no .type)
            N              one next() of a fresh iterator positioned on cur_ele_node
            F              html.footer()
          output, one line per entry, the first for header():
            H:<writes>     R:<writes>|<exn>|<nodes>|<iterator cur>;<iterator stack>     L:<loop_info>
            N:<ok|out|!Exn>     F:<writes>|<exn>
            writes = hex of each write, comma separated; nodes / stack = node paths, comma separated:
            R (handler), I<i>, I<i>.G<j>, I<i>.G<j>.T<k>, I<i>.G<j>.T<k>.S<n> (positions in the children lists),
            D (a detached SEG), E (an ELE)
   xmlout args = map file name, dtd_urn ("" = none), then per segment: node reference (dotted), delimiters
          (3 chars), segment text.  Every seg() call is made even after one raised (the object keeps its
          partially updated state), then __del__().
          output = hex(all text written) | <k>:<exn> for each call that raised, comma separated
   xmlin  args = serialised element tree (Lib/XmlSer.v);  output = hex(all text written) | <exn> *)
From Coq Require Import String.
From PX.Lib Require Import Base PyStr Xml XmlSer.
From PX.Model Require Import Show Path Segment Errh UnitsErrh ErrIter OutW Html.
From PX.Model Require MapLoad MapTree XmlOut XmlIn Writer.

Definition BARC : ascii := "|"%char.
Definition DOT_ : ascii := "."%char.

Definition show_writes (ws : list str) : str := sep COMMA (map show_hex ws).
Definition show_oexn (e : option exn) : str := match e with Some x => show_exn x | None => [] end.

(* ---- node paths ---- *)
Definition pos_in (k : nat) (xs : list nat) : str :=
  match find_idx (Nat.eqb k) xs 0 with Some j => show_nat j | None => sl "?" end.

Definition show_gs_ref (h : errh) (g : nat) : str :=
  match gs_parent h g with
  | Some p => sl "I" ++ show_nat p ++ sl ".G" ++
              pos_in g (match nth_error (h_isa h) p with Some n => in_children n | None => [] end)
  | None => sl "?G"
  end.
Definition show_st_ref (h : errh) (t : nat) : str :=
  match st_parent h t with
  | Some p => show_gs_ref h p ++ sl ".T" ++
              pos_in t (match nth_error (h_gs h) p with Some n => gn_children n | None => [] end)
  | None => sl "?T"
  end.
Definition show_seg_ref (h : errh) (k : nat) : str :=
  match seg_holder h k with
  | Some p => show_st_ref h p ++ sl ".S" ++
              pos_in k (match nth_error (h_st h) p with Some n => tn_children n | None => [] end)
  | None => sl "D"
  end.
Definition show_ref (h : errh) (r : node_ref) : str :=
  match r with
  | RRoot => sl "R"
  | RIsa i => sl "I" ++ show_nat i
  | RGs g => show_gs_ref h g
  | RSt t => show_st_ref h t
  | RSeg k => show_seg_ref h k
  | REle _ => sl "E"
  end.
Definition show_refs (h : errh) (rs : list node_ref) : str := sep COMMA (map (show_ref h) rs).
Definition show_iter (h : errh) (s : iter_state) : str :=
  show_ref h (it_cur s) ++ sl ";" ++ show_refs h (it_stack s).

(* ---- the html script ---- *)
Record hrun := { r_errh : errh; r_iter : iter_state; r_html : html_state }.

Definition mk_cfg (s : str) : html_cfg :=
  match split US s with
  | [a; b; c] => {| hc_seg_term := a; hc_ele_term := b; hc_subele_term := c |}
  | _ => {| hc_seg_term := sl "~"; hc_ele_term := sl "*"; hc_subele_term := sl "~" |}   (* the constructor default *)
  end.

(* x12n_document.py:197-205 *)
Definition do_render (c : html_cfg) (st : hrun) (extra_front extra_back : list node_ref) (dl text line : str)
  : hrun * str :=
  let h := r_errh st in
  let (it', got) := collect_new h (r_iter st) in
  match got with
  | Raise e =>
      ({| r_errh := h; r_iter := it'; r_html := r_html st |},
       sl "R:|" ++ show_exn e ++ sl "||" ++ show_iter h it')
  | Ok nodes =>
      let lst := extra_front ++ nodes ++ extra_back in
      match html_gen_seg c h (mk_xseg dl text) (parse_oZ line) lst (r_html st) with
      | (hs', ws, res) =>
          ({| r_errh := h; r_iter := it'; r_html := hs' |},
           sl "R:" ++ show_writes ws ++ sl "|" ++ show_oexn (res_exn res) ++ sl "|" ++ show_refs h lst ++ sl "|" ++
           show_iter h it')
      end
  end.

Definition show_iter_res (r : iter_res) : str :=
  match r with IOk => sl "ok" | IOut => sl "out" | IExn e => show_exn e end.

Definition run_cmd (c : html_cfg) (st : hrun) (cmd : str) : hrun * str :=
  match cmd with
  | [] => (st, sl "?cmd")
  | k :: rest =>
      let is ch := Ascii.eqb k ch in
      let f := split US rest in
      if is "R"%char then
        match f with [dl; text; line] => do_render c st [] [] dl text line | _ => (st, sl "?cmd") end
      else if is "Q"%char then
        match f with
        | [mode; dl; text; line] =>
            if str_eqb mode (sl "r") then do_render c st [RRoot] [] dl text line
            else do_render c st [] (match c_ele (r_errh st) with Some e => [REle e] | None => [] end) dl text line
        | _ => (st, sl "?cmd")
        end
      else if is "L"%char then
        match f with
        | [a; b; t] =>
            let hs := html_loop (r_html st) (parse_oS a) (parse_oS b) (parse_oS t) in
            ({| r_errh := r_errh st; r_iter := r_iter st; r_html := hs |}, sl "L:" ++ show_opt show_hex (loop_info hs))
        | [m] =>
            (* "LM": the map root as loop node *)
            match html_loop_node (r_html st) LNMapRoot with
            | (hs, e) => ({| r_errh := r_errh st; r_iter := r_iter st; r_html := hs |},
                          sl "L:" ++ show_opt show_hex (loop_info hs) ++ show_oexn e)
            end
        | _ => (st, sl "?cmd")
        end
      else if is "N"%char then
        match c_ele (r_errh st) with
        | Some e => (st, sl "N:" ++ show_iter_res (snd (iter_next (r_errh st) {| it_cur := REle e; it_stack := [] |})))
        | None => (st, sl "N:none")
        end
      else if is "F"%char then
        match html_footer (r_errh st) tt with
        | (_, ws, res) => (st, sl "F:" ++ show_writes ws ++ sl "|" ++ show_oexn (res_exn res))
        end
      else
        match decode cmd with
        | EvOp m => let (h', res) := m (r_errh st) in
                    ({| r_errh := h'; r_iter := r_iter st; r_html := r_html st |},
                     sl "e:" ++ match res with Ok _ => sl "ok" | Raise e => show_exn e end)
        | EvCount => (st, sl "e:" ++ show_nat (get_error_count (r_errh st)))
        | EvBad => (st, sl "?cmd")
        end
  end.

Fixpoint run_script (c : html_cfg) (st : hrun) (cmds : list str) : list str :=
  match cmds with
  | [] => []
  | cmd :: rest => let (st', o) := run_cmd c st cmd in o :: run_script c st' rest
  end.

Definition unit_html (args : list str) : str :=
  match args with
  | t :: term :: cmds =>
      sep NL ((sl "H:" ++ show_writes (html_header t)) ::
              run_script (mk_cfg term) {| r_errh := errh_init; r_iter := iter_init; r_html := html_init |} cmds)
  | _ => sl "?args"
  end.

(* ---- xmlout ---- *)
Definition parse_ref (a : str) : MapTree.nref := match a with [] => [] | _ => map arg_nat (split DOT_ a) end.

(* the seg() calls: (state, text so far, exceptions so far) *)
Fixpoint xmlout_calls (m : MapLoad.xmap) (st : XmlOut.xstate) (k : nat) (args : list str)
  : XmlOut.xstate * list str * list str :=
  match args with
  | r :: dl :: text :: rest =>
      match XmlOut.target_of m (parse_ref r) with
      | None => (st, [], [show_nat k ++ sl ":?ref"])
      | Some t =>
          let d := mk_delims dl in
          match XmlOut.simple_seg t d (parse_seg d text) st with
          | (st1, ws, res) =>
              match xmlout_calls m st1 (S k) rest with
              | (st2, ws2, ex2) =>
                  (st2, ws ++ ws2,
                   match res with Ok _ => ex2 | Raise e => (show_nat k ++ sl ":" ++ show_exn e) :: ex2 end)
              end
          end
      end
  | _ => (st, [], [])
  end.

Definition unit_xmlout (load : str -> result MapLoad.xmap) (args : list str) : str :=
  match args with
  | name :: dtd :: calls =>
      match load name with
      | Raise x => show_exn x
      | Ok m =>
          match XmlOut.simple_init (Some dtd) XmlOut.x_empty with
          | (st0, ws0, _) =>
              match xmlout_calls m st0 0 calls with
              | (st1, ws1, exs) =>
                  match XmlOut.simple_del st1 with
                  | (_, ws2, _) => show_hex (concat (ws0 ++ ws1 ++ ws2)) ++ sl "|" ++ sep COMMA exs
                  end
              end
          end
      end
  | _ => sl "?args"
  end.

(* ---- xmlin ---- *)
Definition unit_xmlin (args : list str) : str :=
  match args with
  | [ser] =>
      match parse_xml_ser ser with
      | None => sl "?parse"
      | Some doc =>
          match XmlIn.convert doc XmlIn.convert_writer with
          | (_, ws, res) => show_hex (concat ws) ++ sl "|" ++ show_oexn (res_exn res)
          end
      end
  | _ => sl "?args"
  end.
