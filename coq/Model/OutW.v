(* OutW.v — the small state + output + exception monad shared by the models of
   the report generators (Html.v, XmlOut.v, XmlIn.v).

   A Python method that writes to a file object, updates `self` and may raise
   is a computation  W S A = S -> S * list str * result A :
     - the state that comes out WITH a raise is the partially updated one,
     - the writes made before the raise are kept (they are already in the file),
   exactly as in Python.  Each `fd.write(x)` is one entry of the list. *)
From PX.Lib Require Import Base.

Definition W (S A : Type) : Type := S -> S * list str * result A.

Definition w_ret {S A} (a : A) : W S A := fun s => (s, [], Ok a).
Definition w_bind {S A B} (m : W S A) (f : A -> W S B) : W S B :=
  fun s => match m s with
           | (s1, o1, Ok a) => match f a s1 with (s2, o2, r) => (s2, o1 ++ o2, r) end
           | (s1, o1, Raise e) => (s1, o1, Raise e)
           end.
Definition w_lift {S A} (r : result A) : W S A := fun s => (s, [], r).
Definition w_raise {S A} (e : exn) : W S A := fun s => (s, [], Raise e).
Definition w_get {S} : W S S := fun s => (s, [], Ok s).
Definition w_put {S} (s' : S) : W S unit := fun _ => (s', [], Ok tt).
Definition w_mod {S} (f : S -> S) : W S unit := fun s => (f s, [], Ok tt).
(* fd.write(x) *)
Definition w_write {S} (x : str) : W S unit := fun s => (s, [x], Ok tt).

Notation "'dow' x <- m ; k" := (w_bind m (fun x => k)) (at level 200, x pattern, m at level 100, k at level 200).
Notation "'dow_' m ; k" := (w_bind m (fun _ => k)) (at level 200, m at level 100, k at level 200).

(* for x in xs: f(x) — a raise ends the loop *)
Fixpoint w_iter {S A} (f : A -> W S unit) (xs : list A) : W S unit :=
  match xs with
  | [] => w_ret tt
  | x :: r => dow_ f x; w_iter f r
  end.

(* n times *)
Fixpoint w_times {S} (n : nat) (m : W S unit) : W S unit :=
  match n with 0 => w_ret tt | S k => dow_ m; w_times k m end.

(* what a finished computation left: the exception, if one escaped *)
Definition res_exn {A} (r : result A) : option exn := match r with Ok _ => None | Raise e => Some e end.
