(* Norm.v — hand model of pyx12/scripts/x12norm.py:main for one input file:
   read by path, optionally repair counts from the reader's own counters,
   re-format every segment with the source delimiters, optional eol. *)
From Coq Require Import String.
From PX.Lib Require Import Base PyStr PyInt.
From PX.Model Require Import Path Segment Raw Reader Writer.

Local Definition l (s : string) : str := list_ascii_of_string s.

Record nopts := { o_eol : bool; o_fix : bool }.

Definition has_code (c : string) (es : list err) : bool := existsb (fun e => str_eqb (e_code e) (l c)) es.

(* the --fixcounting branch: x' is the reader state after the segment was read *)
Definition fix_seg (d : delims) (x' : xstate) (s : seg) (es : list err) : result seg :=
  if sid_is s "IEA" && has_code "021" es then set_ix d s (Some 0%Z, None) (fmt_Z (gs_count x'))
  else if sid_is s "GE" && has_code "5" es then set_ix d s (Some 0%Z, None) (fmt_Z (st_count x'))
  else if sid_is s "SE" && has_code "4" es then set_ix d s (Some 0%Z, None) (fmt_Z (seg_count x' + 1)%Z)
  else if sid_is s "HL" && has_code "HL1" es then set_ix d s (Some 0%Z, None) (fmt_Z (hl_count x'))
  else Ok s.

(* the loop over the source; `pending` = errors recorded since the last pop_errors *)
Fixpoint norm_lines (o : nopts) (d : delims) (x : xstate) (pending : list err) (lines : list str)
  : result (list seg) :=
  match lines with
  | [] => Ok []
  | ln :: rest =>
      do r <- reader_line_opt d x ln;
      match r with
      | (x', None, es) => norm_lines o d x' (pending ++ es) rest
      | (x', Some s, es) =>
          do s' <- (if o_fix o then fix_seg d x' s (pending ++ es) else Ok s);
          do more <- norm_lines o d x' (if o_fix o then [] else pending ++ es) rest;
          Ok (s' :: more)
      end
  end.

Definition NL1 : str := [ascii_of_nat 10].

Definition norm_text (o : nopts) (bytes : str) : result str :=
  do st <- open_path bytes;
  do ra <- raw_all st;
  let (r, lines) := ra in
  let d := delims_of r in
  do segs <- norm_lines o d x_init [] lines;
  let eol := if o_eol o then NL1 else [] in
  Ok (concat (map (fun s => format_seg d s ++ eol) segs) ++ (if o_eol o then [] else NL1)).
