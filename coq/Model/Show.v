(* Show.v — canonical printing used by the correspondence check: every unit
   of the model is run as  list str -> str  so that the OCaml driver (and the
   vm_compute route) stay generic. *)
From Coq Require Import String.
From PX.Lib Require Import Base PyStr.

Definition sl (s : string) : str := list_ascii_of_string s.

Definition show_bool (b : bool) : str := if b then sl "T" else sl "F".

Definition digit_char (n : nat) : ascii := ascii_of_nat (48 + n).

Fixpoint show_pos_fuel (fuel : nat) (n : N) (acc : str) : str :=
  match fuel with
  | 0 => acc
  | S f => let d := N.to_nat (n mod 10) in
           let q := (n / 10)%N in
           if N.eqb q 0 then digit_char d :: acc else show_pos_fuel f q (digit_char d :: acc)
  end.
Definition show_N (n : N) : str := show_pos_fuel (S (N.to_nat (N.log2 n))) n [].
Definition show_nat (n : nat) : str := show_N (N.of_nat n).
Definition show_Z (z : Z) : str :=
  match z with
  | Z0 => sl "0"
  | Zpos p => show_N (Npos p)
  | Zneg p => "-"%char :: show_N (Npos p)
  end.

Definition show_exn (e : exn) : str :=
  match e with
  | X12Error => sl "!X12Error" | EngineError => sl "!EngineError"
  | X12PathError => sl "!X12PathError" | IndexError => sl "!IndexError"
  | ValueError => sl "!ValueError" | TypeError => sl "!TypeError"
  | AttributeError => sl "!AttributeError" | KeyError => sl "!KeyError"
  | UnboundLocalError => sl "!UnboundLocalError" | OtherError => sl "!Other"
  end.

Definition show_result {A} (f : A -> str) (r : result A) : str :=
  match r with Ok a => f a | Raise e => show_exn e end.

Definition show_opt {A} (f : A -> str) (o : option A) : str :=
  match o with Some a => "S"%char :: f a | None => sl "N" end.

(* hex of a string, so that separators are unambiguous *)
Definition hex_digit (n : nat) : ascii :=
  if n <? 10 then ascii_of_nat (48 + n) else ascii_of_nat (87 + n).
Definition show_hex (s : str) : str :=
  flat_map (fun c => let n := nat_of_ascii c in [hex_digit (n / 16); hex_digit (n mod 16)]) s.

Definition sep (c : ascii) (l : list str) : str := join c l.

(* decimal argument *)
Definition arg_nat (s : str) : nat := N.to_nat (dec_val s).
