(* Raw.v — hand model of pyx12/rawx12file.py (RawX12File).
   A stream is the remaining text plus a read schedule: the k-th read(n)
   returns min(n, cap_k, remaining) characters, cap_k >= 1 (io contract: "at
   most n characters; '' only at end of input").  An exhausted schedule means
   reads are only limited by n. *)
From Coq Require Import String.
From PX.Lib Require Import Base PyStr.
From PX.Gen Require Import SrcConsts.

Local Definition l (s : string) : str := list_ascii_of_string s.

Record stream := { rest : str; sched : list nat }.

Definition read (n : nat) (st : stream) : str * stream :=
  let cap := match sched st with c :: _ => Nat.max 1 c | [] => n end in
  let k := Nat.min n cap in
  (firstn k (rest st), {| rest := skipn k (rest st); sched := tl (sched st) |}).

(* `while len(line) < want: more = read(want - len(line)); if not more: break; line += more` *)
Fixpoint read_upto (fuel : nat) (want : nat) (line : str) (st : stream) : str * stream :=
  match fuel with
  | 0 => (line, st)
  | S f =>
      if length line <? want then
        let (more, st') := read (want - length line) st in
        match more with
        | [] => (line, st')
        | _ => read_upto f want (line ++ more) st'
        end
      else (line, st)
  end.

Record rawst := {
  r_seg_term : ascii; r_ele_term : ascii; r_subele_term : ascii;
  r_repetition_term : option ascii; r_icvn : str;
  r_buffer : str; r_stream : stream
}.

(* RawX12File.__init__ *)
Definition raw_init (st : stream) : result rawst :=
  let (first, st1) := read ISA_LEN st in
  let (line, st2) := read_upto ISA_LEN ISA_LEN first st1 in
  if negb (str_eqb (firstn 3 line) (l "ISA")) then Raise X12Error
  else if negb (length line =? ISA_LEN) then Raise X12Error
  else
    let icvn := slice line icvn_lo icvn_hi in
    if negb (mem_str icvn icvn_known) then Raise X12Error
    else
      match nth_res line (ISA_LEN - 1), nth_res line ele_term_pos, nth_res line (ISA_LEN - 2), nth_res line rep_term_pos with
      | Ok t, Ok e, Ok s, Ok r =>
          let (more, st3) := read DEFAULT_BUFSIZE st2 in
          Ok {| r_seg_term := t; r_ele_term := e; r_subele_term := s;
                r_repetition_term := if str_eqb icvn (l "00501") then Some r else None;
                r_icvn := icvn; r_buffer := line ++ more; r_stream := st3 |}
      | _, _, _, _ => Raise IndexError
      end.

(* the refill loop: `while buffer.find(seg_term) == -1: more = read(BUF); if not more: break; buffer += more` *)
Fixpoint refill (fuel : nat) (bufsize : nat) (t : ascii) (buffer : str) (st : stream) : str * stream :=
  match fuel with
  | 0 => (buffer, st)
  | S f =>
      if mem_ascii t buffer then (buffer, st)
      else
        let (more, st') := read bufsize st in
        match more with
        | [] => (buffer, st')
        | _ => refill f bufsize t (buffer ++ more) st'
        end
  end.

Definition NLCR : str := [ascii_of_nat 10; ascii_of_nat 13].

(* RawX12File.__iter__, run to exhaustion: the list of yielded lines *)
Fixpoint raw_lines (fuel : nat) (bufsize : nat) (t : ascii) (buffer : str) (st : stream) : list str :=
  match fuel with
  | 0 => []
  | S f =>
      let (buffer1, st1) := refill (S (length (rest st))) bufsize t buffer st in
      match split1 t buffer1 with
      | None => []
      | Some (line, buffer2) =>
          let line' := lstrip_set NLCR line in
          match line' with
          | [] => raw_lines f bufsize t buffer2 st1
          | _ => line' :: raw_lines f bufsize t buffer2 st1
          end
      end
  end.

Definition raw_all (st : stream) : result (rawst * list str) :=
  do r <- raw_init st;
  Ok (r, raw_lines (S (length (r_buffer r) + length (rest (r_stream r)))) DEFAULT_BUFSIZE
               (r_seg_term r) (r_buffer r) (r_stream r)).

(* X12Reader.__init__ with a path: open(path, <open_mode>, encoding='ascii', newline=...).
   `bytes` is the file content; reading decodes lazily, a non-ASCII byte raises
   UnicodeDecodeError (a ValueError). *)
Fixpoint universal_newlines (s : str) : str :=
  match s with
  | [] => []
  | c :: r =>
      if Ascii.eqb c (ascii_of_nat 13) then
        match r with
        | c2 :: r2 => if Ascii.eqb c2 (ascii_of_nat 10) then ascii_of_nat 10 :: universal_newlines r2
                      else ascii_of_nat 10 :: universal_newlines r
        | [] => [ascii_of_nat 10]
        end
      else c :: universal_newlines r
  end.

Definition open_path (bytes : str) : result stream :=
  if negb (str_eqb open_mode (l "r") || str_eqb open_mode (l "rt")) then Raise ValueError
  else if negb (forallb (fun c => nat_of_ascii c <? 128) bytes) then Raise ValueError
  else Ok {| rest := if open_newline_translates then universal_newlines bytes else bytes; sched := [] |}.
