(* Walker.v — hand model of pyx12/map_walker.py: pop_to_parent_loop,
   is_first_seg_match2 and class walk_tree (walk, forceWalkCounterToLoopStart,
   _check_seg_usage, _seg_not_found_error, _flush_mandatory_segs,
   _is_loop_match, _goto_seg_match, _check_loop_usage).

   Map nodes are node references (MapTree.nref: child indices from the root in
   position order; [] is the map root).  What the walker does to the error
   handler is an ordered list of events (`wev`): add_seg and seg_error are the
   only two methods it calls.

   The walker is a computation `W A`: state in, state out, possibly a raised
   exception; the state that comes out WITH the exception is the partially
   updated one (counter, mandatory_segs_missing, the events already sent), as
   in Python.  `walk` is the pure projection asked for by callers that do not
   need the partial state.

   Python facts used throughout:
     - x12_node.__eq__ (map_if.py:43-46) compares `id` and `parent.id`, not identity;
       map_if.__eq__ (248) compares `id` only, but is never the left operand here.
     - truthiness of a node is `len(children) != 0` (x12_node.__len__, 65).
     - `child.x12path` = X12Path(child.get_path()) (126-137); get_path concatenates
       the `path` attributes from the root down (111-124), TypeError on a None path.
     - an `assert` that fails raises AssertionError: OtherError in the model. *)
From Coq Require Import String.
From PX.Lib Require Import Base PyStr PyInt Regex Xml.
From PX.Model Require Import Path Segment Syntax MapLoad MapTree Element Counter.

Local Definition l (x : string) : str := list_ascii_of_string x.

(* ------------------------------------------------------------------ *)
(* what is handed to the error handler                                 *)

(* a pyx12.segment.Segment object: the delimiters it was built with + content *)
Record xsg := { xg_d : delims; xg_s : seg }.

(* what err_seg.__init__ reads from the map node: name, pos *)
Record ninfo := { n_name : option str; n_pos : Z }.

Inductive wev :=
| WAddSeg (mn : option ninfo) (x : xsg) (seg_count cur_line : Z) (ls_id : option str)
| WSegErr (code msg : str) (value : option str).

(* one tuple of mandatory_segs_missing: (seg_node, seg_data, err_cde, err_str, seg_count, cur_line, ls_id);
   of the node the tuple keeps the reference and the attributes that are read later (pos, name; id and
   parent.id for `!=`) *)
Record mentry := {
  me_node : nref; me_id : option str; me_pid : option str; me_info : ninfo;
  me_seg : xsg; me_code : str; me_msg : str; me_seg_count : Z; me_cur_line : Z; me_ls : option str
}.

(* walk_tree: self.counter, self.mandatory_segs_missing *)
Record wstate := { w_counter : counter; w_missing : list mentry }.

(* walk_tree.__init__ (map_walker.py:95-100) with initialCounts = None *)
Definition wstate_init : wstate := {| w_counter := counter_init; w_missing := [] |}.

(* ------------------------------------------------------------------ *)
(* state + event log + exception                                       *)

Record wst := { ws : wstate; wlog : list wev }.

Definition W (A : Type) : Type := wst -> wst * result A.

Definition w_ret {A} (a : A) : W A := fun s => (s, Ok a).
Definition w_bind {A B} (m : W A) (f : A -> W B) : W B :=
  fun s => match m s with
           | (s', Ok a) => f a s'
           | (s', Raise e) => (s', Raise e)
           end.
Definition w_lift {A} (r : result A) : W A := fun s => (s, r).
Definition w_raise {A} (e : exn) : W A := fun s => (s, Raise e).

Notation "'dow' x <- m ; k" := (w_bind m (fun x => k)) (at level 200, x pattern, m at level 100, k at level 200).
Notation "'dow_' m ; k" := (w_bind m (fun _ => k)) (at level 200, m at level 100, k at level 200).

Definition w_emit (e : wev) : W unit := fun s => ({| ws := ws s; wlog := wlog s ++ [e] |}, Ok tt).
Definition w_counter_get : W counter := fun s => (s, Ok (w_counter (ws s))).
Definition w_counter_set (c : counter) : W unit :=
  fun s => ({| ws := {| w_counter := c; w_missing := w_missing (ws s) |}; wlog := wlog s |}, Ok tt).
Definition w_missing_get : W (list mentry) := fun s => (s, Ok (w_missing (ws s))).
Definition w_missing_set (ms : list mentry) : W unit :=
  fun s => ({| ws := {| w_counter := w_counter (ws s); w_missing := ms |}; wlog := wlog s |}, Ok tt).

Fixpoint w_iter {A} (f : A -> W unit) (xs : list A) : W unit :=
  match xs with
  | [] => w_ret tt
  | x :: r => dow_ f x; w_iter f r
  end.

(* ------------------------------------------------------------------ *)
(* navigation on node references                                       *)

(* a reference that does not denote a loop or a segment is not a Python situation: OtherError *)
Definition get_node (m : xmap) (r : nref) : result node :=
  match node_at (root_nodes m) r with Some n => Ok n | None => Raise OtherError end.

(* children in iteration order (`for ord1 in sorted(pos_map): for child in pos_map[ord1]`) of the
   root ([]) or of a loop *)
Definition container_children (m : xmap) (r : nref) : result (list node) :=
  match r with
  | [] => Ok (root_nodes m)
  | _ => do n <- get_node m r;
         match n with NLoop _ _ _ _ _ _ pm => Ok (pm_nodes pm) | NSeg _ => Raise OtherError end
  end.

Definition node_is_loop (n : node) : bool := match n with NLoop _ _ _ _ _ _ _ => true | NSeg _ => false end.
Definition node_usage (n : node) : option str :=
  match n with NLoop _ _ _ u _ _ _ => u | NSeg sg => s_usage sg end.
Definition node_name (n : node) : option str :=
  match n with NLoop _ _ nm _ _ _ _ => nm | NSeg sg => s_name sg end.
Definition info_of (n : node) : ninfo := {| n_name := node_name n; n_pos := node_pos n |}.

(* pop_to_parent_loop (map_walker.py:30-46): the root is its own answer; the parent of a loop or
   segment is always a loop or the root, so the `while` does not iterate and neither raise is reachable *)
Definition pop_to_parent_loop (r : nref) : nref := removelast r.

(* node.parent.id for a loop/segment: the enclosing loop's id or the map's id *)
Definition parent_id (m : xmap) (r : nref) : result (option str) :=
  match removelast r with
  | [] => Ok (m_id m)
  | p => do n <- get_node m p; Ok (node_id n)
  end.

(* x12_node.get_path (map_if.py:111-124) / map_if.get_path (289-293: '/') *)
Fixpoint path_from (ns : list node) (parent_path : str) (r : nref) : result str :=
  match r with
  | [] => Ok parent_path
  | i :: rest =>
      match nth_error ns i with
      | None => Raise OtherError
      | Some n =>
          do p <- join_path parent_path (node_own_path n);
          match rest with [] => Ok p | _ => path_from (node_children n) p rest end
      end
  end.
Definition node_path (m : xmap) (r : nref) : result str := path_from (root_nodes m) (l "/") r.

(* x12_node._get_x12_path (map_if.py:126-137) *)
Definition node_x12path (m : xmap) (r : nref) : result xpath :=
  do p <- node_path m r; parse_path p.

(* a == b for a loop/segment node a (x12_node.__eq__, map_if.py:43-46); b may be the root, whose
   parent is None *)
Definition node_eq (m : xmap) (a b : nref) : result bool :=
  do na <- get_node m a;
  do idb <- (match b with [] => Ok (m_id m) | _ => do nb <- get_node m b; Ok (node_id nb) end);
  if negb (ostr_eqb (node_id na) idb) then Ok false
  else match b with
       | [] => Raise AttributeError                  (* other.parent.id with other.parent None *)
       | _ => do pa <- parent_id m a; do pb <- parent_id m b; Ok (ostr_eqb pa pb)
       end.

(* `if node1:` for a segment node *)
Definition node_truthy (m : xmap) (r : nref) : result bool :=
  do n <- get_node m r;
  Ok (match n with
      | NSeg sg => negb (match s_children sg with [] => true | _ => false end)
      | NLoop _ _ _ _ _ _ pm => negb (match pm_nodes pm with [] => true | _ => false end)
      end).

(* pyx12.segment.Segment('%s' % (node.id), '~', '*', ':') *)
Definition D0 : delims := {| seg_term := "~"%char; ele_term := "*"%char; subele_term := ":"%char |}.
Definition fake_seg (id : option str) : xsg := {| xg_d := D0; xg_s := parse_seg D0 (ostr0 id) |}.

Definition usage_ok (u : option str) : bool := usage_is u "N" || usage_is u "R" || usage_is u "S".

(* the arguments of walk that are only passed along *)
Record wargs := { a_x : xsg; a_seg_count : Z; a_cur_line : Z; a_ls : option str }.

Definition add_seg_ev (n : node) (x : xsg) (a : wargs) : wev :=
  WAddSeg (Some (info_of n)) x (a_seg_count a) (a_cur_line a) (a_ls a).

(* self.mandatory_segs_missing.append((node, fake_seg, '3', err_str, seg_count, cur_line, ls_id)) *)
Definition append_missing (m : xmap) (r : nref) (n : node) (msg : str) (a : wargs) : W unit :=
  dow pid <- w_lift (parent_id m r);
  dow ms <- w_missing_get;
  w_missing_set (ms ++ [{| me_node := r; me_id := node_id n; me_pid := pid; me_info := info_of n;
                           me_seg := fake_seg (node_id n); me_code := l "3"; me_msg := msg;
                           me_seg_count := a_seg_count a; me_cur_line := a_cur_line a; me_ls := a_ls a |}]).

(* ------------------------------------------------------------------ *)
(* _flush_mandatory_segs (map_walker.py:251-263); cur_pos None flushes everything *)
Definition pos_is (e : mentry) (cur_pos : option Z) : bool := opt_eqb Z.eqb (Some (n_pos (me_info e))) cur_pos.

Definition flush_mandatory_segs (cur_pos : option Z) : W unit :=
  dow ms <- w_missing_get;
  dow_ w_iter (fun e =>
                 if negb (pos_is e cur_pos) then
                   dow_ w_emit (WAddSeg (Some (me_info e)) (me_seg e) (me_seg_count e) (me_cur_line e) (me_ls e));
                   w_emit (WSegErr (me_code e) (me_msg e) None)
                 else w_ret tt) ms;
  w_missing_set (filter (fun e => pos_is e cur_pos) ms).

(* ------------------------------------------------------------------ *)
(* _check_seg_usage (map_walker.py:201-229) *)
Definition check_seg_usage (m : xmap) (r : nref) (sn : segm) (a : wargs) : W unit :=
  if negb (usage_ok (s_usage sn)) then w_raise OtherError               (* assert, 219 *)
  else if usage_is (s_usage sn) "N" then
    w_emit (WSegErr (l "2") (l "Segment " ++ ostr0 (s_id sn) ++ l " found but marked as not used") None)
  else
    dow xp <- w_lift (node_x12path m r);
    dow c <- w_counter_get;
    dow mx <- w_lift (seg_max_repeat sn);
    if (mx <? get_count c xp)%Z then
      dow_ w_emit (add_seg_ev (NSeg sn) (a_x a) a);
      w_emit (WSegErr (l "5")
                (l "Segment " ++ show_sid (sid (xg_s (a_x a))) ++ l " exceeded max count.  Found " ++ fmt_i (get_count c xp) ++
                 l ", should have " ++ fmt_i mx) None)
    else w_ret tt.

(* _check_loop_usage (map_walker.py:351-392) *)
Definition check_loop_usage (m : xmap) (r : nref) (n : node) (a : wargs) : W unit :=
  match n with
  | NSeg _ => w_raise OtherError                                        (* assert loop_node.is_loop(), 369 *)
  | NLoop id _ _ usage _ repeat _ =>
      if negb (usage_ok usage) then w_raise OtherError                  (* assert, 371 *)
      else if usage_is usage "N" then
        w_emit (WSegErr (l "2") (l "Loop " ++ ostr0 id ++ l " found but marked as not used") None)
      else
        dow xp <- w_lift (node_x12path m r);
        dow c <- w_counter_get;
        let c' := increment (reset_to_node c xp) xp in
        dow_ w_counter_set c';
        dow mx <- w_lift (loop_max_repeat repeat);
        if (mx <? get_count c' xp)%Z then
          dow_ w_emit (add_seg_ev n (a_x a) a);
          w_emit (WSegErr (l "4")
                    (l "Loop " ++ ostr0 id ++ l " exceeded max count.  Found " ++ fmt_i (get_count c' xp) ++
                     l ", should have " ++ fmt_i mx) None)
        else w_ret tt
  end.

(* _seg_not_found_error (map_walker.py:232-249) *)
Definition seg_not_found_error (m : xmap) (orig : nref) (a : wargs) : W unit :=
  let x := a_x a in
  dow seg_str <- w_lift (if opt_eqb str_eqb (sid (xg_s x)) (Some (l "HL"))
                         then Ok (removelast (format_seg D0 (xg_s x)))              (* seg_data.format('', '*', ':') *)
                         else do v <- seg_get_value (xg_d x) (xg_s x) (l "01");
                              Ok (show_sid (sid (xg_s x)) ++ l "*" ++ ostr0 v));
  dow p <- w_lift (node_path m orig);
  dow n <- w_lift (get_node m orig);
  dow_ w_emit (add_seg_ev n x a);
  w_emit (WSegErr (l "1") (l "Segment " ++ seg_str ++ l " not found.  Started at " ++ p) None).

(* ------------------------------------------------------------------ *)
(* _is_loop_match (map_walker.py:265-306); fuel = loop nesting depth *)
Fixpoint is_loop_match (fuel : nat) (m : xmap) (a : wargs) (r : nref) (n : node) : W bool :=
  match fuel with
  | 0 => w_raise OtherError
  | S f =>
      match n with
      | NSeg _ => w_raise OtherError                                    (* assert loop_node.is_loop(), 281 *)
      | NLoop id _ name usage _ _ pm =>
          match pm_nodes pm with
          | [] => w_ret false                                           (* len(loop_node) <= 0, 288 *)
          | first :: _ =>
              match first with
              | NLoop _ _ _ _ _ _ _ =>
                  (* 292-297: if any child loop matches *)
                  (fix go (i : nat) (cs : list node) : W bool :=
                     match cs with
                     | [] => w_ret false
                     | c :: cs' =>
                         match c with
                         | NLoop _ _ _ _ _ _ _ =>
                             dow b <- is_loop_match f m a (r ++ [i]) c;
                             if b then w_ret true else go (S i) cs'
                         | NSeg _ => go (S i) cs'
                         end
                     end) 0 (pm_nodes pm)
              | NSeg s0 =>
                  (* 298: is_first_seg_match2 *)
                  dow b <- w_lift (seg_is_match (xg_d (a_x a)) (m_dataele m) s0 (xg_s (a_x a)));
                  if b then w_ret true
                  else if usage_is usage "R" then
                    (* 300-305 *)
                    dow xp <- w_lift (node_x12path m r);
                    dow c <- w_counter_get;
                    if (get_count c xp <? 1)%Z then
                      dow_ append_missing m (r ++ [0]) first
                                          (l "Mandatory loop """ ++ ostr0 name ++ l """ (" ++ ostr0 id ++ l ") missing") a;
                      w_ret false
                    else w_ret false
                  else w_ret false
              end
          end
      end
  end.

(* _goto_seg_match (map_walker.py:308-349) *)
Fixpoint goto_seg_match (fuel : nat) (m : xmap) (a : wargs) (r : nref) (n : node) : W (option nref * list nref) :=
  match fuel with
  | 0 => w_raise OtherError
  | S f =>
      match n with
      | NSeg _ => w_raise OtherError                                    (* assert loop_node.is_loop(), 328 *)
      | NLoop _ _ _ _ _ _ pm =>
          match pm_nodes pm with
          | [] => w_raise AttributeError                                (* 330: get_first_seg -> None.is_segment(), map_if.py:486-491 *)
          | first :: _ =>
              dow hit <- (match first with
                          | NSeg s0 => w_lift (seg_is_match (xg_d (a_x a)) (m_dataele m) s0 (xg_s (a_x a)))
                          | NLoop _ _ _ _ _ _ _ => w_ret false          (* get_first_seg() is None *)
                          end);
              if hit then
                (* 331-338 *)
                dow_ check_loop_usage m r n a;
                dow xp <- w_lift (node_x12path m (r ++ [0]));
                dow c <- w_counter_get;
                dow_ w_counter_set (increment c xp);
                dow_ flush_mandatory_segs None;
                w_ret (Some (r ++ [0]), [r])
              else
                (* 340-348 *)
                (fix go (i : nat) (cs : list node) : W (option nref * list nref) :=
                   match cs with
                   | [] => w_ret (None, [])                             (* 349 *)
                   | c :: cs' =>
                       match c with
                       | NLoop _ _ _ _ _ _ _ =>
                           dow res <- goto_seg_match f m a (r ++ [i]) c;
                           match fst res with
                           | Some r1 =>
                               dow t <- w_lift (node_truthy m r1);      (* `if node1:` *)
                               if t then w_ret (Some r1, r :: snd res) else go (S i) cs'
                           | None => go (S i) cs'
                           end
                       | NSeg _ => go (S i) cs'
                       end
                   end) 0 (pm_nodes pm)
          end
      end
  end.

Fixpoint enumerate {A} (i : nat) (xs : list A) : list (nat * A) :=
  match xs with [] => [] | x :: r => (i, x) :: enumerate (S i) r end.

(* ------------------------------------------------------------------ *)
(* _note_missing_children (map_walker.py:269-293): the loop r starts again with its first segment; required
   children that the instance being left does not have become pending "mandatory ... missing" entries, unless an
   equal node (x12_node.__eq__: id and parent id) is pending already.  `pending` is computed once, before the loop. *)
Definition note_missing_children (m : xmap) (a : wargs) (r : nref) : W unit :=
  dow kids <- w_lift (container_children m r);
  dow ms0 <- w_missing_get;
  (* the count of the child cr and the pending test: evaluated only for segment children and loops that begin with
     a segment (`self.counter.get_count(child.x12path) >= 1 or first_node in pending`) *)
  let try_append (cr fr : nref) (nd : node) (msg : str) : W unit :=
    dow xp <- w_lift (node_x12path m cr);
    dow cn <- w_counter_get;
    if negb (get_count cn xp <? 1)%Z then w_ret tt
    else
      dow pid <- w_lift (parent_id m fr);
      if existsb (fun e => ostr_eqb (me_id e) (node_id nd) && ostr_eqb (me_pid e) pid) ms0 then w_ret tt
      else append_missing m fr nd msg a in
  w_iter (fun ic : nat * node =>
            let cr := r ++ [fst ic] in
            let c := snd ic in
            if negb (usage_is (node_usage c) "R") then w_ret tt
            else
              match c with
              | NSeg s0 =>
                  try_append cr cr c (l "Mandatory segment """ ++ ostr0 (s_name s0) ++ l """ (" ++ ostr0 (s_id s0) ++ l ") missing")
              | NLoop id _ name _ _ _ pm =>
                  match pm_nodes pm with
                  | (NSeg _ as first) :: _ =>
                      try_append cr (cr ++ [0]) first (l "Mandatory loop """ ++ ostr0 name ++ l """ (" ++ ostr0 id ++ l ") missing")
                  | _ => w_ret tt                                       (* no children, or the first child is a loop *)
                  end
              end) (enumerate 0 kids).

(* `not (orig_node.is_loop() or orig_node.is_map_root())` *)
Definition orig_is_segment (m : xmap) (orig : nref) : bool :=
  match orig with
  | [] => false
  | _ => match node_at (root_nodes m) orig with Some (NSeg _) => true | _ => false end
  end.

(* ------------------------------------------------------------------ *)
(* walk (map_walker.py:102-187) *)

Definition walk_result := (option nref * list nref * list nref)%type.


(* one turn of `while True` (135-184): scan the children of `cur` at positions >= node_pos, then pop *)
Fixpoint walk_loop (fuel : nat) (m : xmap) (a : wargs) (orig orig_loop : nref)
                   (cur : nref) (npos : Z) (pop : list nref) : W walk_result :=
  match fuel with
  | 0 => w_raise OtherError
  | S f =>
      dow kids <- w_lift (container_children m cur);
      dow found <-
        (fix scan (cs : list (nat * node)) : W (option walk_result) :=
           match cs with
           | [] => w_ret None
           | (i, c) :: rest =>
               let cr := cur ++ [i] in
               match c with
               | NSeg s0 =>
                   dow b <- w_lift (seg_is_match (xg_d (a_x a)) (m_dataele m) s0 (xg_s (a_x a)));
                   if b then
                     (* 142-143: is the matched segment the beginning of the current loop? *)
                     dow lm <- (match cur with
                                | [] => w_ret false                     (* node.is_loop() is False for the root *)
                                | _ => dow n <- w_lift (get_node m cur); is_loop_match 40 m a cur n
                                end);
                     if lm then
                       (* 144-158 *)
                       dow_ (if orig_is_segment m orig then note_missing_children m a cur else w_ret tt);
                       dow n <- w_lift (get_node m cur);
                       dow g <- goto_seg_match 40 m a cur n;
                       dow same <- w_lift (node_eq m cur orig_loop);
                       if same then w_ret (Some (fst g, [cur], [cur]))
                       else w_ret (Some (fst g, pop, snd g))
                     else
                       (* 156-165 *)
                       dow xp <- w_lift (node_x12path m cr);
                       dow cn <- w_counter_get;
                       dow_ w_counter_set (increment cn xp);
                       dow_ check_seg_usage m cr s0 a;
                       dow pid <- w_lift (parent_id m cr);
                       dow ms <- w_missing_get;
                       dow_ w_missing_set (filter (fun e => negb (ostr_eqb (me_id e) (s_id s0) && ostr_eqb (me_pid e) pid)) ms);
                       dow_ flush_mandatory_segs (Some (s_pos s0));
                       w_ret (Some (Some cr, pop, []))
                   else if usage_is (s_usage s0) "R" then
                     (* 166-169 *)
                     dow xp <- w_lift (node_x12path m cr);
                     dow cn <- w_counter_get;
                     dow_ (if (get_count cn xp <? 1)%Z
                           then append_missing m cr c (l "Mandatory segment """ ++ ostr0 (s_name s0) ++ l """ (" ++
                                                       ostr0 (s_id s0) ++ l ") missing") a
                           else w_ret tt);
                     scan rest
                   else scan rest
               | NLoop _ _ _ _ _ _ _ =>
                   (* 173-176 *)
                   dow lm <- is_loop_match 40 m a cr c;
                   if lm then
                     dow g <- goto_seg_match 40 m a cr c;
                     w_ret (Some (fst g, pop, snd g))
                   else scan rest
               end
           end) (filter (fun ic => (npos <=? node_pos (snd ic))%Z) (enumerate 0 kids));
      match found with
      | Some res => w_ret res
      | None =>
          match cur with
          | [] =>
              (* 178-181: at the root and still not found *)
              dow_ seg_not_found_error m orig a;
              w_ret (None, [], [])
          | _ =>
              (* 182-184 *)
              dow n <- w_lift (get_node m cur);
              walk_loop f m a orig orig_loop (pop_to_parent_loop cur) (node_pos n) (pop ++ [cur])
          end
      end
  end.

Definition walk_w (m : xmap) (start : nref) (d : delims) (sg : seg) (seg_count cur_line : Z) (ls_id : option str)
  : W walk_result :=
  let a := {| a_x := {| xg_d := d; xg_s := sg |}; a_seg_count := seg_count; a_cur_line := cur_line; a_ls := ls_id |} in
  dow_ w_missing_set [];                                                (* 130 *)
  match start with
  | [] => w_raise AttributeError                                        (* 131: map_if has no attribute `pos` *)
  | _ =>
      dow n0 <- w_lift (get_node m start);
      (* 132-133 (and 147-150 for orig_loop): the enclosing loop of a segment, the node itself otherwise *)
      let cur0 := if node_is_loop n0 then start else pop_to_parent_loop start in
      walk_loop (S (length start)) m a start cur0 cur0 (node_pos n0) []
  end.

(* the pure view: result, final walker state and the handler calls in order *)
Definition walk (m : xmap) (w : wstate) (start : nref) (d : delims) (sg : seg) (seg_count cur_line : Z) (ls_id : option str)
  : result (option nref * list nref * list nref * wstate * list wev) :=
  match walk_w m start d sg seg_count cur_line ls_id {| ws := w; wlog := [] |} with
  | (st, Ok (n, pop, push)) => Ok (n, pop, push, ws st, wlog st)
  | (_, Raise e) => Raise e
  end.

(* the same keeping what had happened before a raise *)
Definition walk_st (m : xmap) (w : wstate) (start : nref) (d : delims) (sg : seg) (seg_count cur_line : Z) (ls_id : option str)
  : wstate * list wev * result walk_result :=
  match walk_w m start d sg seg_count cur_line ls_id {| ws := w; wlog := [] |} with
  | (st, r) => (ws st, wlog st, r)
  end.

(* forceWalkCounterToLoopStart (map_walker.py:195-199): string paths, parsed by makeX12Path *)
Definition forceWalkCounterToLoopStart (w : wstate) (x12_path child_path : str) : result wstate :=
  do c1 <- reset_to_node_str (w_counter w) x12_path;
  do c2 <- increment_str c1 x12_path;
  do c3 <- increment_str c2 child_path;
  Ok {| w_counter := c3; w_missing := w_missing w |}.
