(* MapTree.v — navigation and matching on loaded maps: node references, paths
   (get_path), getnodebypath / getnodebypath2, is_match, is_match_qual,
   get_unique_key_id_element (pyx12/map_if.py). *)
From Coq Require Import String.
From PX.Lib Require Import Base PyStr PyInt Regex Xml.
From PX.Model Require Import Path Segment Syntax MapLoad.

Local Definition l (x : string) : str := list_ascii_of_string x.

(* A node reference: indices from the root: through loops (index into the
   position-ordered child list), then optionally into a segment's children and
   a composite's children. *)
Definition nref := list nat.

Definition node_children (n : node) : list node :=
  match n with NLoop _ _ _ _ _ _ pm => pm_nodes pm | NSeg _ => [] end.

Fixpoint node_at (ns : list node) (r : nref) : option node :=
  match r with
  | [] => None
  | i :: rest =>
      match nth_error ns i with
      | None => None
      | Some n => match rest with [] => Some n | _ => node_at (node_children n) rest end
      end
  end.

Definition root_nodes (m : xmap) : list node := pm_nodes (m_pos_map m).

Definition ostr (o : option str) : str := match o with Some x => x | None => [] end.

(* x12_node.get_path for loops and segments: parent path + '/' + own path ('/' + path under the root) *)
Definition join_path (parent : str) (own : option str) : result str :=
  match own with
  | None => Raise TypeError
  | Some p => Ok (if str_eqb parent (l "/") then l "/" ++ p else parent ++ l "/" ++ p)
  end.

Definition node_own_path (n : node) : option str :=
  match n with NLoop i _ _ _ _ _ _ => i | NSeg sg => s_path sg end.

(* every loop/segment/element/composite/sub-element with its reference, kind and self-reported path *)
Inductive nkind := KLoop | KSeg | KEle | KComp | KSub.

Record nodeinfo := { ni_ref : nref; ni_kind : nkind; ni_path : result str; ni_id : option str }.

Definition ele_path (loop_path : str) (e : elem) : result str :=
  match e_id e with Some i => Ok (loop_path ++ l "/" ++ i) | None => Raise TypeError end.

Definition seg_infos (loop_path : str) (r : nref) (sg : segm) : list nodeinfo :=
  let sp := join_path loop_path (s_path sg) in
  {| ni_ref := r; ni_kind := KSeg; ni_path := sp; ni_id := s_id sg |} ::
  flat_map (fun ic =>
              match snd ic with
              | SubE e => [{| ni_ref := r ++ [fst ic]; ni_kind := KEle; ni_path := ele_path loop_path e; ni_id := e_id e |}]
              | SubC c =>
                  {| ni_ref := r ++ [fst ic]; ni_kind := KComp;
                     ni_path := (if truthy (c_id c) then Ok (loop_path ++ l "/" ++ ostr (c_id c))
                                 else match s_id sg with
                                      | Some si => Ok (loop_path ++ l "/" ++ si ++ fmt_02 (Z.to_N (c_seq c)))
                                      | None => Raise TypeError
                                      end);
                     ni_id := c_id c |} ::
                  map (fun je => {| ni_ref := r ++ [fst ic; fst je]; ni_kind := KSub;
                                    ni_path := ele_path loop_path (snd je); ni_id := e_id (snd je) |})
                      (combine (seq 0 (length (c_children c))) (c_children c))
              end)
           (combine (seq 0 (length (s_children sg))) (s_children sg)).

Fixpoint node_infos (fuel : nat) (parent_path : str) (r : nref) (n : node) : list nodeinfo :=
  match fuel with
  | 0 => []
  | S f =>
      match n with
      | NSeg sg => seg_infos parent_path r sg
      | NLoop i _ _ _ _ _ pm =>
          let p := join_path parent_path i in
          {| ni_ref := r; ni_kind := KLoop; ni_path := p; ni_id := i |} ::
          match p with
          | Ok pp => flat_map (fun ic => node_infos f pp (r ++ [fst ic]) (snd ic))
                              (combine (seq 0 (length (pm_nodes pm))) (pm_nodes pm))
          | Raise _ => []
          end
      end
  end.

Definition all_infos (m : xmap) : list nodeinfo :=
  flat_map (fun ic => node_infos 40 (l "/") [fst ic] (snd ic))
           (combine (seq 0 (length (root_nodes m))) (root_nodes m)).

(* ---- segment_if.get_unique_key_id_element(id_val): is there a qualifying element carrying this code? ---- *)
Definition has_code (e : elem) (v : str) : bool := existsb (ostr_eqb (Some v)) (e_codes e).
Definition no_codes (e : elem) : bool := match e_codes e with [] => true | _ => false end.

Definition unique_key_matches (de : list dataele) (sg : segm) (id_val : str) : result bool :=
  match s_children sg with
  | [] => Raise IndexError
  | c0 :: rest =>
      do b1 <- (match c0 with
                | SubE e => do t <- elem_type de e; Ok (is_ID t && negb (no_codes e) && has_code e id_val)
                | SubC _ => Ok false
                end);
      if b1 then Ok true else
      do b2 <- (if ostr_eqb (s_id sg) (Some (l "ENT")) then
                  match rest with
                  | SubE e1 :: _ => do t <- elem_type de e1; Ok (is_ID t && negb (no_codes e1) && has_code e1 id_val)
                  | SubC _ :: _ => Ok false
                  | [] => Raise IndexError
                  end
                else Ok false);
      if b2 then Ok true else
      do b3 <- (match c0 with
                | SubC c => match c_children c with
                            | [] => Raise IndexError
                            | e0 :: _ => do t <- elem_type de e0; Ok (is_ID t && negb (no_codes e0) && has_code e0 id_val)
                            end
                | SubE _ => Ok false
                end);
      if b3 then Ok true else
      if ostr_eqb (s_id sg) (Some (l "HL")) then
        match rest with
        | _ :: SubE e2 :: _ => Ok (negb (no_codes e2) && has_code e2 id_val)
        | _ :: SubC _ :: _ => Ok false
        | _ => Raise IndexError
        end
      else Ok false
  end.

(* ---- getnodebypath (map_if / loop_if / x12_node versions) ---- *)
Definition id_upper_is (n : node) (x : str) : result bool :=
  match node_id n with Some i => Ok (str_eqb (upper_str i) (upper_str x)) | None => Raise AttributeError end.

(* x12_node.getnodebypath on a segment: search among its children by lower-cased id *)
Definition seg_getnodebypath (sg : segm) (r : nref) (pathl : list str) : result (option nref) :=
  match pathl with
  | [] => Ok None
  | p0 :: rest =>
      (fix go (i : nat) (cs : list sub) : result (option nref) :=
         match cs with
         | [] => Raise EngineError
         | c :: cs' =>
             let cid := match c with SubE e => e_id e | SubC c1 => c_id c1 end in
             match cid with
             | None => Raise AttributeError
             | Some x =>
                 if str_eqb (lower_str x) (lower_str p0) then
                   match rest with
                   | [] => Ok (Some (r ++ [i]))
                   | _ => Raise EngineError         (* not a loop: break, then raise *)
                   end
                 else go (S i) cs'
             end
         end) 0 (s_children sg)
  end.

(* the [qual] part of a path component: text between the first '[' and the first ']' (Python slicing) *)
Definition bracket_parts (p0 : str) : option (str * str) :=
  match PyStr.find "["%char p0 with
  | None => None
  | Some a =>
      let seg_id := firstn a p0 in
      let after := skipn (S a) p0 in
      let id_val := match PyStr.find "]"%char p0 with
                    | Some b => firstn (b - S a) after
                    | None => removelast after        (* [a+1:-1] *)
                    end in
      Some (seg_id, id_val)
  end.

(* loop_if.getnodebypath *)
Fixpoint loop_getnodebypath (fuel : nat) (de : list dataele) (kids : list node) (r : nref) (pathl : list str)
  : result (option nref) :=
  match fuel with
  | 0 => Raise OtherError
  | S f =>
      match pathl with
      | [] => Ok None
      | p0 :: rest =>
          (fix go (i : nat) (cs : list node) : result (option nref) :=
             match cs with
             | [] => Raise EngineError
             | c :: cs' =>
                 match c with
                 | NLoop _ _ _ _ _ _ pm =>
                     do hit <- id_upper_is c p0;
                     if hit then
                       match rest with
                       | [] => Ok (Some (r ++ [i]))
                       | _ => loop_getnodebypath f de (pm_nodes pm) (r ++ [i]) rest
                       end
                     else go (S i) cs'
                 | NSeg sg =>
                     match rest with
                     | [] =>
                         match bracket_parts p0 with
                         | None => if ostr_eqb (Some p0) (s_id sg) then Ok (Some (r ++ [i])) else go (S i) cs'
                         | Some (seg_id, id_val) =>
                             if ostr_eqb (Some seg_id) (s_id sg) then
                               do ok <- unique_key_matches de sg id_val;
                               if ok then Ok (Some (r ++ [i])) else go (S i) cs'
                             else go (S i) cs'
                         end
                     | _ => go (S i) cs'
                     end
                 end
             end) 0 kids
      end
  end.

(* map_if.getnodebypath *)
Definition map_getnodebypath (m : xmap) (spath : str) : result (option nref) :=
  match split "/"%char spath with
  | [] => Ok None
  | _ :: pathl =>
      match pathl with
      | [] => Ok None
      | p0 :: rest =>
          (fix go (i : nat) (cs : list node) : result (option nref) :=
             match cs with
             | [] => Raise EngineError
             | c :: cs' =>
                 match node_id c with
                 | None => Raise AttributeError
                 | Some x =>
                     if str_eqb (lower_str x) (lower_str p0) then
                       match rest with
                       | [] => Ok (Some [i])
                       | _ => match c with
                              | NLoop _ _ _ _ _ _ pm => loop_getnodebypath 40 (m_dataele m) (pm_nodes pm) [i] rest
                              | NSeg sg => seg_getnodebypath sg [i] rest
                              end
                       end
                     else go (S i) cs'
                 end
             end) 0 (root_nodes m)
      end
  end.

(* ---- getnodebypath2 (X12Path based) ---- *)
(* segment_if.getnodebypath2 *)
Definition seg_getnodebypath2 (sg : segm) (r : nref) (path_str : str) : result (option nref) :=
  do xp <- parse_path path_str;
  if path_empty xp then Ok None
  else match ele_idx xp with
       | None => Ok (Some r)
       | Some ei =>
           (* get_child_node_by_ordinal(ei) = get_child_node_by_idx(ei - 1) *)
           let idx := (Z.of_N ei - 1)%Z in
           do ele <- (if (Z.of_nat (length (s_children sg)) <=? idx)%Z then Ok None
                      else
                        let hits := filter (fun ic => Z.eqb (match snd ic with SubE e => e_seq e | SubC c => c_seq c end) (idx + 1))
                                           (combine (seq 0 (length (s_children sg))) (s_children sg)) in
                        match hits with
                        | [ic] => Ok (Some ic)
                        | _ => Raise EngineError
                        end);
           match subele_idx xp with
           | None => Ok (option_map (fun ic => r ++ [fst ic]) ele)
           | Some si =>
               match ele with
               | None => Raise AttributeError                    (* None.get_child_node_by_ordinal *)
               | Some (i, SubC c) =>
                   (* x12_node.get_child_node_by_idx on the composite *)
                   let j := (Z.of_N si - 1)%Z in
                   if (Z.of_nat (length (c_children c)) <=? j)%Z then Ok None
                   else if (j <? 0)%Z then
                     (if (j + Z.of_nat (length (c_children c)) <? 0)%Z then Raise IndexError
                      else Ok (Some (r ++ [i; Z.to_nat (j + Z.of_nat (length (c_children c)))])))
                   else Ok (Some (r ++ [i; Z.to_nat j]))
               | Some (i, SubE _) =>
                   (* element_if has children = []: idx >= 0 gives None, a negative index raises IndexError *)
                   if (0 <=? Z.of_N si - 1)%Z then Ok None else Raise IndexError
               end
           end
       end.

Definition set_loops (xp : xpath) (ll : list str) : xpath :=
  {| relative := relative xp; loop_list := ll; seg_id := seg_id xp; id_val := id_val xp;
     ele_idx := ele_idx xp; subele_idx := subele_idx xp |}.

(* loop_if.getnodebypath2 *)
Fixpoint loop_getnodebypath2 (fuel : nat) (de : list dataele) (kids : list node) (r : nref) (path_str : str)
  : result (option nref) :=
  match fuel with
  | 0 => Raise OtherError
  | S f =>
      do xp <- parse_path path_str;
      if path_empty xp then Ok None
      else
        (fix go (i : nat) (cs : list node) : result (option nref) :=
           match cs with
           | [] => Raise EngineError
           | c :: cs' =>
               match c with
               | NLoop _ _ _ _ _ _ pm =>
                   match loop_list xp with
                   | [] => go (S i) cs'
                   | l0 :: lrest =>
                       do hit <- id_upper_is c l0;
                       if hit then
                         match lrest, seg_id xp with
                         | [], None => Ok (Some (r ++ [i]))
                         | _, _ => loop_getnodebypath2 f de (pm_nodes pm) (r ++ [i]) (format_path (set_loops xp lrest))
                         end
                       else go (S i) cs'
                   end
               | NSeg sg =>
                   match loop_list xp, seg_id xp with
                   | [], Some sid0 =>
                       match id_val xp with
                       | None =>
                           if ostr_eqb (Some sid0) (s_id sg) then seg_getnodebypath2 sg (r ++ [i]) (format_path xp)
                           else go (S i) cs'
                       | Some iv =>
                           if ostr_eqb (Some sid0) (s_id sg) then
                             do ok <- unique_key_matches de sg iv;
                             if ok then seg_getnodebypath2 sg (r ++ [i]) (format_path xp) else go (S i) cs'
                           else go (S i) cs'
                       end
                   | _, _ => go (S i) cs'
                   end
               end
           end) 0 kids
  end.

(* map_if.getnodebypath2 *)
Definition map_getnodebypath2 (m : xmap) (path_str : str) : result (option nref) :=
  do xp <- parse_path path_str;
  if path_empty xp then Ok None
  else
    match loop_list xp with
    | [] => Raise IndexError                 (* x12path.loop_list[0] *)
    | l0 :: lrest =>
        (fix go (i : nat) (cs : list node) : result (option nref) :=
           match cs with
           | [] => Raise EngineError
           | c :: cs' =>
               match node_id c with
               | None => Raise AttributeError
               | Some x =>
                   if str_eqb (upper_str x) l0 then
                     match lrest, seg_id xp with
                     | [], None => Ok (Some [i])
                     | _, _ =>
                         let p' := format_path (set_loops xp lrest) in
                         match c with
                         | NLoop _ _ _ _ _ _ pm => loop_getnodebypath2 40 (m_dataele m) (pm_nodes pm) [i] p'
                         | NSeg sg => seg_getnodebypath2 sg [i] p'
                         end
                     end
                   else go (S i) cs'
               end
           end) 0 (root_nodes m)
    end.

(* ---- segment_if.is_match ---- *)
(* seg.get_value('NN') / ('NN-M'): None when absent *)
Definition seg_val (d : delims) (sg : seg) (i : nat) : option str :=
  match i with 0 => None | S k =>
    if length (els sg) <=? k then None else Some (format_comp (subele_term d) (nth k (els sg) [])) end.
Definition seg_subval (sg : seg) (i j : nat) : option str :=
  match i, j with
  | S k, S m => if length (els sg) <=? k then None
                else let c := nth k (els sg) [] in if length c <=? m then None else Some (nth m c [])
  | _, _ => None
  end.

Definition in_codes (v : option str) (e : elem) : bool := existsb (ostr_eqb v) (e_codes e).
Definition is_type (t : option str) (x : string) : bool := ostr_eqb t (Some (l x)).
Definition usage_is (u : option str) (x : string) : bool := ostr_eqb u (Some (l x)).

Definition nth_sub (sg : segm) (i : nat) : result sub :=
  match nth_error (s_children sg) i with Some c => Ok c | None => Raise IndexError end.

Definition seg_is_match (d : delims) (de : list dataele) (n : segm) (sg : seg) : result bool :=
  if negb (ostr_eqb (sid sg) (s_id n)) then Ok false else
  do c0 <- nth_sub n 0;
  (* branch 1 *)
  do b1 <- (match c0 with
            | SubE e => do t <- elem_type de e;
                        Ok (is_type t "ID" && usage_is (e_usage e) "R" && negb (no_codes e) && negb (in_codes (seg_val d sg 1) e))
            | SubC _ => Ok false
            end);
  if b1 then Ok false else
  do b2 <- (if ostr_eqb (sid sg) (Some (l "ENT")) then
              do c1 <- nth_sub n 1;
              match c1 with
              | SubE e => do t <- elem_type de e;
                          Ok (is_type t "ID" && negb (no_codes e) && negb (in_codes (seg_val d sg 2) e))
              | SubC _ => Ok false
              end
            else Ok false);
  if b2 then Ok false else
  do b3 <- (if ostr_eqb (sid sg) (Some (l "CTX")) then
              match c0 with
              | SubC c => match c_children c with
                          | [] => Raise IndexError
                          | e0 :: _ => do t <- elem_type de e0;
                                       Ok (is_type t "AN" && negb (no_codes e0) && negb (in_codes (seg_subval sg 1 1) e0))
                          end
              | SubE _ => Ok false
              end
            else Ok false);
  if b3 then Ok false else
  do b4 <- (match c0 with
            | SubC c => match c_children c with
                        | [] => Raise IndexError
                        | e0 :: _ => do t <- elem_type de e0;
                                     Ok (is_type t "ID" && negb (no_codes e0) && negb (in_codes (seg_subval sg 1 1) e0))
                        end
            | SubE _ => Ok false
            end);
  if b4 then Ok false else
  do b5 <- (if ostr_eqb (sid sg) (Some (l "HL")) then
              do c2 <- nth_sub n 2;
              match c2 with
              | SubE e => Ok (negb (no_codes e) && negb (in_codes (seg_val d sg 3) e))
              | SubC _ => Ok false
              end
            else Ok false);
  Ok (negb b5).

(* ---- loop_if.is_match: the first child decides ---- *)
Fixpoint loop_is_match (fuel : nat) (d : delims) (de : list dataele) (n : node) (sg : seg) : result bool :=
  match fuel with
  | 0 => Raise OtherError
  | S f =>
      match n with
      | NSeg s0 => seg_is_match d de s0 sg
      | NLoop _ _ _ _ _ _ pm =>
          match pm_nodes pm with
          | [] => Raise IndexError                 (* pos_keys[0] *)
          | c :: _ => loop_is_match f d de c sg
          end
      end
  end.

(* ---- usage / repeat accessors ---- *)
Definition MAXINT : Z := 2147483647.

(* segment_if.get_max_repeat *)
Definition seg_max_repeat (sg : segm) : result Z :=
  match s_max_use sg with
  | None => Ok MAXINT
  | Some v => if str_eqb v (l ">1") then Ok MAXINT
              else match py_int v with Some z => Ok z | None => Raise ValueError end
  end.

(* loop_if.get_max_repeat *)
Definition loop_max_repeat (rep : option str) : result Z :=
  match rep with
  | None => Ok MAXINT
  | Some v => if str_eqb v (l "&gt;1") || str_eqb v (l ">1") then Ok MAXINT
              else match py_int v with Some z => Ok z | None => Raise ValueError end
  end.
