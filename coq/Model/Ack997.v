(* Ack997.v — hand model of pyx12/error_997.py (error_997_visitor) run over an
   err_handler: errh.accept(visitor).

   The visitor state carries the handler state (visit_gs_post WRITES to the GS
   node it visits), the text written so far, and the visitor's counters.  When
   a visit raises, everything written before stays written: render_997 returns
   the handler state, the lines and the exception, if any.

   visit_seg iterates sorted(set(errors)) (since fix 45b72b1; it was hash order before). *)
From Coq Require Import String.
From PX.Lib Require Import Base PyStr PyInt.
From PX.Model Require Import Path Segment Errh.

Local Definition l (s : string) : str := list_ascii_of_string s.

(* ------------------------------------------------------------------ *)
(* shared with Ack999                                                  *)

(* what time.strftime / random.randint return during the run *)
Record clock := {
  ck_ymd6 : str;     (* time.strftime('%y%m%d') *)
  ck_hm : str;       (* time.strftime('%H%M') *)
  ck_ymd8 : str;     (* time.strftime('%Y%m%d') *)
  ck_hms : str;      (* time.strftime('%H%M%S') *)
  ck_rand : Z        (* random.randint(10000000, 999999999) *)
}.

(* every Segment the visitors build uses '~', '*', ':' *)
Definition D : delims := {| seg_term := "~"%char; ele_term := "*"%char; subele_term := ":"%char |}.

(* Segment.append(val): Composite(val, self.subele_term); Composite(None, ..) is an EngineError *)
Definition seg_append (s : seg) (v : option str) : result seg :=
  match v with
  | None => Raise EngineError
  | Some x => Ok {| sid := sid s; els := els s ++ [split (subele_term D) x] |}
  end.

(* Segment.set(ref_des, val) for an element designator: Composite(None, ..) is an EngineError *)
Definition seg_set_opt (s : seg) (ref_des : string) (v : option str) : result seg :=
  match v with
  | None => Raise EngineError
  | Some x => seg_set D s (l ref_des) x
  end.

(* '%s' % x *)
Definition show_s (o : option str) : str := match o with Some s => s | None => l "None" end.

(* x.rstrip() / x.strip() where x may be None *)
Definition rstrip_o (o : option str) : result str :=
  match o with Some s => Ok (rstrip_ws s) | None => Raise AttributeError end.
(* (x or '').strip() *)
Definition strip_o (o : option str) : result str :=
  match o with Some s => Ok (strip_ws s) | None => Ok [] end.

(* '%04i' % z for z >= 0 *)
Definition fmt_04 (z : Z) : str :=
  let s := fmt_Zi z in repeat "0"%char (4 - length s) ++ s.

(* sorted(set(xs)) *)
Fixpoint insert_str (x : str) (xs : list str) : list str :=
  match xs with
  | [] => [x]
  | y :: r => if str_ltb y x then y :: insert_str x r else x :: y :: r
  end.
Fixpoint dedup (xs : list str) : list str :=
  match xs with
  | [] => []
  | x :: r => if mem_str x r then dedup r else x :: dedup r
  end.
Definition sorted_set (xs : list str) : list str := fold_right insert_str [] (dedup xs).

(* a loop body that yields codes, run over a list: the first raise ends it *)
Fixpoint map_res {A B} (f : A -> result (list B)) (xs : list A) : result (list B) :=
  match xs with
  | [] => Ok []
  | x :: r => do a <- f x; do b <- map_res f r; Ok (a ++ b)
  end.

(* the err_ele objects of an `elements` list *)
Definition ele_nodes (h : errh) (ids : list nat) : list ele_node :=
  flat_map (fun i => match nth_error (h_ele h) i with Some e => [e] | None => [] end) ids.

(* dict lookup d[k] *)
Fixpoint dict_get (d : list (Z * string)) (k : Z) : result str :=
  match d with
  | [] => Raise KeyError
  | (k', v) :: r => if (k =? k')%Z then Ok (l v) else dict_get r k
  end.
Definition dict_has (d : list (Z * string)) (k : Z) : bool := existsb (fun p => (k =? fst p)%Z) d.

(* `for elem in elements: for (cde, str, val) in elem.errors: <body>` collecting codes *)
Definition element_codes (f : ele_node -> str -> result (list str)) (es : list ele_node) : result (list str) :=
  map_res (fun e => map_res (fun er => f e (snd (fst er))) (en_errors e)) es.

Definition codes2 (es : list err2) : list str := map fst es.
Definition codes3 (es : list err3) : list str := map (fun e => fst (fst e)) es.

Definition isa_ele_err_map : list (Z * string) :=
  [(1, "010"); (2, "011"); (3, "012"); (4, "013"); (5, "005"); (6, "006"); (7, "007"); (8, "008"); (9, "014");
   (10, "015"); (11, "016"); (12, "017"); (13, "018"); (14, "019"); (15, "020"); (16, "027")]%Z%string.
Definition iea_ele_err_map : list (Z * string) := [(1, "021"); (2, "018")]%Z%string.

(* the common first half of __get_isa_errors (997: 109-121, 999: 103-115) *)
Definition isa_err_codes (h : errh) (n : isa_node) : result (list str) :=
  do more <- element_codes (fun e msg =>
      if contains (l "ISA") msg then do c <- dict_get isa_ele_err_map (en_pos e); Ok [c]
      else if contains (l "IEA") msg then do c <- dict_get iea_ele_err_map (en_pos e); Ok [c]
      else Ok []) (ele_nodes h (in_elements n));
  Ok (codes2 (in_errors n) ++ more).

(* ------------------------------------------------------------------ *)
(* the 997 visitor                                                     *)

Record v997 := {
  v_h : errh;
  v_out : list str;              (* every fd.write, in order *)
  v_seg_count : Z;
  v_isa_ctl : option str;        (* isa_control_num *)
  v_gs_loop_count : Z;
  v_gs_id : option str;
  v_gs_seg : option seg;
  v_st_ctl : Z;                  (* st_control_num *)
  v_st_loop_count : Z
}.

(* __init__ (32-55) *)
Definition v997_init (h : errh) : v997 :=
  {| v_h := h; v_out := []; v_seg_count := 0; v_isa_ctl := None; v_gs_loop_count := 0; v_gs_id := None;
     v_gs_seg := None; v_st_ctl := 0; v_st_loop_count := 0 |}.

Definition v_upd (v : v997) h out sc ic glc gid gseg stc slc : v997 :=
  {| v_h := h; v_out := out; v_seg_count := sc; v_isa_ctl := ic; v_gs_loop_count := glc; v_gs_id := gid;
     v_gs_seg := gseg; v_st_ctl := stc; v_st_loop_count := slc |}.
Definition set_v_h (v : v997) h := v_upd v h (v_out v) (v_seg_count v) (v_isa_ctl v) (v_gs_loop_count v) (v_gs_id v) (v_gs_seg v) (v_st_ctl v) (v_st_loop_count v).
Definition set_v_seg_count (v : v997) x := v_upd v (v_h v) (v_out v) x (v_isa_ctl v) (v_gs_loop_count v) (v_gs_id v) (v_gs_seg v) (v_st_ctl v) (v_st_loop_count v).
Definition set_v_isa_ctl (v : v997) x := v_upd v (v_h v) (v_out v) (v_seg_count v) x (v_gs_loop_count v) (v_gs_id v) (v_gs_seg v) (v_st_ctl v) (v_st_loop_count v).
Definition set_v_gs_loop_count (v : v997) x := v_upd v (v_h v) (v_out v) (v_seg_count v) (v_isa_ctl v) x (v_gs_id v) (v_gs_seg v) (v_st_ctl v) (v_st_loop_count v).
Definition set_v_gs (v : v997) gid gseg := v_upd v (v_h v) (v_out v) (v_seg_count v) (v_isa_ctl v) (v_gs_loop_count v) gid gseg (v_st_ctl v) (v_st_loop_count v).
Definition set_v_st_ctl (v : v997) x := v_upd v (v_h v) (v_out v) (v_seg_count v) (v_isa_ctl v) (v_gs_loop_count v) (v_gs_id v) (v_gs_seg v) x (v_st_loop_count v).
Definition set_v_st_loop_count (v : v997) x := v_upd v (v_h v) (v_out v) (v_seg_count v) (v_isa_ctl v) (v_gs_loop_count v) (v_gs_id v) (v_gs_seg v) (v_st_ctl v) x.

(* run a handler computation inside the visitor *)
Definition in_h {A} (m : SE errh A) : SE v997 A :=
  fun v => let (h', r) := m (v_h v) in (set_v_h v h', r).

(* _write (394-405) *)
Definition write (s : seg) : SE v997 unit :=
  se_mod (fun v =>
    let sout := format_seg D s in
    let sout := if opt_eqb str_eqb (sid s) (Some (l "ISA"))
                then but_last sout ++ [ele_term D; subele_term D; seg_term D] else sout in
    v_upd v (v_h v) (v_out v ++ [sout ++ [ascii_of_nat 10]]) (v_seg_count v + 1)%Z
          (v_isa_ctl v) (v_gs_loop_count v) (v_gs_id v) (v_gs_seg v) (v_st_ctl v) (v_st_loop_count v)).

(* visit_root_pre (57-102) *)
Definition visit_root_pre (ck : clock) : SE v997 unit :=
  dos v <- se_get;
  let h := v_h v in
  dos i <- deref (c_isa h);                         (* errh.cur_isa_node.seg_data *)
  dos inode <- in_h (get_isa i);
  let seg := in_seg inode in
  let ctl := skipn 1 (ck_ymd6 ck ++ ck_hm ck) in
  dos_ se_mod (fun v => set_v_isa_ctl v (Some ctl));
  dos icvn <- se_lift (xget seg "ISA12");
  dos isa_seg <- se_lift (
    let s := parse_seg D (l "ISA*00*          *00*          ") in
    do a <- xget seg "ISA07"; do s <- seg_append s a;
    do a <- xget seg "ISA08"; do s <- seg_append s a;
    do a <- xget seg "ISA05"; do s <- seg_append s a;
    do a <- xget seg "ISA06"; do s <- seg_append s a;
    do s <- seg_append s (Some (ck_ymd6 ck));
    do s <- seg_append s (Some (ck_hm ck));
    do a <- xget seg "ISA11"; do s <- seg_append s a;
    do s <- seg_append s icvn;
    do s <- seg_append s (Some ctl);
    do s <- seg_append s (Some (l "0"));
    do a <- xget seg "ISA15"; do s <- seg_append s a;
    seg_append s (Some [subele_term D]));
  dos_ write isa_seg;
  dos_ se_mod (fun v => set_v_gs_loop_count v 0);
  dos g <- deref (c_gs h);                          (* errh.cur_gs_node.seg_data *)
  dos gnode <- in_h (get_gs g);
  let seg := gn_seg gnode in
  dos gs_seg <- se_lift (
    let s := parse_seg D (l "GS") in
    do s <- seg_append s (Some (l "FA"));
    do a <- xget seg "GS03"; do a <- rstrip_o a; do s <- seg_append s (Some a);
    do a <- xget seg "GS02"; do a <- rstrip_o a; do s <- seg_append s (Some a);
    do s <- seg_append s (Some (ck_ymd8 ck));
    do s <- seg_append s (Some (ck_hms ck));
    do a <- xget seg "GS06"; do s <- seg_append s a;
    do a <- xget seg "GS07"; do s <- seg_append s a;
    seg_append s (Some (l "004010")));      (* fix: GS08 is the version of the 997 itself, not ISA12 *)
  dos_ write gs_seg;
  dos gid <- se_lift (xget seg "GS06");
  se_mod (fun v => set_v_gs_loop_count (set_v_st_loop_count (set_v_gs v gid (Some gs_seg)) 0) (v_gs_loop_count v + 1)%Z).

Definition reject_suspend_codes : list str :=
  map l ["004"; "005"; "007"; "010"; "011"; "012"; "013"; "014"; "015"; "016"; "017"; "018"; "022"; "023";
         "024"; "025"; "026"; "027"]%string.

(* __get_isa_errors (104-143): first occurrences, reject/suspend codes pushed to the front *)
Definition get_isa_errors (h : errh) (n : isa_node) : result (list str) :=
  do codes <- isa_err_codes h n;
  Ok (fold_left (fun uniq err =>
        if mem_str err uniq then uniq
        else if mem_str err reject_suspend_codes then err :: uniq
        else uniq ++ [err]) codes []).

(* visit_root_post (145-175) *)
Definition visit_root_post : SE v997 unit :=
  dos v <- se_get;
  dos gs_seg <- deref (v_gs_seg v);
  dos g06 <- se_lift (seg_get_value D gs_seg (l "GS06"));
  dos_ write (parse_seg D (l "GE*" ++ fmt_Zi (v_st_loop_count v) ++ l "*" ++ show_s g06));
  dos_ se_mod (fun v => set_v_gs_loop_count v 1);
  let h := v_h v in
  dos i <- deref (c_isa h);
  dos n <- in_h (get_isa i);
  dos_ (if opt_eqb str_eqb (in_ta1 n) (Some (l "1")) then
          dos ta1 <- se_lift (
            let s := parse_seg D (l "TA1") in
            do s <- seg_append s (in_trn n);
            do s <- seg_append s (in_date n);
            do s <- seg_append s (in_time n);
            do codes <- get_isa_errors h n;
            match codes with
            | c :: _ => do s <- seg_append s (Some (l "R")); seg_append s (Some c)
            | [] => do s <- seg_append s (Some (l "A")); seg_append s (Some (l "000"))
            end);
          write ta1
        else se_ret tt);
  dos v <- se_get;
  write (parse_seg D (l "IEA*" ++ fmt_Zi (v_gs_loop_count v) ++ l "*" ++ show_s (v_isa_ctl v))).

(* visit_gs_pre (189-208) *)
Definition visit_gs_pre (n : gs_node) : SE v997 unit :=
  dos_ se_mod (fun v => set_v_st_ctl v (v_st_ctl v + 1)%Z);
  dos v <- se_get;
  dos_ write (parse_seg D (l "ST*997*" ++ fmt_04 (v_st_ctl v)));
  dos_ se_mod (fun v => set_v_st_loop_count (set_v_seg_count v 1) (v_st_loop_count v + 1)%Z);
  write (parse_seg D (l "AK1*" ++ show_s (gn_fic n) ++ l "*" ++ show_s (gn_ctl n))).

Definition gs_ele_err_map : list (Z * string) := [(6, "6"); (8, "2")]%Z%string.
Definition ge_ele_err_map : list (Z * string) := [(2, "6")]%Z%string.

(* __get_gs_errors (210-234) *)
Definition get_gs_errors (h : errh) (n : gs_node) : result (list str) :=
  do more <- element_codes (fun e msg =>
      if contains (l "GS") msg then
        (if dict_has gs_ele_err_map (en_pos e) then do c <- dict_get gs_ele_err_map (en_pos e); Ok [c] else Ok [l "1"])
      else if contains (l "GE") msg then
        (if dict_has ge_ele_err_map (en_pos e) then do c <- dict_get ge_ele_err_map (en_pos e); Ok [c] else Ok [l "1"])
      else Ok []) (ele_nodes h (gn_elements n));
  Ok (sorted_set (codes2 (gn_errors n) ++ more)).

(* visit_gs_post (236-288): the missing ack_code is WRITTEN to the node (0 counts stay 0) *)
Definition visit_gs_post (g : nat) : SE v997 unit :=
  dos n <- in_h (get_gs g);
  dos_ (if negb (truthy_s (gn_ack n) && negb (gn_orig n =? 0)%Z && negb (gn_recv n =? 0)%Z)
        then (if negb (truthy_s (gn_ack n)) then in_h (mod_gs g (fun n => gs_set_ack n (Some (l "R")))) else se_ret tt)
        else se_ret tt);
  dos n <- in_h (get_gs g);
  dos v <- se_get;
  let h := v_h v in
  dos ak9 <- se_lift (
    let s := parse_seg D (l "AK9") in
    do s <- seg_append s (gn_ack n);
    do s <- seg_append s (Some (fmt_Zi (gn_orig n)));
    do s <- seg_append s (Some (fmt_Zi (gn_recv n)));
    let count_ok := Z.max (gn_recv n - Z.of_nat (gs_count_failed_st h n)) 0 in
    do s <- seg_append s (Some (fmt_Zi count_ok));
    do codes <- get_gs_errors h n;
    fold_left (fun acc c => do s <- acc; seg_append s (Some c)) codes (Ok s));
  dos_ write ak9;
  dos v <- se_get;
  let seg_count := (v_seg_count v + 1)%Z in
  dos se <- se_lift (
    let s := parse_seg D (l "SE") in
    do s <- seg_append s (Some (fmt_Zi seg_count));
    seg_append s (Some (fmt_04 (v_st_ctl v))));
  write se.

(* visit_st_pre (290-298) *)
Definition visit_st_pre (n : st_node) : SE v997 unit :=
  dos ak2 <- se_lift (
    let s := parse_seg D (l "AK2") in
    do s <- seg_append s (tn_id n);
    do c <- strip_o (tn_ctl n);
    seg_append s (Some c));
  write ak2.

Definition st_ele_err_map : list (Z * string) := [(1, "6"); (2, "7")]%Z%string.
Definition se_ele_err_map : list (Z * string) := [(1, "6"); (2, "7")]%Z%string.

(* __get_st_errors (300-319) *)
Definition get_st_errors (h : errh) (n : st_node) : result (list str) :=
  let c5 := if 0 <? st_child_err_count h n then [l "5"] else [] in
  do more <- element_codes (fun e msg =>
      (* fix c6c17ae: positions without a set-level code contribute nothing *)
      if contains (l "ST") msg then (if dict_has st_ele_err_map (en_pos e) then do c <- dict_get st_ele_err_map (en_pos e); Ok [c] else Ok [])
      else if contains (l "SE") msg then (if dict_has se_ele_err_map (en_pos e) then do c <- dict_get se_ele_err_map (en_pos e); Ok [c] else Ok [])
      else Ok []) (ele_nodes h (tn_elements n));
  Ok (sorted_set (codes2 (tn_errors n) ++ c5 ++ more)).

(* visit_st_post (321-337) *)
Definition visit_st_post (t : nat) : SE v997 unit :=
  dos n <- in_h (get_st t);
  dos v <- se_get;
  match tn_ack n with
  | None => se_raise EngineError
  | Some ack =>
      dos ak5 <- se_lift (
        do s <- seg_append (parse_seg D (l "AK5")) (Some ack);
        do codes <- get_st_errors (v_h v) n;
        fold_left (fun acc c => do s <- acc; seg_append s (Some c)) (firstn 5 codes) (Ok s));
      write ak5
  end.

Definition valid_AK3_codes : list str := map l ["1"; "2"; "3"; "4"; "5"; "6"; "7"; "8"]%string.

(* the `errors` list of visit_seg after the SEG1 rewriting (355-359) *)
Definition seg_error_codes (n : seg_node) : list str :=
  let errors := codes3 (sn_errors n) in
  if mem_str (l "SEG1") errors then
    filter (fun x => negb (str_eqb x (l "SEG1"))) (if mem_str (l "8") errors then errors else errors ++ [l "8"])
  else errors.

(* visit_seg (339-368); set iteration in sorted order *)
Definition visit_seg (n : seg_node) : SE v997 unit :=
  dos v <- se_get;
  dos seg_str <- se_lift (
    do s <- seg_append (parse_seg D (l "AK3")) (sn_seg_id n);
    do c <- fmt_i (sn_seg_count n);
    do s <- seg_append s (Some c);
    do s <- seg_append s (Some (if truthy_s (sn_ls_id n) then show_s (sn_ls_id n) else []));
    Ok (format_seg D s));
  let errors := seg_error_codes n in
  dos_ se_iter (fun cde =>
      if mem_str cde valid_AK3_codes then
        dos s <- se_lift (seg_set D (parse_seg D seg_str) (l "AK304") cde); write s
      else se_ret tt) (sorted_set errors);
  if (0 <? seg_child_err_count (v_h v) n) && negb (mem_str (l "8") errors) then
    dos s <- se_lift (seg_set D (parse_seg D seg_str) (l "AK304") (l "8")); write s
  else se_ret tt.

Definition valid_AK4_codes : list str := map l ["1"; "2"; "3"; "4"; "5"; "6"; "7"; "8"; "9"; "10"]%string.

(* visit_ele (370-392) *)
Definition visit_ele (e : ele_node) : SE v997 unit :=
  dos seg_str <- se_lift (
    let pos := if truthy_Z (en_subpos e)
               then fmt_Zi (en_pos e) ++ l ":" ++ fmt_Zi (match en_subpos e with Some z => z | None => 0%Z end)
               else fmt_Zi (en_pos e) in
    do s <- seg_append (parse_seg D (l "AK4")) (Some pos);
    do s <- (if truthy_s (en_ref_num e) then seg_append s (en_ref_num e) else Ok s);
    Ok (format_seg D s));
  se_iter (fun er : err3 =>
      let cde := fst (fst er) in
      let bad := snd er in
      if mem_str cde valid_AK4_codes then
        dos s <- se_lift (
          do s <- seg_set D (parse_seg D seg_str) (l "AK403") cde;
          if truthy_s bad then seg_set D s (l "AK404") (show_s bad) else Ok s);
        write s
      else se_ret tt) (en_errors e).

(* err_seg.accept (880-886) *)
Definition accept_seg (k : nat) : SE v997 unit :=
  dos n <- in_h (get_seg k);
  dos_ visit_seg n;
  se_iter (fun e => dos en <- in_h (get_ele e); visit_ele en) (sn_elements n).

(* err_st.accept (753-760) *)
Definition accept_st (t : nat) : SE v997 unit :=
  dos n <- in_h (get_st t);
  dos_ visit_st_pre n;
  dos_ se_iter accept_seg (tn_children n);
  visit_st_post t.

(* err_gs.accept (614-621) *)
Definition accept_gs (g : nat) : SE v997 unit :=
  dos n <- in_h (get_gs g);
  dos_ visit_gs_pre n;
  dos_ se_iter accept_st (gn_children n);
  visit_gs_post g.

(* err_isa.accept (511-518): visit_isa_pre / visit_isa_post do nothing *)
Definition accept_isa (i : nat) : SE v997 unit :=
  dos n <- in_h (get_isa i);
  se_iter accept_gs (in_children n).

(* err_handler.accept (97-104) *)
Definition accept_root (ck : clock) : SE v997 unit :=
  dos_ visit_root_pre ck;
  dos v <- se_get;
  dos_ se_iter accept_isa (seq 0 (length (h_isa (v_h v))));
  visit_root_post.

(* errh.accept(error_997_visitor(fd)): the handler afterwards, the writes, the exception if one escaped *)
Definition render_997 (ck : clock) (h : errh) : errh * list str * option exn :=
  let (v, r) := accept_root ck (v997_init h) in
  (v_h v, v_out v, match r with Ok _ => None | Raise e => Some e end).
