(* Path.v — hand model of pyx12/path.py (X12Path).  The regular expression
   rec_path is regenerated from the source (Gen/Regexes.v). *)
From Coq Require Import String.
From PX.Lib Require Import Base PyStr Regex.
From PX.Gen Require Import Regexes.

Local Definition l (s : string) : str := list_ascii_of_string s.

Record xpath := {
  relative : bool;
  loop_list : list str;
  seg_id : option str;
  id_val : option str;
  ele_idx : option N;
  subele_idx : option N
}.

Definition SL : ascii := "/"%char.

(* path.py:X12Path.__init__ *)
Definition parse_path (path_str : str) : result xpath :=
  match path_str with
  | [] => Ok {| relative := true; loop_list := []; seg_id := None; id_val := None; ele_idx := None; subele_idx := None |}
  | c0 :: rest =>
    let rel := negb (Ascii.eqb c0 SL) in
    let ll := if rel then split SL path_str else split SL rest in
    match rev ll with
    | [] => Ok {| relative := rel; loop_list := []; seg_id := None; id_val := None; ele_idx := None; subele_idx := None |}
    | last :: before_rev =>
      let before := rev before_rev in
      match last with
      | [] => (* ended in '/', so no segment *)
        Ok {| relative := rel; loop_list := before; seg_id := None; id_val := None; ele_idx := None; subele_idx := None |}
      | _ =>
        match search rec_path last with
        | None => Ok {| relative := rel; loop_list := ll; seg_id := None; id_val := None; ele_idx := None; subele_idx := None |}
        | Some (_, _, caps0) =>
          let sid := cap_get (l "seg_id") caps0 in
          let idv := cap_get (l "id_val") caps0 in
          let ei := option_map dec_val (cap_get (l "ele_idx") caps0) in
          let si := option_map dec_val (cap_get (l "subele_idx") caps0) in
          match sid, idv with
          | None, Some _ => Raise X12PathError
          | _, _ =>
            match sid, (match ei, si with None, None => false | _, _ => true end), before with
            | None, true, _ :: _ => Raise X12PathError
            | _, _, _ =>
              Ok {| relative := rel; loop_list := before; seg_id := sid; id_val := idv; ele_idx := ei; subele_idx := si |}
            end
          end
        end
      end
    end
  end.

(* '%02i' % n and '%i' % n for n >= 0 *)
Definition digit_char (n : nat) : ascii := ascii_of_nat (48 + n).
Fixpoint show_N_fuel (fuel : nat) (n : N) (acc : str) : str :=
  match fuel with
  | 0 => acc
  | S f => let d := N.to_nat (n mod 10) in
           let q := (n / 10)%N in
           if N.eqb q 0 then digit_char d :: acc else show_N_fuel f q (digit_char d :: acc)
  end.
Definition fmt_d (n : N) : str := show_N_fuel (S (N.to_nat (N.log2 n))) n [].
Definition fmt_02 (n : N) : str := let s := fmt_d n in if length s <? 2 then "0"%char :: s else s.

Definition truthy_str (o : option str) : bool := match o with Some (_ :: _) => true | _ => false end.
Definition truthy_N (o : option N) : bool := match o with Some n => negb (N.eqb n 0) | None => false end.

(* path.py:format_refdes — tests are on truthiness *)
Definition format_refdes (p : xpath) : str :=
  (if truthy_str (seg_id p)
   then match seg_id p with Some s => s | None => [] end ++
        (if truthy_str (id_val p) then l "[" ++ match id_val p with Some s => s | None => [] end ++ l "]" else [])
   else []) ++
  (if truthy_N (ele_idx p)
   then fmt_02 (match ele_idx p with Some n => n | None => 0%N end) ++
        (if truthy_N (subele_idx p) then "-"%char :: fmt_d (match subele_idx p with Some n => n | None => 0%N end) else [])
   else []).

(* path.py:__repr__ / format *)
Definition format_path (p : xpath) : str :=
  let ret := (if relative p then [] else [SL]) ++ join SL (loop_list p) in
  let ret := if truthy_str (seg_id p) && negb (str_eqb ret []) && negb (str_eqb ret [SL]) then ret ++ [SL] else ret in
  ret ++ format_refdes p.

Definition opt_eqb {A} (f : A -> A -> bool) (a b : option A) : bool :=
  match a, b with Some x, Some y => f x y | None, None => true | _, _ => false end.

Fixpoint list_eqb {A} (f : A -> A -> bool) (a b : list A) : bool :=
  match a, b with
  | [], [] => true
  | x :: a', y :: b' => f x y && list_eqb f a' b'
  | _, _ => false
  end.

(* path.py:__eq__ *)
Definition path_eqb (a b : xpath) : bool :=
  list_eqb str_eqb (loop_list a) (loop_list b) && opt_eqb str_eqb (seg_id a) (seg_id b) &&
  opt_eqb str_eqb (id_val a) (id_val b) && opt_eqb N.eqb (ele_idx a) (ele_idx b) &&
  opt_eqb N.eqb (subele_idx a) (subele_idx b) && Bool.eqb (relative a) (relative b).

(* path.py:empty *)
Definition path_empty (p : xpath) : bool :=
  relative p && match loop_list p with [] => true | _ => false end &&
  match seg_id p with None => true | _ => false end && match ele_idx p with None => true | _ => false end.

(* path.py:is_child_path *)
Fixpoint prefix_eqb (root child : list str) : bool :=
  match root, child with
  | [], _ => true
  | x :: r', y :: c' => str_eqb x y && prefix_eqb r' c'
  | _ :: _, [] => false
  end.
Definition is_child_path (p : xpath) (child_path : str) : bool :=
  let root := split SL (format_path p) in
  let child := split SL child_path in
  if length child <=? length root then false else prefix_eqb root child.
