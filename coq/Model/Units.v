(* Units.v — entry points of the correspondence check: unit name + arguments
   (strings) -> canonical result string. *)
From Coq Require Import String.
From PX.Lib Require Import Base PyStr Regex.
From PX.Model Require Import Show Validation.
From PX.Spec Require C13_dec.

Definition unit_validation (args : list str) : str :=
  match args with
  | [v; ty; cs; icvn] => show_result show_bool (IsValidDataType v ty cs icvn)
  | _ => sl "?args"
  end.

Definition unit_ctl (args : list str) : str :=
  match args with
  | [v] => show_opt (fun x => x) (contains_control_character v)
  | _ => sl "?args"
  end.

(* the specification's own decision, used as the oracle on the implementation *)
Definition unit_c13_spec (args : list str) : str :=
  match args with
  | [v; ty; cs; icvn] => show_bool (C13_dec.in_language_b ty cs icvn v)
  | _ => sl "?args"
  end.

Definition dispatch (unit : str) (args : list str) : str :=
  if str_eqb unit (sl "validation") then unit_validation args
  else if str_eqb unit (sl "ctl") then unit_ctl args
  else if str_eqb unit (sl "c13_spec") then unit_c13_spec args
  else sl "?unit".
