(* Units.v — entry points of the correspondence check: unit name + arguments
   (strings) -> canonical result string. *)
From Coq Require Import String.
From PX.Lib Require Import Base PyStr Regex.
From PX.Lib Require Import PyInt.
From PX.Model Require Import Show Validation Path Segment Syntax Raw Reader Writer Norm.
From PX.Model Require UnitsErrh.
From PX.Spec Require C13_dec C14_spec C04_spec C04_nest C01_spec.

Definition unit_validation (args : list str) : str :=
  match args with
  | [v; ty; cs; icvn] => show_result show_bool (IsValidDataType v ty cs icvn)
  | _ => sl "?args"
  end.

Definition unit_ctl (args : list str) : str :=
  match args with
  | [v] => show_opt (fun x => x) (contains_control_character v)
  | _ => sl "?args"
  end.

(* ---- path ---- *)
Definition BAR : ascii := "|"%char.
Definition COMMA : ascii := ","%char.

Definition show_path (p : xpath) : str :=
  sep BAR [show_bool (relative p);
           sep COMMA (map show_hex (loop_list p));
           show_opt show_hex (seg_id p);
           show_opt show_hex (id_val p);
           show_opt show_N (ele_idx p);
           show_opt show_N (subele_idx p);
           show_hex (format_path p);
           show_hex (format_refdes p);
           show_bool (path_empty p)].

Definition unit_path (args : list str) : str :=
  match args with
  | [s] => show_result show_path (parse_path s)
  | [a; b] => (* equality of two parsed paths *)
      show_result (fun x => x)
        (do pa <- parse_path a; do pb <- parse_path b; Ok (show_bool (path_eqb pa pb)))
  | _ => sl "?args"
  end.

Definition unit_child_path (args : list str) : str :=
  match args with
  | [a; b] => show_result show_bool (do pa <- parse_path a; Ok (is_child_path pa b))
  | _ => sl "?args"
  end.

(* ---- segment ---- *)
Definition mk_delims (s : str) : delims :=
  match s with
  | [a; b; c] => {| seg_term := a; ele_term := b; subele_term := c |}
  | _ => {| seg_term := "~"%char; ele_term := "*"%char; subele_term := ":"%char |}
  end.

Definition US : ascii := ascii_of_nat 31.

(* one op: returns the printed result and the (possibly updated) segment *)
Definition seg_op (d : delims) (sg : seg) (op : str) : str * seg :=
  match op with
  | c :: rest =>
      if Ascii.eqb c "G"%char then (show_result (show_opt show_hex) (seg_get_value d sg rest), sg)
      else if Ascii.eqb c "S"%char then
        match split1 US rest with
        | Some (rd, v) => match seg_set d sg rd v with
                          | Ok sg' => (sl "ok", sg')
                          | Raise e => (show_exn e, sg)
                          end
        | None => (sl "?op", sg)
        end
      else if Ascii.eqb c "F"%char then (show_hex (format_seg d sg), sg)
      else if Ascii.eqb c "L"%char then (show_nat (seg_len sg), sg)
      else if Ascii.eqb c "E"%char then (show_bool (seg_empty sg), sg)
      else if Ascii.eqb c "V"%char then (show_bool (seg_id_valid sg), sg)
      else if Ascii.eqb c "C"%char then (sl "ok", seg_copy d sg)
      else if Ascii.eqb c "I"%char then (show_opt show_hex (sid sg), sg)
      else (sl "?op", sg)
  | [] => (sl "?op", sg)
  end.

Fixpoint seg_ops (d : delims) (sg : seg) (ops : list str) : list str :=
  match ops with
  | [] => []
  | op :: ops' => let (r, sg') := seg_op d sg op in r :: seg_ops d sg' ops'
  end.

Definition unit_segment (args : list str) : str :=
  match args with
  | dl :: seg_str :: ops => let d := mk_delims dl in sep BAR (seg_ops d (parse_seg d seg_str) ops)
  | _ => sl "?args"
  end.

(* ---- raw / reader / writer ---- *)
Definition SEMI : ascii := ";"%char.
Definition DOTC : ascii := "."%char.
Definition COLON : ascii := ":"%char.
Definition SLASH : ascii := "/"%char.

Definition parse_sched (s : str) : list nat :=
  match s with [] => [] | _ => map arg_nat (split COMMA s) end.

Definition show_seg_struct (sg : seg) : str :=
  sep SEMI (show_opt show_hex (sid sg) :: map (fun c => sep DOTC (map show_hex c)) (els sg)).

Definition show_err (e : err) : str :=
  sep SLASH [e_lvl e; e_code e; show_opt show_Z (e_line e)].

Definition show_errs (es : list err) : str := sep COMMA (map show_err es).

Definition show_rawst (r : rawst) : str :=
  sep COMMA [show_hex [r_seg_term r]; show_hex [r_ele_term r]; show_hex [r_subele_term r];
             show_opt (fun c => show_hex [c]) (r_repetition_term r); r_icvn r].

Definition unit_raw (args : list str) : str :=
  match args with
  | [text; sch] =>
      show_result (fun p => sep BAR (show_rawst (fst p) :: map show_hex (snd p)))
                  (raw_all {| rest := text; sched := parse_sched sch |})
  | _ => sl "?args"
  end.

Definition unit_reader (args : list str) : str :=
  match args with
  | [lx; text; sch] =>
      show_result
        (fun r => match r with
                  | (rs, out, fin) =>
                      sep BAR (show_rawst rs ::
                               map (fun p => show_seg_struct (fst p) ++ COLON :: show_errs (snd p)) out ++
                               [show_result (fun es => "C"%char :: show_errs es) fin])
                  end)
        (read_all (str_eqb lx (sl "1")) {| rest := text; sched := parse_sched sch |})
  | _ => sl "?args"
  end.

(* writer ops: "W<segment text>" or "C" (Close); the run stops at the first exception *)
Fixpoint writer_ops (w : wstate) (ds : delims) (ops : list str) : list str :=
  match ops with
  | [] => []
  | op :: rest =>
      match op with
      | c :: body =>
          if Ascii.eqb c "W"%char then
            match w_write w ds (parse_seg ds body) with
            | Ok (w', out) => map show_hex out ++ writer_ops w' ds rest
            | Raise e => [show_exn e]
            end
          else if Ascii.eqb c "C"%char then
            let (w', out) := w_close w in map show_hex out ++ writer_ops w' ds rest
          else [sl "?op"]
      | [] => [sl "?op"]
      end
  end.

Definition unit_writer (args : list str) : str :=
  match args with
  | wdl :: rep :: eol :: dsl :: lx :: ops =>
      let w0 := w_init (mk_delims wdl) rep eol in
      let w1 := with_x w0 {| loops := []; hl_stack := []; gs_count := 0; st_count := 0; hl_count := 0;
                             seg_count := 0; cur_line := 0; isa_ids := []; gs_ids := []; st_ids := [];
                             lx_count := 0; check_837_lx := str_eqb lx (sl "1") |} in
      sep BAR (writer_ops w1 (mk_delims dsl) ops)
  | _ => sl "?args"
  end.

(* ---- normaliser: args = eol flag, fix flag, file content ---- *)
Definition unit_norm (args : list str) : str :=
  match args with
  | [e; f; b] => show_result show_hex (norm_text {| o_eol := str_eqb e (sl "1"); o_fix := str_eqb f (sl "1") |} b)
  | _ => sl "?args"
  end.

(* ---- syntax ---- *)
Definition unit_syntax (args : list str) : str :=
  match args with
  | [dl; seg_str; [code]; idxs] =>
      let d := mk_delims dl in
      show_result show_bool (is_syntax_valid d (parse_seg d seg_str) code
                               (map dec_val (match idxs with [] => [] | _ => split COMMA idxs end)))
  | _ => sl "?args"
  end.

Definition unit_split_syntax (args : list str) : str :=
  match args with
  | [s] => show_result (show_opt (fun p => fst p :: COMMA :: sep COMMA (map show_Z (snd p)))) (split_syntax s)
  | _ => sl "?args"
  end.

(* ---- Python runtime models ---- *)
Definition unit_pyint (args : list str) : str :=
  match args with
  | [s] => show_opt show_Z (py_int s)
  | _ => sl "?args"
  end.

Definition unit_pystr (args : list str) : str :=
  match args with
  | [op; a] =>
      if str_eqb op (sl "lstrip") then show_hex (lstrip_ws a)
      else if str_eqb op (sl "rstrip") then show_hex (rstrip_ws a)
      else if str_eqb op (sl "strip") then show_hex (strip_ws a)
      else if str_eqb op (sl "lstripnl") then show_hex (lstrip_set [ascii_of_nat 10; ascii_of_nat 13] a)
      else sl "?op"
  | [op; a; [c]] =>
      if str_eqb op (sl "split") then sep COMMA (map show_hex (split c a))
      else if str_eqb op (sl "find") then show_opt show_nat (find c a)
      else if str_eqb op (sl "count") then show_nat (count_char c a)
      else sl "?op"
  | [op; a; b; c] =>
      if str_eqb op (sl "replace") then show_hex (replace b c a)
      else if str_eqb op (sl "lt") then show_bool (str_ltb a b)
      else sl "?op"
  | _ => sl "?args"
  end.

(* the specification's own decision, used as the oracle on the implementation *)
Definition unit_c13_spec (args : list str) : str :=
  match args with
  | [v; ty; cs; icvn] => show_bool (C13_dec.in_language_b ty cs icvn v)
  | _ => sl "?args"
  end.

(* C04 oracle: args = delims, then the segments as read (texts); result:
   nested flag | per-segment expected envelope codes (if the list is a tree) | codes at end of input *)
Definition show_code (c : C04_spec.code) : str := fst c ++ SLASH :: snd c.
Definition unit_c04_spec (args : list str) : str :=
  match args with
  | dl :: segs =>
      let d := mk_delims dl in
      let l := map (parse_seg d) segs in
      sep BAR [show_bool (C04_spec.properly_nested l);
               match C04_nest.nest l with
               | Some t => "S"%char :: sep SEMI (map (fun cs0 => sep COMMA (map show_code cs0)) (C04_spec.recount d [] t))
               | None => sl "N"
               end;
               match C04_nest.nest l with
               | Some t => sep COMMA (map show_code (C04_spec.missing_at_end t))
               | None => sl "N"
               end]
  | _ => sl "?args"
  end.

(* C01 oracle: the specified segments of a text, with the leading-blank / trailing-separator flags *)
Definition unit_c01_spec (args : list str) : str :=
  match args with
  | [t] =>
      if C01_spec.header_ok t then
        let d := C01_spec.header_delims t in
        sep BAR (map (fun ln => show_seg_struct (C01_spec.seg_of_line d ln) ++ COLON ::
                                show_bool (C01_spec.has_leading_blank ln) ++ show_bool (C01_spec.has_trailing_sep d ln))
                     (filter C01_spec.is_segment_line (C01_spec.raw_spec (seg_term d) t)))
      else sl "!X12Error"
  | _ => sl "?args"
  end.

(* raw-level oracle: the specified raw segment strings *)
Definition unit_c01_rawspec (args : list str) : str :=
  match args with
  | [t] =>
      if C01_spec.header_ok t then
        sep BAR (map show_hex (C01_spec.raw_spec (seg_term (C01_spec.header_delims t)) t))
      else sl "!X12Error"
  | _ => sl "?args"
  end.

Definition unit_open_path (args : list str) : str :=
  match args with
  | [b] => show_result (fun st => show_hex (rest st)) (open_path b)
  | _ => sl "?args"
  end.

Definition unit_c14_spec (args : list str) : str :=
  match args with
  | [[code]; bits] => show_bool (C14_spec.violated code (map (fun c => Ascii.eqb c "1"%char) bits))
  | [[code]] => show_bool (C14_spec.violated code [])
  | _ => sl "?args"
  end.

Definition dispatch (unit : str) (args : list str) : str :=
  if str_eqb unit (sl "validation") then unit_validation args
  else if str_eqb unit (sl "ctl") then unit_ctl args
  else if str_eqb unit (sl "c13_spec") then unit_c13_spec args
  else if str_eqb unit (sl "c14_spec") then unit_c14_spec args
  else if str_eqb unit (sl "c04_spec") then unit_c04_spec args
  else if str_eqb unit (sl "c01_spec") then unit_c01_spec args
  else if str_eqb unit (sl "c01_rawspec") then unit_c01_rawspec args
  else if str_eqb unit (sl "open_path") then unit_open_path args
  else if str_eqb unit (sl "path") then unit_path args
  else if str_eqb unit (sl "child_path") then unit_child_path args
  else if str_eqb unit (sl "segment") then unit_segment args
  else if str_eqb unit (sl "raw") then unit_raw args
  else if str_eqb unit (sl "reader") then unit_reader args
  else if str_eqb unit (sl "writer") then unit_writer args
  else if str_eqb unit (sl "norm") then unit_norm args
  else if str_eqb unit (sl "syntax") then unit_syntax args
  else if str_eqb unit (sl "split_syntax") then unit_split_syntax args
  else if str_eqb unit (sl "pyint") then unit_pyint args
  else if str_eqb unit (sl "pystr") then unit_pystr args
  else if str_eqb unit (sl "errh") then UnitsErrh.unit_errh args
  else sl "?unit".
