(* Element.v — hand model of element_if.is_valid / _is_valid_code,
   composite_if.is_valid and segment_if.is_valid (pyx12/map_if.py), in the
   order the checks are made.  Output: the calls made on the error handler
   (add_ele, ele_error) in order, and the boolean result. *)
From Coq Require Import String.
From PX.Lib Require Import Base PyStr PyInt Regex Xml.
From PX.Model Require Import Path Segment Syntax Validation MapLoad MapTree.

Local Definition l (x : string) : str := list_ascii_of_string x.

(* what add_ele reads from the map node *)
Record ele_info := { ei_data_ele : option str; ei_name : option str; ei_seq : Z;
                     ei_parent_is_composite : bool; ei_parent_seq : Z }.

Inductive hev :=
| HAddEle (i : ele_info)
| HEleErr (code : str) (msg : str) (value : option str) (refdes : option str).

Definition ostr0 (o : option str) : str := match o with Some x => x | None => l "None" end.  (* '%s' % None *)

(* '%i' % n *)
Definition fmt_i (z : Z) : str :=
  match z with Zneg p => "-"%char :: fmt_d (Npos p) | _ => fmt_d (Z.to_N z) end.

Record ectx := { x_de : list dataele; x_codes : list codeset; x_exclude : list str; x_charset : str; x_icvn : option str }.

Definition ctx_of (m : xmap) : ectx :=
  {| x_de := m_dataele m; x_codes := m_codes m; x_exclude := m_exclude m; x_charset := m_charset m; x_icvn := m_icvn m |}.

Definition mk_ev (refdes : option str) (code : string) (msg : str) (v : option str) : hev := HEleErr (l code) msg v refdes.

(* element data as the element node sees it: None, or the list of component values
   (a Composite from Segment.get, or a single Element of a composite) *)
Definition edata := option (list str).

(* Composite.get_value / Element.get_value: the value of a one-component datum *)
Definition ed_value (d : list str) : str := match d with [v] => v | _ => [] end.

Definition is_date_type (t : option str) : bool :=
  match t with Some x => mem_str x [l "RD8"; l "DT"; l "D8"; l "D6"] | None => false end.

(* element_if._is_valid_code *)
Definition is_valid_code (c : ectx) (e : elem) (v : str) : result bool :=
  let b0 := (match e_codes e with [] => true | _ => false end) && match e_external e with None => true | Some _ => false end in
  let b1 := b0 || existsb (ostr_eqb (Some v)) (e_codes e) in
  match e_external e with
  | None => Ok b1
  | Some k => do r <- ext_is_valid (x_codes c) (x_exclude c) (Some k) (Some v); Ok (b1 || r)
  end.

Definition q (x : option str) : str := l """" ++ ostr0 x ++ l """".

Definition replace_char (c : ascii) (s : str) : str := filter (fun x => negb (Ascii.eqb x c)) s.

(* IsValidDataType with the icvn of the map (None prints as a non-matching version string) *)
Definition valid_type (c : ectx) (v : str) (t : option str) (with_icvn : bool) : result bool :=
  match t with
  | None => Ok true                                   (* `if not data_type: return True` *)
  | Some ty => IsValidDataType v ty (x_charset c)
                 (if with_icvn then match x_icvn c with Some i => i | None => l "None" end else l "00401")
  end.

Fixpoint any_valid_type (c : ectx) (v : str) (ts : list (option str)) : result bool :=
  match ts with
  | [] => Ok false
  | t :: rest => do a <- valid_type c v t false; do b <- any_valid_type c v rest; Ok (a || b)
  end.

Definition lenmsg (nm v : str) (len : Z) (what : string) (cmp : string) (lim : Z) (limname : string) : str :=
  l "Data element " ++ nm ++ l " is too " ++ l what ++ l ": len(""" ++ v ++ l """) = " ++ fmt_i len ++
  l " " ++ l cmp ++ l " " ++ fmt_i lim ++ l " (" ++ l limname ++ l ")".

(* element_if.is_valid.  parent: (is_composite, usage, seq) of the parent node *)
Definition elem_is_valid (sub : ascii) (c : ectx) (e : elem) (parent_comp : option (option str * Z))
                         (d : edata) (type_list : list (option str)) : result (bool * list hev) :=
  let info := {| ei_data_ele := e_data_ele e; ei_name := e_name e; ei_seq := e_seq e;
                 ei_parent_is_composite := match parent_comp with Some _ => true | None => false end;
                 ei_parent_seq := match parent_comp with Some (_, s0) => s0 | None => 0%Z end |} in
  let refdes := e_id e in
  let pre := [HAddEle info] in
  let nm := q (e_name e) ++ l " (" ++ ostr0 refdes ++ l ")" in
  match d with
  | Some ((_ :: _ :: _) as comps) =>
      (* an element node given a composite value *)
      Ok (false, pre ++ [mk_ev refdes "6" (l "Data element " ++ nm ++ l " is an invalid composite") (Some (format_comp sub comps))])
  | _ =>
    let empty := match d with None => true | Some dd => match ed_value dd with [] => true | _ => false end end in
    let early :=
      if empty then
        if usage_is (e_usage e) "N" || usage_is (e_usage e) "S" then Some (Ok (true, pre))
        else if usage_is (e_usage e) "R" then
          Some (Ok (false, pre ++ [mk_ev refdes "1" (l "Mandatory data element " ++ nm ++ l " is missing") None]))
        else None
      else None in
    match early with
    | Some r => r
    | None =>
      match d with
      | None => Raise AttributeError                      (* elem.get_value() on None with an unknown usage *)
      | Some dd =>
        let v := ed_value dd in
        if usage_is (e_usage e) "N" && negb (match v with [] => true | _ => false end) then
          Ok (false, pre ++ [mk_ev refdes "10" (l "Data element " ++ nm ++ l " is marked as Not Used") None])
        else
          do de <- get_by_elem_num (x_de c) (e_data_ele e);
          let ty := de_type de in
          do numeric <- (match ty with
                         | None => Ok false
                         | Some t => if str_eqb t (l "R") then Ok true
                                     else match t with c0 :: _ => Ok (Ascii.eqb c0 "N"%char) | [] => Raise IndexError end
                         end);
          let measured := if numeric then replace_char "."%char (replace_char "-"%char v) else v in
          let len := Z.of_nat (length measured) in
          let e_short := if (len <? de_min de)%Z then [mk_ev refdes "4" (lenmsg nm v len "short" "<" (de_min de) "min_len") (Some v)] else [] in
          let e_long := if (de_max de <? len)%Z then [mk_ev refdes "5" (lenmsg nm v len "long" ">" (de_max de) "max_len") (Some v)] else [] in
          let valid0 := match e_short ++ e_long with [] => true | _ => false end in
          match contains_control_character v with
          | Some bad =>
              Ok (false, pre ++ e_short ++ e_long ++
                         [mk_ev refdes "6" (l "Data element " ++ nm ++ l ", contains an invalid control character(" ++ bad ++ l ")") (Some bad)])
          | None =>
            do lastc <- last_char v;                          (* elem_val[-1]: v is not empty here *)
            let is_an_id := match ty with Some t => mem_str t [l "AN"; l "ID"] | None => false end in
            let e_trail :=
              if is_an_id && Ascii.eqb lastc " "%char && (de_min de <=? Z.of_nat (length (rstrip_ws v)))%Z
              then [mk_ev refdes "6" (l "Data element " ++ nm ++ l " has unnecessary trailing spaces. (" ++ v ++ l ")") (Some v)] else [] in
            do code_ok <- is_valid_code c e v;
            let e_code := if code_ok then []
                          else [mk_ev refdes "7" (l "(" ++ v ++ l ") is not a valid code for " ++ ostr0 (e_name e) ++ l " (" ++ ostr0 refdes ++ l ")") (Some v)] in
            do type_ok <- valid_type c v ty true;
            let e_type :=
              if type_ok then []
              else if is_date_type ty then [mk_ev refdes "8" (l "Data element " ++ nm ++ l " contains an invalid date (" ++ v ++ l ")") (Some v)]
              else if ostr_eqb ty (Some (l "TM")) then [mk_ev refdes "9" (l "Data element " ++ nm ++ l " contains an invalid time (" ++ v ++ l ")") (Some v)]
              else [mk_ev refdes "6" (l "Data element " ++ nm ++ l " is type " ++ ostr0 ty ++ l ", contains an invalid character(" ++ v ++ l ")") (Some v)] in
            do tl <- (match type_list with
                      | [] => Ok (true, [])
                      | _ =>
                          do anyv <- any_valid_type c v type_list;
                          if anyv then Ok (true, [])
                          else if existsb (ostr_eqb (Some (l "TM"))) type_list
                          then Ok (false, [mk_ev refdes "9" (l "Data element " ++ nm ++ l " contains an invalid time (" ++ v ++ l ")") (Some v)])
                          else if existsb is_date_type type_list
                          then Ok (false, [mk_ev refdes "8" (l "Data element " ++ nm ++ l " contains an invalid date (" ++ v ++ l ")") (Some v)])
                          else Ok (false, [])
                      end);
            let e_rx := match e_rec e with
                        | Some r => match search r v with
                                    | Some _ => []
                                    | None => [mk_ev refdes "7" (l "Data element " ++ q (e_name e) ++ l " with a value of (" ++ v ++ l ")" ++
                                                        l " failed to match the regular expression """ ++ ostr0 (e_res e) ++ l """") (Some v)]
                                    end
                        | None => []
                        end in
            let errs := e_short ++ e_long ++ e_trail ++ e_code ++ e_type ++ snd tl ++ e_rx in
            Ok (valid0 && (match e_trail ++ e_code ++ e_type ++ e_rx with [] => true | _ => false end) && fst tl, pre ++ errs)
          end
      end
    end
  end.

(* composite_if.is_valid; comp_data = None or the component values *)
Definition comp_is_valid (sub : ascii) (c : ectx) (cn : comp) (d : edata) : result (bool * list hev) :=
  let refdes := c_refdes cn in
  let nm := q (c_name cn) ++ l " (" ++ ostr0 refdes ++ l ")" in
  let empty := match d with None => true | Some dd => forallb (fun v => match v with [] => true | _ => false end) dd end in
  if empty && (usage_is (c_usage cn) "N" || usage_is (c_usage cn) "S") then Ok (true, [])
  else if usage_is (c_usage cn) "R" && empty then
    Ok (false, [HEleErr (l "2") (l "At least one component of composite " ++ nm ++ l " is required") None refdes])
  else
    match d with
    | None => Raise TypeError                              (* len(comp_data) on None *)
    | Some dd =>
        if usage_is (c_usage cn) "N" && negb empty then
          Ok (false, [HEleErr (l "5") (l "Composite " ++ nm ++ l " is marked as Not Used") None refdes])
        else
          let nkids := length (c_children cn) in
          let e_many := if nkids <? length dd
                        then [HEleErr (l "3") (l "Too many sub-elements in composite " ++ nm) None refdes] else [] in
          (fix go (i : nat) (kids : list elem) (vals : list str) (valid : bool) (acc : list hev) : result (bool * list hev) :=
             match kids with
             | [] => Ok (valid, acc)
             | k :: kids' =>
                 let (dv, vals') := match vals with v :: r => (Some [v], r) | [] => (None, []) end in
                 do r <- elem_is_valid sub c k (Some (c_usage cn, c_seq cn)) dv [];
                 go (S i) kids' vals' (valid && fst r) (acc ++ snd r)
             end) 0 (c_children cn) dd (match e_many with [] => true | _ => false end) e_many
    end.

(* segment_if.get_child_node_by_idx(i): the child with seq = i + 1 (EngineError unless exactly one) *)
Definition child_by_idx (sg : segm) (i : nat) : result sub :=
  match filter (fun ch => Z.eqb (match ch with SubE e => e_seq e | SubC c0 => c_seq c0 end) (Z.of_nat i + 1)) (s_children sg) with
  | [ch] => Ok ch
  | _ => Raise EngineError
  end.

(* segment_if.is_valid *)
Definition seg_is_valid (d : delims) (c : ectx) (sn : segm) (sg : seg) : result (bool * list hev) :=
  let child_count := length (s_children sn) in
  let n := length (els sg) in
  let e_many :=
    if child_count <? n then
      [HEleErr (l "3") (l "Too many elements in segment " ++ q (s_name sn) ++ l " (" ++ ostr0 (sid sg) ++ l "). Has " ++
                        fmt_i (Z.of_nat n) ++ l ", should have " ++ fmt_i (Z.of_nat child_count))
               (seg_val d sg (S child_count)) (Some (fmt_02 (N.of_nat (S child_count))))]
    else [] in
  let is_dtp := ostr_eqb (sid sg) (Some (l "DTP")) in
  (fix present (i : nat) (vals : list composite) (dtype : list (option str)) (type_list : list (option str))
               (valid : bool) (acc : list hev) : result (bool * list hev) :=
     match vals with
     | [] =>
         (* missing trailing elements, then the syntax notes *)
         (fix missing (j : nat) (fuel : nat) (valid : bool) (acc : list hev) : result (bool * list hev) :=
            match fuel with
            | 0 =>
                do syn <- syntax_loop d sg (map (fun nt => (fst nt, map Z.to_N (snd nt))) (s_syntax sn));
                Ok (valid && (match syn with [] => true | _ => false end),
                    acc ++ map (fun code => HEleErr code (l "Syntax Error") None None) syn)
            | S f =>
                do ch <- child_by_idx sn j;
                do r <- (match ch with
                         | SubE e => elem_is_valid (subele_term d) c e None None []
                         | SubC cn => comp_is_valid (subele_term d) c cn None
                         end);
                missing (S j) f (valid && fst r) (acc ++ snd r)
            end) i (child_count - i) valid acc
     | v :: vals' =>
         if child_count <=? i then present (S i) vals' dtype type_list valid acc      (* beyond the node's children: skipped *)
         else
           do ch <- child_by_idx sn i;
           match ch with
           | SubC cn =>
               let e_sub := if (length (c_children cn) <? length v) && negb (usage_is (c_usage cn) "N")
                            then [HEleErr (l "3") (l "Too many sub-elements in composite " ++ q (c_name cn) ++ l " (" ++ ostr0 (c_refdes cn) ++ l ")")
                                          (seg_val d sg (S i)) (Some (fmt_02 (N.of_nat (S i))))]
                            else [] in
               do r <- comp_is_valid (subele_term d) c cn (Some v);
               present (S i) vals' dtype type_list (valid && fst r) (acc ++ e_sub ++ snd r)
           | SubE e =>
               let dtype' := if (i =? 1) && is_dtp &&
                                match seg_val d sg 2 with
                                | Some x => mem_str x [l "RD8"; l "D8"; l "D6"; l "DT"; l "TM"]
                                | None => false end
                             then [seg_val d sg 2] else dtype in
               let type_list' := if ostr_eqb (e_data_ele e) (Some (l "1250")) then type_list ++ e_codes e else type_list in
               do r <- (if (i =? 2) && is_dtp then elem_is_valid (subele_term d) c e None (Some v) dtype'
                        else if ostr_eqb (e_data_ele e) (Some (l "1251")) && negb (match type_list' with [] => true | _ => false end)
                        then elem_is_valid (subele_term d) c e None (Some v) type_list'
                        else elem_is_valid (subele_term d) c e None (Some v) []);
               present (S i) vals' dtype' type_list' (valid && fst r) (acc ++ snd r)
           end
     end) 0 (els sg) [] [] (match e_many with [] => true | _ => false end) e_many.
