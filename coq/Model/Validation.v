(* Validation.v — hand model of pyx12/validation.py (function for function).
   Regexes and the control-character tables come from Gen (regenerated from
   the source on every run). *)
From Coq Require Import String.
From PX.Lib Require Import Base PyStr Regex.
From PX.Gen Require Import Regexes Tables.

Definition l (s : string) : str := list_ascii_of_string s.

(* validation.py:match_re — `rec.search(val)`, then `m.group(0) != val` *)
Definition match_re_with (r : re) (val : str) : bool :=
  match search r val with
  | None => false
  | Some x => str_eqb (group0 val x) val
  end.

Definition match_re (short : str) (val : str) : result bool :=
  if str_eqb short (l "N") then Ok (match_re_with rec_N val)
  else if str_eqb short (l "R") then Ok (match_re_with rec_R val)
  else Raise EngineError.

(* validation.py:not_match_re — `m and m.group(0)` *)
Definition not_match_re_with (r : re) (val : str) : bool :=
  match search r val with
  | None => false
  | Some x => match group0 val x with [] => false | _ => true end
  end.

Definition not_match_re (short val charset icvn : str) : result bool :=
  if str_eqb short (l "ID") || str_eqb short (l "AN") then
    if str_eqb charset (l "E") then
      if str_eqb icvn (l "00501") then Ok (not_match_re_with rec_ID_E5 val)
      else Ok (not_match_re_with rec_ID_E val)
    else if str_eqb charset (l "B") then Ok (not_match_re_with rec_ID_B val)
    else Raise UnboundLocalError           (* `rec` never assigned *)
  else if str_eqb short (l "DT") then Ok (not_match_re_with rec_DT val)
  else if str_eqb short (l "TM") then Ok (not_match_re_with rec_TM val)
  else Raise EngineError.

(* validation.py:is_valid_time *)
Definition is_valid_time (val : str) : bool :=
  if not_match_re_with rec_TM val then false
  else if length val <? 4 then false
  else if str_gtb (slice val 0 2) (l "23") || str_gtb (slice val 2 4) (l "59") then false
  else if 4 <? length val then
    if length val <? 6 then false
    else if str_gtb (slice val 4 6) (l "59") then false
    else if 8 <? length val then false
    else true
  else true.

(* validation.py:is_valid_date.  int() is applied only after the all-digit
   test, where it is dec_val. *)
Definition is_leap (year : N) : bool :=
  (N.eqb (year mod 4) 0) && negb ((N.eqb (year mod 100) 0) && negb (N.eqb (year mod 400) 0)).

Definition is_valid_date (data_type val : str) : bool :=
  if str_eqb data_type (l "D8") && negb (length val =? 8) then false
  else if str_eqb data_type (l "D6") && negb (length val =? 6) then false
  else if not_match_re_with rec_DT val then false
  else if (length val =? 6) || (length val =? 8) || (length val =? 12) then
    let val := if length val =? 6
               then (if N.ltb (dec_val (slice val 0 2)) 50 then l "20" ++ val else l "19" ++ val)
               else val in
    let year := dec_val (slice val 0 4) in
    let month := dec_val (slice val 4 6) in
    let day := dec_val (slice val 6 8) in
    if N.ltb year 1800 then false
    else if N.ltb month 1 || N.ltb 12 month then false
    else if
      (if existsb (N.eqb month) [1;3;5;7;8;10;12]%N then N.ltb day 1 || N.ltb 31 day
       else if existsb (N.eqb month) [4;6;9;11]%N then N.ltb day 1 || N.ltb 30 day
       else if is_leap year then N.ltb day 1 || N.ltb 29 day
       else N.ltb day 1 || N.ltb 28 day)
    then false
    else if length val =? 12 then is_valid_time (slice val 8 12)
    else true
  else false.

(* validation.py:IsValidDataType.  The recursion for RD8 is on a fixed data
   type ('D8'), so it is unfolded here. *)
Definition is_d8 (val : str) : bool := is_valid_date (l "D8") val.

Definition IsValidDataType (str_val data_type charset icvn : str) : result bool :=
  match data_type with
  | [] => Ok true
  | c0 :: _ =>
    if Ascii.eqb c0 "N"%char then Ok (match_re_with rec_N str_val)
    else if str_eqb data_type (l "R") then Ok (match_re_with rec_R str_val)
    else if str_eqb data_type (l "ID") || str_eqb data_type (l "AN") then
      do b <- not_match_re (l "ID") str_val charset icvn; Ok (negb b)
    else if str_eqb data_type (l "RD8") then
      if count_char "-"%char str_val =? 1 then
        match split "-"%char str_val with
        | [a; b] => Ok (is_d8 a && is_d8 b)
        | _ => Raise ValueError
        end
      else Ok false
    else if str_eqb data_type (l "DT") || str_eqb data_type (l "D8") || str_eqb data_type (l "D6")
      then Ok (is_valid_date data_type str_val)
    else if str_eqb data_type (l "TM") then Ok (is_valid_time str_val)
    else if str_eqb data_type (l "B") then Ok true
    else Ok false
  end.

(* validation.py:contains_control_character — first table entry (dict order)
   whose key occurs in the value *)
Fixpoint first_ctl (tbl : list (nat * str)) (v : str) : option str :=
  match tbl with
  | [] => None
  | (k, name) :: tbl' => if mem_ascii (ascii_of_nat k) v then Some name else first_ctl tbl' v
  end.

Definition contains_control_character (v : str) : option str :=
  match first_ctl control_base v with
  | Some n => Some (l "<" ++ n ++ l ">")
  | None => match first_ctl extended_base v with
            | Some n => Some (l "<" ++ n ++ l ">")
            | None => None
            end
  end.
