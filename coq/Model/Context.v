(* Context.v — hand model of the data-node classes of pyx12/x12context.py:
   X12DataNode, X12LoopDataNode, X12SegmentDataNode (lines 37-744).

   Why an object store and not a plain tree.  The Python nodes form a graph:
   every node has a `parent` attribute next to the `children` lists, and the
   code does NOT keep the two consistent:
     - X12LoopDataNode.__copy__ / X12SegmentDataNode.__copy__ (539-548, 709-717)
       give every node of the copy the parent of the node it was copied FROM, so
       the children of a copied loop point into the original tree;
     - iter_segments (890) builds plain segment nodes whose `parent` is the LIST
       of pushed map loops (positional-argument slip);
     - delete() (56-65) clears a node but leaves it in its parent's `children`
       until the next _cleanup, and leaves its former children pointing at it;
     - delete_segment (437) detaches a node that still has its parent pointer.
   A `../` path, _get_terminators and the reader's _add_segment all follow
   `parent`.  The model therefore is a store of objects (`heap`, object id =
   index, allocation appends), with `children : list oid` and `parent : pyref`.
   The immutable tree of a node is read off the store by `tree_of` (at the end
   of this file); positions (child-index paths) are computed by `locate`.

   Methods are functions on the store: readers take the heap and return a
   `result`; writers are computations `H A` (state in, state out, possibly a
   raised exception; the state that comes out WITH the exception is the
   partially updated one, as in Python).

   Generators (select, _select, iterate_segments, iterate_loop_segments) are
   modelled by their trace: the items yielded, then possibly the exception that
   ends the iteration (`gtrace`).  A caller that stops at the first item
   (exists, first, delete_node) never sees a later exception.

   AssertionError, NotImplementedError, RecursionError are OtherError. *)
From Coq Require Import String.
From PX.Lib Require Import Base PyStr PyInt Regex Xml.
From PX.Model Require Import Path Segment Syntax MapLoad MapTree Element Counter Walker.

Local Definition l (x : string) : str := list_ascii_of_string x.

(* ------------------------------------------------------------------ *)
(* map nodes: a reference together with the map it belongs to          *)

Record mnode := { mn_map : xmap; mn_ref : nref }.

(* the map node itself; [] is the map_if object *)
Inductive mview := MRoot | MNode (n : node).

Definition mn_view (a : mnode) : result mview :=
  match mn_ref a with
  | [] => Ok MRoot
  | r => do n <- get_node (mn_map a) r; Ok (MNode n)
  end.

(* x12_node.id *)
Definition mn_id (a : mnode) : result (option str) :=
  do v <- mn_view a; Ok (match v with MRoot => m_id (mn_map a) | MNode n => node_id n end).

(* node.pos: map_if has no such attribute *)
Definition mn_pos (a : mnode) : result Z :=
  do v <- mn_view a; match v with MRoot => Raise AttributeError | MNode n => Ok (node_pos n) end.

(* node.parent (a loop or segment node) *)
Definition mn_parent (a : mnode) : mnode := {| mn_map := mn_map a; mn_ref := removelast (mn_ref a) |}.

(* node.get_path() / node.x12path *)
Definition mn_path (a : mnode) : result str := node_path (mn_map a) (mn_ref a).
Definition mn_x12path (a : mnode) : result xpath := node_x12path (mn_map a) (mn_ref a).

(* segment_if.is_first_seg_in_loop (map_if.py:813-820): `self is self.get_parent().get_first_seg()`;
   the first node of a loop is the one at index 0 of its position-ordered children.
   x12_node.is_first_seg_in_loop (139-143) is False for everything else. *)
Definition mn_is_first_seg (a : mnode) : result bool :=
  do v <- mn_view a;
  match v with
  | MNode (NSeg _) => Ok (match rev (mn_ref a) with 0 :: _ => true | _ => false end)
  | _ => Ok false
  end.

Definition mn_is_segment (a : mnode) : result bool :=
  do v <- mn_view a; Ok (match v with MNode (NSeg _) => true | _ => false end).

(* `a != b` for map nodes (x12_node.__ne__, map_if.py:48-52, on x12_node.__eq__ 43-46 or, when the
   left operand is the map_if object, map_if.__eq__ 248-249).  The operands may belong to different maps. *)
Definition mn_parent_id (a : mnode) : result (option str) := parent_id (mn_map a) (mn_ref a).

Definition mn_ne (a b : mnode) : result bool :=
  do ia <- mn_id a;
  do ib <- mn_id b;
  match mn_ref a with
  | [] => Ok (negb (ostr_eqb ia ib))                               (* map_if.__eq__: ids only *)
  | _ =>
      if negb (ostr_eqb ia ib) then Ok true
      else match mn_ref b with
           | [] => Raise AttributeError                            (* other.parent is None: None.id *)
           | _ => do pa <- mn_parent_id a; do pb <- mn_parent_id b; Ok (negb (ostr_eqb pa pb))
           end
  end.

(* ------------------------------------------------------------------ *)
(* segment_if.is_match_qual (map_if.py:867-913): the boolean of the returned tuple *)
Definition seg_is_match_qual (d : delims) (de : list dataele) (n : segm) (sg : seg) (seg_id qual : option str)
  : result bool :=
  if negb (ostr_eqb seg_id (s_id n)) then Ok false else
  match qual with
  | None => Ok true
  | Some _ =>
      let keyed (e : elem) (v : option str) : bool := in_codes qual e && ostr_eqb v qual in
      do c0 <- nth_sub n 0;
      do b1 <- (match c0 with
                | SubE e => do t <- elem_type de e;
                            Ok (is_type t "ID" && usage_is (e_usage e) "R" && negb (no_codes e))
                | SubC _ => Ok false
                end);
      if b1 then Ok (match c0 with SubE e => keyed e (seg_val d sg 1) | SubC _ => false end) else
      do b2 <- (if ostr_eqb seg_id (Some (l "ENT")) then
                  do c1 <- nth_sub n 1;
                  match c1 with
                  | SubE e => do t <- elem_type de e; Ok (if is_type t "ID" && negb (no_codes e) then Some e else None)
                  | SubC _ => Ok None
                  end
                else Ok None);
      match b2 with
      | Some e => Ok (keyed e (seg_val d sg 2))
      | None =>
          do b3 <- (match c0 with
                    | SubC c => match c_children c with
                                | [] => Raise IndexError
                                | e0 :: _ => do t <- elem_type de e0;
                                             Ok (if is_type t "ID" && negb (no_codes e0) then Some e0 else None)
                                end
                    | SubE _ => Ok None
                    end);
          match b3 with
          | Some e0 => Ok (keyed e0 (seg_subval sg 1 1))
          | None =>
              do b4 <- (if ostr_eqb seg_id (Some (l "HL")) then
                          do c2 <- nth_sub n 2;
                          match c2 with
                          | SubE e => Ok (if negb (no_codes e) then Some e else None)
                          | SubC _ => Ok None
                          end
                        else Ok None);
              match b4 with
              | Some e => Ok (keyed e (seg_val d sg 3))
              | None => Ok true
              end
          end
      end
  end.

(* `map_node.is_match_qual(seg_data, seg_id, qual)`: only segment_if has the method *)
Definition mn_is_match_qual (a : mnode) (x : xsg) (seg_id qual : option str) : result bool :=
  do v <- mn_view a;
  match v with
  | MNode (NSeg sn) => seg_is_match_qual (xg_d x) (m_dataele (mn_map a)) sn (xg_s x) seg_id qual
  | _ => Raise AttributeError
  end.

(* loop_if.get_child_seg_node (map_if.py:608-615) / get_child_loop_node (617-624); map_if has neither *)
Definition mn_child_node (want_loop : bool) (a : mnode) (x : xsg) : result (option mnode) :=
  do v <- mn_view a;
  match v with
  | MNode (NLoop _ _ _ _ _ _ pm) =>
      (fix go (i : nat) (cs : list node) : result (option mnode) :=
         match cs with
         | [] => Ok None
         | c :: cs' =>
             do hit <- (match c, want_loop with
                        | NSeg s0, false => seg_is_match (xg_d x) (m_dataele (mn_map a)) s0 (xg_s x)
                        | NLoop _ _ _ _ _ _ _, true => loop_is_match 40 (xg_d x) (m_dataele (mn_map a)) c (xg_s x)
                        | _, _ => Ok false
                        end);
             if hit then Ok (Some {| mn_map := mn_map a; mn_ref := mn_ref a ++ [i] |}) else go (S i) cs'
         end) 0 (pm_nodes pm)
  | _ => Raise AttributeError
  end.

(* ------------------------------------------------------------------ *)
(* segment data                                                        *)

(* A pyx12.segment.Segment: the terminators it was built with, its content, and for every composite
   whether the separator the Composite object itself remembers is the ELEMENT separator.  Segment.format
   never uses that remembered separator (it passes its own sub-element separator down), but
   Segment.get_value does (`comp1.format()`, segment.py:388-397).  In a segment whose id is ISA,
   Segment.__init__ (283-289) and Segment.set for ISA16 (421-425) build the composites with the element
   separator; every other composite (set, padding) is built with the sub-element separator.
   (Model/Segment.v:value_of always joins with the sub-element separator; the difference shows after
   e.g. set('ISA16', 'a*b') or set('ISA05-2', 'x') followed by get_value.) *)
Record sdata := { sd_x : xsg; sd_own : list bool }.

Definition is_isa_seg (s : seg) : bool := opt_eqb str_eqb (sid s) (Some (l "ISA")).

(* Segment.__init__ *)
Definition mk_sdata (x : xsg) : sdata :=
  {| sd_x := x; sd_own := map (fun _ => is_isa_seg (xg_s x)) (els (xg_s x)) |}.

(* Segment.get_value (388-397) *)
Definition sd_get_value (sd : sdata) (ref : str) : result (option str) :=
  let x := sd_x sd in
  do ix <- parse_refdes (xg_s x) ref;
  do g <- get_ix (xg_s x) ix;
  match g with
  | GotNone => Ok None
  | GotEle v => Ok (Some v)
  | GotComp c =>
      let n := Z.of_nat (length (els (xg_s x))) in
      let i := match fst ix with Some ei => if (ei <? 0)%Z then (ei + n)%Z else ei | None => 0%Z end in
      let own := nth (Z.to_nat i) (sd_own sd) false in
      Ok (Some (format_comp (if own then ele_term (xg_d x) else subele_term (xg_d x)) c))
  end.

(* Segment.set (407-432) *)
Definition sd_set (sd : sdata) (ref val : str) : result sdata :=
  let x := sd_x sd in
  do ix <- parse_refdes (xg_s x) ref;
  do s' <- set_ix (xg_d x) (xg_s x) ix val;
  let n := length (els s') in
  let own := sd_own sd ++ repeat false (n - length (sd_own sd)) in            (* padding composites *)
  let own' := match fst ix with
              | None => own
              | Some ei =>
                  if is_isa_seg (xg_s x) && (ei =? 15)%Z then set_nth own 15 true
                  else match snd ix with
                       | None => set_nth own (Z.to_nat (if (ei <? 0)%Z then (ei + Z.of_nat n)%Z else ei)) false
                       | Some _ => own
                       end
              end in
  Ok {| sd_x := {| xg_d := xg_d x; xg_s := s' |}; sd_own := own' |}.

(* Segment.copy (548-552): format, then parse again *)
Definition sd_copy (sd : sdata) : sdata :=
  let x := sd_x sd in mk_sdata {| xg_d := xg_d x; xg_s := seg_copy (xg_d x) (xg_s x) |}.

(* ------------------------------------------------------------------ *)
(* the objects                                                         *)

Definition oid := nat.

(* what a Python expression that should denote a data node can evaluate to *)
Inductive pyref := RNone | RObj (o : oid) | RList (ms : list mnode).

Inductive oclass := CSeg | CLoop.

Record dobj := {
  o_class : oclass;                    (* X12SegmentDataNode / X12LoopDataNode *)
  o_live : bool;                       (* `type` is 'seg' / 'loop' (by class) rather than None *)
  o_map : option mnode;                (* x12_map_node *)
  o_seg : option sdata;                (* seg_data *)
  o_parent : pyref;
  o_children : list oid;               (* a live segment object has no such attribute: see obj_children *)
  o_seg_count : option Z;              (* segment objects *)
  o_cur_line : option Z;
  o_start : list mnode;                (* start_loops (segment objects) *)
  o_end : list mnode;                  (* end_loops *)
  o_err_isa : list (str * str);        (* segment objects: err_isa / err_gs / err_st: (code, message) *)
  o_err_gs : list (str * str);
  o_err_st : list (str * str);
  o_err_seg : list (str * str * option str)    (* (code, message, value) *)
}.
(* `errors` is [] on every object at all times and `err_ele` is never written by this module. *)

Definition heap := list dobj.

Definition h_get (h : heap) (o : oid) : result dobj :=
  match nth_error h o with Some x => Ok x | None => Raise OtherError end.   (* no dangling ids are ever made *)

Definition upd_children (x : dobj) (cs : list oid) : dobj :=
  {| o_class := o_class x; o_live := o_live x; o_map := o_map x; o_seg := o_seg x; o_parent := o_parent x;
     o_children := cs; o_seg_count := o_seg_count x; o_cur_line := o_cur_line x; o_start := o_start x; o_end := o_end x;
     o_err_isa := o_err_isa x; o_err_gs := o_err_gs x; o_err_st := o_err_st x; o_err_seg := o_err_seg x |}.
Definition upd_parent (x : dobj) (p : pyref) : dobj :=
  {| o_class := o_class x; o_live := o_live x; o_map := o_map x; o_seg := o_seg x; o_parent := p;
     o_children := o_children x; o_seg_count := o_seg_count x; o_cur_line := o_cur_line x; o_start := o_start x; o_end := o_end x;
     o_err_isa := o_err_isa x; o_err_gs := o_err_gs x; o_err_st := o_err_st x; o_err_seg := o_err_seg x |}.
Definition upd_seg (x : dobj) (s : option sdata) : dobj :=
  {| o_class := o_class x; o_live := o_live x; o_map := o_map x; o_seg := s; o_parent := o_parent x;
     o_children := o_children x; o_seg_count := o_seg_count x; o_cur_line := o_cur_line x; o_start := o_start x; o_end := o_end x;
     o_err_isa := o_err_isa x; o_err_gs := o_err_gs x; o_err_st := o_err_st x; o_err_seg := o_err_seg x |}.

(* X12LoopDataNode.__init__ (275-285) *)
Definition new_loop (mn : option mnode) (end_loops : list mnode) (parent : pyref) : dobj :=
  {| o_class := CLoop; o_live := true; o_map := mn; o_seg := None; o_parent := parent; o_children := [];
     o_seg_count := None; o_cur_line := None; o_start := []; o_end := end_loops;
     o_err_isa := []; o_err_gs := []; o_err_st := []; o_err_seg := [] |}.

(* X12SegmentDataNode.__init__ (567-582) *)
Definition new_seg (mn : option mnode) (x : xsg) (parent : pyref) (start_loops end_loops : list mnode) : dobj :=
  {| o_class := CSeg; o_live := true; o_map := mn; o_seg := Some (mk_sdata x); o_parent := parent; o_children := [];
     o_seg_count := None; o_cur_line := None; o_start := start_loops; o_end := end_loops;
     o_err_isa := []; o_err_gs := []; o_err_st := []; o_err_seg := [] |}.

(* delete() (56-65, 288-293, 597-603); seg_count, cur_line_number and the err_* lists stay *)
Definition deleted (x : dobj) : dobj :=
  {| o_class := o_class x; o_live := false; o_map := None; o_seg := None; o_parent := RNone; o_children := [];
     o_seg_count := o_seg_count x; o_cur_line := o_cur_line x; o_start := []; o_end := [];
     o_err_isa := o_err_isa x; o_err_gs := o_err_gs x; o_err_st := o_err_st x; o_err_seg := o_err_seg x |}.

(* `type == 'seg'`, `type == 'loop'` *)
Definition is_seg_typed (x : dobj) : bool := o_live x && match o_class x with CSeg => true | CLoop => false end.
Definition is_loop_typed (x : dobj) : bool := o_live x && match o_class x with CLoop => true | CSeg => false end.

(* `x.children`: X12SegmentDataNode.__init__ does not create the attribute, delete() does *)
Definition obj_children (x : dobj) : result (list oid) :=
  match o_class x, o_live x with
  | CSeg, true => Raise AttributeError
  | _, _ => Ok (o_children x)
  end.

(* the property `id` (248-256) *)
Definition obj_id (x : dobj) : result (option str) :=
  match o_map x with None => Raise EngineError | Some mn => mn_id mn end.

(* the property `cur_path` (258-266) *)
Definition obj_cur_path (x : dobj) : result str :=
  match o_map x with None => Raise EngineError | Some mn => mn_path mn end.

(* ---- the state monad ---- *)
Definition H (A : Type) : Type := heap -> heap * result A.

Definition h_ret {A} (a : A) : H A := fun h => (h, Ok a).
Definition h_bind {A B} (m : H A) (f : A -> H B) : H B :=
  fun h => match m h with
           | (h', Ok a) => f a h'
           | (h', Raise e) => (h', Raise e)
           end.
Definition h_lift {A} (r : result A) : H A := fun h => (h, r).
Definition h_raise {A} (e : exn) : H A := fun h => (h, Raise e).
Definition h_read {A} (f : heap -> result A) : H A := fun h => (h, f h).

Notation "'doh' x <- m ; k" := (h_bind m (fun x => k)) (at level 200, x pattern, m at level 100, k at level 200).
Notation "'doh_' m ; k" := (h_bind m (fun _ => k)) (at level 200, m at level 100, k at level 200).

Definition h_obj (o : oid) : H dobj := h_read (fun h => h_get h o).
Definition h_put (o : oid) (x : dobj) : H unit := fun h => (set_nth h o x, Ok tt).
Definition h_new (x : dobj) : H oid := fun h => (h ++ [x], Ok (length h)).
Definition h_mod (o : oid) (f : dobj -> dobj) : H unit := doh x <- h_obj o; h_put o (f x).

(* ------------------------------------------------------------------ *)
(* generator traces                                                    *)

Definition gtrace (A : Type) : Type := (list A * option exn)%type.

Definition g_nil {A} : gtrace A := ([], None).
Definition g_fail {A} (e : exn) : gtrace A := ([], Some e).
Definition g_one {A} (a : A) : gtrace A := ([a], None).
Definition g_app {A} (a b : gtrace A) : gtrace A :=
  match a with
  | (xs, Some e) => (xs, Some e)
  | (xs, None) => (xs ++ fst b, snd b)
  end.
Fixpoint g_flat {A B} (f : A -> gtrace B) (xs : list A) : gtrace B :=
  match xs with
  | [] => g_nil
  | x :: r => match f x with
              | (ys, Some e) => (ys, Some e)
              | (ys, None) => let t := g_flat f r in (ys ++ fst t, snd t)
              end
  end.
Definition g_of_result {A} (r : result (gtrace A)) : gtrace A := match r with Ok t => t | Raise e => g_fail e end.

(* run to the end: `for x in gen` / list(gen) *)
Definition g_all {A} (t : gtrace A) : result (list A) := match snd t with Some e => Raise e | None => Ok (fst t) end.
(* stop at the first item *)
Definition g_first {A} (t : gtrace A) : result (option A) :=
  match t with
  | (x :: _, _) => Ok (Some x)
  | ([], Some e) => Raise e
  | ([], None) => Ok None
  end.

(* [x for x in self.children if x.type is not None] *)
Fixpoint live_of (h : heap) (cs : list oid) : result (list (oid * dobj)) :=
  match cs with
  | [] => Ok []
  | c :: r => do x <- h_get h c; do more <- live_of h r; Ok (if o_live x then (c, x) :: more else more)
  end.

(* ------------------------------------------------------------------ *)
(* _get_start_node (198-208).  `self_exn` is what the raise at 205 amounts to: the message is
   formatted with self.id first, which raises EngineError on a deleted node. *)
Fixpoint start_node_from (h : heap) (self_exn : exn) (curr : pyref) (s : str) {struct s} : result (pyref * str) :=
  match s with
  | c1 :: c2 :: c3 :: rest =>
      if Ascii.eqb c1 "."%char && Ascii.eqb c2 "."%char && Ascii.eqb c3 "/"%char then
        match curr with
        | RObj o =>
            do x <- h_get h o;
            match o_parent x with
            | RNone => Raise self_exn
            | p => start_node_from h self_exn p rest
            end
        | _ => Raise AttributeError                               (* a list has no attribute `parent` *)
        end
      else Ok (curr, s)
  | _ => Ok (curr, s)
  end.

Definition get_start_node (h : heap) (self : oid) (s : str) : result (pyref * str) :=
  do x <- h_get h self;
  start_node_from h (match o_map x with None => EngineError | Some _ => X12PathError end) (RObj self) s.

(* ------------------------------------------------------------------ *)
(* _select (210-239; 729-735 for segment objects) *)

Definition set_loop_list (xp : xpath) (ll : list str) : xpath :=
  {| relative := relative xp; loop_list := ll; seg_id := seg_id xp; id_val := id_val xp;
     ele_idx := ele_idx xp; subele_idx := subele_idx xp |}.

(* recursion on the loop list: every level hands its tail to the children *)
Fixpoint loop_select (h : heap) (ll : list str) (xp : xpath) (o : oid) {struct ll} : gtrace oid :=
  g_of_result (
    do x <- h_get h o;
    do kids <- live_of h (o_children x);
    match ll with
    | [] =>
        (* 216-227: only the segment is left *)
        Ok (g_flat (fun cx : oid * dobj =>
                      let (c, cx) := cx in
                      if is_seg_typed cx then
                        match (match o_map cx, o_seg cx with
                               | Some mn, Some sd => mn_is_match_qual mn (sd_x sd) (seg_id xp) (id_val xp)
                               | _, _ => Raise AttributeError                  (* None.is_match_qual *)
                               end) with
                        | Raise e => g_fail e
                        | Ok true => g_one c
                        | Ok false => g_nil
                        end
                      else
                        match obj_id cx with
                        | Raise e => g_fail e
                        | Ok i => if ostr_eqb i (seg_id xp) then g_one c else g_nil
                        end) kids)
    | cur :: rest =>
        (* 228-239 *)
        Ok (g_flat (fun cx : oid * dobj =>
                      let (c, cx) := cx in
                      match obj_id cx with
                      | Raise e => g_fail e
                      | Ok i =>
                          if ostr_eqb i (Some cur) then
                            match rest, seg_id xp with
                            | [], None => g_one c
                            | _, _ =>
                                match parse_path (format_path (set_loop_list xp ll)) with   (* 236 *)
                                | Raise e => g_fail e
                                | Ok cp =>
                                    match o_class cx with
                                    | CSeg => g_nil                              (* X12SegmentDataNode._select: [] *)
                                    | CLoop => loop_select h rest (set_loop_list cp rest) c
                                    end
                                end
                            end
                          else g_nil
                      end) kids)
    end).

(* curr._select(xpath) for whatever `curr` is *)
Definition ref_select (h : heap) (curr : pyref) (xp : xpath) : gtrace oid :=
  match curr with
  | RObj o =>
      match h_get h o with
      | Raise e => g_fail e
      | Ok x => match o_class x with
                | CSeg => g_nil
                | CLoop => loop_select h (loop_list xp) xp o
                end
      end
  | _ => g_fail AttributeError
  end.

(* the common head of exists / select / count / delete_node: start node, X12Path, _select *)
Definition select_from (h : heap) (self : oid) (p : str) : result (xpath * gtrace oid) :=
  do cp <- get_start_node h self p;
  do xp <- parse_path (snd cp);
  Ok (xp, ref_select h (fst cp) xp).

(* exists (97-109) *)
Definition node_exists (h : heap) (self : oid) (p : str) : result bool :=
  do r <- select_from h self p;
  do f <- g_first (snd r);
  Ok (match f with Some _ => true | None => false end).

(* count (147-160) *)
Definition node_count (h : heap) (self : oid) (p : str) : result nat :=
  do r <- select_from h self p;
  do xs <- g_all (snd r);
  Ok (length xs).

(* select (111-130): the asserts are evaluated per yielded node; 719-727 for segment objects *)
Definition select_check (h : heap) (xp : xpath) (n : oid) : result unit :=
  do x <- h_get h n;
  do i <- obj_id x;
  do _ <- (match seg_id xp with
           | Some _ => if ostr_eqb i (seg_id xp) then Ok tt else Raise OtherError
           | None => match rev (loop_list xp) with
                     | [] => Raise OtherError
                     | lst :: _ => if ostr_eqb i (Some lst) then Ok tt else Raise OtherError
                     end
           end);
  match o_parent x with RNone => Raise OtherError | _ => Ok tt end.

Fixpoint checked {A} (chk : A -> result unit) (xs : list A) (tail : option exn) : gtrace A :=
  match xs with
  | [] => ([], tail)
  | x :: r => match chk x with
              | Raise e => ([], Some e)
              | Ok _ => let t := checked chk r tail in (x :: fst t, snd t)
              end
  end.

Definition node_select (h : heap) (self : oid) (p : str) : gtrace oid :=
  g_of_result (
    do x <- h_get h self;
    (* fix 0757aa5: X12SegmentDataNode no longer overrides select *)
    do r <- select_from h self p;
    Ok (checked (select_check h (fst r)) (fst (snd r)) (snd (snd r)))).

(* first (132-145) *)
Definition node_first (h : heap) (self : oid) (p : str) : result (option oid) :=
  do e <- node_exists h self p;
  if negb e then Ok None else g_first (node_select h self p).

(* ------------------------------------------------------------------ *)
(* get_first_matching_segment: the Segment object returned is named by the node that owns it *)

Definition conv_engine (e : exn) : exn := match e with EngineError => X12PathError | _ => e end.
Definition try_engine {A} (r : result A) : result A := match r with Raise e => Raise (conv_engine e) | _ => r end.

(* X12LoopDataNode.get_first_matching_segment (473-511).  Fuel: every recursive call is made with
   the printed path minus its first loop; the number of loops of a path is at most the length of
   its text, so S (length p) turns suffice. *)
Fixpoint loop_gfms (fuel : nat) (h : heap) (self : oid) (p : str) : result (option oid) :=
  match fuel with
  | 0 => Raise OtherError
  | S f =>
      match p with
      | [] => Raise X12PathError
      | _ =>
          do cp <- get_start_node h self p;
          do xp <- parse_path (snd cp);
          match seg_id xp with
          | None => Ok None
          | Some _ =>
              do kids <- (match fst cp with
                          | RObj c => do cx <- h_get h c; obj_children cx
                          | _ => Raise AttributeError
                          end);
              match loop_list xp with
              | [] =>
                  try_engine (
                    (fix go (cs : list oid) : result (option oid) :=
                       match cs with
                       | [] => Ok None
                       | c :: r =>
                           do cx <- h_get h c;
                           if is_seg_typed cx then
                             do b <- (match o_map cx, o_seg cx with
                                      | Some mn, Some sd => mn_is_match_qual mn (sd_x sd) (seg_id xp) (id_val xp)
                                      | _, _ => Raise AttributeError
                                      end);
                             if b then Ok (Some c) else go r
                           else go r
                       end) kids)
              | next :: rest =>
                  try_engine (
                    (fix go (cs : list oid) : result (option oid) :=
                       match cs with
                       | [] => Ok None
                       | c :: r =>
                           do cx <- h_get h c;
                           if is_loop_typed cx then
                             do i <- obj_id cx;
                             if ostr_eqb i (Some next) then (do res <- loop_gfms f h c (format_path (set_loop_list xp rest)); match res with Some t => Ok (Some t) | None => go r end)
                             else go r
                           else go r
                       end) kids)
              end
          end
      end
  end.

(* X12SegmentDataNode.get_first_matching_segment (633-662) *)
Definition seg_gfms_here (h : heap) (self : oid) (cp : pyref * str) : result (option oid) :=
  do xp <- parse_path (snd cp);
  match loop_list xp with
  | _ :: _ => Raise X12PathError
  | [] =>
      do me <- h_get h self;
      match ele_idx xp, seg_id xp with
      | Some _, None => Ok (match o_seg me with Some _ => Some self | None => None end)     (* 652-653 *)
      | _, _ =>
          match fst cp with
          | RObj c =>
              do cx <- h_get h c;
              match o_map cx with
              | None => Raise AttributeError                        (* None.is_match_qual *)
              | Some mn =>
                  do v <- mn_view mn;
                  match v, o_seg cx with
                  | MNode (NSeg _), Some sd =>
                      do b <- try_engine (mn_is_match_qual mn (sd_x sd) (seg_id xp) (id_val xp));
                      Ok (if b then Some c else None)
                  | _, _ => Raise AttributeError                    (* loop_if / map_if have no is_match_qual *)
                  end
              end
          | _ => Raise AttributeError
          end
      end
  end.

Definition seg_gfms (h : heap) (self : oid) (p : str) : result (option oid) :=
  do cp <- get_start_node h self p;
  (* fix 0757aa5: `if curr is not self: return curr.get_first_matching_segment(new_path_str)` *)
  match fst cp with
  | RObj c0 =>
      if negb (Nat.eqb c0 self) then
        do cx0 <- h_get h c0;
        match o_class cx0 with
        | CLoop => loop_gfms (S (length (snd cp))) h c0 (snd cp)
        | CSeg => Raise OtherError             (* the parent of a node is never a segment node *)
        end
      else seg_gfms_here h self cp
  | RNone => Raise AttributeError              (* not reachable: _get_start_node raises on a None parent *)
  | RList _ => Raise AttributeError            (* a list has no get_first_matching_segment *)
  end.

(* curr.get_first_matching_segment(path) for whatever `curr` is *)
Definition ref_gfms (h : heap) (curr : pyref) (p : str) : result (option oid) :=
  match curr with
  | RObj o => do x <- h_get h o;
              match o_class x with
              | CSeg => seg_gfms h o p
              | CLoop => loop_gfms (S (length p)) h o p
              end
  | _ => Raise AttributeError
  end.

Definition node_gfms (h : heap) (self : oid) (p : str) : result (option oid) := ref_gfms h (RObj self) p.

(* the segment part of a path: loop_list = [], id_val = None, format() (311-314, 329-332) *)
Definition seg_part (xp : xpath) : str :=
  format_path {| relative := relative xp; loop_list := []; seg_id := seg_id xp; id_val := None;
                 ele_idx := ele_idx xp; subele_idx := subele_idx xp |}.

Definition owner_seg (h : heap) (o : oid) : result sdata :=
  do x <- h_get h o; match o_seg x with Some s => Ok s | None => Raise AttributeError end.

(* get_value (295-315 for loops, 605-616 for segments) *)
Definition node_get_value (h : heap) (self : oid) (p : str) : result (option str) :=
  do me <- h_get h self;
  match o_class me with
  | CLoop =>
      do cp <- get_start_node h self p;
      do sd <- ref_gfms h (fst cp) (snd cp);
      match sd with
      | None => Ok None
      | Some ow =>
          do xp <- parse_path (snd cp);
          do x <- owner_seg h ow;
          sd_get_value x (seg_part xp)
      end
  | CSeg =>
      do sd <- seg_gfms h self p;
      match sd with
      | None => Ok None
      | Some ow => do x <- owner_seg h ow; sd_get_value x p
      end
  end.

(* set_value (317-333, 618-631) *)
Definition node_set_value (self : oid) (p val : str) : H unit :=
  doh me <- h_obj self;
  doh tgt <- h_read (fun h =>
               match o_class me with
               | CLoop =>
                   do cp <- get_start_node h self p;
                   do sd <- ref_gfms h (fst cp) (snd cp);
                   match sd with
                   | None => Raise X12PathError
                   | Some ow => do xp <- parse_path (snd cp); Ok (ow, seg_part xp)
                   end
               | CSeg =>
                   do sd <- seg_gfms h self p;
                   match sd with
                   | None => Raise X12PathError
                   | Some ow => Ok (ow, p)
                   end
               end);
  doh x <- h_read (fun h => owner_seg h (fst tgt));
  doh x' <- h_lift (sd_set x (snd tgt) val);
  h_mod (fst tgt) (fun ox => upd_seg ox (Some x')).

(* ------------------------------------------------------------------ *)
(* iterate_segments (335-341, 686-691), iterate_loop_segments (343-353, 693-704) *)

(* one dict yielded by iterate_segments: id, path, the node owning the segment, seg_count, cur_line_number *)
Record seg_item := { it_id : option str; it_path : xpath; it_node : oid; it_seg : option sdata;
                     it_seg_count : option Z; it_cur_line : option Z }.

(* Fuel: one unit per level of nesting; in a store without cycles through `children` the depth is
   below the number of objects.  Python's recursion limit plays the same part. *)
Fixpoint iter_segments_tr (fuel : nat) (h : heap) (o : oid) : gtrace seg_item :=
  match fuel with
  | 0 => g_fail OtherError
  | S f =>
      g_of_result (
        do x <- h_get h o;
        match o_class x with
        | CLoop => do kids <- live_of h (o_children x);
                   Ok (g_flat (fun cx : oid * dobj => iter_segments_tr f h (fst cx)) kids)
        | CSeg =>
            match o_map x with
            | None => Raise AttributeError                          (* None.id *)
            | Some mn =>
                do i <- mn_id mn;
                do xp <- mn_x12path mn;
                Ok (g_one {| it_id := i; it_path := xp; it_node := o; it_seg := o_seg x;
                             it_seg_count := o_seg_count x; it_cur_line := o_cur_line x |})
            end
        end)
  end.

Definition node_iterate_segments (h : heap) (o : oid) : gtrace seg_item := iter_segments_tr (S (length h)) h o.

Inductive loop_item :=
| LEnd (id : option str)
| LStart (id : option str)
| LSeg (id : option str) (node : oid) (sg : option sdata) (start_loops end_loops : list mnode)
       (seg_count cur_line : option Z).

Definition ids_tr (mk : option str -> loop_item) (ms : list mnode) : gtrace loop_item :=
  g_flat (fun m => match mn_id m with Ok i => g_one (mk i) | Raise e => g_fail e end) ms.

Fixpoint iter_loop_segments_tr (fuel : nat) (h : heap) (o : oid) : gtrace loop_item :=
  match fuel with
  | 0 => g_fail OtherError
  | S f =>
      g_of_result (
        do x <- h_get h o;
        match o_class x with
        | CLoop =>
            do kids <- live_of h (o_children x);        (* evaluated when the children are reached; pure *)
            Ok (g_app (ids_tr LEnd (o_end x))
               (g_app (match obj_id x with Ok i => g_one (LStart i) | Raise e => g_fail e end)
               (g_app (g_flat (fun cx : oid * dobj => iter_loop_segments_tr f h (fst cx)) kids)
                      (match obj_id x with Ok i => g_one (LEnd i) | Raise e => g_fail e end))))
        | CSeg =>
            Ok (g_app (ids_tr LEnd (o_end x))
               (g_app (ids_tr LStart (o_start x))
                      (match obj_id x with
                       | Ok i => g_one (LSeg i o (o_seg x) (o_start x) (o_end x) (o_seg_count x) (o_cur_line x))
                       | Raise e => g_fail e
                       end)))
        end)
  end.

Definition node_iterate_loop_segments (h : heap) (o : oid) : gtrace loop_item :=
  iter_loop_segments_tr (S (length h)) h o.

(* the properties seg_count / cur_line_number: attributes of a segment object, computed for a loop
   (550-558): those of the first child of type 'seg', None without one *)
Definition first_seg_child (h : heap) (x : dobj) : result (option dobj) :=
  (fix go (cs : list oid) : result (option dobj) :=
     match cs with
     | [] => Ok None
     | c :: r => do cx <- h_get h c; if is_seg_typed cx then Ok (Some cx) else go r
     end) (o_children x).

Definition node_seg_count (h : heap) (o : oid) : result (option Z) :=
  do x <- h_get h o;
  match o_class x with
  | CSeg => Ok (o_seg_count x)
  | CLoop => do c <- first_seg_child h x; Ok (match c with Some cx => o_seg_count cx | None => None end)
  end.
Definition node_cur_line (h : heap) (o : oid) : result (option Z) :=
  do x <- h_get h o;
  match o_class x with
  | CSeg => Ok (o_cur_line x)
  | CLoop => do c <- first_seg_child h x; Ok (match c with Some cx => o_cur_line cx | None => None end)
  end.

(* err_ct (738-744); a loop object has no such property *)
Definition node_err_ct (h : heap) (o : oid) : result nat :=
  do x <- h_get h o;
  match o_class x with
  | CSeg => Ok (length (o_err_isa x) + length (o_err_gs x) + length (o_err_st x) + length (o_err_seg x))
  | CLoop => Raise AttributeError
  end.

(* ------------------------------------------------------------------ *)
(* writers on loop objects                                             *)

(* the methods below exist on X12LoopDataNode only *)
Definition loop_self (self : oid) : H dobj :=
  doh x <- h_obj self;
  match o_class x with CLoop => h_ret x | CSeg => h_raise AttributeError end.

(* _cleanup (163-167) *)
Definition cleanup (self : oid) : H unit :=
  doh x <- h_obj self;
  doh kids <- h_read (fun h => live_of h (o_children x));
  h_put self (upd_children x (map fst kids)).

(* _get_insert_idx (169-182) *)
Definition get_insert_idx (self : oid) (mn : mnode) : H nat :=
  doh_ cleanup self;
  doh map_idx <- h_lift (mn_pos mn);
  doh x <- h_obj self;
  doh idx <- h_read (fun h =>
               (fix go (i : nat) (cs : list oid) (acc : option nat) : result (option nat) :=
                  match cs with
                  | [] => Ok acc
                  | c :: r =>
                      do cx <- h_get h c;
                      match o_map cx with
                      | None => Raise AttributeError                (* None.pos *)
                      | Some cm => do p <- mn_pos cm; go (S i) r (if (p <=? map_idx)%Z then Some i else acc)
                      end
                  end) 0 (o_children x) None);
  h_ret (match idx with Some i => S i | None => 0 end).

Fixpoint insert_at {A} (xs : list A) (i : nat) (v : A) : list A :=
  match i, xs with
  | 0, _ => v :: xs
  | S k, x :: r => x :: insert_at r k v
  | S _, [] => [v]
  end.

Definition insert_child (self : oid) (idx : nat) (c : oid) : H unit :=
  h_mod self (fun x => upd_children x (insert_at (o_children x) idx c)).

(* _get_terminators (529-534).  Fuel: one unit per step up the parent chain. *)
Fixpoint get_terminators (fuel : nat) (h : heap) (self : oid) : result delims :=
  match fuel with
  | 0 => Raise OtherError
  | S f =>
      do x <- h_get h self;
      match o_class x with
      | CSeg => Raise AttributeError                              (* no such method on a segment object *)
      | CLoop =>
          do hit <- (fix go (cs : list oid) : result (option delims) :=
                       match cs with
                       | [] => Ok None
                       | c :: r => do cx <- h_get h c;
                                   match o_class cx, o_seg cx with
                                   | CSeg, Some sd => Ok (Some (xg_d (sd_x sd)))
                                   | _, _ => go r
                                   end
                       end) (o_children x);
          match hit with
          | Some d => Ok d
          | None => match o_parent x with
                    | RObj p => get_terminators f h p
                    | _ => Raise AttributeError
                    end
          end
      end
  end.

(* what can be passed where a segment is expected *)
Inductive segarg := ArgStr (s : str) | ArgObj (x : xsg) | ArgNone | ArgInt.

(* _get_segment (513-527).  For any other type the message is built with '%i' % seg_obj: a
   non-number raises TypeError there, a number lets the EngineError through. *)
Definition get_segment (h : heap) (self : oid) (a : segarg) : result xsg :=
  match a with
  | ArgObj x => Ok x
  | ArgStr s => do d <- get_terminators (S (length h)) h self; Ok {| xg_d := d; xg_s := parse_seg d s |}
  | ArgNone => Raise TypeError
  | ArgInt => Raise EngineError
  end.

(* add_segment (355-375) *)
Definition add_segment (self : oid) (a : segarg) : H oid :=
  doh me <- loop_self self;
  doh x <- h_read (fun h => get_segment h self a);
  match o_map me with
  | None => h_raise AttributeError
  | Some mn =>
      doh sn <- h_lift (mn_child_node false mn x);
      match sn with
      | None => h_raise X12PathError
      | Some sm =>
          doh n <- h_new (new_seg (Some sm) x (RObj self) [] []);
          doh idx <- get_insert_idx self sm;
          doh_ insert_child self idx n;
          h_ret n
      end
  end.

(* _add_loop_node (459-471) *)
Definition add_loop_node (self : oid) (lm : mnode) : H oid :=
  doh n <- h_new (new_loop (Some lm) [] (RObj self));
  doh idx <- get_insert_idx self lm;
  doh_ insert_child self idx n;
  h_ret n.

(* add_node (398-412) *)
Definition add_node (self : oid) (data_node : oid) : H unit :=
  doh me <- loop_self self;
  doh dn <- h_obj data_node;
  match o_map dn with
  | None => h_raise AttributeError                                  (* None.parent *)
  | Some dm =>
      match mn_ref dm with
      | [] =>
          (* map_if.parent is None: `None != x` is True; the message reads self.x12_map_node.id *)
          match o_map me with None => h_raise AttributeError | Some _ => h_raise X12PathError end
      | _ =>
          match o_map me with
          | None => h_raise AttributeError                          (* the message reads self.x12_map_node.id *)
          | Some sm =>
              doh ne <- h_lift (mn_ne (mn_parent dm) sm);
              if ne then h_raise X12PathError
              else
                doh_ h_mod data_node (fun x => upd_parent x (RObj self));
                doh idx <- get_insert_idx self dm;
                insert_child self idx data_node
          end
      end
  end.

(* add_loop (377-396) *)
Definition add_loop (self : oid) (a : segarg) : H oid :=
  doh me <- loop_self self;
  doh x <- h_read (fun h => get_segment h self a);
  match o_map me with
  | None => h_raise AttributeError
  | Some mn =>
      doh ln <- h_lift (mn_child_node true mn x);
      match ln with
      | None => h_raise X12PathError
      | Some lm =>
          doh nl <- add_loop_node self lm;
          doh sn <- h_lift (mn_child_node false lm x);
          doh nd <- h_new (new_seg sn x (RObj nl) [] []);
          doh_ add_node nl nd;
          h_ret nl
      end
  end.

(* Segment.__eq__ (segment.py:291-301) *)
Definition seg_data_eqb (a b : seg) : bool :=
  opt_eqb str_eqb (sid a) (sid b) && list_eqb (list_eqb str_eqb) (els a) (els b).

Fixpoint remove_at {A} (xs : list A) (i : nat) : list A :=
  match xs, i with
  | [], _ => []
  | _ :: r, 0 => r
  | x :: r, S k => x :: remove_at r k
  end.

(* delete_segment (414-439) *)
Definition delete_segment (self : oid) (a : segarg) : H bool :=
  doh me <- loop_self self;
  doh x <- h_read (fun h => get_segment h self a);
  match o_map me with
  | None => h_raise AttributeError
  | Some mn =>
      doh sn <- h_lift (mn_child_node false mn x);
      match sn with
      | None => h_ret false
      | Some _ =>
          doh_ cleanup self;
          doh me' <- h_obj self;
          doh hit <- h_read (fun h =>
                       (fix go (i : nat) (cs : list oid) : result (option nat) :=
                          match cs with
                          | [] => Ok None
                          | c :: r =>
                              do cx <- h_get h c;
                              if is_seg_typed cx && match o_seg cx with
                                                    | Some sd => seg_data_eqb (xg_s (sd_x sd)) (xg_s x)
                                                    | None => false
                                                    end
                              then Ok (Some i) else go (S i) r
                          end) 1 (tl (o_children me')));
          match hit with
          | Some i => doh_ h_put self (upd_children me' (remove_at (o_children me') i)); h_ret true
          | None => h_ret false
          end
      end
  end.

(* delete() on any node *)
Definition node_delete (o : oid) : H unit := h_mod o deleted.

(* delete_node (441-457) *)
Definition delete_node (self : oid) (p : str) : H bool :=
  doh _ <- loop_self self;
  doh r <- h_read (fun h => select_from h self p);
  doh f <- h_lift (g_first (snd r));
  match f with
  | Some n => doh_ node_delete n; h_ret true
  | None => h_ret false
  end.

(* copy / __copy__ (536-548, 706-717).  Fuel as for iterate_segments.  Deleted entries of self.children are
   skipped and every copied child gets the copy as its parent (fix 1aba850). *)
Fixpoint node_copy (fuel : nat) (o : oid) : H oid :=
  match fuel with
  | 0 => h_raise OtherError
  | S f =>
      doh x <- h_obj o;
      match o_class x with
      | CLoop =>
          doh ret <- h_new (new_loop (o_map x) (o_end x) (o_parent x));
          doh kids <- (fix go (cs : list oid) : H (list oid) :=
                         match cs with
                         | [] => h_ret []
                         | c :: r =>
                             doh cx <- h_obj c;
                             if negb (o_live cx) then go r                  (* fix 1aba850: deleted children are skipped *)
                             else doh c' <- node_copy f c;
                                  doh_ h_mod c' (fun y => upd_parent y (RObj ret));   (* fix 1aba850: child_copy.parent = ret *)
                                  doh more <- go r; h_ret (c' :: more)
                         end) (o_children x);
          doh_ h_mod ret (fun y => upd_children y kids);
          h_ret ret
      | CSeg =>
          match o_seg x with
          | None => h_raise AttributeError                          (* None.copy() *)
          | Some sd =>
              h_new (new_seg (o_map x) (sd_x (sd_copy sd)) (o_parent x) (o_start x) (o_end x))
          end
      end
  end.

Definition copy_node (o : oid) : H oid := fun h => node_copy (S (length h)) o h.

(* ------------------------------------------------------------------ *)
(* the immutable view                                                  *)

(* the tree under a node as the `children` lists give it (deleted entries included) *)
Inductive dtree := DNode (o : oid) (x : dobj) (kids : list dtree) | DCut (o : oid).

(* Fuel: nesting depth, as above; DCut marks where it ran out (a cycle). *)
Fixpoint tree_of (fuel : nat) (h : heap) (o : oid) : dtree :=
  match fuel with
  | 0 => DCut o
  | S f =>
      match nth_error h o with
      | None => DCut o
      | Some x => DNode o x (map (tree_of f h) (o_children x))
      end
  end.

Definition node_tree (h : heap) (o : oid) : dtree := tree_of (S (length h)) h o.

(* the position of `target` under `root`: child indices along the first occurrence in preorder *)
Fixpoint locate_in (t : dtree) (target : oid) : option (list nat) :=
  match t with
  | DCut o => if Nat.eqb o target then Some [] else None
  | DNode o _ kids =>
      if Nat.eqb o target then Some []
      else (fix go (i : nat) (ks : list dtree) : option (list nat) :=
              match ks with
              | [] => None
              | k :: r => match locate_in k target with
                          | Some p => Some (i :: p)
                          | None => go (S i) r
                          end
              end) 0 kids
  end.
