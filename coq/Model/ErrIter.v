(* ErrIter.v — hand model of class err_iter (pyx12/error_handler.py:23-74), the
   "odd iterator" x12n_document uses to collect the error nodes added since the
   last segment, over the heap model of Errh.v, together with the node methods
   it calls (get_first_child, get_next_sibling, get_parent, is_closed, id) on
   each of the six classes a reference can point to.

   Identity: `self.cur_node in self.visit_stack` uses == which, for classes
   that define no __eq__, is identity; get_next_sibling searches
   `self.parent.children` with `is`.  A reference = class + heap index.

   Parents.  Errh.v does not store `parent` (nothing in the handler reads it);
   it is recovered from the tree: a GS/ST node is appended to the children of
   its parent in the same statement that creates it, so its parent is the
   (unique) node whose children list holds it.  A SEG node is created detached
   with parent = cur_st_node; if it is attached later (_add_cur_seg) it goes to
   cur_st_node.children, and cur_st_node cannot have changed in between
   (add_st_loop is the only writer and it replaces cur_seg_node).  So: attached
   SEG -> the ST holding it; detached SEG that is still cur_seg_node ->
   cur_st_node (possibly None); any other detached SEG is unreferenced garbage
   in Python.  The parent of an ELE node is not recoverable, and never needed:
   err_ele has no `children` attribute, so get_first_child raises first. *)
From Coq Require Import String.
From PX.Lib Require Import Base PyStr.
From PX.Model Require Import Path Segment Errh.

Inductive node_ref :=
| RRoot                       (* the err_handler itself, id 'ROOT' *)
| RIsa (n : nat) | RGs (n : nat) | RSt (n : nat) | RSeg (n : nat) | REle (n : nat).

Definition node_ref_eqb (a b : node_ref) : bool :=
  match a, b with
  | RRoot, RRoot => true
  | RIsa x, RIsa y | RGs x, RGs y | RSt x, RSt y | RSeg x, RSeg y | REle x, REle y => Nat.eqb x y
  | _, _ => false
  end.

(* heap access; a dangling index cannot happen (nodes are never removed) *)
Definition heap_nth {A} (xs : list A) (i : nat) : result A :=
  match nth_error xs i with Some a => Ok a | None => Raise OtherError end.

Fixpoint find_idx {A} (p : A -> bool) (xs : list A) (i : nat) : option nat :=
  match xs with
  | [] => None
  | x :: r => if p x then Some i else find_idx p r (S i)
  end.

Definition mem_nat (k : nat) (xs : list nat) : bool := existsb (Nat.eqb k) xs.

(* ---- the attribute `parent` (see the header) ---- *)
Definition gs_parent (h : errh) (g : nat) : option nat := find_idx (fun n => mem_nat g (in_children n)) (h_isa h) 0.
Definition st_parent (h : errh) (t : nat) : option nat := find_idx (fun n => mem_nat t (gn_children n)) (h_gs h) 0.
Definition seg_holder (h : errh) (k : nat) : option nat := find_idx (fun n => mem_nat k (tn_children n)) (h_st h) 0.

(* get_parent: err_handler 346-347 (None), err_node 420-423 (self.parent) *)
Definition get_parent (h : errh) (r : node_ref) : result (option node_ref) :=
  match r with
  | RRoot => Ok None
  | RIsa _ => Ok (Some RRoot)
  | RGs g => match gs_parent h g with Some p => Ok (Some (RIsa p)) | None => Raise OtherError end
  | RSt t => match st_parent h t with Some p => Ok (Some (RGs p)) | None => Raise OtherError end
  | RSeg k =>
      match seg_holder h k with
      | Some t => Ok (Some (RSt t))
      | None =>
          match c_seg h with
          | Some (NSeg k') => if Nat.eqb k k' then Ok (option_map RSt (c_st h)) else Raise OtherError
          | _ => Raise OtherError          (* unreferenced object *)
          end
      end
  | REle _ => Raise OtherError             (* not recoverable, not reachable: see the header *)
  end.

(* the attribute `children`: err_handler 87; err_isa 498, err_gs 610, err_st 748;
   err_seg.__init__ (855-878) and err_ele.__init__ (941-960) do not call err_node.__init__ and set none *)
Definition children_of (h : errh) (r : node_ref) : result (list node_ref) :=
  match r with
  | RRoot => Ok (map RIsa (seq 0 (length (h_isa h))))
  | RIsa i => do n <- heap_nth (h_isa h) i; Ok (map RGs (in_children n))
  | RGs g => do n <- heap_nth (h_gs h) g; Ok (map RSt (gn_children n))
  | RSt t => do n <- heap_nth (h_st h) t; Ok (map RSeg (tn_children n))
  | RSeg _ => Raise AttributeError
  | REle _ => Raise AttributeError
  end.

(* get_first_child: err_handler 357-363, err_node 446-452 (`len(self.children)`), err_seg 929-930 (None) *)
Definition get_first_child (h : errh) (r : node_ref) : result (option node_ref) :=
  match r with
  | RSeg _ => Ok None
  | _ => do cs <- children_of h r; Ok (hd_error cs)
  end.

(* the loop of err_node.get_next_sibling (437-443) *)
Fixpoint next_after (self : node_ref) (siblings : list node_ref) (bFound : bool) : option node_ref :=
  match siblings with
  | [] => None
  | sibling :: rest =>
      if bFound then Some sibling
      else next_after self rest (node_ref_eqb sibling self)
  end.

(* get_next_sibling: err_handler 365-368 (None); err_node 433-443: self.parent.children — parent None is an
   AttributeError, a parent without `children` (an err_seg) too *)
Definition get_next_sibling (h : errh) (r : node_ref) : result (option node_ref) :=
  match r with
  | RRoot => Ok None
  | _ =>
      do p <- get_parent h r;
      match p with
      | None => Raise AttributeError
      | Some pr => do cs <- children_of h pr; Ok (next_after r cs false)
      end
  end.

(* is_closed: err_handler 378-382 and err_node 467-471 (True); err_isa 502-509, err_gs 699-706, err_st 829-836 *)
Definition is_closed (h : errh) (r : node_ref) : result bool :=
  match r with
  | RRoot => Ok true
  | RIsa i => do n <- heap_nth (h_isa h) i; Ok (isa_is_closed n)
  | RGs g => do n <- heap_nth (h_gs h) g; Ok (gs_is_closed n)
  | RSt t => do n <- heap_nth (h_st h) t; Ok (st_is_closed n)
  | RSeg _ => Ok true
  | REle _ => Ok true
  end.

(* node.id == 'ROOT' *)
Definition is_root (r : node_ref) : bool := match r with RRoot => true | _ => false end.

(* ---- err_iter ---- *)
Record iter_state := { it_cur : node_ref; it_stack : list node_ref (* Python order: last = top *) }.

(* err_iter.__init__ (30-37) *)
Definition iter_init : iter_state := {| it_cur := RRoot; it_stack := [] |}.

Inductive iter_res :=
| IOk                       (* returned normally *)
| IOut                      (* raise IterOutOfBounds *)
| IExn (e : exn).           (* any other exception (AttributeError on an err_ele) *)

Definition in_stack (s : iter_state) : bool := existsb (node_ref_eqb (it_cur s)) (it_stack s).

(* err_iter.__next__ (45-71) *)
Definition iter_next (h : errh) (s : iter_state) : iter_state * iter_res :=
  let cur := it_cur s in
  (* 47-50 *)
  match (if in_stack s then Ok None else get_first_child h cur) with
  | Raise e => (s, IExn e)
  | Ok (Some node) =>
      (* 51-53 *)
      ({| it_cur := node; it_stack := it_stack s ++ [cur] |}, IOk)
  | Ok None =>
      (* 55 *)
      match get_next_sibling h cur with
      | Raise e => (s, IExn e)
      | Ok (Some node) => ({| it_cur := node; it_stack := it_stack s |}, IOk)       (* 56-57 *)
      | Ok None =>
          (* 59-60 *)
          match is_closed h cur with
          | Raise e => (s, IExn e)
          | Ok false => (s, IOut)
          | Ok true =>
              (* 61-63 *)
              match get_parent h cur with
              | Raise e => (s, IExn e)
              | Ok None => (s, IOut)
              | Ok (Some node) =>
                  (* 64-65 *)
                  match is_closed h node with
                  | Raise e => (s, IExn e)
                  | Ok false => (s, IOut)
                  | Ok true =>
                      (* 66-70: `del self.visit_stack[-1]` removes the LAST entry, whatever it is *)
                      if is_root node then (s, IOut)           (* fix f0baa0c: stay on the closed interchange node *)
                      else
                      let st := if in_stack s then removelast (it_stack s) else it_stack s in
                      let s' := {| it_cur := node; it_stack := st |} in
                      (s', IOk)
                  end
              end
          end
      end
  end.

(* x12n_document.py:197-204
     err_node_list = []
     while True:
         try: next(err_iter); err_node_list.append(err_iter.get_cur_node())
         except IterOutOfBounds: break
   Every successful step enters a node (first child / next sibling) or leaves one upwards, and a node left
   upwards stays on visit_stack, so 2 * (number of nodes) steps suffice; the fuel is twice that and running
   out of it is reported as OtherError. *)
Fixpoint collect_fuel (fuel : nat) (h : errh) (s : iter_state) (acc : list node_ref)
  : iter_state * result (list node_ref) :=
  match fuel with
  | 0 => (s, Raise OtherError)
  | S f =>
      match iter_next h s with
      | (s', IOk) => collect_fuel f h s' (acc ++ [it_cur s'])
      | (s', IOut) => (s', Ok acc)
      | (s', IExn e) => (s', Raise e)
      end
  end.

Definition node_count (h : errh) : nat :=
  1 + length (h_isa h) + length (h_gs h) + length (h_st h) + length (h_seg h) + length (h_ele h).

Definition collect_new (h : errh) (s : iter_state) : iter_state * result (list node_ref) :=
  collect_fuel (4 * node_count h + 8) h s [].
