(* Segment.v — hand model of pyx12/segment.py (Element, Composite, Segment).
   A composite is the list of its sub-element values (never empty: str.split
   returns at least one piece); a segment is an optional id and a list of
   composites.  Delimiters are single characters. *)
From Coq Require Import String.
From PX.Lib Require Import Base PyStr Regex.
From PX.Gen Require Import Regexes.
From PX.Model Require Import Path.

Local Definition l (s : string) : str := list_ascii_of_string s.

Definition composite := list str.

Record seg := { sid : option str; els : list composite }.

Record delims := { seg_term : ascii; ele_term : ascii; subele_term : ascii }.

(* segment.py:Segment.__init__ *)
Definition parse_seg (d : delims) (seg_str : str) : seg :=
  match seg_str with
  | [] => {| sid := None; els := [] |}
  | _ =>
    let body := match rev seg_str with
                | c :: r => if Ascii.eqb c (seg_term d) then rev r else seg_str
                | [] => seg_str
                end in
    match split (ele_term d) body with
    | [] => {| sid := None; els := [] |}
    | id :: rest =>
      let is_isa := str_eqb id (l "ISA") in
      {| sid := Some id;
         els := map (fun e => if is_isa then split (ele_term d) e else split (subele_term d) e) rest |}
    end
  end.

(* Element.is_empty / Composite.is_empty / Segment.is_empty *)
Definition ele_empty (v : str) : bool := match v with [] => true | _ => false end.
Definition comp_empty (c : composite) : bool := forallb ele_empty c.
Definition seg_empty (s : seg) : bool :=
  match els s with [] => true | _ => forallb comp_empty (els s) end.

(* the index i left by `for i in range(len-1, -1, -1): if not empty: break`
   (i = 0 when the loop runs to the end or does not run with the initial i = 0) *)
Fixpoint last_nonempty_idx {A} (emp : A -> bool) (xs : list A) : nat :=
  match xs with
  | [] => 0
  | x :: xs' =>
      if forallb emp xs' then 0 else S (last_nonempty_idx emp xs')
  end.

(* Composite.format *)
Definition format_comp (sub : ascii) (c : composite) : str :=
  join sub (firstn (S (last_nonempty_idx ele_empty c)) c).

(* Segment.format: '%s%s%s%s' % (seg_id, ele_term, ele_term.join(...), seg_term) *)
Definition show_sid (o : option str) : str := match o with Some s => s | None => l "None" end.
Definition format_seg (d : delims) (s : seg) : str :=
  let kept := firstn (S (last_nonempty_idx comp_empty (els s))) (els s) in
  show_sid (sid s) ++ ele_term d :: join (ele_term d) (map (format_comp (subele_term d)) kept) ++ [seg_term d].

(* Python list indexing with a possibly negative index *)
Definition py_nth {A} (xs : list A) (i : Z) : result A :=
  let n := Z.of_nat (length xs) in
  if (i <? 0)%Z then (if (i + n <? 0)%Z then Raise IndexError else nth_res xs (Z.to_nat (i + n)))
  else nth_res xs (Z.to_nat i).

(* segment.py:_parse_refdes *)
Definition parse_refdes (s : seg) (ref_des : str) : result (option Z * option Z) :=
  do xp <- parse_path ref_des;
  match seg_id xp with
  | Some x => if opt_eqb str_eqb (Some x) (sid s) then
                Ok (option_map (fun n => Z.of_N n - 1)%Z (ele_idx xp), option_map (fun n => Z.of_N n - 1)%Z (subele_idx xp))
              else Raise EngineError
  | None => Ok (option_map (fun n => Z.of_N n - 1)%Z (ele_idx xp), option_map (fun n => Z.of_N n - 1)%Z (subele_idx xp))
  end.

(* what Segment.get returns *)
Inductive got := GotNone | GotComp (c : composite) | GotEle (v : str).

(* segment.py:Segment.get, after the designator has been translated to indices *)
Definition get_ix (s : seg) (ix : option Z * option Z) : result got :=
  match fst ix with
  | None => Raise IndexError
  | Some ei =>
    if (Z.of_nat (length (els s)) <=? ei)%Z then Ok GotNone
    else
      do c <- py_nth (els s) ei;
      match snd ix with
      | None => Ok (GotComp c)
      | Some ci =>
        if (Z.of_nat (length c) <=? ci)%Z then Ok GotNone
        else do v <- py_nth c ci; Ok (GotEle v)
      end
  end.

Definition seg_get (s : seg) (ref_des : str) : result got :=
  do ix <- parse_refdes s ref_des; get_ix s ix.

(* segment.py:Segment.get_value — comp1.format() with the segment's own sub-element separator *)
Definition value_of (d : delims) (g : got) : option str :=
  match g with
  | GotNone => None
  | GotComp c => Some (format_comp (subele_term d) c)
  | GotEle v => Some v
  end.

Definition seg_get_value (d : delims) (s : seg) (ref_des : str) : result (option str) :=
  do g <- seg_get s ref_des; Ok (value_of d g).

(* list assignment xs[i] = v with Python index semantics *)
Fixpoint set_nth {A} (xs : list A) (n : nat) (v : A) : list A :=
  match xs, n with
  | [], _ => []
  | _ :: xs', 0 => v :: xs'
  | x :: xs', S n' => x :: set_nth xs' n' v
  end.
Definition py_set {A} (xs : list A) (i : Z) (v : A) : result (list A) :=
  let n := Z.of_nat (length xs) in
  let j := if (i <? 0)%Z then (i + n)%Z else i in
  if (j <? 0)%Z || (n <=? j)%Z then Raise IndexError else Ok (set_nth xs (Z.to_nat j) v).

(* `while len(xs) <= idx: xs.append(blank)` *)
Definition pad_to {A} (xs : list A) (idx : Z) (blank : A) : list A :=
  xs ++ repeat blank (Z.to_nat (idx + 1 - Z.of_nat (length xs))).

(* segment.py:Segment.set, after the designator has been translated to indices *)
Definition set_ix (d : delims) (s : seg) (ix : option Z * option Z) (val : str) : result seg :=
  match fst ix with
  | None => Raise TypeError                      (* len(...) <= None *)
  | Some ei =>
    let es := pad_to (els s) ei [[]] in
    if opt_eqb str_eqb (sid s) (Some (l "ISA")) && (ei =? 15)%Z then
      do es' <- py_set es ei (split (ele_term d) val); Ok {| sid := sid s; els := es' |}
    else
      match snd ix with
      | None => do es' <- py_set es ei (split (subele_term d) val); Ok {| sid := sid s; els := es' |}
      | Some ci =>
        do c <- py_nth es ei;
        let c' := pad_to c ci [] in
        do c'' <- py_set c' ci val;
        do es' <- py_set es ei c'';
        Ok {| sid := sid s; els := es' |}
      end
  end.

Definition seg_set (d : delims) (s : seg) (ref_des : str) (val : str) : result seg :=
  do ix <- parse_refdes s ref_des; set_ix d s ix val.

(* segment.py:is_seg_id_valid *)
Definition seg_id_valid (s : seg) : bool :=
  match sid s with
  | None => false
  | Some id =>
    if (length id <? 2) || (3 <? length id) then false
    else match search rec_seg_id id with Some _ => true | None => false end
  end.

(* segment.py:__copy__ — re-parse of format() *)
Definition seg_copy (d : delims) (s : seg) : seg := parse_seg d (format_seg d s).

Definition seg_len (s : seg) : nat := length (els s).
