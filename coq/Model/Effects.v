(* Effects.v — reachability over the generated effect summary of the package
   (Gen/Effects.v, produced by tools/gen/effects.py from every module of
   pyx12/ on every run): which functions the entry points can reach through
   the (name-based, over-approximate) call graph. *)
From Coq Require Import String.
From PX.Lib Require Import Base.
From PX.Gen Require Import Effects.

Definition mem_nat (x : N) (l : list N) : bool := existsb (N.eqb x) l.

(* add the callees of everything already in R *)
Definition expand (R : list N) : list N :=
  fold_left (fun acc e => if mem_nat (fst e) R && negb (mem_nat (snd e) acc) then snd e :: acc else acc) call_edges R.

Fixpoint iterate (fuel : nat) (R : list N) : list N :=
  match fuel with
  | 0 => R
  | S f => let R' := expand R in if length R' =? length R then R else iterate f R'
  end.

Definition reach : list N := Eval vm_compute in iterate 64 entry_points.

(* R contains the entry points and is closed under the call edges *)
Definition closed (R : list N) : bool :=
  forallb (fun x => mem_nat x R) entry_points &&
  forallb (fun e => negb (mem_nat (fst e) R) || mem_nat (snd e) R) call_edges.

(* a function is reachable when a chain of call edges leads to it from an entry point *)
Inductive Reachable : N -> Prop :=
| R_entry x : In x entry_points -> Reachable x
| R_step x y : Reachable x -> In (x, y) call_edges -> Reachable y.

Definition reachable_writes : list (N * N * string) :=
  filter (fun w => mem_nat (fst (fst w)) reach) write_sites.

(* hash order: sites at which the iteration order of a set can reach a result, in reachable functions *)
Definition reachable_order_leaks : list (N * N * string) :=
  filter (fun w => mem_nat (fst (fst w)) reach) order_sites.

Definition fn_name (i : N) : string := nth (N.to_nat i) fn_names ""%string.

(* the only places the wall clock / random numbers may be read *)
Definition clock_allowed : list string :=
  ["error_997.error_997_visitor.visit_root_pre"; "error_999.error_999_visitor.visit_root_pre";
   "error_html.error_html.header"]%string.

Definition clock_sites_ok : bool :=
  forallb (fun c => negb (mem_nat (fst (fst c)) reach) ||
                    existsb (String.eqb (fn_name (fst (fst c)))) clock_allowed) clock_sites.
