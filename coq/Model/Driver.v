(* Driver.v — hand model of pyx12/x12n_document.py:x12n_document with
   fd_997 = fd_html = fd_xmldoc = None and callback = None: the main loop over
   the segments of the source, map selection (ISA12 / GS01 / GS08, BHT02 for
   004010X094 / 004010X094A1), the walker, segment validation, the calls on the
   error handler in their order, src.cleanup() and the final verdict.

   Composition:
     X12Reader  -> Raw.raw_all + Reader.reader_line_opt, one line at a time (the
                   Python generator is lazy: `src.check_837_lx` assigned while
                   handling GS/BHT is seen by the following segments); the
                   reader's pending error list (src.err_list) lives in the
                   state, `src.pop_errors()` empties it.  Reader error MESSAGES
                   are not modelled (Reader.v): handle_errors passes "".
     walk_tree  -> Walker.walk_st
     is_valid   -> Element.seg_is_valid
     err_handler-> Errh; every call made on the handler is first appended to the
                   trace (`dev`) and then applied to the Errh state, so that a
                   raise inside the handler propagates exactly where Python's
                   does and get_error_count() can be evaluated at the end.

   `node` is a map node of either control_map or cur_map: the state keeps the
   map it belongs to next to the reference.

   A run is a computation `D A` (state, trace and possibly a raised exception;
   the trace that comes out with the exception is what had been done before).
   Exception: if Element.seg_is_valid itself raises, the add_ele / ele_error
   calls made earlier in that same validation are not in the trace (the
   Element model returns its events only on success). *)
From Coq Require Import String.
From PX.Lib Require Import Base PyStr PyInt Regex Xml.
From PX.Model Require Import Show Path Segment Raw Reader Syntax MapLoad MapTree Element Counter Walker MapEnv.
From PX.Model Require Errh.

Local Definition l (x : string) : str := list_ascii_of_string x.

(* ------------------------------------------------------------------ *)
(* the calls made on the error handler                                 *)

Inductive dev :=
| DAddIsa (x : xsg) (src : Errh.src_info)
| DAddGs (x : xsg) (src : Errh.src_info)
| DAddSt (x : xsg) (src : Errh.src_info)
| DAddSeg (mn : option ninfo) (x : xsg) (seg_count cur_line : Z) (ls_id : option str)
| DAddEle (i : ele_info)
| DIsaErr (code msg : str)
| DGsErr (code msg : str)
| DStErr (code msg : str)
| DSegErr (code msg : str) (value : option str) (src_line : option Z)
| DEleErr (code msg : str) (value : option str) (refdes : option str)
| DCloseIsa (mn : ninfo) (x : xsg) (src : Errh.src_info)
| DCloseGs (mn : ninfo) (x : xsg) (src : Errh.src_info)
| DCloseSt (mn : ninfo) (x : xsg) (src : Errh.src_info).

Definition to_xseg (x : xsg) : Errh.xseg := {| Errh.xs_d := xg_d x; Errh.xs_s := xg_s x |}.
(* a map node whose name is None only stores None in err_seg.name / err_ele.name: "" in the Errh state *)
Definition to_seg_info (i : ninfo) : Errh.seg_info := {| Errh.si_name := ostr (n_name i); Errh.si_pos := n_pos i |}.
Definition to_ele_info (i : ele_info) : Errh.ele_info :=
  {| Errh.ei_data_ele := ei_data_ele i; Errh.ei_name := ostr (ei_name i); Errh.ei_seq := ei_seq i;
     Errh.ei_parent_composite := ei_parent_is_composite i; Errh.ei_parent_seq := ei_parent_seq i |}.

(* the effect of each call on the handler *)
Definition apply_dev (ev : dev) : Errh.SE Errh.errh unit :=
  match ev with
  | DAddIsa x src => Errh.add_isa_loop (to_xseg x) src
  | DAddGs x src => Errh.add_gs_loop (to_xseg x) src
  | DAddSt x src => Errh.add_st_loop (to_xseg x) src
  | DAddSeg mn x sc cl ls => Errh.add_seg (option_map to_seg_info mn) (to_xseg x) (Some sc) (Some cl) ls
  | DAddEle i => Errh.add_ele (to_ele_info i)
  | DIsaErr c m => Errh.isa_error c m
  | DGsErr c m => Errh.gs_error c m
  | DStErr c m => Errh.st_error c m
  | DSegErr c m v ln => Errh.seg_error c m v ln
  | DEleErr c m v _ => Errh.ele_error c m v
  | DCloseIsa _ _ src => Errh.close_isa_loop src
  | DCloseGs _ x src => Errh.close_gs_loop (Some (to_xseg x)) src
  | DCloseSt _ _ src => Errh.close_st_loop src
  end.

Definition dev_of_wev (e : wev) : dev :=
  match e with
  | WAddSeg mn x sc cl ls => DAddSeg mn x sc cl ls
  | WSegErr c m v => DSegErr c m v None                      (* seg_error(code, str, None): src_line defaults to None *)
  end.

Definition dev_of_hev (h : hev) : dev :=
  match h with
  | HAddEle i => DAddEle i
  | HEleErr c m v rd => DEleErr c m v rd
  end.

(* ------------------------------------------------------------------ *)
(* the state of a run                                                  *)

(* map_file, cur_map, icvn, fic, vriic (x12n_document.py:76-83) *)
Record mapsel := { ms_file : option str; ms_cur : option xmap; ms_icvn : option str; ms_fic : option str; ms_vriic : option str }.

Record dstate := {
  ds_x : xstate;                 (* the X12Reader's counters and loop stack *)
  ds_pending : list err;         (* src.err_list *)
  ds_errh : Errh.errh;
  ds_w : wstate;                 (* walker *)
  ds_node : xmap * nref;         (* node, with the map it belongs to *)
  ds_sel : mapsel;
  ds_valid : bool;
  ds_trace : list dev            (* newest first *)
}.

Definition with_x (s : dstate) v := {| ds_x := v; ds_pending := ds_pending s; ds_errh := ds_errh s; ds_w := ds_w s;
  ds_node := ds_node s; ds_sel := ds_sel s; ds_valid := ds_valid s; ds_trace := ds_trace s |}.
Definition with_pending (s : dstate) v := {| ds_x := ds_x s; ds_pending := v; ds_errh := ds_errh s; ds_w := ds_w s;
  ds_node := ds_node s; ds_sel := ds_sel s; ds_valid := ds_valid s; ds_trace := ds_trace s |}.
Definition with_errh (s : dstate) v := {| ds_x := ds_x s; ds_pending := ds_pending s; ds_errh := v; ds_w := ds_w s;
  ds_node := ds_node s; ds_sel := ds_sel s; ds_valid := ds_valid s; ds_trace := ds_trace s |}.
Definition with_w (s : dstate) v := {| ds_x := ds_x s; ds_pending := ds_pending s; ds_errh := ds_errh s; ds_w := v;
  ds_node := ds_node s; ds_sel := ds_sel s; ds_valid := ds_valid s; ds_trace := ds_trace s |}.
Definition with_node (s : dstate) v := {| ds_x := ds_x s; ds_pending := ds_pending s; ds_errh := ds_errh s; ds_w := ds_w s;
  ds_node := v; ds_sel := ds_sel s; ds_valid := ds_valid s; ds_trace := ds_trace s |}.
Definition with_sel (s : dstate) v := {| ds_x := ds_x s; ds_pending := ds_pending s; ds_errh := ds_errh s; ds_w := ds_w s;
  ds_node := ds_node s; ds_sel := v; ds_valid := ds_valid s; ds_trace := ds_trace s |}.
Definition with_valid (s : dstate) v := {| ds_x := ds_x s; ds_pending := ds_pending s; ds_errh := ds_errh s; ds_w := ds_w s;
  ds_node := ds_node s; ds_sel := ds_sel s; ds_valid := v; ds_trace := ds_trace s |}.
Definition with_trace (s : dstate) v := {| ds_x := ds_x s; ds_pending := ds_pending s; ds_errh := ds_errh s; ds_w := ds_w s;
  ds_node := ds_node s; ds_sel := ds_sel s; ds_valid := ds_valid s; ds_trace := v |}.

Definition D (A : Type) : Type := dstate -> dstate * result A.

Definition d_ret {A} (a : A) : D A := fun s => (s, Ok a).
Definition d_bind {A B} (m : D A) (f : A -> D B) : D B :=
  fun s => match m s with
           | (s', Ok a) => f a s'
           | (s', Raise e) => (s', Raise e)
           end.
Definition d_lift {A} (r : result A) : D A := fun s => (s, r).
Definition d_raise {A} (e : exn) : D A := fun s => (s, Raise e).
Definition d_get : D dstate := fun s => (s, Ok s).
Definition d_mod (f : dstate -> dstate) : D unit := fun s => (f s, Ok tt).

Notation "'dod' x <- m ; k" := (d_bind m (fun x => k)) (at level 200, x pattern, m at level 100, k at level 200).
Notation "'dod_' m ; k" := (d_bind m (fun _ => k)) (at level 200, m at level 100, k at level 200).

Fixpoint d_iter {A} (f : A -> D unit) (xs : list A) : D unit :=
  match xs with
  | [] => d_ret tt
  | x :: r => dod_ f x; d_iter f r
  end.

(* a call on the error handler: recorded, then applied *)
Definition call_errh (ev : dev) : D unit :=
  fun s => let s1 := with_trace s (ev :: ds_trace s) in
           match apply_dev ev (ds_errh s1) with
           | (h', r) => (with_errh s1 h', r)
           end.

(* ------------------------------------------------------------------ *)
(* what the handler reads from `src`                                   *)

(* get_isa_id / get_gs_id / get_st_id (x12file.py:214-245): the LAST loop of the kind in self.loops, i.e. the
   innermost open one (Reader.loops is innermost first) *)
Definition src_id (x : xstate) (kind : string) : option str :=
  match List.find (fun lp => str_eqb (fst lp) (l kind)) (loops x) with
  | Some lp => snd lp
  | None => None
  end.

Definition src_of (x : xstate) : Errh.src_info :=
  {| Errh.src_isa_id := src_id x "ISA"; Errh.src_gs_id := src_id x "GS"; Errh.src_st_id := src_id x "ST";
     Errh.src_line := Some (cur_line x); Errh.src_st_count := st_count x |}.

(* src.check_837_lx = b *)
Definition with_lx (x : xstate) (b : bool) : xstate :=
  {| loops := loops x; hl_stack := hl_stack x; gs_count := gs_count x; st_count := st_count x;
     hl_count := hl_count x; seg_count := seg_count x; cur_line := cur_line x;
     isa_ids := isa_ids x; gs_ids := gs_ids x; st_ids := st_ids x;
     lx_count := lx_count x; check_837_lx := b |}.

(* errh.handle_errors(src.pop_errors()) (error_handler.py:106-118; x12file.py:156-163).  The list is
   taken (and emptied) first; a raise in one of the calls ends the loop.  All values are None in
   the reader; the source line is passed for 'seg' errors. *)
Definition err_call (e : err) : option dev :=
  if str_eqb (e_lvl e) (l "isa") then Some (DIsaErr (e_code e) [])
  else if str_eqb (e_lvl e) (l "gs") then Some (DGsErr (e_code e) [])
  else if str_eqb (e_lvl e) (l "st") then Some (DStErr (e_code e) [])
  else if str_eqb (e_lvl e) (l "seg") then Some (DSegErr (e_code e) [] None (e_line e))
  else None.

Definition handle_popped : D unit :=
  dod s <- d_get;
  dod_ d_mod (fun s => with_pending s []);
  d_iter (fun e => match err_call e with Some ev => call_errh ev | None => d_ret tt end) (ds_pending s).

(* ------------------------------------------------------------------ *)
(* the fixed surroundings of a run                                     *)

Record denv := {
  de_load : str -> result xmap;       (* pyx12.map_if.load_map_file(name, param, map_path) *)
  de_idx : list map_entry;            (* map_index_if *)
  de_cm : xmap;                       (* control_map *)
  de_d : delims                       (* the terminators of the source *)
}.

(* getnodebypath with a constant non-empty path never returns None *)
Definition getnode (m : xmap) (p : string) : result nref :=
  do o <- map_getnodebypath m (l p);
  match o with Some r => Ok r | None => Raise OtherError end.

(* map_index.get_filename: a['map_file'] may itself be None *)
Definition index_filename (idx : list map_entry) (icvn vriic fic tspc : option str) : option str :=
  match get_filename idx icvn vriic fic tspc with Some f => f | None => None end.

Definition set_node (mp : xmap) (r : nref) : D unit := d_mod (fun s => with_node s (mp, r)).

Definition sel_upd (f : mapsel -> mapsel) : D unit := d_mod (fun s => with_sel s (f (ds_sel s))).

(* map_file = map_file_new; raise if None; cur_map = load_map_file(...); src.check_837_lx = (cur_map.id == '837')
   (x12n_document.py:144-149 and 168-174) *)
Definition switch_map (E : denv) (new : option str) : D xmap :=
  dod_ sel_upd (fun m => {| ms_file := new; ms_cur := ms_cur m; ms_icvn := ms_icvn m; ms_fic := ms_fic m; ms_vriic := ms_vriic m |});
  match new with
  | None => d_raise EngineError                               (* "Map not found.  icvn=..." *)
  | Some f =>
      dod mp <- d_lift (de_load E f);
      dod_ sel_upd (fun m => {| ms_file := ms_file m; ms_cur := Some mp; ms_icvn := ms_icvn m; ms_fic := ms_fic m; ms_vriic := ms_vriic m |});
      dod_ d_mod (fun s => with_x s (with_lx (ds_x s) (ostr_eqb (m_id mp) (Some (l "837")))));
      d_ret mp
  end.

(* the attributes of `node` that the handler reads *)
Definition cur_info : D ninfo :=
  dod s <- d_get;
  dod n <- d_lift (get_node (fst (ds_node s)) (snd (ds_node s)));
  d_ret (info_of n).

(* errh.add_seg(node, seg, src.get_seg_count(), src.get_cur_line(), src.get_ls_id()); get_ls_id() is
   always None: no ('LS', ...) entry is ever pushed on src.loops *)
Definition add_cur_seg (x : xsg) : D unit :=
  dod i <- cur_info;
  dod s <- d_get;
  call_errh (DAddSeg (Some i) x (seg_count (ds_x s)) (cur_line (ds_x s)) None).

(* ------------------------------------------------------------------ *)
(* one segment                                                         *)

(* x12n_document.py:108-128: find the node; false = `node is None` (then node = orig_node) *)
Definition find_node (E : denv) (s : seg) : D bool :=
  if sid_is s "ISA" then
    dod r <- d_lift (getnode (de_cm E) "/ISA_LOOP/ISA");
    dod_ set_node (de_cm E) r;
    dod st <- d_get;
    dod w' <- d_lift (forceWalkCounterToLoopStart (ds_w st) (l "/ISA_LOOP") (l "/ISA_LOOP/ISA"));
    dod_ d_mod (fun st => with_w st w');
    d_ret true
  else if sid_is s "GS" then
    dod r <- d_lift (getnode (de_cm E) "/ISA_LOOP/GS_LOOP/GS");
    dod_ set_node (de_cm E) r;
    dod st <- d_get;
    dod w' <- d_lift (forceWalkCounterToLoopStart (ds_w st) (l "/ISA_LOOP/GS_LOOP") (l "/ISA_LOOP/GS_LOOP/GS"));
    dod_ d_mod (fun st => with_w st w');
    d_ret true
  else
    dod st <- d_get;
    match walk_st (fst (ds_node st)) (ds_w st) (snd (ds_node st)) (de_d E) s
                  (seg_count (ds_x st)) (cur_line (ds_x st)) None with
    | (w', evs, res) =>
        dod_ d_mod (fun st => with_w st w');
        dod_ d_iter (fun e => call_errh (dev_of_wev e)) evs;
        dod out <- d_lift res;                               (* `except EngineError: ... raise` re-raises *)
        match fst (fst out) with
        | Some r' => dod_ set_node (fst (ds_node st)) r'; d_ret true
        | None => d_ret false                                (* node = orig_node *)
        end
    end.

(* x12n_document.py:130-191: the branch on the segment id *)
Definition dispatch_seg (E : denv) (s : seg) : D unit :=
  let x := {| xg_d := de_d E; xg_s := s |} in
  if sid_is s "ISA" then
    dod st <- d_get;
    dod_ call_errh (DAddIsa x (src_of (ds_x st)));
    dod v <- d_lift (seg_get_value (de_d E) s (l "ISA12"));
    dod_ sel_upd (fun m => {| ms_file := ms_file m; ms_cur := ms_cur m; ms_icvn := v; ms_fic := ms_fic m; ms_vriic := ms_vriic m |});
    handle_popped
  else if sid_is s "IEA" then
    dod_ handle_popped;
    dod i <- cur_info;
    dod st <- d_get;
    call_errh (DCloseIsa i x (src_of (ds_x st)))
  else if sid_is s "GS" then
    dod fic <- d_lift (seg_get_value (de_d E) s (l "GS01"));
    dod vriic <- d_lift (seg_get_value (de_d E) s (l "GS08"));
    dod_ sel_upd (fun m => {| ms_file := ms_file m; ms_cur := ms_cur m; ms_icvn := ms_icvn m; ms_fic := fic; ms_vriic := vriic |});
    dod st <- d_get;
    let new := index_filename (de_idx E) (ms_icvn (ds_sel st)) vriic fic None in
    dod_ (if negb (ostr_eqb (ms_file (ds_sel st)) new) then dod _ <- switch_map E new; d_ret tt else d_ret tt);
    dod st <- d_get;
    match ms_cur (ds_sel st) with
    | None => d_raise EngineError                            (* fix: cur_map is None -> "Map not found" *)
    | Some mp =>
        dod r <- d_lift (getnode mp "/ISA_LOOP/GS_LOOP/GS");
        dod_ set_node mp r;
        dod_ call_errh (DAddGs x (src_of (ds_x st)));
        handle_popped
    end
  else if sid_is s "BHT" then
    dod st <- d_get;
    let sel := ds_sel st in
    dod_ (if ostr_eqb (ms_vriic sel) (Some (l "004010X094")) || ostr_eqb (ms_vriic sel) (Some (l "004010X094A1")) then
            dod tspc <- d_lift (seg_get_value (de_d E) s (l "BHT02"));
            let new := index_filename (de_idx E) (ms_icvn sel) (ms_vriic sel) (ms_fic sel) tspc in
            if negb (ostr_eqb (ms_file sel) new) then
              dod mp <- switch_map E new;
              dod r <- d_lift (getnode mp "/ISA_LOOP/GS_LOOP/ST_LOOP/HEADER/BHT");
              set_node mp r
            else d_ret tt
          else d_ret tt);
    dod_ add_cur_seg x;
    handle_popped
  else if sid_is s "GE" then
    dod_ handle_popped;
    dod i <- cur_info;
    dod st <- d_get;
    call_errh (DCloseGs i x (src_of (ds_x st)))
  else if sid_is s "ST" then
    dod st <- d_get;
    dod_ call_errh (DAddSt x (src_of (ds_x st)));
    handle_popped
  else if sid_is s "SE" then
    dod_ handle_popped;
    dod i <- cur_info;
    dod st <- d_get;
    call_errh (DCloseSt i x (src_of (ds_x st)))
  else
    dod_ add_cur_seg x;
    handle_popped.

(* valid &= node.is_valid(seg, errh) (x12n_document.py:194) *)
Definition validate (E : denv) (s : seg) : D unit :=
  dod st <- d_get;
  dod n <- d_lift (get_node (fst (ds_node st)) (snd (ds_node st)));
  match n with
  | NLoop _ _ _ _ _ _ _ => d_raise AttributeError            (* loop_if has no is_valid; not reachable: node is a segment node *)
  | NSeg sn =>
      dod res <- d_lift (seg_is_valid (de_d E) (ctx_of (fst (ds_node st))) sn s);
      dod_ d_iter (fun h => call_errh (dev_of_hev h)) (snd res);
      d_mod (fun st => with_valid st (ds_valid st && fst res))
  end.

(* the body of `for seg in src` (x12n_document.py:97-223 without the output sinks and the callback) *)
Definition step (E : denv) (s : seg) : D unit :=
  dod found <- find_node E s;
  if found then dod_ dispatch_seg E s; validate E s
  else handle_popped.                 (* fix: the reader's errors of an unplaced segment are handled at once *)

(* `for seg in src`: X12Reader.__iter__ (x12file.py:405-425), one raw line per turn *)
Fixpoint run_lines (E : denv) (lines : list str) : D unit :=
  match lines with
  | [] => d_ret tt
  | ln :: rest =>
      dod st <- d_get;
      dod r <- d_lift (reader_line_opt (de_d E) (ds_x st) ln);
      match r with
      | (x', os, es) =>
          dod_ d_mod (fun st => with_pending (with_x st x') (ds_pending st ++ es));
          dod_ (match os with Some s => step E s | None => d_ret tt end);
          run_lines E rest
      end
  end.

(* x12n_document.py:225-226 and 263-270 (get_error_count() is a sum over lists: the `except Exception` at 268 has nothing to catch) *)
Definition finish : D bool :=
  dod_ d_mod (fun st => with_pending st (ds_pending st ++ cleanup (ds_x st)));   (* src.cleanup() *)
  dod_ handle_popped;
  dod st <- d_get;
  d_ret (negb (negb (ds_valid st) || (0 <? Errh.get_error_count (ds_errh st)))).

(* ------------------------------------------------------------------ *)
(* x12n_document                                                       *)

Definition control_name (icvn : str) : str :=
  if str_eqb icvn (l "00501") then l "x12.control.00501.xml" else l "x12.control.00401.xml".

(* `load` is load_map_file with the parameters fixed; `idx` the map index (maps.xml).
   Result: the trace of handler calls in order, and the verdict or the exception that escapes. *)
Definition run_document_gen (load : str -> result xmap) (idx : result (list map_entry)) (text : str)
  : list dev * result bool :=
  match raw_all {| rest := text; sched := [] |} with
  | Raise X12Error => ([], Ok false)                         (* x12n_document.py:69-73 *)
  | Raise e => ([], Raise e)
  | Ok (r, lines) =>
      let map_file := control_name (r_icvn r) in                 (* 76 *)
      (* 78-80: control map, map index, start node *)
      match (do cm <- load map_file; do ix <- idx; do n0 <- getnode cm "/ISA_LOOP/ISA"; Ok (cm, ix, n0)) with
      | Raise e => ([], Raise e)
      | Ok (cm, ix, n0) =>
          let E := {| de_load := load; de_idx := ix; de_cm := cm; de_d := delims_of r |} in
          let s0 := {| ds_x := x_init; ds_pending := []; ds_errh := Errh.errh_init; ds_w := wstate_init;
                       ds_node := (cm, n0);
                       ds_sel := {| ms_file := Some map_file; ms_cur := None; ms_icvn := None; ms_fic := None; ms_vriic := None |};
                       ds_valid := true; ds_trace := [] |} in
          match (dod_ run_lines E lines; finish) s0 with
          | (s1, res) => (rev (ds_trace s1), res)
          end
      end
  end.

(* param: charset, exclude_external_codes ("" = None) *)
Record params := { p_charset : str; p_exclude : str }.

Definition env_index (e : menv) : result (list map_entry) :=
  match env_get e (sl "maps.xml") with Some root => Ok (load_index root) | None => Raise OtherError end.

Definition run_document_st (e : menv) (p : params) (text : str) : list dev * result bool :=
  run_document_gen (fun name => load_named e name (p_exclude p) (p_charset p)) (env_index e) text.

Definition run_document (e : menv) (p : params) (text : str) : result (bool * list dev) :=
  match run_document_st e p text with
  | (tr, Ok b) => Ok (b, tr)
  | (_, Raise x) => Raise x
  end.
