(* CtxReader.v — hand model of pyx12/x12context.py:X12ContextReader
   (lines 747-1043): __init__, iter_segments, _add_segment,
   _reset_counter_to_isa_counts, _reset_counter_to_gs_counts.
   (_apply_loop_count, _reset_isa_counts, _reset_gs_counts exist only as
   comments in the source: the call at line 852 is an AttributeError.)

   Composition, as in Driver.v:
     X12Reader  -> Raw.raw_all + Reader.reader_line_opt, one raw line per turn of
                   `for seg in self.src` (the generator is lazy: check_837_lx
                   assigned while handling GS is seen by the following segments);
                   src.err_list lives in the state (`cs_pending`), pop_errors()
                   empties it.  Reader error MESSAGES are not modelled: "".
     walk_tree  -> Walker.walk_st on the map of the current node
     errh_list  -> per segment, the (code, message, value) triples of the
                   walker's seg_error calls (add_seg is `pass` there)
     data nodes -> Context.v objects in the store `cs_heap`

   iter_segments is a generator: the model runs it to the end and returns what
   it yielded — every item with the store as it was AT THAT YIELD — and the
   exception that ended it, if any.  Local variables that are assigned only on
   some paths (icvn, fic, vriic, cur_map) are options: reading an unbound one is
   UnboundLocalError. *)
From Coq Require Import String.
From PX.Lib Require Import Base PyStr PyInt Regex Xml.
From PX.Model Require Import Show Path Segment Raw Reader Syntax MapLoad MapTree Element Counter Walker MapEnv Driver Context.

Local Definition l (x : string) : str := list_ascii_of_string x.

Record cstate := {
  cs_x : xstate;                     (* the X12Reader's counters and loop stack *)
  cs_pending : list err;             (* src.err_list *)
  cs_w : wstate;                     (* self.walker *)
  cs_node : mnode;                   (* self.x12_map_node *)
  cs_file : option str;              (* self.map_file *)
  cs_icvn : option (option str);     (* locals of iter_segments; None = not yet bound *)
  cs_fic : option (option str);
  cs_vriic : option (option str);
  cs_cur_map : option xmap;
  cs_tree : option oid;              (* cur_tree *)
  cs_data : option oid;              (* cur_data_node *)
  cs_heap : heap;
  cs_out : list (heap * oid)         (* what has been yielded, newest first *)
}.

Definition C (A : Type) : Type := cstate -> cstate * result A.

Definition c_ret {A} (a : A) : C A := fun s => (s, Ok a).
Definition c_bind {A B} (m : C A) (f : A -> C B) : C B :=
  fun s => match m s with
           | (s', Ok a) => f a s'
           | (s', Raise e) => (s', Raise e)
           end.
Definition c_lift {A} (r : result A) : C A := fun s => (s, r).
Definition c_raise {A} (e : exn) : C A := fun s => (s, Raise e).
Definition c_get : C cstate := fun s => (s, Ok s).
Definition c_mod (f : cstate -> cstate) : C unit := fun s => (f s, Ok tt).

Notation "'doc' x <- m ; k" := (c_bind m (fun x => k)) (at level 200, x pattern, m at level 100, k at level 200).
Notation "'doc_' m ; k" := (c_bind m (fun _ => k)) (at level 200, m at level 100, k at level 200).

Definition set_x (s : cstate) v := {| cs_x := v; cs_pending := cs_pending s; cs_w := cs_w s; cs_node := cs_node s;
  cs_file := cs_file s; cs_icvn := cs_icvn s; cs_fic := cs_fic s; cs_vriic := cs_vriic s; cs_cur_map := cs_cur_map s;
  cs_tree := cs_tree s; cs_data := cs_data s; cs_heap := cs_heap s; cs_out := cs_out s |}.
Definition set_pending (s : cstate) v := {| cs_x := cs_x s; cs_pending := v; cs_w := cs_w s; cs_node := cs_node s;
  cs_file := cs_file s; cs_icvn := cs_icvn s; cs_fic := cs_fic s; cs_vriic := cs_vriic s; cs_cur_map := cs_cur_map s;
  cs_tree := cs_tree s; cs_data := cs_data s; cs_heap := cs_heap s; cs_out := cs_out s |}.
Definition set_w (s : cstate) v := {| cs_x := cs_x s; cs_pending := cs_pending s; cs_w := v; cs_node := cs_node s;
  cs_file := cs_file s; cs_icvn := cs_icvn s; cs_fic := cs_fic s; cs_vriic := cs_vriic s; cs_cur_map := cs_cur_map s;
  cs_tree := cs_tree s; cs_data := cs_data s; cs_heap := cs_heap s; cs_out := cs_out s |}.
Definition set_mnode (s : cstate) v := {| cs_x := cs_x s; cs_pending := cs_pending s; cs_w := cs_w s; cs_node := v;
  cs_file := cs_file s; cs_icvn := cs_icvn s; cs_fic := cs_fic s; cs_vriic := cs_vriic s; cs_cur_map := cs_cur_map s;
  cs_tree := cs_tree s; cs_data := cs_data s; cs_heap := cs_heap s; cs_out := cs_out s |}.
Definition set_file (s : cstate) v := {| cs_x := cs_x s; cs_pending := cs_pending s; cs_w := cs_w s; cs_node := cs_node s;
  cs_file := v; cs_icvn := cs_icvn s; cs_fic := cs_fic s; cs_vriic := cs_vriic s; cs_cur_map := cs_cur_map s;
  cs_tree := cs_tree s; cs_data := cs_data s; cs_heap := cs_heap s; cs_out := cs_out s |}.
Definition set_icvn (s : cstate) v := {| cs_x := cs_x s; cs_pending := cs_pending s; cs_w := cs_w s; cs_node := cs_node s;
  cs_file := cs_file s; cs_icvn := v; cs_fic := cs_fic s; cs_vriic := cs_vriic s; cs_cur_map := cs_cur_map s;
  cs_tree := cs_tree s; cs_data := cs_data s; cs_heap := cs_heap s; cs_out := cs_out s |}.
Definition set_fic_vriic (s : cstate) f v := {| cs_x := cs_x s; cs_pending := cs_pending s; cs_w := cs_w s; cs_node := cs_node s;
  cs_file := cs_file s; cs_icvn := cs_icvn s; cs_fic := f; cs_vriic := v; cs_cur_map := cs_cur_map s;
  cs_tree := cs_tree s; cs_data := cs_data s; cs_heap := cs_heap s; cs_out := cs_out s |}.
Definition set_cur_map (s : cstate) v := {| cs_x := cs_x s; cs_pending := cs_pending s; cs_w := cs_w s; cs_node := cs_node s;
  cs_file := cs_file s; cs_icvn := cs_icvn s; cs_fic := cs_fic s; cs_vriic := cs_vriic s; cs_cur_map := v;
  cs_tree := cs_tree s; cs_data := cs_data s; cs_heap := cs_heap s; cs_out := cs_out s |}.
Definition set_tree (s : cstate) v := {| cs_x := cs_x s; cs_pending := cs_pending s; cs_w := cs_w s; cs_node := cs_node s;
  cs_file := cs_file s; cs_icvn := cs_icvn s; cs_fic := cs_fic s; cs_vriic := cs_vriic s; cs_cur_map := cs_cur_map s;
  cs_tree := v; cs_data := cs_data s; cs_heap := cs_heap s; cs_out := cs_out s |}.
Definition set_data (s : cstate) v := {| cs_x := cs_x s; cs_pending := cs_pending s; cs_w := cs_w s; cs_node := cs_node s;
  cs_file := cs_file s; cs_icvn := cs_icvn s; cs_fic := cs_fic s; cs_vriic := cs_vriic s; cs_cur_map := cs_cur_map s;
  cs_tree := cs_tree s; cs_data := v; cs_heap := cs_heap s; cs_out := cs_out s |}.
Definition set_heap (s : cstate) v := {| cs_x := cs_x s; cs_pending := cs_pending s; cs_w := cs_w s; cs_node := cs_node s;
  cs_file := cs_file s; cs_icvn := cs_icvn s; cs_fic := cs_fic s; cs_vriic := cs_vriic s; cs_cur_map := cs_cur_map s;
  cs_tree := cs_tree s; cs_data := cs_data s; cs_heap := v; cs_out := cs_out s |}.
Definition set_out (s : cstate) v := {| cs_x := cs_x s; cs_pending := cs_pending s; cs_w := cs_w s; cs_node := cs_node s;
  cs_file := cs_file s; cs_icvn := cs_icvn s; cs_fic := cs_fic s; cs_vriic := cs_vriic s; cs_cur_map := cs_cur_map s;
  cs_tree := cs_tree s; cs_data := cs_data s; cs_heap := cs_heap s; cs_out := v |}.

(* a computation on the store, run on the reader's store *)
Definition c_heap {A} (m : H A) : C A :=
  fun s => match m (cs_heap s) with (h', r) => (set_heap s h', r) end.

Definition c_obj (o : oid) : C dobj := c_heap (h_obj o).

(* `yield x` *)
Definition c_yield (o : oid) : C unit := c_mod (fun s => set_out s ((cs_heap s, o) :: cs_out s)).

(* a local variable that may not be bound yet *)
Definition c_local {A} (v : option A) : C A := match v with Some a => c_ret a | None => c_raise UnboundLocalError end.

Fixpoint c_iter {A} (f : A -> C unit) (xs : list A) : C unit :=
  match xs with
  | [] => c_ret tt
  | x :: r => doc_ f x; c_iter f r
  end.

(* the fixed surroundings: Driver.denv (load_map_file, map index, control map, terminators) + loop_id *)
Record cenv := { ce_d : denv; ce_loop : option str }.

(* s.find(p) for a non-empty p *)
Fixpoint find_sub (p s : str) : option nat :=
  match s with
  | [] => None
  | _ :: s' => if starts_with p s then Some 0 else option_map S (find_sub p s')
  end.

(* ------------------------------------------------------------------ *)
(* _reset_counter_to_isa_counts / _reset_counter_to_gs_counts (1029-1043) *)
Definition reset_counter (x12_path child_path : str) : C unit :=
  doc s <- c_get;
  doc w' <- c_lift (forceWalkCounterToLoopStart (cs_w s) x12_path child_path);   (* the same three calls *)
  c_mod (fun s => set_w s w').

(* ------------------------------------------------------------------ *)
(* _add_segment (945-1002): returns the new segment node *)

(* `r.x12_map_node` for whatever r is *)
Definition ref_map_node (h : heap) (r : pyref) : result mnode :=
  match r with
  | RObj o => do x <- h_get h o; match o_map x with Some m => Ok m | None => Raise AttributeError end
  | _ => Raise AttributeError
  end.

(* `r.id` (the data node property) *)
Definition ref_id (h : heap) (r : pyref) : result (option str) :=
  match r with
  | RObj o => do x <- h_get h o; obj_id x
  | _ => Raise AttributeError
  end.

Definition ref_parent (h : heap) (r : pyref) : result pyref :=
  match r with
  | RObj o => do x <- h_get h o; Ok (o_parent x)
  | _ => Raise AttributeError
  end.

(* `r._add_loop_node(m)`: a method of loop objects *)
Definition ref_add_loop_node (r : pyref) (m : mnode) : H pyref :=
  match r with
  | RObj o => doh x <- h_obj o;
              match o_class x with
              | CLoop => doh n <- add_loop_node o m; h_ret (RObj n)
              | CSeg => h_raise AttributeError
              end
  | _ => h_raise AttributeError
  end.

Definition add_segment_node (cur_data_node : oid) (seg_mn : mnode) (x : xsg) (pop push : list mnode) : H oid :=
  doh is_seg <- h_lift (mn_is_segment seg_mn);
  if negb is_seg then h_raise EngineError else                                  (* 959-960 *)
  let parent_mn := mn_parent seg_mn in                                          (* pop_to_parent_loop, 963 *)
  doh cd <- h_obj cur_data_node;
  let cur0 : pyref := if is_seg_typed cd then o_parent cd else RObj cur_data_node in   (* 964-966 *)
  doh new_path <- h_lift (mn_x12path parent_mn);                                (* 968 *)
  doh last_mn <- h_read (fun h => ref_map_node h cur0);                         (* 969 *)
  doh last_path <- h_lift (mn_x12path last_mn);
  doh cur <-
    (if negb (path_eqb last_path new_path) then
       (* 970-980 *)
       doh cur1 <- (fix pops (cur : pyref) (ps : list mnode) : H pyref :=
                      match ps with
                      | [] => h_ret cur
                      | p :: r =>
                          doh i <- h_read (fun h => ref_id h cur);
                          doh pi <- h_lift (mn_id p);
                          if negb (ostr_eqb i pi) then h_raise EngineError
                          else doh up <- h_read (fun h => ref_parent h cur); pops up r
                      end) cur0 pop;
       (fix pushes (cur : pyref) (ps : list mnode) : H pyref :=
          match ps with
          | [] => h_ret cur
          | p :: r =>
              match cur with
              | RNone => h_raise EngineError                                    (* 977-978 *)
              | _ => doh nxt <- ref_add_loop_node cur p; pushes nxt r
              end
          end) cur1 push
     else
       (* 981-985: loop repeat *)
       doh up <- h_read (fun h => ref_parent h cur0);
       doh first <- h_lift (mn_is_first_seg seg_mn);
       match up with
       | RNone => h_ret cur0
       | _ => if first then ref_add_loop_node up parent_mn else h_ret cur0
       end);
  (* 986-1001: a new node, hung under cur; any failure of the two statements becomes EngineError *)
  match cur with
  | RObj o =>
      doh ox <- h_obj o;
      match obj_children ox with
      | Raise _ => h_raise EngineError
      | Ok kids =>
          doh n <- h_new (new_seg (Some seg_mn) x cur [] []);
          doh_ h_put o (upd_children ox (kids ++ [n]));
          h_ret n
      end
  | _ => h_raise EngineError
  end.

(* ------------------------------------------------------------------ *)
(* one segment of `for seg in self.src` (788-903)                      *)

Definition mn_of (m : xmap) (r : nref) : mnode := {| mn_map := m; mn_ref := r |}.

(* cur_data_node.seg_count = ...; cur_data_node.cur_line_number = ... *)
Definition stamp (o : oid) : C unit :=
  doc s <- c_get;
  c_heap (h_mod o (fun x =>
    {| o_class := o_class x; o_live := o_live x; o_map := o_map x; o_seg := o_seg x; o_parent := o_parent x;
       o_children := o_children x; o_seg_count := Some (seg_count (cs_x s)); o_cur_line := Some (cur_line (cs_x s));
       o_start := o_start x; o_end := o_end x;
       o_err_isa := o_err_isa x; o_err_gs := o_err_gs x; o_err_st := o_err_st x; o_err_seg := o_err_seg x |})).

(* map_file = new; raise if None; cur_map = load_map_file(...); src.check_837_lx = (cur_map.id == '837') *)
Definition ctx_switch_map (E : cenv) (new : option str) : C xmap :=
  doc_ c_mod (fun s => set_file s new);
  match new with
  | None => c_raise EngineError
  | Some f =>
      doc mp <- c_lift (de_load (ce_d E) f);
      doc_ c_mod (fun s => set_cur_map s (Some mp));
      doc_ c_mod (fun s => set_x s (with_lx (cs_x s) (ostr_eqb (m_id mp) (Some (l "837")))));
      c_ret mp
  end.

(* 795-810: find the node; returns (found, pop_loops, push_loops, errors recorded by the walker) *)
Definition ctx_find_node (E : cenv) (s : seg) : C (bool * list mnode * list mnode * list (str * str * option str)) :=
  let cm := de_cm (ce_d E) in
  if sid_is s "ISA" then
    doc r <- c_lift (getnode cm "/ISA_LOOP/ISA");
    doc_ c_mod (fun st => set_mnode st (mn_of cm r));
    c_ret (true, [], [], [])
  else if sid_is s "GS" then
    doc r <- c_lift (getnode cm "/ISA_LOOP/GS_LOOP/GS");
    doc_ c_mod (fun st => set_mnode st (mn_of cm r));
    c_ret (true, [], [], [])
  else
    doc st <- c_get;
    let m := mn_map (cs_node st) in
    match walk_st m (cs_w st) (mn_ref (cs_node st)) (de_d (ce_d E)) s (seg_count (cs_x st)) (cur_line (cs_x st)) None with
    | (w', evs, res) =>
        doc_ c_mod (fun st => set_w st w');
        doc out <- c_lift res;                                  (* `except errors.EngineError: raise` *)
        let errs := flat_map (fun e => match e with WSegErr c msg v => [(c, msg, v)] | WAddSeg _ _ _ _ _ => [] end) evs in
        match out with
        | (Some r', pop, push) =>
            doc_ c_mod (fun st => set_mnode st (mn_of m r'));
            c_ret (true, map (mn_of m) pop, map (mn_of m) push, errs)
        | (None, pop, push) => c_ret (false, map (mn_of m) pop, map (mn_of m) push, errs)   (* node = orig_node *)
        end
    end.

(* 811-854: map selection *)
Definition ctx_select_map (E : cenv) (s : seg) : C unit :=
  let d := de_d (ce_d E) in
  let idx := de_idx (ce_d E) in
  if sid_is s "ISA" then
    doc v <- c_lift (seg_get_value d s (l "ISA12"));
    c_mod (fun st => set_icvn st (Some v))
  else if sid_is s "GS" then
    doc fic <- c_lift (seg_get_value d s (l "GS01"));
    doc vriic <- c_lift (seg_get_value d s (l "GS08"));
    doc_ c_mod (fun st => set_fic_vriic st (Some fic) (Some vriic));
    doc st <- c_get;
    doc icvn <- c_local (cs_icvn st);
    let new := index_filename idx icvn vriic fic None in
    doc_ (if negb (ostr_eqb (cs_file st) new) then
            doc _ <- ctx_switch_map E new;
            reset_counter (l "/ISA_LOOP") (l "/ISA_LOOP/ISA")
          else c_ret tt);
    doc_ reset_counter (l "/ISA_LOOP/GS_LOOP") (l "/ISA_LOOP/GS_LOOP/GS");
    doc st <- c_get;
    doc mp <- (match cs_cur_map st with Some mp => c_ret mp | None => c_raise EngineError end);   (* fix 7fa1c38: "Map not found" *)
    doc r <- c_lift (getnode mp "/ISA_LOOP/GS_LOOP/GS");
    c_mod (fun st => set_mnode st (mn_of mp r))
  else if sid_is s "BHT" then
    doc st <- c_get;
    doc vriic <- c_local (cs_vriic st);
    if ostr_eqb vriic (Some (l "004010X094")) || ostr_eqb vriic (Some (l "004010X094A1")) then
      doc tspc <- c_lift (seg_get_value d s (l "BHT02"));
      doc icvn <- c_local (cs_icvn st);
      doc fic <- c_local (cs_fic st);
      let new := index_filename idx icvn vriic fic tspc in
      if negb (ostr_eqb (cs_file st) new) then
        doc mp <- ctx_switch_map E new;                         (* fix 7fa1c38: the call of _apply_loop_count is gone *)
        doc r <- c_lift (getnode mp "/ISA_LOOP/GS_LOOP/ST_LOOP/HEADER/BHT");
        c_mod (fun st => set_mnode st (mn_of mp r))
      else c_ret tt
    else c_ret tt
  else c_ret tt.

(* errh.handle_errors(self.src.pop_errors()) on an errh_list, then handle_errh_errors (897-900) *)
Definition attach_errors (o : oid) (walker_errs : list (str * str * option str)) : C unit :=
  doc st <- c_get;
  let popped := cs_pending st in
  doc_ c_mod (fun st => set_pending st []);
  let of_lvl (lv : string) := map (fun e => (e_code e, @nil ascii)) (filter (fun e => str_eqb (e_lvl e) (l lv)) popped) in
  let segs := map (fun e => (e_code e, @nil ascii, @None str)) (filter (fun e => str_eqb (e_lvl e) (l "seg")) popped) in
  c_heap (h_mod o (fun x =>
    {| o_class := o_class x; o_live := o_live x; o_map := o_map x; o_seg := o_seg x; o_parent := o_parent x;
       o_children := o_children x; o_seg_count := o_seg_count x; o_cur_line := o_cur_line x;
       o_start := o_start x; o_end := o_end x;
       o_err_isa := o_err_isa x ++ of_lvl "isa"%string; o_err_gs := o_err_gs x ++ of_lvl "gs"%string; o_err_st := o_err_st x ++ of_lvl "st"%string;
       o_err_seg := o_err_seg x ++ walker_errs ++ segs |})).

Definition ctx_step (E : cenv) (s : seg) : C unit :=
  let x := {| xg_d := de_d (ce_d E); xg_s := s |} in
  doc st0 <- c_get;
  let orig := cs_node st0 in
  doc found <- ctx_find_node E s;
  let '(ok, pop, push, werrs) := found in
  doc_ (if ok then ctx_select_map E s else c_mod (fun st => set_mnode st orig));     (* 809-854 *)
  doc st <- c_get;
  let node := cs_node st in
  doc xp <- c_lift (mn_x12path node);                                           (* 856 *)
  let in_tree := match ce_loop E with Some lid => mem_str lid (loop_list xp) | None => false end in
  if in_tree then
    (* 858-877 *)
    doc first <- c_lift (mn_is_first_seg node);
    let at_start := match rev (loop_list xp), ce_loop E with
                    | lst :: _, Some lid => str_eqb lst lid && first
                    | _, _ => false
                    end in
    if at_start then
      doc_ (match cs_tree st with Some t => c_yield t | None => c_ret tt end);  (* 862-864 *)
      doc t <- c_heap (h_new (new_loop (Some (mn_parent node)) pop RNone));      (* 868 *)
      doc_ c_mod (fun st => set_tree st (Some t));
      doc n <- c_heap (add_segment_node t node x pop push);                      (* 869 *)
      doc_ c_mod (fun st => set_data st (Some n));
      stamp n
    else
      match cs_data st with
      | None => c_raise EngineError                                              (* 873-874 *)
      | Some cd =>
          doc n <- c_heap (add_segment_node cd node x pop push);
          doc_ c_mod (fun st => set_data st (Some n));
          stamp n
      end
  else
    (* 878-903 *)
    doc_ (match cs_tree st with
          | Some t => doc_ c_yield t; c_mod (fun st => set_tree st None)
          | None => c_ret tt
          end);
    doc n <-
      (match cs_data st with
       | Some _ =>
           doc pop' <- (match ce_loop E with
                        | Some (c :: r) =>                                       (* `if loop_id:` *)
                            c_lift ((fix go (ps : list mnode) : result (list mnode) :=
                                       match ps with
                                       | [] => Ok []
                                       | p :: rest =>
                                           do pth <- mn_path p;
                                           do more <- go rest;
                                           Ok (match find_sub (c :: r) pth with None => p :: more | Some _ => more end)
                                       end) pop)
                        | _ => c_ret pop
                        end);
           (* 888-889: the two asserts *)
           doc push_ids <- c_lift ((fix go (ps : list mnode) : result (list (option str)) :=
                                      match ps with [] => Ok [] | p :: r => do i <- mn_id p; do m <- go r; Ok (i :: m) end) push);
           doc pop_ids <- c_lift ((fix go (ps : list mnode) : result (list (option str)) :=
                                     match ps with [] => Ok [] | p :: r => do i <- mn_id p; do m <- go r; Ok (i :: m) end) pop');
           if existsb (ostr_eqb (ce_loop E)) push_ids || existsb (ostr_eqb (ce_loop E)) pop_ids then c_raise OtherError
           else c_heap (h_new (new_seg (Some node) x (RList push) pop' []))       (* 890: parent=push_loops, start_loops=pop_loops *)
       | None => c_heap (h_new (new_seg (Some node) x RNone [] []))               (* 894 *)
       end);
    doc_ c_mod (fun st => set_data st (Some n));
    doc_ stamp n;
    doc_ attach_errors n werrs;                                                  (* 897-900 *)
    (* 901-902 *)
    doc nx <- c_obj n;
    doc i <- c_lift (obj_id nx);
    doc_ (if negb (ostr_eqb i (Some (l "ISA"))) && match o_parent nx with RNone => true | _ => false end
          then c_raise OtherError else c_ret tt);
    c_yield n.

(* `for seg in self.src` *)
Fixpoint ctx_run_lines (E : cenv) (lines : list str) : C unit :=
  match lines with
  | [] => doc st <- c_get;                                      (* fix 7fa1c38: the tree still open at the end is yielded *)
          (match cs_tree st with Some t => c_yield t | None => c_ret tt end)
  | ln :: rest =>
      doc st <- c_get;
      doc r <- c_lift (reader_line_opt (de_d (ce_d E)) (cs_x st) ln);
      match r with
      | (x', os, es) =>
          doc_ c_mod (fun st => set_pending (set_x st x') (cs_pending st ++ es));
          doc_ (match os with Some s => ctx_step E s | None => c_ret tt end);
          ctx_run_lines E rest
      end
  end.

(* ------------------------------------------------------------------ *)
(* X12ContextReader(param, errh, src).iter_segments(loop_id), run to the end.
   Result: the terminators found by __init__ (the properties seg_term / ele_term / subele_term, 912-934;
   None when __init__ raised), the yielded nodes in order, each with the store at the time of the
   yield, the final store, the reader's counters at the end (the properties cur_seg_count and
   get_cur_line, 936-942), and the exception that ended the iteration (from __init__ as well). *)
Record iter_result := {
  ir_delims : option delims;
  ir_yields : list (heap * oid);
  ir_heap : heap;
  ir_x : xstate;
  ir_res : result unit
}.

Definition iter_segments_gen (load : str -> result xmap) (idx : result (list map_entry)) (loop_id : option str) (text : str)
  : iter_result :=
  let failed e := {| ir_delims := None; ir_yields := []; ir_heap := []; ir_x := x_init; ir_res := Raise e |} in
  match raw_all {| rest := text; sched := [] |} with
  | Raise e => failed e                                                       (* 770: X12Reader(src_file_obj) *)
  | Ok (r, lines) =>
      let map_file := control_name (r_icvn r) in                              (* 773 *)
      match (do cm <- load map_file; do ix <- idx; do n0 <- getnode cm "/ISA_LOOP/ISA"; Ok (cm, ix, n0)) with
      | Raise e => failed e
      | Ok (cm, ix, n0) =>
          let E := {| ce_d := {| de_load := load; de_idx := ix; de_cm := cm; de_d := delims_of r |}; ce_loop := loop_id |} in
          let s0 := {| cs_x := x_init; cs_pending := []; cs_w := wstate_init; cs_node := mn_of cm n0;
                       cs_file := Some map_file; cs_icvn := None; cs_fic := None; cs_vriic := None; cs_cur_map := None;
                       cs_tree := None; cs_data := None; cs_heap := []; cs_out := [] |} in
          match ctx_run_lines E lines s0 with
          | (s1, res) => {| ir_delims := Some (delims_of r); ir_yields := rev (cs_out s1); ir_heap := cs_heap s1;
                            ir_x := cs_x s1; ir_res := res |}
          end
      end
  end.

Definition iter_segments (e : menv) (p : params) (loop_id : option str) (text : str) : iter_result :=
  iter_segments_gen (fun name => load_named e name (p_exclude p) (p_charset p)) (env_index e) loop_id text.
