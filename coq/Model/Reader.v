(* Reader.v — hand model of pyx12/x12file.py: X12Base._parse_segment,
   X12Reader._parse_segment / __iter__ / cleanup.  Error messages are not
   modelled; an error is (level, code, source line). *)
From Coq Require Import String.
From PX.Lib Require Import Base PyStr PyInt.
From PX.Gen Require Import SrcConsts.
From PX.Model Require Import Path Segment Raw.

Local Definition l (s : string) : str := list_ascii_of_string s.

Record err := { e_lvl : str; e_code : str; e_line : option Z }.

Definition mk_err (lvl code : string) (line : option Z) : err :=
  {| e_lvl := l lvl; e_code := l code; e_line := line |}.

Record xstate := {
  loops : list (str * option str); (* innermost first: (kind, control number or None) *)
  hl_stack : list Z;               (* Python order: last = top *)
  gs_count : Z; st_count : Z; hl_count : Z; seg_count : Z; cur_line : Z;
  isa_ids : list (option str); gs_ids : list (option str); st_ids : list (option str);
  lx_count : Z; check_837_lx : bool
}.

Definition x_init : xstate :=
  {| loops := []; hl_stack := []; gs_count := 0; st_count := 0; hl_count := 0; seg_count := 0; cur_line := 0;
     isa_ids := []; gs_ids := []; st_ids := []; lx_count := 0; check_837_lx := false |}.

(* seg_data.get_value('XXnn') for an element position: None beyond the end *)
Definition ev (d : delims) (s : seg) (i : nat) : option str :=
  match i with
  | 0 => None
  | S k => if length (els s) <=? k then None
           else Some (format_comp (subele_term d) (nth k (els s) []))
  end.

Definition evs (d : delims) (s : seg) (i : nat) : str := match ev d s i with Some v => v | None => [] end.

(* self._int: int(x) or None (ValueError / TypeError) *)
Definition int_opt (o : option str) : option Z := match o with Some v => py_int v | None => None end.

Definition optZ_eqb (a : option Z) (b : Z) : bool := match a with Some x => Z.eqb x b | None => false end.

Definition oid_eqb (a b : option str) : bool := opt_eqb str_eqb a b.
Definition mem_oid (x : option str) (xs : list (option str)) : bool := existsb (oid_eqb x) xs.

Definition sid_is (s : seg) (id : string) : bool := opt_eqb str_eqb (sid s) (Some (l id)).

Definition last_Z (xs : list Z) : option Z := match rev xs with x :: _ => Some x | [] => None end.

(* `while self.hl_stack and hl_parent != self.hl_stack[-1]: del self.hl_stack[-1]` *)
Fixpoint hl_pop (rstack : list Z) (parent : option Z) : list Z :=   (* rstack: top first *)
  match rstack with
  | [] => []
  | x :: r => if optZ_eqb parent x then rstack else hl_pop r parent
  end.

Definition set_counts (x : xstate) (f : xstate -> xstate) : xstate := f x.

(* X12Base._parse_segment *)
Definition base_step (d : delims) (x : xstate) (s : seg) : result (xstate * list err) :=
  let line1 := Some (cur_line x + 1)%Z in
  let e0 := (if seg_empty s then [mk_err "seg" "8" line1] else []) ++
            (if seg_id_valid s then [] else [mk_err "seg" "1" line1]) in
  let counted (x' : xstate) : xstate :=
      let sc := if match sid s with Some id => mem_str id uncounted_ids | None => false end
                then seg_count x' else (seg_count x' + 1)%Z in
      {| loops := loops x'; hl_stack := hl_stack x'; gs_count := gs_count x'; st_count := st_count x';
         hl_count := hl_count x'; seg_count := sc; cur_line := (cur_line x' + 1)%Z;
         isa_ids := isa_ids x'; gs_ids := gs_ids x'; st_ids := st_ids x';
         lx_count := lx_count x'; check_837_lx := check_837_lx x' |} in
  if sid_is s "ISA" then
    if negb (length (els s) =? 16) then Raise X12Error
    else
      let icn := ev d s 13 in
      let e1 := if mem_oid icn (isa_ids x) then [mk_err "isa" "025" None] else [] in
      Ok (counted {| loops := (l "ISA", icn) :: loops x; hl_stack := hl_stack x; gs_count := 0; st_count := st_count x;
                     hl_count := hl_count x; seg_count := seg_count x; cur_line := cur_line x;
                     isa_ids := isa_ids x ++ [icn]; gs_ids := []; st_ids := st_ids x;
                     lx_count := lx_count x; check_837_lx := check_837_lx x |}, e0 ++ e1)
  else if sid_is s "GS" then
    let g := ev d s 6 in          (* may be None: `None in self.gs_ids` is a legal test *)
    let e1 := if mem_oid g (gs_ids x) then [mk_err "gs" "6" None] else [] in
    Ok (counted {| loops := (l "GS", g) :: loops x; hl_stack := hl_stack x; gs_count := (gs_count x + 1)%Z; st_count := 0;
                   hl_count := hl_count x; seg_count := seg_count x; cur_line := cur_line x;
                   isa_ids := isa_ids x; gs_ids := gs_ids x ++ [g]; st_ids := [];
                   lx_count := lx_count x; check_837_lx := check_837_lx x |}, e0 ++ e1)
  else if sid_is s "ST" then
    let t := ev d s 2 in
    let e1 := if mem_oid t (st_ids x) then [mk_err "st" "23" None] else [] in
    Ok (counted {| loops := (l "ST", t) :: loops x; hl_stack := []; gs_count := gs_count x; st_count := (st_count x + 1)%Z;
                   hl_count := 0; seg_count := 1; cur_line := cur_line x;
                   isa_ids := isa_ids x; gs_ids := gs_ids x; st_ids := st_ids x ++ [t];
                   lx_count := lx_count x; check_837_lx := check_837_lx x |}, e0 ++ e1)
  else if sid_is s "HL" then
    let hc := (hl_count x + 1)%Z in
    let e1 := if optZ_eqb (int_opt (ev d s 1)) hc then [] else [mk_err "seg" "HL1" None] in
    let has_parent := match ev d s 2 with Some [] => false | _ => true end in
    let parent := int_opt (ev d s 2) in
    let e2 := if has_parent
              then (if existsb (fun v => optZ_eqb parent v) (hl_stack x) then [] else [mk_err "seg" "HL2" None])
              else [] in
    let stack' := if has_parent then rev (hl_pop (rev (hl_stack x)) parent) else hl_stack x in
    Ok (counted {| loops := loops x; hl_stack := stack' ++ [hc]; gs_count := gs_count x; st_count := st_count x;
                   hl_count := hc; seg_count := seg_count x; cur_line := cur_line x;
                   isa_ids := isa_ids x; gs_ids := gs_ids x; st_ids := st_ids x;
                   lx_count := lx_count x; check_837_lx := check_837_lx x |}, e0 ++ e1 ++ e2)
  else if check_837_lx x && sid_is s "CLM" then
    Ok (counted {| loops := loops x; hl_stack := hl_stack x; gs_count := gs_count x; st_count := st_count x;
                   hl_count := hl_count x; seg_count := seg_count x; cur_line := cur_line x;
                   isa_ids := isa_ids x; gs_ids := gs_ids x; st_ids := st_ids x;
                   lx_count := 0; check_837_lx := check_837_lx x |}, e0)
  else if check_837_lx x && sid_is s "LX" then
    let lc := (lx_count x + 1)%Z in
    let e1 := if opt_eqb str_eqb (ev d s 1) (Some (fmt_d (Z.to_N lc))) then [] else [mk_err "seg" "LX" None] in
    Ok (counted {| loops := loops x; hl_stack := hl_stack x; gs_count := gs_count x; st_count := st_count x;
                   hl_count := hl_count x; seg_count := seg_count x; cur_line := cur_line x;
                   isa_ids := isa_ids x; gs_ids := gs_ids x; st_ids := st_ids x;
                   lx_count := lc; check_837_lx := check_837_lx x |}, e0 ++ e1)
  else Ok (counted x, e0).

Definition with_loops (x : xstate) (lp : list (str * option str)) : xstate :=
  {| loops := lp; hl_stack := hl_stack x; gs_count := gs_count x; st_count := st_count x;
     hl_count := hl_count x; seg_count := seg_count x; cur_line := cur_line x;
     isa_ids := isa_ids x; gs_ids := gs_ids x; st_ids := st_ids x;
     lx_count := lx_count x; check_837_lx := check_837_lx x |}.

Definition top_kind_is (lp : list (str * option str)) (k : string) : bool :=
  match lp with (kind, _) :: _ => str_eqb kind (l k) | [] => false end.

(* X12Reader._parse_segment *)
Definition reader_step (d : delims) (x : xstate) (s : seg) : result (xstate * list err) :=
  (* header placement (before the common bookkeeping) *)
  let pre :=
    if sid_is s "ISA" then (match loops x with [] => [] | _ => [mk_err "isa" "024" None] end)
    else if sid_is s "GS" then (if top_kind_is (loops x) "ISA" then [] else [mk_err "isa" "024" None])
    else if sid_is s "ST" then (if top_kind_is (loops x) "GS" then [] else [mk_err "isa" "024" None])
    else [] in
  do r <- base_step d x s;
  let (x1, e_base) := r in
  let e0 := pre ++ e_base in
  if sid_is s "IEA" then
    let (lp, e1) := match loops x1 with
                    | (kind, _) :: rest => if str_eqb kind (l "ISA") then (loops x1, []) else (rest, [mk_err "isa" "024" None])
                    | [] => ([], [])
                    end in
    match lp with
    | [] => Ok (with_loops x1 [], e0 ++ e1 ++ [mk_err "isa" "001" None])
    | (_, id) :: rest =>
        let e2 := if oid_eqb id (ev d s 2) then [] else [mk_err "isa" "001" None] in
        let e3 := if optZ_eqb (int_opt (ev d s 1)) (gs_count x1) then [] else [mk_err "isa" "021" None] in
        Ok (with_loops x1 rest, e0 ++ e1 ++ e2 ++ e3)
    end
  else if sid_is s "GE" then
    let (lp, e1) := match loops x1 with
                    | (kind, _) :: rest => if str_eqb kind (l "GS") then (loops x1, []) else (rest, [mk_err "gs" "3" None])
                    | [] => ([], [])
                    end in
    match lp with
    | [] => Ok (with_loops x1 [], e0 ++ e1 ++ [mk_err "gs" "4" None])
    | (_, id) :: rest =>
        let e2 := if oid_eqb id (ev d s 2) then [] else [mk_err "gs" "4" None] in
        let e3 := if optZ_eqb (int_opt (ev d s 1)) (st_count x1) then [] else [mk_err "gs" "5" None] in
        Ok (with_loops x1 rest, e0 ++ e1 ++ e2 ++ e3)
    end
  else if sid_is s "SE" then
    match loops x1 with
    | [] => Ok (x1, e0 ++ [mk_err "st" "3" None])
    | (kind, id) :: rest =>
        let e1 := if str_eqb kind (l "ST") && oid_eqb id (ev d s 2) then [] else [mk_err "st" "3" None] in
        let e2 := if optZ_eqb (int_opt (ev d s 1)) (seg_count x1 + 1)%Z then [] else [mk_err "st" "4" None] in
        Ok (with_loops x1 rest, e0 ++ e1 ++ e2)
    end
  else Ok (x1, e0).

(* the body of X12Reader.__iter__ for one raw line *)
Definition reader_line (d : delims) (x : xstate) (line : str) : result (xstate * seg * list err) :=
  let line1 := Some (cur_line x + 1)%Z in
  let lead := match line with c :: _ => Ascii.eqb c " "%char | [] => false end in
  let e1 := if lead then [mk_err "seg" "1" line1] else [] in
  let line' := if lead then lstrip_ws line else line in
  let e2 := match rev line' with
            | c :: _ => if Ascii.eqb c (ele_term d) then [mk_err "seg" "SEG1" line1] else []
            | [] => []
            end in
  let s := parse_seg d line' in
  do r <- reader_step d x s;
  let (x', e3) := r in
  Ok (x', s, e1 ++ e2 ++ e3).

(* X12Reader.cleanup: loops in Python order (outermost first) *)
Definition cleanup (x : xstate) : list err :=
  flat_map (fun lp => if str_eqb (fst lp) (l "ST") then [mk_err "st" "2" None]
                      else if str_eqb (fst lp) (l "GS") then [mk_err "gs" "3" None]
                      else if str_eqb (fst lp) (l "ISA") then [mk_err "isa" "023" None]
                      else []) (rev (loops x)).

(* a line of nothing but blanks is not a segment: its leading-space error is
   recorded and iteration goes on (cur_line is not advanced) *)
Definition reader_line_opt (d : delims) (x : xstate) (line : str) : result (xstate * option seg * list err) :=
  let lead := match line with c :: _ => Ascii.eqb c " "%char | [] => false end in
  if lead && match lstrip_ws line with [] => true | _ => false end
  then Ok (x, None, [mk_err "seg" "1" (Some (cur_line x + 1)%Z)])
  else do r <- reader_line d x line;
       match r with (x', s, es) => Ok (x', Some s, es) end.

(* iterate over raw lines; stops at the first exception.  `pending` are errors
   recorded since the last yielded segment (pop_errors returns them with the next one) *)
Fixpoint read_lines (d : delims) (x : xstate) (pending : list err) (lines : list str)
  : list (seg * list err) * result (xstate * list err) :=
  match lines with
  | [] => ([], Ok (x, pending))
  | ln :: rest =>
      match reader_line_opt d x ln with
      | Raise e => ([], Raise e)
      | Ok (x', None, es) => read_lines d x' (pending ++ es) rest
      | Ok (x', Some s, es) =>
          let (out, fin) := read_lines d x' [] rest in ((s, pending ++ es) :: out, fin)
      end
  end.

Definition delims_of (r : rawst) : delims :=
  {| seg_term := r_seg_term r; ele_term := r_ele_term r; subele_term := r_subele_term r |}.

(* X12Reader(stream) iterated to the end, then cleanup() *)
Definition read_all (lx : bool) (st : stream)
  : result (rawst * list (seg * list err) * result (list err)) :=
  do ra <- raw_all st;
  let (r, lines) := ra in
  let d := delims_of r in
  let x0 := {| loops := []; hl_stack := []; gs_count := 0; st_count := 0; hl_count := 0; seg_count := 0; cur_line := 0;
               isa_ids := []; gs_ids := []; st_ids := []; lx_count := 0; check_837_lx := lx |} in
  let (out, fin) := read_lines d x0 [] lines in
  Ok (r, out, match fin with Ok (x, pending) => Ok (pending ++ cleanup x) | Raise e => Raise e end).
