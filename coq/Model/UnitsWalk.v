(* UnitsWalk.v — correspondence entry points of the walker and of the
   validation driver (harness/walk_impl.py prints the same text from the real
   objects).

   unit_walk  [map; exclude; charset; then one or more of: "@"; start; { dl; text; seg_count; cur_line; ls }...]
       map      file name of the map (in the environment)
       "@"      starts a sequence with a fresh walk_tree(); sequences are separated by a line "--"
       start    node reference "i.j.k" of the start node ("" = the map root)
       dl       the three delimiters of the segment; text: the segment text
       ls       "N" or "S"<ls_id>
     folds walk over the segments: the returned node is the next start node (the old
     one is kept when None is returned or an exception is raised; the walker object
     keeps whatever state it had reached).  One line per segment:
         <node>|<pop>|<push>|<events>      node = N | S<ref>; pop/push = refs joined by ','
         !Exn|<events>                     events sent before the raise
     events joined by '&':
         A,<node info>,<segment>,<seg_count>,<cur_line>,<ls>      add_seg
         E,<code>,<hex msg>,<value>                               seg_error
     and a last line  C:<counter entries path=count joined by ','>|M:<len(mandatory_segs_missing)>

   unit_document  [charset; exclude; names; doc*]
       names    comma separated map file names loaded once and shared by the documents
                (load_map_file is a function of name and parameters; any other name is
                loaded on demand)
     per document: one line per call on the error handler, then V:T / V:F or !Exn;
     documents separated by a line "--".
         I|G|T,<segment>,<src>                 add_isa_loop / add_gs_loop / add_st_loop
         S,<node info>,<segment>,<seg_count>,<cur_line>,<ls>      add_seg
         L,<data_ele>,<name>,<seq>,<parent is composite>,<parent seq>   add_ele
         i|g|t,<code>,<hex msg>                isa_error / gs_error / st_error
         s,<code>,<hex msg>,<value>,<src_line> seg_error
         e,<code>,<hex msg>,<value>,<refdes>   ele_error
         X|Y|Z,<node info>,<segment>,<src>     close_isa_loop / close_gs_loop / close_st_loop
     <segment> = hex(delims)/<struct as Units.show_seg_struct>; <node info> = N | S<name>:<pos>;
     <src> = isa_id,gs_id,st_id,cur_line,st_count *)
From Coq Require Import String.
From PX.Lib Require Import Base PyStr PyInt Regex Xml.
From PX.Model Require Import Show Path Segment Reader MapLoad MapTree Element Counter Walker MapEnv Driver Units.
From PX.Model Require Errh.

Definition AMP : ascii := "&"%char.
Definition NLc : ascii := ascii_of_nat 10.

Definition show_os (o : option str) : str := show_opt show_hex o.
Definition show_oz (o : option Z) : str := show_opt show_Z o.

Definition show_ref (r : nref) : str := sep DOTC (map show_nat r).
Definition read_ref (a : str) : nref := match a with [] => [] | _ => map arg_nat (split DOTC a) end.

Definition show_xsg (x : xsg) : str :=
  show_hex [seg_term (xg_d x); ele_term (xg_d x); subele_term (xg_d x)] ++ SLASH :: show_seg_struct (xg_s x).

Definition show_ninfo (i : ninfo) : str := show_os (n_name i) ++ COLON :: show_Z (n_pos i).

Definition show_wev (e : wev) : str :=
  match e with
  | WAddSeg mn x sc cl ls =>
      sep COMMA [sl "A"; show_opt show_ninfo mn; show_xsg x; show_Z sc; show_Z cl; show_os ls]
  | WSegErr c m v => sep COMMA [sl "E"; c; show_hex m; show_os v]
  end.

Definition read_Z (s : str) : Z :=
  match s with
  | c :: r => if Ascii.eqb c "-"%char then (- Z.of_N (dec_val r))%Z else Z.of_N (dec_val s)
  | [] => 0%Z
  end.
Definition read_os (s : str) : option str :=
  match s with
  | c :: r => if Ascii.eqb c "S"%char then Some r else None
  | [] => None
  end.

Definition show_counter (c : counter) : str :=
  sep COMMA (map (fun kv => show_hex (format_path (fst kv)) ++ sl "=" ++ show_Z (snd kv)) c).

Definition show_final (w : wstate) : str :=
  sl "C:" ++ show_counter (w_counter w) ++ sl "|M:" ++ show_nat (length (w_missing w)).

(* "@" start : a new sequence (fresh walker) *)
Fixpoint walk_steps (m : xmap) (w : wstate) (node : nref) (args : list str) : list str :=
  match args with
  | [] => [show_final w]
  | a :: rest0 =>
      if str_eqb a (sl "@") then
        match rest0 with
        | start :: rest => show_final w :: sl "--" :: walk_steps m wstate_init (read_ref start) rest
        | [] => [show_final w]
        end
      else
        match rest0 with
        | text :: sc :: cl :: ls :: rest =>
            let d := mk_delims a in
            match walk_st m w node d (parse_seg d text) (read_Z sc) (read_Z cl) (read_os ls) with
            | (w', evs, res) =>
                let evtxt := sep AMP (map show_wev evs) in
                match res with
                | Ok (n, pop, push) =>
                    sep BAR [show_opt show_ref n; sep COMMA (map show_ref pop); sep COMMA (map show_ref push); evtxt]
                    :: walk_steps m w' (match n with Some r => r | None => node end) rest
                | Raise e => sep BAR [show_exn e; evtxt] :: walk_steps m w' node rest
                end
            end
        | _ => [show_final w]
        end
  end.

Definition unit_walk (e : menv) (args : list str) : str :=
  match args with
  | name :: exclude :: charset :: at_ :: start :: steps =>
      match load_named e name exclude charset with
      | Raise x => show_exn x
      | Ok m => join NLc (walk_steps m wstate_init (read_ref start) steps)
      end
  | _ => sl "?args"
  end.

(* ---- document ---- *)
Definition show_src (s : Errh.src_info) : str :=
  sep COMMA [show_os (Errh.src_isa_id s); show_os (Errh.src_gs_id s); show_os (Errh.src_st_id s);
             show_oz (Errh.src_line s); show_Z (Errh.src_st_count s)].

Definition show_dev (ev : dev) : str :=
  match ev with
  | DAddIsa x src => sep COMMA [sl "I"; show_xsg x; show_src src]
  | DAddGs x src => sep COMMA [sl "G"; show_xsg x; show_src src]
  | DAddSt x src => sep COMMA [sl "T"; show_xsg x; show_src src]
  | DAddSeg mn x sc cl ls => sep COMMA [sl "S"; show_opt show_ninfo mn; show_xsg x; show_Z sc; show_Z cl; show_os ls]
  | DAddEle i => sep COMMA [sl "L"; show_os (ei_data_ele i); show_os (ei_name i); show_Z (ei_seq i);
                            show_bool (ei_parent_is_composite i); show_Z (ei_parent_seq i)]
  | DIsaErr c m => sep COMMA [sl "i"; c; show_hex m]
  | DGsErr c m => sep COMMA [sl "g"; c; show_hex m]
  | DStErr c m => sep COMMA [sl "t"; c; show_hex m]
  | DSegErr c m v ln => sep COMMA [sl "s"; c; show_hex m; show_os v; show_oz ln]
  | DEleErr c m v rd => sep COMMA [sl "e"; c; show_hex m; show_os v; show_os rd]
  | DCloseIsa i x src => sep COMMA [sl "X"; show_ninfo i; show_xsg x; show_src src]
  | DCloseGs i x src => sep COMMA [sl "Y"; show_ninfo i; show_xsg x; show_src src]
  | DCloseSt i x src => sep COMMA [sl "Z"; show_ninfo i; show_xsg x; show_src src]
  end.

Definition show_run (r : list dev * result bool) : str :=
  join NLc (map show_dev (fst r) ++ [match snd r with Ok b => sl "V:" ++ show_bool b | Raise x => show_exn x end]).

Fixpoint assoc_map (c : list (str * result xmap)) (n : str) : option (result xmap) :=
  match c with
  | [] => None
  | (k, v) :: rest => if str_eqb k n then Some v else assoc_map rest n
  end.

Fixpoint intersperse (x : str) (xs : list str) : list str :=
  match xs with
  | [] => []
  | [a] => [a]
  | a :: r => a :: x :: intersperse x r
  end.

Definition unit_document (e : menv) (args : list str) : str :=
  match args with
  | charset :: exclude :: names :: docs =>
      let cache := map (fun n => (n, load_named e n exclude charset))
                       (match names with [] => [] | _ => split COMMA names end) in
      let load := fun n => match assoc_map cache n with Some r => r | None => load_named e n exclude charset end in
      let idx := env_index e in
      join NLc (intersperse (sl "--") (map (fun doc => show_run (run_document_gen load idx doc)) docs))
  | _ => sl "?args"
  end.
