(* UnitsCtx.v — correspondence entry points of the x12context model
   (harness/ctx_impl.py prints the same text from the real objects).

   unit_ctxiter [charset; exclude; names; { loop_id; text }*]
       names     comma separated map file names loaded once and shared by the documents
       loop_id   "" = None
     per document (documents separated by a line "--"): for every node yielded by
     iter_segments(loop_id), in order:
         Y <kind>                       kind = S (segment node) | L (loop tree)
         <dump of the node>             one line per object, preorder along `children` (see below)
         i ...                          one line per item of node.iterate_segments() (see below)
     then  END  or  !Exn  (the exception that ended the iteration); the first line is
         D <hex of seg_term ele_term subele_term>      the reader's properties of that name
     and the last  C <cur_seg_count> <get_cur_line>    (both only when __init__ succeeded).

   unit_ctxapi [charset; exclude; names; { text; loop_id; index; op*; "--" }*]
       index     which yielded node (0-based, all yields counted) becomes register 0; the
                 iteration stops there.  If the iteration ends or raises before, the case prints
                 one line: NOITEM or !Exn.
       op        the name, then its arguments as separate arguments of the unit (the number is fixed
                 per op: op_arity).  8 registers (0-7) hold what a Python variable would hold: a node,
                 None, or a list (a `parent` that is a list).
     per case (cases separated by a line "--"): one line per op with its result, then for every
     register that is not None a dump:  R<i>=...
       ops and results
         get r path                  S<hex value> | N | !Exn
         set r path val              ok
         exists r path               T | F
         count r path                <n>
         select r path d k           locations joined by ',' (then !Exn if the iteration raised);
                                     k = "-" or an index: that element (if any) goes to register d
         first r path d              location | N; the result goes to register d
         gfms r path                 S<segment> | N           get_first_matching_segment
         addseg r kind text d        location of the new node       kind: S = string, O<dl> = Segment object
         addloop r kind text d       location of the new loop             with delimiters dl, N = None, I = 7
         addnode r r2                ok
         delseg r kind text          T | F
         delnode r path              T | F
         delete r                    ok
         copy r d                    ok
         iter r                      items of iterate_segments joined by ';' (then !Exn)
         iterloop r                  items of iterate_loop_segments joined by ';' (then !Exn)
         segcount r / curline r      S<n> | N
         id r / curpath r            S<hex> | N
         errct r                     <n>
         parent r d / child r i d    ok          d := r.parent / r.children[i]
       every result can be !Exn instead.

   dump of a node: one line per object,
       <depth> <class L|S> <live T|F> <map node> <parent> <segment> <seg_count> <cur_line> <start_loops> <end_loops>
               <err_isa> <err_gs> <err_st> <err_seg>
     map node   N | S<hex map id>:<ref>          segment    N | S<hex delims>/<struct>
     parent     N | L[<map nodes>] | O<location>  location   <register>:<child indices i.j.k> of the first
                                                             occurrence in the registers' trees, or ?
   item of iterate_segments:  i <id> <hex path> <location of the node> <segment> <seg_count> <cur_line> *)
From Coq Require Import String.
From PX.Lib Require Import Base PyStr PyInt Regex Xml.
From PX.Model Require Import Show Path Segment Reader MapLoad MapTree Element Counter Walker MapEnv Driver Units UnitsWalk
                             Context CtxReader.

Definition SP : ascii := " "%char.

Definition show_mn (a : mnode) : str := show_os (m_id (mn_map a)) ++ COLON :: show_ref (mn_ref a).
Definition show_mns (ms : list mnode) : str := sep COMMA (map show_mn ms).

(* ---- locations ---- *)
Fixpoint locate_regs (h : heap) (i : nat) (rs : list pyref) (o : oid) : option (nat * list nat) :=
  match rs with
  | [] => None
  | RObj r :: rest => match locate_in (node_tree h r) o with
                      | Some p => Some (i, p)
                      | None => locate_regs h (S i) rest o
                      end
  | _ :: rest => locate_regs h (S i) rest o
  end.

Definition show_loc (h : heap) (rs : list pyref) (o : oid) : str :=
  match locate_regs h 0 rs o with
  | Some (i, p) => show_nat i ++ COLON :: show_ref p
  | None => sl "?"
  end.

Definition show_pyref (h : heap) (rs : list pyref) (p : pyref) : str :=
  match p with
  | RNone => sl "N"
  | RList ms => sl "L[" ++ show_mns ms ++ sl "]"
  | RObj o => "O"%char :: show_loc h rs o
  end.

Definition show_errs2 (es : list (str * str)) : str :=
  sep COMMA (map (fun e => fst e ++ SLASH :: show_hex (snd e)) es).
Definition show_errs3 (es : list (str * str * option str)) : str :=
  sep COMMA (map (fun e => fst (fst e) ++ SLASH :: show_hex (snd (fst e)) ++ SLASH :: show_os (snd e)) es).

Definition show_obj (h : heap) (rs : list pyref) (depth : nat) (x : dobj) : str :=
  sep SP [show_nat depth;
          match o_class x with CLoop => sl "L" | CSeg => sl "S" end;
          show_bool (o_live x);
          show_opt show_mn (o_map x);
          show_pyref h rs (o_parent x);
          show_opt show_xsg (option_map sd_x (o_seg x));
          show_oz (o_seg_count x); show_oz (o_cur_line x);
          show_mns (o_start x); show_mns (o_end x);
          show_errs2 (o_err_isa x); show_errs2 (o_err_gs x); show_errs2 (o_err_st x); show_errs3 (o_err_seg x)].

Fixpoint dump_tree (h : heap) (rs : list pyref) (depth : nat) (t : dtree) : list str :=
  match t with
  | DCut _ => [show_nat depth ++ sl " CUT"]
  | DNode _ x kids => show_obj h rs depth x :: flat_map (dump_tree h rs (S depth)) kids
  end.

Definition dump_node (h : heap) (rs : list pyref) (o : oid) : list str := dump_tree h rs 0 (node_tree h o).

Definition show_item (h : heap) (rs : list pyref) (it : seg_item) : str :=
  sep SP [sl "i"; show_os (it_id it); show_hex (format_path (it_path it)); show_loc h rs (it_node it);
          show_opt show_xsg (option_map sd_x (it_seg it)); show_oz (it_seg_count it); show_oz (it_cur_line it)].

Definition show_tail (e : option exn) : list str := match e with Some x => [show_exn x] | None => [] end.

(* ---- ctxiter ---- *)
Definition show_yield (y : heap * oid) : list str :=
  let (h, o) := y in
  let rs := [RObj o] in
  let kind := match h_get h o with
              | Ok x => match o_class x with CLoop => sl "L" | CSeg => sl "S" end
              | Raise _ => sl "?"
              end in
  let it := node_iterate_segments h o in
  (sl "Y " ++ kind) :: dump_node h rs o ++ map (show_item h rs) (fst it) ++ show_tail (snd it).

Definition show_iter (r : iter_result) : str :=
  join NLc ((match ir_delims r with
             | Some d => [sl "D " ++ show_hex [seg_term d; ele_term d; subele_term d]]
             | None => []
             end) ++
            flat_map show_yield (ir_yields r) ++
            [match ir_res r with Ok _ => sl "END" | Raise e => show_exn e end] ++
            (match ir_delims r with
             | Some _ => [sl "C " ++ show_Z (Reader.seg_count (ir_x r)) ++ SP :: show_Z (Reader.cur_line (ir_x r))]
             | None => []
             end)).

Definition opt_arg (s : str) : option str := match s with [] => None | _ => Some s end.

Definition mk_load (e : menv) (charset exclude names : str) : str -> result xmap :=
  let cache := map (fun n => (n, load_named e n exclude charset))
                   (match names with [] => [] | _ => split COMMA names end) in
  fun n => match assoc_map cache n with Some r => r | None => load_named e n exclude charset end.

Fixpoint iter_docs (load : str -> result xmap) (idx : result (list map_entry)) (args : list str) : list str :=
  match args with
  | lid :: text :: rest => show_iter (iter_segments_gen load idx (opt_arg lid) text) :: iter_docs load idx rest
  | _ => []
  end.

Definition unit_ctxiter (e : menv) (args : list str) : str :=
  match args with
  | charset :: exclude :: names :: docs =>
      join NLc (intersperse (sl "--") (iter_docs (mk_load e charset exclude names) (env_index e) docs))
  | _ => sl "?args"
  end.

(* ---- ctxapi ---- *)
Record ast := { a_heap : heap; a_regs : list pyref }.

Definition reg_get (s : ast) (i : nat) : pyref := nth i (a_regs s) RNone.
Definition reg_set (s : ast) (i : nat) (v : pyref) : ast := {| a_heap := a_heap s; a_regs := set_nth (a_regs s) i v |}.
Definition with_heap (s : ast) (h : heap) : ast := {| a_heap := h; a_regs := a_regs s |}.

(* a method call on what the register holds: None and a list have no such attribute *)
Definition reg_obj (s : ast) (i : nat) : result oid :=
  match reg_get s i with RObj o => Ok o | _ => Raise AttributeError end.

Definition read_segarg (kind text : str) : segarg :=
  match kind with
  | c :: dl =>
      if Ascii.eqb c "S"%char then ArgStr text
      else if Ascii.eqb c "O"%char then let d := mk_delims dl in ArgObj {| xg_d := d; xg_s := parse_seg d text |}
      else if Ascii.eqb c "N"%char then ArgNone
      else ArgInt
  | [] => ArgInt
  end.

Definition show_res {A} (f : A -> str) (r : result A) : str := show_result f r.

(* run a writer: the store that comes out is kept whether or not it raised *)
Definition run_h {A} (s : ast) (m : result (H A)) : ast * result A :=
  match m with
  | Raise e => (s, Raise e)
  | Ok c => match c (a_heap s) with (h', r) => (with_heap s h', r) end
  end.

Definition show_gtrace {A} (c : ascii) (f : A -> str) (t : gtrace A) : str :=
  sep c (map f (fst t) ++ show_tail (snd t)).

Definition show_loop_item (h : heap) (rs : list pyref) (it : loop_item) : str :=
  match it with
  | LEnd i => sl "E" ++ show_os i
  | LStart i => sl "B" ++ show_os i
  | LSeg i n sg st en sc cl =>
      sep SP [sl "s"; show_os i; show_loc h rs n; show_opt show_xsg (option_map sd_x sg); show_mns st; show_mns en; show_oz sc; show_oz cl]
  end.

Definition is_dash (s : str) : bool := str_eqb s (sl "-").

(* number of fields of an op *)
Definition op_arity (name : str) : option nat :=
  let is (n : string) := str_eqb name (sl n) in
  if is "delete"%string || is "iter"%string || is "iterloop"%string || is "segcount"%string || is "curline"%string || is "id"%string || is "curpath"%string || is "errct"%string then Some 1
  else if is "get"%string || is "exists"%string || is "count"%string || is "gfms"%string || is "addnode"%string || is "delnode"%string || is "copy"%string || is "parent"%string then Some 2
  else if is "set"%string || is "first"%string || is "delseg"%string || is "child"%string then Some 3
  else if is "select"%string || is "addseg"%string || is "addloop"%string then Some 4
  else None.

Definition api_op (s : ast) (name : str) (fields : list str) : str * ast :=
  let h := a_heap s in
  let rs := a_regs s in
  let loc := show_loc h rs in
  let is (n : string) := str_eqb name (sl n) in
      match fields with
      | r :: rest =>
          let ri := arg_nat r in
          if is "get"%string then
            match rest with
            | [p] => (show_res (show_opt show_hex) (do o <- reg_obj s ri; node_get_value h o p), s)
            | _ => (sl "?op", s) end
          else if is "set"%string then
            match rest with
            | [p; v] => match run_h s (do o <- reg_obj s ri; Ok (node_set_value o p v)) with
                        | (s', res) => (show_res (fun _ => sl "ok") res, s') end
            | _ => (sl "?op", s) end
          else if is "exists"%string then
            match rest with
            | [p] => (show_res show_bool (do o <- reg_obj s ri; node_exists h o p), s)
            | _ => (sl "?op", s) end
          else if is "count"%string then
            match rest with
            | [p] => (show_res show_nat (do o <- reg_obj s ri; node_count h o p), s)
            | _ => (sl "?op", s) end
          else if is "select"%string then
            match rest with
            | [p; d; k] =>
                match reg_obj s ri with
                | Raise e => (show_exn e, s)
                | Ok o =>
                    let t := node_select h o p in
                    let s' := if is_dash k then s
                              else match snd t, nth_error (fst t) (arg_nat k) with
                                   | None, Some n => reg_set s (arg_nat d) (RObj n)
                                   | _, _ => s
                                   end in
                    (show_gtrace COMMA loc t, s')
                end
            | _ => (sl "?op", s) end
          else if is "first"%string then
            match rest with
            | [p; d] =>
                match (do o <- reg_obj s ri; node_first h o p) with
                | Raise e => (show_exn e, s)
                | Ok None => (sl "N", reg_set s (arg_nat d) RNone)
                | Ok (Some n) => (loc n, reg_set s (arg_nat d) (RObj n))
                end
            | _ => (sl "?op", s) end
          else if is "gfms"%string then
            match rest with
            | [p] => (show_res (show_opt show_xsg)
                        (do o <- reg_obj s ri;
                         do ow <- node_gfms h o p;
                         match ow with
                         | None => Ok None
                         | Some w => do x <- h_get h w; Ok (option_map sd_x (o_seg x))
                         end), s)
            | _ => (sl "?op", s) end
          else if is "addseg"%string || is "addloop"%string then
            match rest with
            | [kind; text; d] =>
                match run_h s (do o <- reg_obj s ri;
                               Ok (if is "addseg"%string then add_segment o (read_segarg kind text)
                                   else add_loop o (read_segarg kind text))) with
                | (s', Raise e) => (show_exn e, s')
                | (s', Ok n) => (show_loc (a_heap s') (a_regs s') n, reg_set s' (arg_nat d) (RObj n))
                end
            | _ => (sl "?op", s) end
          else if is "addnode"%string then
            match rest with
            | [r2] =>
                (* node.add_node(x): x = None or a list fails on x.x12_map_node *)
                match run_h s (do o <- reg_obj s ri;
                               Ok (doh _ <- loop_self o;
                                   match reg_get s (arg_nat r2) with
                                   | RObj o2 => add_node o o2
                                   | _ => h_raise AttributeError
                                   end)) with
                | (s', res) => (show_res (fun _ => sl "ok") res, s') end
            | _ => (sl "?op", s) end
          else if is "delseg"%string then
            match rest with
            | [kind; text] =>
                match run_h s (do o <- reg_obj s ri; Ok (delete_segment o (read_segarg kind text))) with
                | (s', res) => (show_res show_bool res, s') end
            | _ => (sl "?op", s) end
          else if is "delnode"%string then
            match rest with
            | [p] => match run_h s (do o <- reg_obj s ri; Ok (delete_node o p)) with
                     | (s', res) => (show_res show_bool res, s') end
            | _ => (sl "?op", s) end
          else if is "delete"%string then
            match run_h s (do o <- reg_obj s ri; Ok (node_delete o)) with
            | (s', res) => (show_res (fun _ => sl "ok") res, s') end
          else if is "copy"%string then
            match rest with
            | [d] => match run_h s (do o <- reg_obj s ri; Ok (copy_node o)) with
                     | (s', Raise e) => (show_exn e, s')
                     | (s', Ok n) => (sl "ok", reg_set s' (arg_nat d) (RObj n))
                     end
            | _ => (sl "?op", s) end
          else if is "iter"%string then
            match reg_obj s ri with
            | Raise e => (show_exn e, s)
            | Ok o => (show_gtrace SEMI (show_item h rs) (node_iterate_segments h o), s)
            end
          else if is "iterloop"%string then
            match reg_obj s ri with
            | Raise e => (show_exn e, s)
            | Ok o => (show_gtrace SEMI (show_loop_item h rs) (node_iterate_loop_segments h o), s)
            end
          else if is "segcount"%string then (show_res show_oz (do o <- reg_obj s ri; node_seg_count h o), s)
          else if is "curline"%string then (show_res show_oz (do o <- reg_obj s ri; node_cur_line h o), s)
          else if is "id"%string then (show_res show_os (do o <- reg_obj s ri; do x <- h_get h o; obj_id x), s)
          else if is "curpath"%string then
            (show_res (fun p => show_os (Some p)) (do o <- reg_obj s ri; do x <- h_get h o; obj_cur_path x), s)
          else if is "errct"%string then (show_res show_nat (do o <- reg_obj s ri; node_err_ct h o), s)
          else if is "parent"%string then
            match rest with
            | [d] => match (do o <- reg_obj s ri; do x <- h_get h o; Ok (o_parent x)) with
                     | Raise e => (show_exn e, s)
                     | Ok p => (sl "ok", reg_set s (arg_nat d) p)
                     end
            | _ => (sl "?op", s) end
          else if is "child"%string then
            match rest with
            | [i; d] => match (do o <- reg_obj s ri; do x <- h_get h o; do cs <- obj_children x; nth_res cs (arg_nat i)) with
                        | Raise e => (show_exn e, s)
                        | Ok c => (sl "ok", reg_set s (arg_nat d) (RObj c))
                        end
            | _ => (sl "?op", s) end
          else (sl "?op", s)
      | [] => (sl "?op", s)
      end.

(* the registers at the end: a node that already shows in the dump of an earlier register is
   printed as a reference to it *)
Definition final_dump (s : ast) : list str :=
  let h := a_heap s in
  let rs := a_regs s in
  flat_map (fun ir : nat * pyref =>
              let (i, r) := ir in
              let head := "R"%char :: show_nat i in
              match r with
              | RNone => []
              | RList ms => [head ++ sl "=L[" ++ show_mns ms ++ sl "]"]
              | RObj o =>
                  match locate_regs h 0 (firstn i rs) o with
                  | Some (j, p) => [head ++ sl "=@" ++ show_nat j ++ COLON :: show_ref p]
                  | None =>
                      let it := node_iterate_segments h o in
                      (head ++ sl ":") :: dump_node h rs o ++ map (show_item h rs) (fst it) ++ show_tail (snd it)
                  end
              end) (enumerate 0 rs).

(* the ops of one case: name, then as many fields as the op has; "--" ends the case.
   Fuel: every turn consumes at least one argument. *)
Fixpoint api_ops (fuel : nat) (s : ast) (args : list str) : list str * list str :=   (* (output lines, arguments after "--") *)
  match fuel with
  | 0 => (final_dump s, [])
  | S f =>
      match args with
      | [] => (final_dump s, [])
      | name :: rest =>
          if str_eqb name (sl "--") then (final_dump s, rest)
          else match op_arity name with
               | None => let (more, tail) := api_ops f s rest in (sl "?op" :: more, tail)
               | Some n =>
                   let (out, s') := api_op s name (firstn n rest) in
                   let (more, tail) := api_ops f s' (skipn n rest) in (out :: more, tail)
               end
      end
  end.

Fixpoint skip_case (fuel : nat) (args : list str) : list str :=
  match fuel with
  | 0 => []
  | S f =>
      match args with
      | [] => []
      | name :: rest =>
          if str_eqb name (sl "--") then rest
          else match op_arity name with
               | None => skip_case f rest
               | Some n => skip_case f (skipn n rest)
               end
      end
  end.

(* Fuel: every case consumes at least the three leading arguments. *)
Fixpoint api_cases (fuel : nat) (load : str -> result xmap) (idx : result (list map_entry)) (args : list str) : list str :=
  match fuel with
  | 0 => []
  | S f =>
      match args with
      | text :: lid :: index :: ops =>
          let r := iter_segments_gen load idx (opt_arg lid) text in
          let ys := ir_yields r in
          let res := ir_res r in
          match nth_error ys (arg_nat index) with
          | Some (h, o) =>
              let s0 := {| a_heap := h; a_regs := RObj o :: repeat RNone 7 |} in
              let (out, tail) := api_ops (length ops) s0 ops in
              join NLc out :: api_cases f load idx tail
          | None =>
              (match res with Ok _ => sl "NOITEM" | Raise e => show_exn e end) :: api_cases f load idx (skip_case (length ops) ops)
          end
      | _ => []
      end
  end.

Definition unit_ctxapi (e : menv) (args : list str) : str :=
  match args with
  | charset :: exclude :: names :: cases =>
      join NLc (intersperse (sl "--") (api_cases (length cases) (mk_load e charset exclude names) (env_index e) cases))
  | _ => sl "?args"
  end.
