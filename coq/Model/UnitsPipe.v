(* UnitsPipe.v — correspondence entry point of the whole-document model
   (Pipeline.v); harness/pipe_impl.py prints the same text from the real
   pyx12.x12n_document.x12n_document run with io.StringIO sinks.

   unit_pipeline [charset; exclude; names; clock; htime; dtd; then per document: mask; text]
       names    comma separated map file names loaded once and shared by the documents
                (as unit_document; any other name is loaded on demand)
       clock    ymd6 US hm US ymd8 US hms US rand      (UnitsErrh.mk_clock)
       htime    what time.strftime('%m/%d/%Y %H:%M:%S') returns to html.header();
                "" = derived from the clock (Pipeline.html_time_of): this is run_pipeline itself
       dtd      param 'simple_dtd' ("" = None)
       mask     three characters: 'A' or '-' (fd_997), 'H' or '-' (fd_html), 'X' or '-' (fd_xmldoc)
     per document four lines, documents separated by a line "--":
         V:T | V:F | !Exn            the verdict, or the exception that escapes
         A:<hex of everything written to fd_997>
         H:<hex ... fd_html>
         X:<hex ... fd_xmldoc> *)
From Coq Require Import String.
From PX.Lib Require Import Base PyStr PyInt Regex Xml.
From PX.Model Require Import Show MapLoad MapEnv Driver Pipeline.
From PX.Model Require UnitsErrh UnitsWalk.

Definition mask_of (m : str) : sinks :=
  match m with
  | [a; h; x] => {| want_ack := Ascii.eqb a "A"%char; want_html := Ascii.eqb h "H"%char; want_xml := Ascii.eqb x "X"%char |}
  | _ => {| want_ack := false; want_html := false; want_xml := false |}
  end.

Definition show_outputs (o : outputs) : str :=
  join UnitsWalk.NLc [match o_result o with Ok b => sl "V:" ++ show_bool b | Raise x => show_exn x end;
                      sl "A:" ++ show_hex (o_ack o); sl "H:" ++ show_hex (o_html o); sl "X:" ++ show_hex (o_xml o)].

Fixpoint pipe_docs (run : sinks -> str -> outputs) (args : list str) : list str :=
  match args with
  | mask :: text :: rest => show_outputs (run (mask_of mask) text) :: pipe_docs run rest
  | _ => []
  end.

Definition unit_pipeline (e : menv) (args : list str) : str :=
  match args with
  | charset :: exclude :: names :: ck :: htime :: dtd :: docs =>
      let cache := map (fun n => (n, load_named e n exclude charset))
                       (match names with [] => [] | _ => split UnitsErrh.COMMA names end) in
      let load := fun n => match UnitsWalk.assoc_map cache n with Some r => r | None => load_named e n exclude charset end in
      let clk := UnitsErrh.mk_clock ck in
      let ht := match htime with [] => html_time_of clk | _ => htime end in
      let od := match dtd with [] => None | _ => Some dtd end in
      join UnitsWalk.NLc (UnitsWalk.intersperse (sl "--")
                            (pipe_docs (fun sk text => run_pipeline_gen load (env_index e) clk ht od sk text) docs))
  | _ => sl "?args"
  end.
