(* XmlIn.v — hand model of pyx12/xmlx12_simple.py (convert, get_segment) on an
   element tree as xml.etree.ElementTree presents it (Lib/Xml.v; the harness
   parses the XML text with ElementTree and ships the tree, every node with
   its own `text`).  The segments are written through the X12Writer model
   (Writer.v) built as X12Writer(fd_out, '~', '*', ':', '\n', '^').
   NOTE: convert() never calls wr.Close(): loops still open at the end of the
   document get no trailers. *)
From Coq Require Import String.
From PX.Lib Require Import Base PyStr Xml.
From PX.Model Require Import Path Segment Raw Reader Writer OutW.

Local Definition l (s : string) : str := list_ascii_of_string s.

(* the delimiters get_segment builds every Segment with, and the writer's *)
Definition XD : delims := {| seg_term := "~"%char; ele_term := "*"%char; subele_term := ":"%char |}.

(* tree.iter(): the node and all its descendants, document order (fuel = nesting depth) *)
Fixpoint iter_all (fuel : nat) (e : xml) : list xml :=
  match fuel with
  | 0 => []
  | S f => e :: flat_map (iter_all f) (x_children e)
  end.
Definition x_iter_all (e : xml) : list xml := iter_all 70 e.

Definition tag_is (e : xml) (t : string) : bool := str_eqb (x_tag e) (l t).

(* Segment(seg_str, '~', '*', ':') where seg_str may be None (segment.py:Segment.__init__: None and '' give an
   empty segment without id; anything else is PARSED: an id attribute such as "REF*A" yields elements) *)
Definition segment_of (seg_str : option str) : seg :=
  match seg_str with
  | None => {| sid := None; els := [] |}
  | Some t => parse_seg XD t
  end.

(* Segment.set(ref_des, val) where either may be None (segment.py:Segment.set):
   - X12Path(None): `path_str[0]` on None is a TypeError;
   - ele_idx None: `len(self.elements) <= None` is a TypeError;
   - val None: Composite(None, ...) raises EngineError('Element string is None') (element or ISA16 assignment),
     while Element(None) stores '' (sub-element assignment). *)
Definition seg_set_opt (s : seg) (ref_des : option str) (val : option str) : result seg :=
  match ref_des with
  | None => Raise TypeError
  | Some rd =>
      do ix <- parse_refdes s rd;
      match val with
      | Some v => set_ix XD s ix v
      | None =>
          match fst ix with
          | None => Raise TypeError
          | Some ei =>
              if (opt_eqb str_eqb (sid s) (Some (l "ISA")) && (ei =? 15)%Z) then Raise EngineError
              else match snd ix with
                   | None => Raise EngineError
                   | Some _ => set_ix XD s ix []
                   end
          end
      end
  end.

(* get_segment, lines 49-53: the 'subele' children of a 'comp' node *)
Fixpoint set_subeles (s : seg) (subs : list xml) : result seg :=
  match subs with
  | [] => Ok s
  | sub :: rest =>
      do s' <- (match x_text sub with
                | Some (c :: r) => seg_set_opt s (x_get sub "id") (Some (c :: r))    (* not None and != '' *)
                | _ => Ok s
                end);
      set_subeles s' rest
  end.

(* get_segment, lines 44-53: one node of cSegment.iter() *)
Definition apply_node (s : seg) (node : xml) : result seg :=
  if tag_is node "ele" then
    (* `if node.text != ''`: None passes the test *)
    match x_text node with
    | Some [] => Ok s
    | t => seg_set_opt s (x_get node "id") t
    end
  else if tag_is node "comp" then set_subeles s (x_findall node "subele")
  else Ok s.

Fixpoint apply_nodes (s : seg) (nodes : list xml) : result seg :=
  match nodes with
  | [] => Ok s
  | n :: rest => do s' <- apply_node s n; apply_nodes s' rest
  end.

(* get_segment (38-55) *)
Definition get_segment (cSegment : xml) : result seg :=
  apply_nodes (segment_of (x_get cSegment "id")) (x_iter_all cSegment).

(* wr.Write(seg) *)
Definition do_write (sg : seg) : W wstate unit :=
  fun w => match Writer.w_write w XD sg with
           | Ok (w', out) => (w', out, Ok tt)
           | Raise e => (w, [], Raise e)
           end.

(* X12Writer(fd_out, '~', '*', ':', '\n', '^') *)
Definition convert_writer : wstate := w_init XD (l "^") [ascii_of_nat 10].

(* convert (21-35): every node of doc.iter() whose tag is 'seg', nested ones included *)
Definition convert (doc : xml) : W wstate unit :=
  w_iter (fun node => if tag_is node "seg"
                      then dow sg <- w_lift (get_segment node); do_write sg
                      else w_ret tt)
         (x_iter_all doc).
