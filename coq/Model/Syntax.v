(* Syntax.v — hand model of pyx12/syntax.py:is_syntax_valid and
   map_if.py:segment_if._split_syntax, plus the syntax loop of
   segment_if.is_valid (which error code a violated note raises). *)
From Coq Require Import String.
From PX.Lib Require Import Base PyStr PyInt.
From PX.Model Require Import Path Segment.

Local Definition l (s : string) : str := list_ascii_of_string s.

(* `_val = seg_data.get_value('{:02d}'.format(s)); len(seg_data) >= s and _val != ''` *)
Definition present (d : delims) (sg : seg) (i : N) : result bool :=
  do v <- seg_get_value d sg (fmt_02 i);
  Ok ((i <=? N.of_nat (seg_len sg))%N && match v with Some [] => false | _ => true end).

Fixpoint count_present (d : delims) (sg : seg) (idxs : list N) : result nat :=
  match idxs with
  | [] => Ok 0
  | i :: rest =>
      do b <- present d sg i;
      do n <- count_present d sg rest;
      Ok (if b then S n else n)
  end.

(* `len(seg_data) >= idx0 and seg_data.get_value('%02i' % idx0) != ''` (short-circuit) *)
Definition first_present (d : delims) (sg : seg) (i : N) : result bool :=
  if (i <=? N.of_nat (seg_len sg))%N then
    do v <- seg_get_value d sg (fmt_02 i);
    Ok match v with Some [] => false | _ => true end
  else Ok false.

(* syntax.py:is_syntax_valid — the boolean of the returned pair *)
Definition is_syntax_valid (d : delims) (sg : seg) (code : ascii) (idxs : list N) : result bool :=
  if length idxs <? 2 then Ok false
  else if Ascii.eqb code "P"%char then
    do c <- count_present d sg idxs; Ok (negb (negb (c =? 0) && negb (c =? length idxs)))
  else if Ascii.eqb code "R"%char then
    do c <- count_present d sg idxs; Ok (negb (c =? 0))
  else if Ascii.eqb code "E"%char then
    do c <- count_present d sg idxs; Ok (negb (1 <? c))
  else if Ascii.eqb code "C"%char then
    match idxs with
    | i0 :: rest =>
        do f <- first_present d sg i0;
        if f then do c <- count_present d sg rest; Ok (c =? length rest) else Ok true
    | [] => Ok false
    end
  else if Ascii.eqb code "L"%char then
    match idxs with
    | i0 :: rest =>
        do f <- first_present d sg i0;
        if f then do c <- count_present d sg rest; Ok (negb (c =? 0)) else Ok true
    | [] => Ok false
    end
  else Ok false.

(* map_if.py:_split_syntax *)
Fixpoint pairs (s : str) : list str :=
  match s with
  | a :: b :: s' => [a; b] :: pairs s'
  | _ => []
  end.

Fixpoint ints (ps : list str) : result (list Z) :=
  match ps with
  | [] => Ok []
  | p :: ps' =>
      match py_int p with
      | None => Raise ValueError
      | Some z => do r <- ints ps'; Ok (z :: r)
      end
  end.

Definition split_syntax (syntax : str) : result (option (ascii * list Z)) :=
  match syntax with
  | [] => Raise IndexError
  | c :: rest =>
      if mem_ascii c (l "PRCLE") then do r <- ints (pairs rest); Ok (Some (c, r))
      else Ok None
  end.

(* the syntax loop of segment_if.is_valid: one element error per violated note,
   code '10' for E and '2' otherwise *)
Fixpoint syntax_loop (d : delims) (sg : seg) (notes : list (ascii * list N)) : result (list str) :=
  match notes with
  | [] => Ok []
  | (code, idxs) :: rest =>
      do ok <- is_syntax_valid d sg code idxs;
      do more <- syntax_loop d sg rest;
      Ok (if ok then more else (if Ascii.eqb code "E"%char then l "10" else l "2") :: more)
  end.
