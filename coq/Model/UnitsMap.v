(* UnitsMap.v — correspondence entry points that need map data.  The driver
   keeps an environment of XML trees sent by the harness (`loadxml`), the same
   trees Gen/Maps transcribes. *)
From Coq Require Import String.
From PX.Lib Require Import Base PyStr PyInt Regex Xml XmlSer.
From PX.Gen Require Import MapRegexes.
From PX.Model Require Import Show Path Segment Syntax MapLoad MapTree Units.

Definition menv := list (str * xml).

Fixpoint env_get (e : menv) (name : str) : option xml :=
  match e with
  | [] => None
  | (n, x) :: rest => if str_eqb n name then Some x else env_get rest name
  end.

Definition env_add (e : menv) (name : str) (ser : str) : option menv :=
  match parse_xml_ser ser with
  | Some x => Some ((name, x) :: e)
  | None => None
  end.

(* load_map_file(name, param): exclude = param 'exclude_external_codes' ("" = None), charset *)
Definition load_named (e : menv) (name exclude charset : str) : result xmap :=
  match env_get e (sl "dataele.xml"), env_get e (sl "codes.xml"), env_get e name with
  | Some de, Some cd, Some root =>
      load_map map_regexes de cd (match exclude with [] => None | _ => Some exclude end) charset root
  | _, _, _ => Raise OtherError
  end.

Definition show_ostr (o : option str) : str := show_opt show_hex o.

Definition show_elem (e : elem) : str :=
  sep COMMA [sl "E"; show_ostr (e_id e); show_ostr (e_data_ele e); show_ostr (e_usage e); show_Z (e_seq e);
             show_ostr (e_path e); show_ostr (e_max_use e); show_ostr (e_res e); show_ostr (e_external e);
             sep DOTC (map show_ostr (e_codes e))].

Definition show_sub (c : sub) : list str :=
  match c with
  | SubE e => [show_elem e]
  | SubC c0 =>
      sep COMMA [sl "C"; show_ostr (c_id c0); show_ostr (c_refdes c0); show_ostr (c_data_ele c0); show_ostr (c_usage c0);
                 show_Z (c_seq c0); show_Z (c_repeat c0)] :: map show_elem (c_children c0)
  end.

Definition show_syntax (sy : ascii * list Z) : str := fst sy :: sep DOTC (map show_Z (snd sy)).

Fixpoint show_node (fuel : nat) (n : node) : list str :=
  match fuel with
  | 0 => []
  | S f =>
      match n with
      | NSeg sg =>
          sep COMMA [sl "S"; show_ostr (s_id sg); show_ostr (s_path sg); show_ostr (s_type sg); show_ostr (s_usage sg);
                     show_Z (s_pos sg); show_ostr (s_max_use sg); show_ostr (s_repeat sg); show_ostr (s_end_tag sg);
                     sep SEMI (map show_syntax (s_syntax sg))] :: flat_map show_sub (s_children sg)
      | NLoop i ty nm us ps rp pm =>
          sep COMMA [sl "L"; show_ostr i; show_ostr ty; show_ostr us; show_Z ps; show_ostr rp] ::
          flat_map (show_node f) (pm_nodes pm) ++ [sl "/L"]
      end
  end.

(* names are dumped separately (they are long) as a rolling checksum so that a change is still seen *)
Definition unit_mapdump (e : menv) (args : list str) : str :=
  match args with
  | [name; exclude; charset] =>
      show_result (fun m => sep BAR (sep COMMA [sl "M"; show_ostr (m_id m); show_ostr (m_icvn m)] ::
                                     flat_map (show_node 40) (root_nodes m)))
                  (load_named e name exclude charset)
  | _ => sl "?args"
  end.

Definition show_nref (r : nref) : str := sep DOTC (map show_nat r).

(* every node with its self-reported path *)
Definition unit_mappaths (e : menv) (args : list str) : str :=
  match args with
  | [name] =>
      show_result (fun m => sep BAR (map (fun ni => show_nref (ni_ref ni) ++ COLON :: show_result show_hex (ni_path ni))
                                         (all_infos m)))
                  (load_named e name [] (sl "B"))
  | _ => sl "?args"
  end.

(* getnodebypath / getnodebypath2 for a batch of paths: args = name, which (1|2), path... *)
Definition unit_getnode (e : menv) (args : list str) : str :=
  match args with
  | name :: which :: paths =>
      match load_named e name [] (sl "B") with
      | Raise x => show_exn x
      | Ok m =>
          sep BAR (map (fun p => show_result (show_opt show_nref)
                                   (if str_eqb which (sl "2") then map_getnodebypath2 m p else map_getnodebypath m p))
                       paths)
      end
  | _ => sl "?args"
  end.

(* map index: args = icvn, vriic, fic, tspc ("~" = None) ... repeated in groups of four *)
Definition none_arg (a : str) : option str := if str_eqb a (sl "~") then None else Some a.
Fixpoint index_queries (idx : list map_entry) (args : list str) : list str :=
  match args with
  | a :: b :: c :: d :: rest =>
      show_opt show_ostr (get_filename idx (none_arg a) (none_arg b) (none_arg c) (none_arg d)) :: index_queries idx rest
  | _ => []
  end.
Definition unit_mapindex (e : menv) (args : list str) : str :=
  match env_get e (sl "maps.xml") with
  | Some root => sep BAR (index_queries (load_index root) args)
  | None => sl "?nomaps"
  end.

Definition dispatch_env (e : menv) (unit : str) (args : list str) : str :=
  if str_eqb unit (sl "mapdump") then unit_mapdump e args
  else if str_eqb unit (sl "mappaths") then unit_mappaths e args
  else if str_eqb unit (sl "getnode") then unit_getnode e args
  else if str_eqb unit (sl "mapindex") then unit_mapindex e args
  else dispatch unit args.
