(* UnitsMap.v — correspondence entry points that need map data.  The driver
   keeps an environment of XML trees sent by the harness (`loadxml`), the same
   trees Gen/Maps transcribes. *)
From Coq Require Import String.
From PX.Lib Require Import Base PyStr PyInt Regex Xml XmlSer.
From PX.Gen Require Import MapRegexes.
From PX.Model Require Import Show Path Segment Syntax MapLoad MapTree Element Units.
From PX.Spec Require C15_link.
From PX.Model Require Export MapEnv.
From PX.Model Require UnitsOut UnitsWalk.
From PX.Model Require UnitsPipe.
From PX.Model Require UnitsCtx.


Definition show_ostr (o : option str) : str := show_opt show_hex o.

Definition show_elem (e : elem) : str :=
  sep COMMA [sl "E"; show_ostr (e_id e); show_ostr (e_data_ele e); show_ostr (e_usage e); show_Z (e_seq e);
             show_ostr (e_path e); show_ostr (e_max_use e); show_ostr (e_res e); show_ostr (e_external e);
             sep DOTC (map show_ostr (e_codes e))].

Definition show_sub (c : sub) : list str :=
  match c with
  | SubE e => [show_elem e]
  | SubC c0 =>
      sep COMMA [sl "C"; show_ostr (c_id c0); show_ostr (c_refdes c0); show_ostr (c_data_ele c0); show_ostr (c_usage c0);
                 show_Z (c_seq c0); show_Z (c_repeat c0)] :: map show_elem (c_children c0)
  end.

Definition show_syntax (sy : ascii * list Z) : str := fst sy :: sep DOTC (map show_Z (snd sy)).

Fixpoint show_node (fuel : nat) (n : node) : list str :=
  match fuel with
  | 0 => []
  | S f =>
      match n with
      | NSeg sg =>
          sep COMMA [sl "S"; show_ostr (s_id sg); show_ostr (s_path sg); show_ostr (s_type sg); show_ostr (s_usage sg);
                     show_Z (s_pos sg); show_ostr (s_max_use sg); show_ostr (s_repeat sg); show_ostr (s_end_tag sg);
                     sep SEMI (map show_syntax (s_syntax sg))] :: flat_map show_sub (s_children sg)
      | NLoop i ty nm us ps rp pm =>
          sep COMMA [sl "L"; show_ostr i; show_ostr ty; show_ostr us; show_Z ps; show_ostr rp] ::
          flat_map (show_node f) (pm_nodes pm) ++ [sl "/L"]
      end
  end.

(* names are dumped separately (they are long) as a rolling checksum so that a change is still seen *)
Definition unit_mapdump (e : menv) (args : list str) : str :=
  match args with
  | [name; exclude; charset] =>
      show_result (fun m => sep BAR (sep COMMA [sl "M"; show_ostr (m_id m); show_ostr (m_icvn m)] ::
                                     flat_map (show_node 40) (root_nodes m)))
                  (load_named e name exclude charset)
  | _ => sl "?args"
  end.

Definition show_nref (r : nref) : str := sep DOTC (map show_nat r).

(* every node with its self-reported path *)
Definition unit_mappaths (e : menv) (args : list str) : str :=
  match args with
  | [name] =>
      show_result (fun m => sep BAR (map (fun ni => show_nref (ni_ref ni) ++ COLON :: show_result show_hex (ni_path ni))
                                         (all_infos m)))
                  (load_named e name [] (sl "B"))
  | _ => sl "?args"
  end.

(* getnodebypath / getnodebypath2 for a batch of paths: args = name, which (1|2), path... *)
Definition unit_getnode (e : menv) (args : list str) : str :=
  match args with
  | name :: which :: paths =>
      match load_named e name [] (sl "B") with
      | Raise x => show_exn x
      | Ok m =>
          sep BAR (map (fun p => show_result (show_opt show_nref)
                                   (if str_eqb which (sl "2") then map_getnodebypath2 m p else map_getnodebypath m p))
                       paths)
      end
  | _ => sl "?args"
  end.

(* map index: args = icvn, vriic, fic, tspc ("~" = None) ... repeated in groups of four *)
Definition none_arg (a : str) : option str := if str_eqb a (sl "~") then None else Some a.
Fixpoint index_queries (idx : list map_entry) (args : list str) : list str :=
  match args with
  | a :: b :: c :: d :: rest =>
      show_opt show_ostr (get_filename idx (none_arg a) (none_arg b) (none_arg c) (none_arg d)) :: index_queries idx rest
  | _ => []
  end.
Definition unit_mapindex (e : menv) (args : list str) : str :=
  match env_get e (sl "maps.xml") with
  | Some root => sep BAR (index_queries (load_index root) args)
  | None => sl "?nomaps"
  end.

(* ---- element / composite / segment validation ---- *)
Definition show_hev (h : hev) : str :=
  match h with
  | HAddEle i => sep COMMA [sl "A"; show_ostr (ei_data_ele i); show_Z (ei_seq i); show_bool (ei_parent_is_composite i);
                            show_Z (ei_parent_seq i)]
  | HEleErr code msg v rd => sep COMMA [sl "E"; code; show_hex msg; show_ostr v; show_ostr rd]
  end.

Definition show_valid (r : result (bool * list hev)) : str :=
  show_result (fun p => sep BAR (show_bool (fst p) :: map show_hev (snd p))) r.

Definition parse_nref (a : str) : nref := match a with [] => [] | _ => map arg_nat (split DOTC a) end.

(* the node at a reference that goes into a segment: (segment node, child index, component index) *)
Definition seg_and_rest (m : xmap) (r : nref) : option (segm * list nat) :=
  (fix go (ns : list node) (r0 : nref) : option (segm * list nat) :=
     match r0 with
     | [] => None
     | i :: rest =>
         match nth_error ns i with
         | Some (NSeg sg) => Some (sg, rest)
         | Some (NLoop _ _ _ _ _ _ pm) => go (pm_nodes pm) rest
         | None => None
         end
     end) (root_nodes m) r.

(* args = map, exclude, charset, then per case: segment reference, delimiters, segment text *)
Fixpoint segvalid_cases (m : xmap) (args : list str) : list str :=
  match args with
  | r :: dl :: text :: rest =>
      (match seg_and_rest m (parse_nref r) with
       | Some (sn, []) => let d := mk_delims dl in show_valid (seg_is_valid d (ctx_of m) sn (parse_seg d text))
       | _ => sl "?ref"
       end) :: segvalid_cases m rest
  | _ => []
  end.

Definition unit_segvalid (e : menv) (args : list str) : str :=
  match args with
  | name :: exclude :: charset :: cases =>
      match load_named e name exclude charset with
      | Raise x => show_exn x
      | Ok m => join NL (segvalid_cases m cases)
      end
  | _ => sl "?args"
  end.

(* element-level: per case: node reference (into a segment, possibly into a composite), "N" (None) or "V"<components joined by US> *)
Fixpoint elevalid_cases (m : xmap) (args : list str) : list str :=
  match args with
  | r :: dv :: rest =>
      let d : edata := match dv with
                       | c :: body => if Ascii.eqb c "V"%char then Some (split US body) else None
                       | [] => None
                       end in
      (match seg_and_rest m (parse_nref r) with
       | Some (sn, [i]) =>
           match nth_error (s_children sn) i with
           | Some (SubE e0) => show_valid (elem_is_valid ":"%char (ctx_of m) e0 None d [])
           | Some (SubC c0) => show_valid (comp_is_valid ":"%char (ctx_of m) c0 d)
           | None => sl "?ref"
           end
       | Some (sn, [i; j]) =>
           match nth_error (s_children sn) i with
           | Some (SubC c0) => match nth_error (c_children c0) j with
                               | Some e0 => show_valid (elem_is_valid ":"%char (ctx_of m) e0 (Some (c_usage c0, c_seq c0)) d [])
                               | None => sl "?ref"
                               end
           | _ => sl "?ref"
           end
       | _ => sl "?ref"
       end) :: elevalid_cases m rest
  | _ => []
  end.

Definition unit_elevalid (e : menv) (args : list str) : str :=
  match args with
  | name :: exclude :: charset :: cases =>
      match load_named e name exclude charset with
      | Raise x => show_exn x
      | Ok m => join NL (elevalid_cases m cases)
      end
  | _ => sl "?args"
  end.

(* C15 oracle: per case: element reference, "N" or "V"<value>: the codes the definition implies *)
Fixpoint c15_cases (m : xmap) (args : list str) : list str :=
  match args with
  | r :: dv :: rest =>
      let v : option str := match dv with c :: body => if Ascii.eqb c "V"%char then Some body else None | [] => None end in
      (match seg_and_rest m (parse_nref r) with
       | Some (sn, [i]) =>
           match nth_error (s_children sn) i with
           | Some (SubE e0) => show_result (sep COMMA) (C15_link.implied_codes (ctx_of m) e0 None [] v)
           | _ => sl "?ref"
           end
       | Some (sn, [i; j]) =>
           match nth_error (s_children sn) i with
           | Some (SubC c0) => match nth_error (c_children c0) j with
                               | Some e0 => show_result (sep COMMA) (C15_link.implied_codes (ctx_of m) e0 (Some (c_usage c0, c_seq c0)) [] v)
                               | None => sl "?ref"
                               end
           | _ => sl "?ref"
           end
       | _ => sl "?ref"
       end) :: c15_cases m rest
  | _ => []
  end.

Definition unit_c15_spec (e : menv) (args : list str) : str :=
  match args with
  | name :: exclude :: charset :: cases =>
      match load_named e name exclude charset with
      | Raise x => show_exn x
      | Ok m => join NL (c15_cases m cases)
      end
  | _ => sl "?args"
  end.

Definition dispatch_env (e : menv) (unit : str) (args : list str) : str :=
  if str_eqb unit (sl "mapdump") then unit_mapdump e args
  else if str_eqb unit (sl "mappaths") then unit_mappaths e args
  else if str_eqb unit (sl "getnode") then unit_getnode e args
  else if str_eqb unit (sl "mapindex") then unit_mapindex e args
  else if str_eqb unit (sl "segvalid") then unit_segvalid e args
  else if str_eqb unit (sl "elevalid") then unit_elevalid e args
  else if str_eqb unit (sl "c15_spec") then unit_c15_spec e args
  else if str_eqb unit (sl "walk") then UnitsWalk.unit_walk e args
  else if str_eqb unit (sl "document") then UnitsWalk.unit_document e args
  else if str_eqb unit (sl "ctxiter") then UnitsCtx.unit_ctxiter e args
  else if str_eqb unit (sl "ctxapi") then UnitsCtx.unit_ctxapi e args
  else if str_eqb unit (sl "pipeline") then UnitsPipe.unit_pipeline e args
  else if str_eqb unit (sl "html") then UnitsOut.unit_html args
  else if str_eqb unit (sl "xmlout") then UnitsOut.unit_xmlout (fun name => load_named e name [] (sl "B")) args
  else if str_eqb unit (sl "xmlin") then UnitsOut.unit_xmlin args
  else dispatch unit args.
