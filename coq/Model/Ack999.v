(* Ack999.v — hand model of pyx12/error_999.py (error_999_visitor) run over an
   err_handler.  Everything is written through an X12Writer(fd, '~', '*', ':',
   '\n', '^') (Model/Writer.v), which supplies the SE / GE / IEA trailers and
   their counts.

   Since fix 45b72b1: visit_seg iterates sorted(set(errors)); __get_isa_errors returns the
   unique codes in first-seen order and visit_root_post uses element [0] as the TA1 note code. *)
From Coq Require Import String.
From PX.Lib Require Import Base PyStr PyInt.
From PX.Model Require Import Path Segment Reader Writer Errh Ack997.

Local Definition l (s : string) : str := list_ascii_of_string s.

Record v999 := {
  y_h : errh;
  y_out : list str;              (* every fd.write, in order *)
  y_wr : wstate;                 (* self.wr *)
  y_isa_ctl : option str;        (* isa_control_num *)
  y_gs_ctl : option str;         (* gs_control_num *)
  y_st_ctl : Z                   (* st_control_num *)
}.

Definition vriic : str := l "005010X231".

(* __init__ (34-51) *)
Definition v999_init (h : errh) : v999 :=
  {| y_h := h; y_out := []; y_wr := w_init D (l "^") [ascii_of_nat 10];
     y_isa_ctl := None; y_gs_ctl := None; y_st_ctl := 0 |}.

Definition set_y_h (v : v999) h : v999 :=
  {| y_h := h; y_out := y_out v; y_wr := y_wr v; y_isa_ctl := y_isa_ctl v; y_gs_ctl := y_gs_ctl v; y_st_ctl := y_st_ctl v |}.
Definition set_y_ctls (v : v999) ic gc : v999 :=
  {| y_h := y_h v; y_out := y_out v; y_wr := y_wr v; y_isa_ctl := ic; y_gs_ctl := gc; y_st_ctl := y_st_ctl v |}.
Definition set_y_st_ctl (v : v999) x : v999 :=
  {| y_h := y_h v; y_out := y_out v; y_wr := y_wr v; y_isa_ctl := y_isa_ctl v; y_gs_ctl := y_gs_ctl v; y_st_ctl := x |}.

Definition in_hy {A} (m : SE errh A) : SE v999 A :=
  fun v => let (h', r) := m (y_h v) in (set_y_h v h', r).

(* self.wr.Write(seg): whatever the writer emits for it (nothing is written when it raises) *)
Definition wr_write (s : seg) : SE v999 unit :=
  fun v => match w_write (y_wr v) D s with
           | Ok (w', lines) =>
               ({| y_h := y_h v; y_out := y_out v ++ lines; y_wr := w'; y_isa_ctl := y_isa_ctl v;
                   y_gs_ctl := y_gs_ctl v; y_st_ctl := y_st_ctl v |}, Ok tt)
           | Raise e => (v, Raise e)
           end.

(* visit_root_pre (54-96) *)
Definition visit_root_pre9 (ck : clock) : SE v999 unit :=
  dos v <- se_get;
  let h := y_h v in
  dos i <- deref (c_isa h);
  dos inode <- in_hy (get_isa i);
  let seg := in_seg inode in
  let ctl := skipn 1 (ck_ymd6 ck ++ ck_hm ck) in
  let gctl := fmt_Zi (ck_rand ck) in
  dos_ se_mod (fun v => set_y_ctls v (Some ctl) (Some gctl));
  dos icvn <- se_lift (xget seg "ISA12");
  dos isa_seg <- se_lift (
    let s := parse_seg D (l "ISA*00*          *00*          ") in
    do a <- xget seg "ISA07"; do s <- seg_set_opt s "05" a;
    do a <- xget seg "ISA08"; do s <- seg_set_opt s "06" a;
    do a <- xget seg "ISA05"; do s <- seg_set_opt s "07" a;
    do a <- xget seg "ISA06"; do s <- seg_set_opt s "08" a;
    do s <- seg_set_opt s "09" (Some (ck_ymd6 ck));
    do s <- seg_set_opt s "10" (Some (ck_hm ck));
    do s <- seg_set_opt s "11" (Some (l "^"));
    do s <- seg_set_opt s "12" icvn;
    do s <- seg_set_opt s "13" (Some ctl);
    do s <- seg_set_opt s "14" (Some (l "0"));
    do a <- xget seg "ISA15"; do s <- seg_set_opt s "15" a;
    seg_set_opt s "16" (Some [subele_term D]));
  dos_ wr_write isa_seg;
  dos g <- deref (c_gs h);
  dos gnode <- in_hy (get_gs g);
  let seg := gn_seg gnode in
  dos gs_seg <- se_lift (
    let s := parse_seg D (l "GS") in
    do s <- seg_set_opt s "01" (Some (l "FA"));
    do a <- xget seg "GS03"; do a <- rstrip_o a; do s <- seg_set_opt s "02" (Some a);
    do a <- xget seg "GS02"; do a <- rstrip_o a; do s <- seg_set_opt s "03" (Some a);
    do s <- seg_set_opt s "04" (Some (ck_ymd8 ck));
    do s <- seg_set_opt s "05" (Some (ck_hms ck));
    do s <- seg_set_opt s "06" (Some gctl);
    do a <- xget seg "GS07"; do s <- seg_set_opt s "07" a;
    seg_set_opt s "08" (Some vriic));
  wr_write gs_seg.

(* __get_isa_errors: unique codes, first occurrence kept, in list order *)
Definition dedup_first (xs : list str) : list str :=
  fold_left (fun acc x => if mem_str x acc then acc else acc ++ [x]) xs [].
Definition get_isa_errors9 (h : errh) (n : isa_node) : result (list str) :=
  do codes <- isa_err_codes h n;
  Ok (dedup_first codes).

(* visit_root_post (119-146) *)
Definition visit_root_post9 : SE v999 unit :=
  dos v <- se_get;
  dos ge <- se_lift (seg_set_opt (parse_seg D (l "GE")) "02" (y_gs_ctl v));
  dos_ wr_write ge;
  let h := y_h v in
  dos i <- deref (c_isa h);
  dos n <- in_hy (get_isa i);
  dos_ (if opt_eqb str_eqb (in_ta1 n) (Some (l "1")) then
          dos ta1 <- se_lift (
            let s := parse_seg D (l "TA1") in
            do s <- seg_append s (in_trn n);
            do s <- seg_append s (in_date n);
            do s <- seg_append s (in_time n);
            do codes <- get_isa_errors9 h n;
            match codes with
            | c :: _ => do s <- seg_append s (Some (l "R")); seg_append s (Some c)
            | [] => do s <- seg_append s (Some (l "A")); seg_append s (Some (l "000"))
            end);
          wr_write ta1
        else se_ret tt);
  wr_write (parse_seg D (l "IEA")).

(* visit_gs_pre (161-176) *)
Definition visit_gs_pre9 (n : gs_node) : SE v999 unit :=
  dos_ se_mod (fun v => set_y_st_ctl v (y_st_ctl v + 1)%Z);
  dos v <- se_get;
  dos st_seg <- se_lift (
    do s <- seg_set_opt (parse_seg D (l "ST*999")) "02" (Some (fmt_04 (y_st_ctl v)));
    seg_set_opt s "03" (Some vriic));
  dos_ wr_write st_seg;
  dos ak1 <- se_lift (
    do s <- seg_set_opt (parse_seg D (l "AK1")) "01" (gn_fic n);
    do s <- seg_set_opt s "02" (gn_ctl n);
    seg_set_opt s "03" (gn_vriic n));
  wr_write ak1.

(* __get_gs_errors (178-201) *)
Definition get_gs_errors9 (h : errh) (n : gs_node) : result (list str) :=
  do more <- element_codes (fun e msg =>
      if contains (l "GS") msg then
        (if dict_has gs_ele_err_map (en_pos e) then do c <- dict_get gs_ele_err_map (en_pos e); Ok [c] else Ok [l "1"])
      else if contains (l "GE") msg then
        (if dict_has ge_ele_err_map (en_pos e) then do c <- dict_get ge_ele_err_map (en_pos e); Ok [c] else Ok [l "1"])
      else Ok []) (ele_nodes h (gn_elements n));
  Ok (sorted_set (codes2 (gn_errors n) ++ more)).

(* visit_gs_post (203-232): the missing ack_code is WRITTEN to the node *)
Definition visit_gs_post9 (g : nat) : SE v999 unit :=
  dos n <- in_hy (get_gs g);
  dos_ (if negb (truthy_s (gn_ack n) && negb (gn_orig n =? 0)%Z && negb (gn_recv n =? 0)%Z)
        then (if negb (truthy_s (gn_ack n)) then in_hy (mod_gs g (fun n => gs_set_ack n (Some (l "R")))) else se_ret tt)
        else se_ret tt);
  dos n <- in_hy (get_gs g);
  dos v <- se_get;
  let h := y_h v in
  dos ak9 <- se_lift (
    do s <- seg_set_opt (parse_seg D (l "AK9")) "01" (gn_ack n);
    do s <- seg_set_opt s "02" (Some (fmt_Zi (gn_orig n)));
    do s <- seg_set_opt s "03" (Some (fmt_Zi (gn_recv n)));
    let count_ok := Z.max (gn_recv n - Z.of_nat (gs_count_failed_st h n)) 0 in
    do s <- seg_set_opt s "04" (Some (fmt_Zi count_ok));
    do codes <- get_gs_errors9 h n;
    fold_left (fun acc c => do s <- acc; seg_append s (Some c)) (firstn 5 codes) (Ok s));
  dos_ wr_write ak9;
  dos se <- se_lift (
    do s <- seg_append (parse_seg D (l "SE")) (Some (fmt_Zi 0));
    seg_append s (Some (fmt_04 (y_st_ctl v))));
  wr_write se.

(* visit_st_pre (234-251) *)
Definition visit_st_pre9 (n : st_node) : SE v999 unit :=
  match tn_id n, tn_ctl n with
  | Some id, Some ctl =>
      dos ak2 <- se_lift (
        do s <- seg_set_opt (parse_seg D (l "AK2")) "01" (Some id);
        do s <- seg_set_opt s "02" (Some (strip_ws ctl));
        match tn_vriic n with Some vr => seg_set_opt s "03" (Some vr) | None => Ok s end);   (* fix 53b77cf: AK203 omitted *)
      wr_write ak2
  | Some id, None =>                               (* an ST without ST02: (None or '').strip() *)
      dos ak2 <- se_lift (
        do s <- seg_set_opt (parse_seg D (l "AK2")) "01" (Some id);
        do s <- seg_set_opt s "02" (Some []);
        match tn_vriic n with Some vr => seg_set_opt s "03" (Some vr) | None => Ok s end);
      wr_write ak2
  | None, _ => se_raise EngineError
  end.

(* __get_st_errors (253-272) *)
Definition get_st_errors9 (h : errh) (n : st_node) : result (list str) :=
  let c5 := if 0 <? st_child_err_count h n then [l "5"] else [] in
  do more <- element_codes (fun e msg =>
      (* fix c6c17ae: positions without a set-level code contribute nothing *)
      if contains (l "ST") msg then (if dict_has st_ele_err_map (en_pos e) then do c <- dict_get st_ele_err_map (en_pos e); Ok [c] else Ok [])
      else if contains (l "SE") msg then (if dict_has se_ele_err_map (en_pos e) then do c <- dict_get se_ele_err_map (en_pos e); Ok [c] else Ok [])
      else Ok []) (ele_nodes h (tn_elements n));
  Ok (sorted_set (codes2 (tn_errors n) ++ c5 ++ more)).

(* visit_st_post (274-286) *)
Definition visit_st_post9 (t : nat) : SE v999 unit :=
  dos n <- in_hy (get_st t);
  dos v <- se_get;
  match tn_ack n with
  | None => se_raise EngineError
  | Some ack =>
      dos ik5 <- se_lift (
        do s <- seg_set_opt (parse_seg D (l "IK5")) "01" (Some ack);
        do codes <- get_st_errors9 (y_h v) n;
        fold_left (fun acc c => do s <- acc; seg_append s (Some c)) (firstn 5 codes) (Ok s));
      wr_write ik5
  end.

Definition valid_IK3_codes : list str :=
  map l ["1"; "2"; "3"; "4"; "5"; "6"; "7"; "8"; "I4"; "I6"; "I7"; "I8"; "I9"]%string.

(* visit_seg (288-317); set iteration in sorted order *)
Definition visit_seg9 (n : seg_node) : SE v999 unit :=
  dos v <- se_get;
  dos seg_str <- se_lift (
    do s <- seg_set_opt (parse_seg D (l "IK3")) "01" (sn_seg_id n);
    do c <- fmt_i (sn_seg_count n);
    do s <- seg_set_opt s "02" (Some c);
    do s <- (if truthy_s (sn_ls_id n) then seg_set_opt s "03" (sn_ls_id n) else Ok s);
    Ok (format_seg D s));
  let errors := seg_error_codes n in
  dos_ se_iter (fun cde =>
      if mem_str cde valid_IK3_codes then
        dos s <- se_lift (seg_set D (parse_seg D seg_str) (l "IK304") cde); wr_write s
      else se_ret tt) (sorted_set errors);
  if (0 <? seg_child_err_count (y_h v) n) && negb (mem_str (l "8") errors) then
    dos s <- se_lift (seg_set D (parse_seg D seg_str) (l "IK304") (l "8")); wr_write s
  else se_ret tt.

Definition valid_IK4_codes : list str :=
  map l ["1"; "2"; "3"; "4"; "5"; "6"; "7"; "8"; "9"; "10"; "12"; "13"; "I10"; "I11"; "I12"; "I13"; "I6"; "I9"]%string.

(* visit_ele (319-342); err_ele.repeat_pos is always None *)
Definition visit_ele9 (e : ele_node) : SE v999 unit :=
  dos seg_str <- se_lift (
    do s <- seg_set_opt (parse_seg D (l "IK4")) "01-1" (Some (fmt_Zi (en_pos e)));
    do s <- (if truthy_Z (en_subpos e)
             then seg_set_opt s "01-2" (Some (fmt_Zi (match en_subpos e with Some z => z | None => 0%Z end)))
             else Ok s);
    do s <- (if truthy_s (en_ref_num e) then seg_set_opt s "02" (en_ref_num e) else Ok s);
    Ok (format_seg D s));
  se_iter (fun er : err3 =>
      let cde := fst (fst er) in
      let bad := snd er in
      if mem_str cde valid_IK4_codes then
        dos s <- se_lift (
          do s <- seg_set D (parse_seg D seg_str) (l "IK403") cde;
          if truthy_s bad then seg_set D s (l "IK404") (show_s bad) else Ok s);
        wr_write s
      else se_ret tt) (en_errors e).

Definition accept_seg9 (k : nat) : SE v999 unit :=
  dos n <- in_hy (get_seg k);
  dos_ visit_seg9 n;
  se_iter (fun e => dos en <- in_hy (get_ele e); visit_ele9 en) (sn_elements n).

Definition accept_st9 (t : nat) : SE v999 unit :=
  dos n <- in_hy (get_st t);
  dos_ visit_st_pre9 n;
  dos_ se_iter accept_seg9 (tn_children n);
  visit_st_post9 t.

Definition accept_gs9 (g : nat) : SE v999 unit :=
  dos n <- in_hy (get_gs g);
  dos_ visit_gs_pre9 n;
  dos_ se_iter accept_st9 (gn_children n);
  visit_gs_post9 g.

Definition accept_isa9 (i : nat) : SE v999 unit :=
  dos n <- in_hy (get_isa i);
  se_iter accept_gs9 (in_children n).

Definition accept_root9 (ck : clock) : SE v999 unit :=
  dos_ visit_root_pre9 ck;
  dos v <- se_get;
  dos_ se_iter accept_isa9 (seq 0 (length (h_isa (y_h v))));
  visit_root_post9.

(* errh.accept(error_999_visitor(fd)) *)
Definition render_999 (ck : clock) (h : errh) : errh * list str * option exn :=
  let (v, r) := accept_root9 ck (v999_init h) in
  (y_h v, y_out v, match r with Ok _ => None | Raise e => Some e end).
