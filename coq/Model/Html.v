(* Html.v — hand model of pyx12/error_html.py: class error_html (header,
   footer, loop, gen_info, gen_seg, _seg_str, _wrap_ele_error) and the module
   functions seg_str and escape_html_chars, over the error-handler heap of
   Errh.v and the node references of ErrIter.v.

   `self.fd.write(x)` is one entry of the output list of the W monad (OutW.v);
   an exception keeps the writes already made.  What is passed in instead of
   objects:  errh -> the Errh.errh value;  seg_data -> xseg;  src -> cur_line;
   loop_node -> its (id, name, type);  time.strftime(...) -> a string. *)
From Coq Require Import String.
From PX.Lib Require Import Base PyStr.
From PX.Model Require Import Path Segment Errh ErrIter OutW.

Local Definition l (s : string) : str := list_ascii_of_string s.

(* '%s' % x for a str-or-None *)
Definition pct_s (o : option str) : str := match o with Some v => v | None => l "None" end.

(* sep.join(xs) for a string separator *)
Fixpoint join_s (sep : str) (xs : list str) : str :=
  match xs with
  | [] => []
  | [x] => x
  | x :: r => x ++ sep ++ join_s sep r
  end.

(* error_html.__init__ (27-45): term[0..2]; eol = '', last_line is never read *)
Record html_cfg := { hc_seg_term : str; hc_ele_term : str; hc_subele_term : str }.
Definition hc_eol : str := [].

(* the mutable part of the object: self.loop_info (None initially) *)
Record html_state := { loop_info : option str }.
Definition html_init : html_state := {| loop_info := None |}.

(* escape_html_chars (199-214): None stays None; the four replacements IN THIS ORDER *)
Definition escape_html_chars (str_val : option str) : option str :=
  match str_val with
  | None => None
  | Some v =>
      let o1 := replace (l "&") (l "&amp;") v in
      let o2 := replace (l " ") (l "&nbsp;") o1 in
      let o3 := replace (l ">") (l "&gt;") o2 in
      let o4 := replace (l "<") (l "&lt;") o3 in
      Some o4
  end.

(* escape_html_chars on a string that is not None *)
Definition esc (v : str) : str := match escape_html_chars (Some v) with Some o => o | None => [] end.

(* one entry of the list handed to seg_str: a string or a list of strings (None kept: join fails on it) *)
Inductive titem := TStr (v : option str) | TList (vs : list (option str)).

Fixpoint all_some (xs : list (option str)) : result (list str) :=
  match xs with
  | [] => Ok []
  | Some v :: r => do more <- all_some r; Ok (v :: more)
  | None :: _ => Raise TypeError          (* str.join: expected str instance, NoneType found *)
  end.

(* seg_str (171-196); the join evaluates the whole argument first *)
Fixpoint seg_str_items (subele_term : str) (seg : list titem) : result (list (option str)) :=
  match seg with
  | [] => Ok []
  | TList a :: r => do a' <- all_some a; do more <- seg_str_items subele_term r; Ok (Some (join_s subele_term a') :: more)
  | TStr a :: r => do more <- seg_str_items subele_term r; Ok (a :: more)
  end.
Definition seg_str (seg : list titem) (seg_term ele_term subele_term eol : str) : result str :=
  do tmp <- seg_str_items subele_term seg;
  do tmp' <- all_some tmp;
  Ok (join_s ele_term tmp' ++ seg_term ++ eol).

(* _seg_str: segment id and terminators escaped (fix f4fb690); escape_html_chars(None) is None and
   `None + ele_term` is evaluated before seg_str is called *)
Definition html_seg_str (c : html_cfg) (seg_id : option str) (ele_list : list titem) : result str :=
  match seg_id with
  | None => Raise TypeError
  | Some sid0 =>
      do body <- seg_str ele_list (esc (hc_seg_term c)) (esc (hc_ele_term c)) (esc (hc_subele_term c)) hc_eol;
      Ok (esc sid0 ++ esc (hc_ele_term c) ++ body)
  end.

(* _wrap_ele_error (165-169) *)
Definition wrap_ele_error (str1 : option str) : option str :=
  Some (l "<span class=""ele_err"">" ++ pct_s str1 ++ l "</span>").

(* header (47-60): the writes, `t` = time.strftime('%m/%d/%Y %H:%M:%S') *)
Definition NLs : str := [ascii_of_nat 10].
Definition html_header (t : str) : list str :=
  [ l "<html>" ++ NLs ++ l "<head>" ++ NLs;
    l "<title>X12N Error Analysis</title>" ++ NLs;
    l "<style type=""text/css"">" ++ NLs ++ l "<!--" ++ NLs;
    l "  span.seg { color: black; font-style: normal; }" ++ NLs;
    l "  span.error { background-color: #CCCCFF; color: red; font-style: normal; }" ++ NLs;
    l "  span.info { color: blue; font-style: normal; }" ++ NLs;
    l "  span.ele_err { background-color: yellow; color: red; font-style: normal; }" ++ NLs;
    l "  -->" ++ NLs ++ l "</style>" ++ NLs;
    l "  <link rel=""stylesheet"" href=""errors.css"" type=""text/css"" />" ++ NLs;
    l "</head>" ++ NLs ++ l "<body>" ++ NLs;
    l "<h1>X12N Error Analysis</h1>" ++ NLs ++ l "<h3>Analysis Date: " ++ t ++ l "</h3><p>" ++ NLs;
    l "<div class=""segs"" style="""">" ++ NLs ].

(* the message lines; error strings are escaped (fix f4fb690), codes are written as they are *)
Definition seg_err_line (err_str err_cde : str) : str :=
  l "<span class=""error"">&nbsp;" ++ esc err_str ++ l " (Segment Error Code: " ++ err_cde ++ l ")</span><br />" ++ NLs.
Definition ele_err_line (err_str err_cde : str) : str :=
  l "<span class=""error"">&nbsp;" ++ esc err_str ++ l " (Element Error Code: " ++ err_cde ++ l ")</span><br />" ++ NLs.

(* gen_info (88-92) *)
Definition gen_info {S} (info_str : str) : W S unit :=
  w_write (l "<span class=""info"">&nbsp;&nbsp;" ++ info_str ++ l "</span><br />" ++ NLs).

(* loop (83-86): loop_node.type != 'wrapper' *)
Definition html_loop (st : html_state) (node_id node_name node_type : option str) : html_state :=
  if opt_eqb str_eqb node_type (Some (l "wrapper")) then st
  else {| loop_info := Some (esc (l "Loop " ++ pct_s node_id ++ l ": " ++ pct_s node_name)) |}.

(* the object x12n_document hands to loop(): node.get_parent() of the matched segment node — a loop_if, or the
   map_if itself for a segment directly under the map root; map_if has no attribute `type` *)
Inductive loop_node := LNLoop (node_id node_name node_type : option str) | LNMapRoot.
Definition html_loop_node (st : html_state) (n : loop_node) : html_state * option exn :=
  match n with
  | LNLoop i nm ty => (html_loop st i nm ty, None)
  | LNMapRoot => (st, Some AttributeError)
  end.

(* ---- what gen_seg reads from an error node ---- *)

(* err_node.elements: err_isa 500, err_gs 612, err_st 750, err_seg 877; the handler and err_ele have none *)
Definition elements_of (h : errh) (r : node_ref) : result (list nat) :=
  match r with
  | RRoot => Raise AttributeError
  | RIsa i => do n <- heap_nth (h_isa h) i; Ok (in_elements n)
  | RGs g => do n <- heap_nth (h_gs h) g; Ok (gn_elements n)
  | RSt t => do n <- heap_nth (h_st h) t; Ok (tn_elements n)
  | RSeg k => do n <- heap_nth (h_seg h) k; Ok (sn_elements n)
  | REle _ => Raise AttributeError
  end.

Definition err12 (e : err3) : err2 := (fst (fst e), snd (fst e)).     (* err_tuple[0], err_tuple[1] *)

(* get_error_list(seg_id, pre): err_node 462-465 (self.errors: err_seg, err_ele), err_isa 552-560,
   err_gs 689-697, err_st 802-810; `pre` is ignored everywhere; err_handler has no such method.
   seg_id None equals none of the literals. *)
Definition error_list_of (h : errh) (r : node_ref) (seg_id : option str) : result (list err2) :=
  match r with
  | RRoot => Raise AttributeError
  | RIsa i => do n <- heap_nth (h_isa h) i; Ok (match seg_id with Some s => isa_error_list n s | None => [] end)
  | RGs g => do n <- heap_nth (h_gs h) g; Ok (match seg_id with Some s => gs_error_list n s | None => [] end)
  | RSt t => do n <- heap_nth (h_st h) t; Ok (match seg_id with Some s => st_error_list n s | None => [] end)
  | RSeg k => do n <- heap_nth (h_seg h) k; Ok (map err12 (sn_errors n))
  | REle e => do n <- heap_nth (h_ele h) e; Ok (map err12 (en_errors n))
  end.

(* ele_pos_map (104-107): a dict ele_pos -> subele_pos, later assignments replace earlier ones *)
Definition pos_map := list (Z * option Z).
Fixpoint pm_set (m : pos_map) (k : Z) (v : option Z) : pos_map :=
  match m with
  | [] => [(k, v)]
  | (k', v') :: r => if (k =? k')%Z then (k, v) :: r else (k', v') :: pm_set r k v
  end.
Fixpoint pm_get (m : pos_map) (k : Z) : option (option Z) :=
  match m with
  | [] => None
  | (k', v) :: r => if (k =? k')%Z then Some v else pm_get r k
  end.

Fixpoint pm_add_eles (h : errh) (m : pos_map) (es : list nat) : result pos_map :=
  match es with
  | [] => Ok m
  | e :: r => do n <- heap_nth (h_ele h) e; pm_add_eles h (pm_set m (en_pos n) (en_subpos n)) r
  end.
Fixpoint build_pos_map (h : errh) (m : pos_map) (nodes : list node_ref) : result pos_map :=
  match nodes with
  | [] => Ok m
  | r :: rest => do es <- elements_of h r; do m' <- pm_add_eles h m es; build_pos_map h m' rest
  end.

(* gen_seg reads the elements from seg_data.elements directly (fix 4d8004d: reference designators stop at 99).
   the inner loop over j = 1 .. len(comp_data): comp_data[j-1].format() is the sub-element value *)
Fixpoint tseg_subs (m : pos_map) (i : nat) (j : nat) (subs : list str) : list (option str) :=
  match subs with
  | [] => []
  | v :: r =>
      let ele_str := escape_html_chars (Some v) in
      let ele_str := match pm_get m (Z.of_nat i) with
                     | Some (Some sp) => if (sp =? Z.of_nat j)%Z then wrap_ele_error ele_str else ele_str
                     | _ => ele_str            (* key absent, or subele_pos None != j *)
                     end in
      ele_str :: tseg_subs m i (S j) r
  end.

(* the loop over i = 1 .. len(seg_data): a composite (more than one component) lists its components, anything
   else prints comp_data.format() *)
Fixpoint tseg_items (x : xseg) (m : pos_map) (i : nat) (cs : list composite) : list titem :=
  match cs with
  | [] => []
  | c :: r =>
      (if 1 <? length c then TList (tseg_subs m i 1 c)
       else let ele_str := escape_html_chars (Some (format_comp (subele_term (xs_d x)) c)) in
            TStr (match pm_get m (Z.of_nat i) with Some _ => wrap_ele_error ele_str | None => ele_str end))
      :: tseg_items x m (S i) r
  end.

(* 128-135: the errors with code '3' come before the segment line *)
Definition write_pre_errors (h : errh) (seg_id : option str) (r : node_ref) : W html_state unit :=
  dow es <- w_lift (error_list_of h r seg_id);
  w_iter (fun e : err2 => if str_eqb (fst e) (l "3") then w_write (seg_err_line (snd e) (fst e)) else w_ret tt) es.

(* 150-155: element errors of one err_ele; the "ugly hack" drops GS messages on the GE line *)
Definition write_ele_errors (h : errh) (seg_id : option str) (e : nat) : W html_state unit :=
  dow es <- w_lift (error_list_of h (REle e) seg_id);
  w_iter (fun er : err2 =>
            if opt_eqb str_eqb seg_id (Some (l "GE")) && contains (l "GS") (snd er) then w_ret tt
            else w_write (ele_err_line (snd er) (fst er))) es.

(* 141-155: per node, its other errors, then the errors of its elements *)
Definition write_post_errors (h : errh) (seg_id : option str) (r : node_ref) : W html_state unit :=
  dow es <- w_lift (error_list_of h r seg_id);
  dow_ w_iter (fun e : err2 => if str_eqb (fst e) (l "3") then w_ret tt else w_write (seg_err_line (snd e) (fst e))) es;
  dow els_ <- w_lift (elements_of h r);
  w_iter (write_ele_errors h seg_id) els_.

(* gen_seg (94-155).  cur_line = src.cur_line ('%i' of None is a TypeError) *)
Definition html_gen_seg (c : html_cfg) (h : errh) (x : xseg) (cur_line : option Z) (err_node_list : list node_ref)
  : W html_state unit :=
  let seg_id := sid (xs_s x) in
  (* 104-107 *)
  dow m <- w_lift (build_pos_map h [] err_node_list);
  (* 109-126 *)
  let t_seg := tseg_items x m 1 (els (xs_s x)) in
  (* 128-135 *)
  dow_ w_iter (write_pre_errors h seg_id) err_node_list;
  (* 136-138: `if self.loop_info:` is a truthiness test *)
  dow st <- w_get;
  dow_ (match loop_info st with Some (ch :: rest) => gen_info (ch :: rest) | _ => w_ret tt end);
  dow_ w_put {| loop_info := None |};
  (* 139-140: the argument tuple (cur_line, self._seg_str(...)) is built first, then formatted *)
  dow body <- w_lift (html_seg_str c seg_id t_seg);
  dow ln <- w_lift (fmt_i cur_line);
  dow_ w_write (l "<span class=""seg"">" ++ ln ++ l ":&nbsp;" ++ body ++ l "</span><br />" ++ NLs);
  (* 141-155 *)
  w_iter (write_post_errors h seg_id) err_node_list.

(* footer (62-81): self.errh.cur_st_node / cur_gs_node / cur_isa_node may be None: skipped *)
Definition footer_part {A} (cur : option nat) (heap : list A) (closed : A -> bool) (errors : A -> list err2)
           (code : string) : W unit unit :=
  match cur with
  | None => w_ret tt                                          (* fix 093f35c: `is not None and` *)
  | Some i =>
      dow n <- w_lift (heap_nth heap i);
      if closed n then w_ret tt
      else w_iter (fun e : err2 => if str_eqb (fst e) (l code) then w_write (seg_err_line (snd e) (fst e)) else w_ret tt)
                  (errors n)
  end.

Definition html_footer (h : errh) : W unit unit :=
  dow_ footer_part (c_st h) (h_st h) st_is_closed tn_errors "2";
  dow_ footer_part (c_gs h) (h_gs h) gs_is_closed gn_errors "3";
  dow_ footer_part (c_isa h) (h_isa h) isa_is_closed in_errors "023";
  dow_ w_write (l "</div>" ++ NLs);
  dow_ w_write (l "<p>" ++ NLs ++ l "<a href=""http://sourceforge.net/projects/pyx12/"">pyx12 Validator</a>" ++ NLs ++ l "</p>" ++ NLs);
  w_write (l "</body>" ++ NLs ++ l "</html>" ++ NLs).
