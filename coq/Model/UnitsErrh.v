(* UnitsErrh.v — entry point of the error_handler / 997 / 999 correspondence
   check: decode an event list, apply it to errh_init, print the outcome of
   every call, the error count, a canonical dump of the whole handler state,
   the 997 text and the 999 text (sections T N D A E B F G H, see unit_errh).
   harness/errh_impl.py prints the same text from the real objects.

   unit_errh [clock; event; event; ...]
     clock  = ymd6 US hm US ymd8 US hms US rand
     event  = <kind char><fields separated by US (0x1f)>
       I / G / T   add_isa_loop / add_gs_loop / add_st_loop :  SEG SRC
       S           add_seg :  ('N'|'S') name pos SEG optZ(seg_count) optZ(cur_line) optS(ls_id)
       E           add_ele :  optS(data_ele) name seq ('T'|'F' parent.is_composite()) parent_seq
       i / g / t   isa_error / gs_error / st_error :  code msg
       s           seg_error :  code msg optS(value) optZ(src_line)
       e           ele_error :  code msg optS(bad_value)
       X / Z       close_isa_loop / close_st_loop :  SRC
       Y           close_gs_loop :  ('N'|'S' seg given) SEG SRC
       H           handle_errors :  items separated by RS (0x1e), item = type US code US msg US optS(val) US optZ(line)
       C           get_error_count (printed in the trace)
     SEG  = delims(3 chars: seg_term ele_term subele_term) US segment text
     SRC  = optS(isa_id) US optS(gs_id) US optS(st_id) US optZ(cur_line) US st_count
     optS = 'N' | 'S'<text>      optZ = 'N' | decimal      numbers: decimal, '-' for negatives *)
From Coq Require Import String.
From PX.Lib Require Import Base PyStr PyInt.
From PX.Model Require Import Show Path Segment Errh Ack997 Ack999.

Definition US : ascii := ascii_of_nat 31.
Definition RS : ascii := ascii_of_nat 30.
Definition COMMA : ascii := ","%char.
Definition SEMI : ascii := ";"%char.

(* ---- decoding ---- *)
Definition parse_Z (s : str) : Z :=
  match s with
  | c :: r => if Ascii.eqb c "-"%char then (- Z.of_N (dec_val r))%Z else Z.of_N (dec_val s)
  | [] => 0%Z
  end.
Definition parse_oZ (s : str) : option Z :=
  match s with
  | [c] => if Ascii.eqb c "N"%char then None else Some (parse_Z s)
  | _ => Some (parse_Z s)
  end.
Definition parse_oS (s : str) : option str :=
  match s with
  | c :: r => if Ascii.eqb c "S"%char then Some r else None
  | [] => None
  end.
Definition parse_flag (s : str) (c : ascii) : bool :=
  match s with [x] => Ascii.eqb x c | _ => false end.

Definition mk_delims (s : str) : delims :=
  match s with
  | [a; b; c] => {| seg_term := a; ele_term := b; subele_term := c |}
  | _ => D
  end.
Definition mk_xseg (dl text : str) : xseg := let d := mk_delims dl in {| xs_d := d; xs_s := parse_seg d text |}.

Definition mk_src (a b c d e : str) : src_info :=
  {| src_isa_id := parse_oS a; src_gs_id := parse_oS b; src_st_id := parse_oS c;
     src_line := parse_oZ d; src_st_count := parse_Z e |}.

Definition mk_item (s : str) : option err_item :=
  match split US s with
  | [ty; cde; msg; val; line] =>
      Some {| it_type := ty; it_cde := cde; it_str := msg; it_val := parse_oS val; it_line := parse_oZ line |}
  | _ => None
  end.

Inductive event :=
| EvOp (m : SE errh unit)
| EvCount
| EvBad.

Definition decode (ev : str) : event :=
  match ev with
  | [] => EvBad
  | k :: rest =>
      let f := split US rest in
      let is c := Ascii.eqb k c in
      if is "I"%char then match f with [dl; tx; a; b; c; d; e] => EvOp (add_isa_loop (mk_xseg dl tx) (mk_src a b c d e)) | _ => EvBad end
      else if is "G"%char then match f with [dl; tx; a; b; c; d; e] => EvOp (add_gs_loop (mk_xseg dl tx) (mk_src a b c d e)) | _ => EvBad end
      else if is "T"%char then match f with [dl; tx; a; b; c; d; e] => EvOp (add_st_loop (mk_xseg dl tx) (mk_src a b c d e)) | _ => EvBad end
      else if is "S"%char then
        match f with
        | [fl; name; pos; dl; tx; sc; cl; ls] =>
            EvOp (add_seg (if parse_flag fl "S"%char then Some {| si_name := name; si_pos := parse_Z pos |} else None)
                          (mk_xseg dl tx) (parse_oZ sc) (parse_oZ cl) (parse_oS ls))
        | _ => EvBad
        end
      else if is "E"%char then
        match f with
        | [de; name; sq; comp; psq] =>
            EvOp (add_ele {| ei_data_ele := parse_oS de; ei_name := name; ei_seq := parse_Z sq;
                             ei_parent_composite := parse_flag comp "T"%char; ei_parent_seq := parse_Z psq |})
        | _ => EvBad
        end
      else if is "i"%char then match f with [c; m] => EvOp (isa_error c m) | _ => EvBad end
      else if is "g"%char then match f with [c; m] => EvOp (gs_error c m) | _ => EvBad end
      else if is "t"%char then match f with [c; m] => EvOp (st_error c m) | _ => EvBad end
      else if is "s"%char then match f with [c; m; v; ln] => EvOp (seg_error c m (parse_oS v) (parse_oZ ln)) | _ => EvBad end
      else if is "e"%char then match f with [c; m; v] => EvOp (ele_error c m (parse_oS v)) | _ => EvBad end
      else if is "X"%char then match f with [a; b; c; d; e] => EvOp (close_isa_loop (mk_src a b c d e)) | _ => EvBad end
      else if is "Z"%char then match f with [a; b; c; d; e] => EvOp (close_st_loop (mk_src a b c d e)) | _ => EvBad end
      else if is "Y"%char then
        match f with
        | [fl; dl; tx; a; b; c; d; e] =>
            EvOp (close_gs_loop (if parse_flag fl "S"%char then Some (mk_xseg dl tx) else None) (mk_src a b c d e))
        | _ => EvBad
        end
      else if is "H"%char then
        let items := match rest with [] => [] | _ => map mk_item (split RS rest) end in
        if forallb (fun o => match o with Some _ => true | None => false end) items
        then EvOp (handle_errors (flat_map (fun o => match o with Some i => [i] | None => [] end) items))
        else EvBad
      else if is "C"%char then match rest with [] => EvCount | _ => EvBad end
      else EvBad
  end.

(* apply the events; the trace has one entry per event *)
Fixpoint run_events (h : errh) (evs : list str) : errh * list str :=
  match evs with
  | [] => (h, [])
  | ev :: r =>
      let (h1, o) := match decode ev with
                     | EvOp m => let (h', res) := m h in (h', match res with Ok _ => sl "ok" | Raise e => show_exn e end)
                     | EvCount => (h, show_nat (get_error_count h))
                     | EvBad => (h, sl "?event")
                     end in
      let (h2, os) := run_events h1 r in (h2, o :: os)
  end.

(* ---- the canonical dump ---- *)
Definition show_os (o : option str) : str := show_opt show_hex o.
Definition show_oz (o : option Z) : str := show_opt show_Z o.
Definition DOT : ascii := "."%char.

Definition show_err2 (e : err2) : str := show_hex (fst e) ++ DOT :: show_hex (snd e).
Definition show_err3 (e : err3) : str :=
  show_hex (fst (fst e)) ++ DOT :: show_hex (snd (fst e)) ++ DOT :: show_os (snd e).
Definition show_errs2 (es : list err2) : str := sl "[" ++ sep SEMI (map show_err2 es) ++ sl "]".
Definition show_errs3 (es : list err3) : str := sl "[" ++ sep SEMI (map show_err3 es) ++ sl "]".

Definition show_xseg (x : xseg) : str := show_hex (format_seg (xs_d x) (xs_s x)).

Definition oeq (o : option nat) (i : nat) : bool := match o with Some j => Nat.eqb i j | None => false end.

(* which of the handler's references point at this node *)
Definition marks (h : errh) (is_i is_g is_t : bool) (r : option nref) (e : option nat) : str :=
  (if is_i then sl "i" else []) ++ (if is_g then sl "g" else []) ++ (if is_t then sl "t" else []) ++
  (match r, c_seg h with
   | Some (NIsa a), Some (NIsa b) | Some (NGs a), Some (NGs b) | Some (NSt a), Some (NSt b) | Some (NSeg a), Some (NSeg b) =>
       if Nat.eqb a b then sl "s" else []
   | _, _ => []
   end) ++
  (match e with Some k => if oeq (c_ele h) k then sl "e" else [] | None => [] end).

Definition wrap (tag : string) (fields : list str) : str := sl tag ++ sl "{" ++ sep COMMA fields ++ sl "}".

Definition dump_ele (h : errh) (k : nat) : str :=
  match nth_error (h_ele h) k with
  | None => sl "?ele"
  | Some e =>
      wrap "L" [show_os (en_ref_num e); show_hex (en_name e); show_Z (en_pos e); show_oz (en_subpos e);
                show_errs3 (en_errors e); marks h false false false None (Some k)]
  end.
Definition dump_eles (h : errh) (ks : list nat) : str := sl "[" ++ sep SEMI (map (dump_ele h) ks) ++ sl "]".

Definition dump_seg (h : errh) (k : nat) : str :=
  match nth_error (h_seg h) k with
  | None => sl "?seg"
  | Some n =>
      wrap "S" [show_hex (sn_name n); show_Z (sn_pos n); show_os (sn_seg_id n); show_oz (sn_seg_count n);
                show_oz (sn_cur_line n); show_os (sn_ls_id n); show_errs3 (sn_errors n);
                marks h false false false (Some (NSeg k)) None;
                show_nat (seg_err_count h n); show_nat (seg_child_err_count h n);
                dump_eles h (sn_elements n)]
  end.

Definition dump_st (h : errh) (k : nat) : str :=
  match nth_error (h_st h) k with
  | None => sl "?st"
  | Some n =>
      wrap "T" [show_xseg (tn_seg n); show_os (tn_ctl n); show_oz (tn_line_st n); show_oz (tn_line_se n);
                show_os (tn_id n); show_os (tn_vriic n); show_os (tn_ack n); show_errs2 (tn_errors n);
                marks h false false (oeq (c_st h) k) (Some (NSt k)) None;
                show_bool (st_is_closed n); show_oz (st_cur_line n);
                show_nat (st_err_count h n); show_nat (st_child_err_count h n);
                show_errs2 (st_error_list n (sl "ST")); show_errs2 (st_error_list n (sl "SE")); show_errs2 (st_error_list n (sl "REF"));
                dump_eles h (tn_elements n);
                sl "[" ++ sep SEMI (map (dump_seg h) (tn_children n)) ++ sl "]"]
  end.

Definition dump_gs (h : errh) (k : nat) : str :=
  match nth_error (h_gs h) k with
  | None => sl "?gs"
  | Some n =>
      wrap "G" [show_xseg (gn_seg n); show_os (gn_isa_id n); show_oz (gn_line_gs n); show_oz (gn_line_ge n);
                show_os (gn_ctl n); show_os (gn_fic n); show_os (gn_vriic n); show_os (gn_ack n);
                show_Z (gn_orig n); show_Z (gn_recv n); show_errs2 (gn_errors n);
                marks h false (oeq (c_gs h) k) false (Some (NGs k)) None;
                show_bool (gs_is_closed n); show_oz (gs_cur_line n);
                show_nat (gs_error_count h n); show_nat (gs_count_failed_st h n); show_hex (gs_ack_code h n);
                show_errs2 (gs_error_list n (sl "GS")); show_errs2 (gs_error_list n (sl "GE")); show_errs2 (gs_error_list n (sl "REF"));
                dump_eles h (gn_elements n);
                sl "[" ++ sep SEMI (map (dump_st h) (gn_children n)) ++ sl "]"]
  end.

Definition dump_isa (h : errh) (k : nat) : str :=
  match nth_error (h_isa h) k with
  | None => sl "?isa"
  | Some n =>
      wrap "I" [show_xseg (in_seg n); show_os (in_isa_id n); show_oz (in_line_isa n); show_oz (in_line_iea n);
                show_os (in_trn n); show_os (in_ta1 n); show_os (in_date n); show_os (in_time n);
                show_errs2 (in_errors n);
                marks h (oeq (c_isa h) k) false false (Some (NIsa k)) None;
                show_bool (isa_is_closed n); show_oz (isa_cur_line n);
                show_nat (isa_error_count h n);
                show_errs2 (isa_error_list n (sl "ISA")); show_errs2 (isa_error_list n (sl "IEA")); show_errs2 (isa_error_list n (sl "REF"));
                dump_eles h (in_elements n);
                sl "[" ++ sep SEMI (map (dump_gs h) (in_children n)) ++ sl "]"]
  end.

(* is the SEG / ELE object reachable from the root? *)
Definition seg_attached (h : errh) (k : nat) : bool :=
  existsb (fun t => existsb (Nat.eqb k) (tn_children t)) (h_st h).
Definition ele_attached (h : errh) (k : nat) : bool :=
  existsb (fun n => existsb (Nat.eqb k) (in_elements n)) (h_isa h) ||
  existsb (fun n => existsb (Nat.eqb k) (gn_elements n)) (h_gs h) ||
  existsb (fun n => existsb (Nat.eqb k) (tn_elements n)) (h_st h) ||
  existsb (fun t => existsb (fun s => match nth_error (h_seg h) s with
                                      | Some n => existsb (Nat.eqb k) (sn_elements n)
                                      | None => false
                                      end) (tn_children t)) (h_st h).

Definition dump_state (h : errh) : str :=
  sl "[" ++ sep SEMI (map (dump_isa h) (seq 0 (length (h_isa h)))) ++ sl "]" ++
  sl "|seg_added=" ++ show_bool (seg_added h) ++
  sl "|ele_added=" ++ show_opt show_bool (ele_added h) ++
  sl "|cur_isa=" ++ show_bool (match c_isa h with Some _ => true | None => false end) ++
  sl "|cur_gs=" ++ show_bool (match c_gs h with Some _ => true | None => false end) ++
  sl "|cur_st=" ++ show_bool (match c_st h with Some _ => true | None => false end) ++
  sl "|cur_seg=" ++
  (match c_seg h with
   | None => sl "N"
   | Some (NIsa _) => sl "ISA" | Some (NGs _) => sl "GS" | Some (NSt _) => sl "ST"
   | Some (NSeg k) => if seg_attached h k then sl "SEG" else sl "detached:" ++ dump_seg h k
   end) ++
  sl "|cur_ele=" ++
  (match c_ele h with
   | None => sl "N"
   | Some k => if ele_attached h k then sl "ELE" else sl "detached:" ++ dump_ele h k
   end).

Definition show_render (r : errh * list str * option exn) : str :=
  match r with
  | (_, lines, e) => sep COMMA (map show_hex lines) ++ sl "|" ++ match e with Some x => show_exn x | None => [] end
  end.

Definition mk_clock (s : str) : clock :=
  match split US s with
  | [a; b; c; d; e] => {| ck_ymd6 := a; ck_hm := b; ck_ymd8 := c; ck_hms := d; ck_rand := parse_Z e |}
  | _ => {| ck_ymd6 := []; ck_hm := []; ck_ymd8 := []; ck_hms := []; ck_rand := 0 |}
  end.

Definition NL : ascii := ascii_of_nat 10.

(* A: the 997 visitor on the handler; E: the handler afterwards (visit_gs_post writes to it);
   B: the 999 visitor on the handler as the events left it (a copy); F: that copy afterwards;
   G: the 999 visitor on the handler as the 997 visitor left it (x12n_document runs them in this
   order on the same handler); H: the handler after both *)
Definition unit_errh (args : list str) : str :=
  match args with
  | [] => sl "?args"
  | ck :: evs =>
      let clk := mk_clock ck in
      let (h, trace) := run_events errh_init evs in
      let r997 := render_997 clk h in
      let h1 := fst (fst r997) in
      let r999 := render_999 clk h in
      let r999s := render_999 clk h1 in
      sep NL [sl "T:" ++ sep COMMA trace;
              sl "N:" ++ show_nat (get_error_count h);
              sl "D:" ++ dump_state h;
              sl "A:" ++ show_render r997;
              sl "E:" ++ dump_state h1;
              sl "B:" ++ show_render r999;
              sl "F:" ++ dump_state (fst (fst r999));
              sl "G:" ++ show_render r999s;
              sl "H:" ++ dump_state (fst (fst r999s))]
  end.
