(* Pipeline.v — hand model of the WHOLE of pyx12/x12n_document.py:x12n_document
   (param, src_file, fd_997, fd_html, fd_xmldoc) for every subset of the three
   output sinks (callback = None, xslt_files unused), by composition of

     Driver.v   the loop over the segments with all sinks None (monad D)
     ErrIter.v  err_iter            Html.v    error_html
     XmlOut.v   x12xml_simple       Ack997.v / Ack999.v  the two visitors

   A run is a computation  P A = pstate -> pstate * result A  over the Driver
   state plus the state of the three sink objects and what each of them has
   written to its file object.  D computations (Driver.step, Driver.finish) are
   lifted unchanged; the W computations of the report generators are run on
   their own part of the state and their writes are appended to the text of
   their sink — also when they raise, as in Python.

   An exception escapes x12n_document exactly where Python's does; the other
   sinks keep what they had written.  The x12xml_simple object is then still
   referenced from the frame of the traceback; it is finalised (__del__, which
   closes the open elements) when the caller drops the exception, so the file
   object of the XML sink ends with the closing tags in every case: o_xml is
   what that file object holds once the exception has been released.

   Line numbers are those of x12n_document.py at /repo commit 8c53087.

   What is fixed from outside: the clock (time.strftime / random.randint, read
   by the 997/999 visitors and by html.header()) and param 'simple_dtd'. *)
From Coq Require Import String.
From PX.Lib Require Import Base PyStr PyInt Regex Xml.
From PX.Model Require Import Show Path Segment Raw Reader Syntax MapLoad MapTree Element Counter Walker MapEnv Driver.
From PX.Model Require Errh ErrIter OutW Html XmlOut Ack997 Ack999.

Local Definition l (x : string) : str := list_ascii_of_string x.

(* ------------------------------------------------------------------ *)
(* the interface                                                       *)

(* which of fd_997, fd_html, fd_xmldoc are given (a file object is always truthy) *)
Record sinks := { want_ack : bool; want_html : bool; want_xml : bool }.

Record outputs := {
  o_result : result bool;          (* the verdict, or the exception that escapes x12n_document *)
  o_ack : str;                     (* everything written to fd_997 *)
  o_html : str;                    (* ... to fd_html *)
  o_xml : str;                     (* ... to fd_xmldoc (see the header for the finaliser) *)
  o_trace : list dev;              (* the calls made on the error handler, in order (as Driver) *)
  o_html_calls : list (Errh.xseg * option Z * list ErrIter.node_ref)
                                   (* the arguments (seg, src.cur_line, err_node_list) of each html.gen_seg call *)
}.

(* ------------------------------------------------------------------ *)
(* the state of a run                                                  *)

(* the text of a sink: the batches of writes, newest batch first *)
Definition sink_text := list (list str).
Definition text_of (t : sink_text) : str := concat (concat (rev t)).

Record pstate := {
  ps_d : dstate;                           (* everything x12n_document has with all sinks None *)
  ps_html : Html.html_state;               (* the error_html object (loop_info) *)
  ps_iter : ErrIter.iter_state;            (* err_iter *)
  ps_xml : XmlOut.xstate;                  (* the x12xml_simple object (writer stack, last_path) *)
  ps_xml_live : bool;                      (* xmldoc exists: created and not yet deleted *)
  ps_ack_out : sink_text;
  ps_html_out : sink_text;
  ps_xml_out : sink_text;
  ps_calls : list (Errh.xseg * option Z * list ErrIter.node_ref)     (* newest first *)
}.

Definition set_d (s : pstate) v := {| ps_d := v; ps_html := ps_html s; ps_iter := ps_iter s; ps_xml := ps_xml s;
  ps_xml_live := ps_xml_live s; ps_ack_out := ps_ack_out s; ps_html_out := ps_html_out s; ps_xml_out := ps_xml_out s;
  ps_calls := ps_calls s |}.
Definition set_html (s : pstate) v := {| ps_d := ps_d s; ps_html := v; ps_iter := ps_iter s; ps_xml := ps_xml s;
  ps_xml_live := ps_xml_live s; ps_ack_out := ps_ack_out s; ps_html_out := ps_html_out s; ps_xml_out := ps_xml_out s;
  ps_calls := ps_calls s |}.
Definition set_iter (s : pstate) v := {| ps_d := ps_d s; ps_html := ps_html s; ps_iter := v; ps_xml := ps_xml s;
  ps_xml_live := ps_xml_live s; ps_ack_out := ps_ack_out s; ps_html_out := ps_html_out s; ps_xml_out := ps_xml_out s;
  ps_calls := ps_calls s |}.
Definition set_xml (s : pstate) v := {| ps_d := ps_d s; ps_html := ps_html s; ps_iter := ps_iter s; ps_xml := v;
  ps_xml_live := ps_xml_live s; ps_ack_out := ps_ack_out s; ps_html_out := ps_html_out s; ps_xml_out := ps_xml_out s;
  ps_calls := ps_calls s |}.
Definition set_xml_live (s : pstate) v := {| ps_d := ps_d s; ps_html := ps_html s; ps_iter := ps_iter s; ps_xml := ps_xml s;
  ps_xml_live := v; ps_ack_out := ps_ack_out s; ps_html_out := ps_html_out s; ps_xml_out := ps_xml_out s;
  ps_calls := ps_calls s |}.
Definition add_ack_out (s : pstate) (ws : list str) := {| ps_d := ps_d s; ps_html := ps_html s; ps_iter := ps_iter s;
  ps_xml := ps_xml s; ps_xml_live := ps_xml_live s; ps_ack_out := ws :: ps_ack_out s; ps_html_out := ps_html_out s;
  ps_xml_out := ps_xml_out s; ps_calls := ps_calls s |}.
Definition add_html_out (s : pstate) (ws : list str) := {| ps_d := ps_d s; ps_html := ps_html s; ps_iter := ps_iter s;
  ps_xml := ps_xml s; ps_xml_live := ps_xml_live s; ps_ack_out := ps_ack_out s; ps_html_out := ws :: ps_html_out s;
  ps_xml_out := ps_xml_out s; ps_calls := ps_calls s |}.
Definition add_xml_out (s : pstate) (ws : list str) := {| ps_d := ps_d s; ps_html := ps_html s; ps_iter := ps_iter s;
  ps_xml := ps_xml s; ps_xml_live := ps_xml_live s; ps_ack_out := ps_ack_out s; ps_html_out := ps_html_out s;
  ps_xml_out := ws :: ps_xml_out s; ps_calls := ps_calls s |}.
Definition add_call (s : pstate) c := {| ps_d := ps_d s; ps_html := ps_html s; ps_iter := ps_iter s; ps_xml := ps_xml s;
  ps_xml_live := ps_xml_live s; ps_ack_out := ps_ack_out s; ps_html_out := ps_html_out s; ps_xml_out := ps_xml_out s;
  ps_calls := c :: ps_calls s |}.

Definition P (A : Type) : Type := pstate -> pstate * result A.

Definition p_ret {A} (a : A) : P A := fun s => (s, Ok a).
Definition p_bind {A B} (m : P A) (f : A -> P B) : P B :=
  fun s => match m s with
           | (s', Ok a) => f a s'
           | (s', Raise e) => (s', Raise e)
           end.
Definition p_lift {A} (r : result A) : P A := fun s => (s, r).
Definition p_raise {A} (e : exn) : P A := fun s => (s, Raise e).
Definition p_get : P pstate := fun s => (s, Ok s).
Definition p_mod (f : pstate -> pstate) : P unit := fun s => (f s, Ok tt).

Notation "'dop' x <- m ; k" := (p_bind m (fun x => k)) (at level 200, x pattern, m at level 100, k at level 200).
Notation "'dop_' m ; k" := (p_bind m (fun _ => k)) (at level 200, m at level 100, k at level 200).

(* a computation of the sink-less driver, on its part of the state *)
Definition p_liftD {A} (m : D A) : P A :=
  fun s => match m (ps_d s) with (d', r) => (set_d s d', r) end.

(* a method of the error_html object: its state, its writes to fd_html *)
Definition p_html {A} (m : OutW.W Html.html_state A) : P A :=
  fun s => match m (ps_html s) with (hs', ws, r) => (add_html_out (set_html s hs') ws, r) end.

(* a method of error_html that touches no attribute of the object (footer) *)
Definition p_html_unit {A} (m : OutW.W unit A) : P A :=
  fun s => match m tt with (_, ws, r) => (add_html_out s ws, r) end.

(* a method of the x12xml_simple object: its state, its writes to fd_xmldoc *)
Definition p_xml {A} (m : OutW.W XmlOut.xstate A) : P A :=
  fun s => match m (ps_xml s) with (xs', ws, r) => (add_xml_out (set_xml s xs') ws, r) end.

(* ------------------------------------------------------------------ *)
(* what the sinks read from `node` (a segment node of control_map or cur_map) *)

(* node.is_first_seg_in_loop() (map_if.py:813-820): XmlOut.target_of computes the same fact for seg() *)
Definition node_is_first (m : xmap) (r : nref) : bool :=
  match XmlOut.target_of m r with
  | Some (XmlOut.TSeg gi) => XmlOut.gi_first gi
  | _ => false                                   (* x12_node.is_first_seg_in_loop: False *)
  end.

(* node.get_parent() (map_if.py:806-811) as html.loop reads it: a loop_if (id, name, type) or the map_if *)
Definition node_parent (m : xmap) (r : nref) : result Html.loop_node :=
  match removelast r with
  | [] => Ok Html.LNMapRoot
  | pr =>
      do n <- get_node m pr;
      match n with
      | NLoop i ty nm _ _ _ _ => Ok (Html.LNLoop i nm ty)
      | NSeg _ => Raise OtherError               (* the parent of a segment is never a segment *)
      end
  end.

Definition to_cfg (d : delims) : Html.html_cfg :=
  {| Html.hc_seg_term := [seg_term d]; Html.hc_ele_term := [ele_term d]; Html.hc_subele_term := [subele_term d] |}.

(* ------------------------------------------------------------------ *)
(* one segment: what follows the validation step                       *)

(* x12n_document.py:209-220.  `node` is ds_node: when the walker returned None, Driver.find_node left it
   untouched (node = orig_node), so 210-211 look at the PREVIOUS node. *)
Definition html_step (E : denv) (sg : seg) : P unit :=
  let x := {| Errh.xs_d := de_d E; Errh.xs_s := sg |} in
  dop s <- p_get;
  let m := fst (ds_node (ps_d s)) in
  let r := snd (ds_node (ps_d s)) in
  (* 210-211 *)
  dop_ (if node_is_first m r then
          dop ln <- p_lift (node_parent m r);
          (fun s => match Html.html_loop_node (ps_html s) ln with
                    | (hs, None) => (set_html s hs, Ok tt)
                    | (hs, Some e) => (set_html s hs, Raise e)
                    end)
        else p_ret tt);
  (* 212-219: the iterator reads the handler as validation left it *)
  dop nodes <- (fun s => match ErrIter.collect_new (ds_errh (ps_d s)) (ps_iter s) with
                         | (it', res) => (set_iter s it', res)
                         end);
  (* 220: src.cur_line *)
  dop s <- p_get;
  let cl := Some (cur_line (ds_x (ps_d s))) in
  dop_ p_mod (fun s => add_call s (x, cl, nodes));
  p_html (Html.html_gen_seg (to_cfg (de_d E)) (ds_errh (ps_d s)) x cl nodes).

(* x12n_document.py:222-223 *)
Definition xml_step (E : denv) (sg : seg) : P unit :=
  dop s <- p_get;
  match XmlOut.target_of (fst (ds_node (ps_d s))) (snd (ds_node (ps_d s))) with
  | None => p_raise OtherError                  (* a dangling reference: not reachable *)
  | Some t => p_xml (XmlOut.simple_seg t (de_d E) sg)
  end.

(* the body of `for seg in src` (x12n_document.py:97-228; callback is None) *)
Definition p_step (E : denv) (sk : sinks) (sg : seg) : P unit :=
  dop_ p_liftD (step E sg);                                          (* 98-202 *)
  dop_ (if want_html sk then html_step E sg else p_ret tt);          (* 209-220 *)
  if want_xml sk then xml_step E sg else p_ret tt.                   (* 222-223 *)

(* X12Reader.__next__ for one raw line (the head of Driver.run_lines): the reader's counters advance, its
   errors are queued; None = the line yields no segment *)
Definition read_line (E : denv) (ln : str) : D (option seg) :=
  dod st <- d_get;
  dod r <- d_lift (reader_line_opt (de_d E) (ds_x st) ln);
  match r with
  | (x', os, es) =>
      dod_ d_mod (fun st => with_pending (with_x st x') (ds_pending st ++ es));
      d_ret os
  end.

(* `for seg in src` *)
Fixpoint p_lines (E : denv) (sk : sinks) (lines : list str) : P unit :=
  match lines with
  | [] => p_ret tt
  | ln :: rest =>
      dop os <- p_liftD (read_line E ln);
      dop_ (match os with Some sg => p_step E sk sg | None => p_ret tt end);
      p_lines E sk rest
  end.

(* ------------------------------------------------------------------ *)
(* after the loop                                                      *)

(* x12n_document.py:246-260.  `except Exception: logger.exception(...)` swallows whatever the visitor raises;
   what it had written stays, and so do its writes to the handler (visit_gs_post). *)
Definition run_visitor (render : Errh.errh -> Errh.errh * list str * option exn) : P unit :=
  fun s => match render (ds_errh (ps_d s)) with
           | (h', ws, _) => (add_ack_out (set_d s (with_errh (ps_d s) h')) ws, Ok tt)
           end.

Definition vriic_is (v : option str) (prefix : string) : bool :=
  match v with
  | Some (c :: rest) => str_eqb (firstn 6 (c :: rest)) (l prefix)    (* `vriic and vriic[:6] == ...` *)
  | _ => false
  end.

Definition ack_part (clk : Ack997.clock) (sk : sinks) : P unit :=
  dop s <- p_get;
  let sel := ds_sel (ps_d s) in
  if want_ack sk && negb (ostr_eqb (ms_fic sel) (Some (l "FA"))) then                     (* 246 *)
    dop_ (if vriic_is (ms_vriic sel) "004010" then run_visitor (Ack997.render_997 clk) else p_ret tt);   (* 247-253 *)
    (if vriic_is (ms_vriic sel) "005010" then run_visitor (Ack999.render_999 clk) else p_ret tt)         (* 254-260 *)
  else p_ret tt.

(* x12n_document.py:268-275, on the handler as the visitor left it (get_error_count() is a sum over lists:
   the `except Exception` at 273 has nothing to catch).  Driver.finish evaluates the same expression. *)
Definition verdict : P bool :=
  dop s <- p_get;
  p_ret (negb (negb (ds_valid (ps_d s)) || (0 <? Errh.get_error_count (ds_errh (ps_d s))))).

(* x12n_document.py:230-275 *)
Definition p_finish (clk : Ack997.clock) (sk : sinks) : P bool :=
  dop _ <- p_liftD finish;                                            (* 230-231: src.cleanup(); handle_errors *)
  dop_ (if want_html sk then                                          (* 235-237 *)
          dop s <- p_get; p_html_unit (Html.html_footer (ds_errh (ps_d s)))
        else p_ret tt);
  dop_ (if want_xml sk then                                           (* 239-240: `del xmldoc` runs __del__ *)
          dop_ p_xml XmlOut.simple_del; p_mod (fun s => set_xml_live s false)
        else p_ret tt);
  dop_ ack_part clk sk;                                               (* 246-260 *)
  verdict.                                                            (* 268-275 *)

(* x12n_document.py:86-91: the sink objects, in creation order; header() writes at once *)
Definition p_open (htime : str) (dtd : option str) (sk : sinks) : P unit :=
  dop_ (if want_html sk then p_mod (fun s => add_html_out s (Html.html_header htime)) else p_ret tt);
  if want_xml sk then
    dop_ p_mod (fun s => set_xml_live s true);
    p_xml (XmlOut.simple_init dtd)
  else p_ret tt.

(* ------------------------------------------------------------------ *)
(* x12n_document                                                       *)

Definition no_output (r : result bool) : outputs :=
  {| o_result := r; o_ack := []; o_html := []; o_xml := []; o_trace := []; o_html_calls := [] |}.

(* what the caller finds: the xmldoc object that is still alive when an exception escapes is finalised
   when the exception is released (x12xml_simple.__del__) *)
Definition outputs_of (s : pstate) (r : result bool) : outputs :=
  let s' := if ps_xml_live s then fst (p_xml XmlOut.simple_del s) else s in
  {| o_result := r; o_ack := text_of (ps_ack_out s'); o_html := text_of (ps_html_out s');
     o_xml := text_of (ps_xml_out s'); o_trace := rev (ds_trace (ps_d s')); o_html_calls := rev (ps_calls s') |}.

(* time.strftime('%m/%d/%Y %H:%M:%S') of html.header(), for a clock whose readings agree *)
Definition html_time_of (clk : Ack997.clock) : str :=
  let d := Ack997.ck_ymd8 clk in
  let t := Ack997.ck_hms clk in
  firstn 2 (skipn 4 d) ++ l "/" ++ firstn 2 (skipn 6 d) ++ l "/" ++ firstn 4 d ++ l " " ++
  firstn 2 t ++ l ":" ++ firstn 2 (skipn 2 t) ++ l ":" ++ firstn 2 (skipn 4 t).

(* `load` is load_map_file with the parameters fixed, `idx` the map index (as Driver.run_document_gen);
   `htime` what time.strftime returns to html.header(); `dtd` is param.get('simple_dtd') *)
Definition run_pipeline_gen (load : str -> result xmap) (idx : result (list map_entry))
    (clk : Ack997.clock) (htime : str) (dtd : option str) (sk : sinks) (text : str) : outputs :=
  match raw_all {| rest := text; sched := [] |} with
  | Raise X12Error => no_output (Ok false)                           (* 69-73: nothing has been created yet *)
  | Raise e => no_output (Raise e)
  | Ok (r, lines) =>
      let map_file := control_name (r_icvn r) in                     (* 76 *)
      (* 78-80 *)
      match (do cm <- load map_file; do ix <- idx; do n0 <- getnode cm "/ISA_LOOP/ISA"; Ok (cm, ix, n0)) with
      | Raise e => no_output (Raise e)
      | Ok (cm, ix, n0) =>
          let E := {| de_load := load; de_idx := ix; de_cm := cm; de_d := delims_of r |} in
          let d0 := {| ds_x := x_init; ds_pending := []; ds_errh := Errh.errh_init; ds_w := wstate_init;
                       ds_node := (cm, n0);
                       ds_sel := {| ms_file := Some map_file; ms_cur := None; ms_icvn := None; ms_fic := None; ms_vriic := None |};
                       ds_valid := true; ds_trace := [] |} in
          let s0 := {| ps_d := d0; ps_html := Html.html_init; ps_iter := ErrIter.iter_init; ps_xml := XmlOut.x_empty;
                       ps_xml_live := false; ps_ack_out := []; ps_html_out := []; ps_xml_out := []; ps_calls := [] |} in
          match (dop_ p_open htime dtd sk; dop_ p_lines E sk lines; p_finish clk sk) s0 with
          | (s1, res) => outputs_of s1 res
          end
      end
  end.

Definition run_pipeline (e : menv) (p : params) (clk : Ack997.clock) (dtd : option str) (sk : sinks) (text : str) : outputs :=
  run_pipeline_gen (fun name => load_named e name (p_exclude p) (p_charset p)) (env_index e)
                   clk (html_time_of clk) dtd sk text.
