(* Counter.v — hand model of pyx12/nodeCounter.py (NodeCounter).

   Python keeps an OrderedDict keyed by X12Path objects.  Key lookup goes
   through X12Path.__hash__ (the hash of the printed path) and X12Path.__eq__
   (all six fields).  Two keys that are `==` have the same six fields, so they
   print the same and hash the same: a lookup finds exactly the stored key
   that is `path_eqb` to the probe, and no two stored keys are `path_eqb`.
   (Proofs/Counter_keys.v: path_eqb a b = true -> a = b.)  The model is an
   association list in insertion order with `path_eqb` as key equality; the
   insertion order is not observable through the API used by the walker.

   makeX12Path (nodeCounter.py:73-78): an X12Path is used as is, a string is
   parsed (`parse_path`, can raise X12PathError); the `_str` variants below take
   the string form. *)
From Coq Require Import String.
From PX.Lib Require Import Base PyStr.
From PX.Model Require Import Path.

Definition counter := list (xpath * Z).

(* NodeCounter.__init__ (nodeCounter.py:23-30) with initialCounts = None *)
Definition counter_init : counter := [].

(* `k in self._dict` / `self._dict[k]` *)
Fixpoint counter_find (c : counter) (k : xpath) : option Z :=
  match c with
  | [] => None
  | (k', v) :: rest => if path_eqb k' k then Some v else counter_find rest k
  end.

(* `self._dict[k] = v`: an existing key keeps its place, a new key goes last *)
Fixpoint counter_put (c : counter) (k : xpath) (v : Z) : counter :=
  match c with
  | [] => [(k, v)]
  | (k', v') :: rest => if path_eqb k' k then (k', v) :: rest else (k', v') :: counter_put rest k v
  end.

(* reset_to_node (nodeCounter.py:32-40): delete every key that is a child path of `parent`;
   the count of the node itself is kept *)
Definition reset_to_node (c : counter) (parent : xpath) : counter :=
  filter (fun kv => negb (is_child_path parent (format_path (fst kv)))) c.

(* increment (nodeCounter.py:43-51) *)
Definition increment (c : counter) (k : xpath) : counter :=
  match counter_find c k with
  | Some v => counter_put c k (v + 1)%Z
  | None => counter_put c k 1%Z
  end.

(* setCount (nodeCounter.py:54-59) *)
Definition setCount (c : counter) (k : xpath) (ct : Z) : counter := counter_put c k ct.

(* get_count (nodeCounter.py:61-68) *)
Definition get_count (c : counter) (k : xpath) : Z :=
  match counter_find c k with Some v => v | None => 0%Z end.

(* the same with a string argument (makeX12Path parses it first) *)
Definition reset_to_node_str (c : counter) (p : str) : result counter :=
  do k <- parse_path p; Ok (reset_to_node c k).
Definition increment_str (c : counter) (p : str) : result counter :=
  do k <- parse_path p; Ok (increment c k).
Definition setCount_str (c : counter) (p : str) (ct : Z) : result counter :=
  do k <- parse_path p; Ok (setCount c k ct).
Definition get_count_str (c : counter) (p : str) : result Z :=
  do k <- parse_path p; Ok (get_count c k).
