(* Errh.v — hand model of pyx12/error_handler.py: class err_handler and the
   node classes err_isa / err_gs / err_st / err_seg / err_ele.

   Python keeps the error tree as objects that reference each other and the
   handler keeps references to "current" nodes (cur_isa_node, cur_gs_node,
   cur_st_node, cur_seg_node, cur_ele_node).  The model keeps the objects in
   five heaps (one list per class; an object's identity is its index, in
   creation order) and the references as optional indices.  A node is never
   removed; `children` / `elements` are lists of indices.

   Every API call is a computation `SE errh unit`: state in, state out, and
   possibly a raised exception — the state that comes out WITH the exception is
   the partially updated one, as in Python.

   What is passed in from outside instead of real objects:
     - a Segment object  -> xseg (the delimiters it was built with + content)
     - src (X12Reader)   -> src_info (what get_isa_id/get_gs_id/get_st_id/
                            get_cur_line/st_count return)
     - map nodes         -> seg_info / ele_info (the attributes that are read)
   Error message strings are kept: the acknowledgement visitors test them. *)
From Coq Require Import String.
From PX.Lib Require Import Base PyStr PyInt.
From PX.Model Require Import Path Segment.

Local Definition l (s : string) : str := list_ascii_of_string s.

(* ------------------------------------------------------------------ *)
(* state + exception, the state surviving a raise                      *)

Definition SE (S A : Type) : Type := S -> S * result A.

Definition se_ret {S A} (a : A) : SE S A := fun s => (s, Ok a).
Definition se_bind {S A B} (m : SE S A) (f : A -> SE S B) : SE S B :=
  fun s => match m s with
           | (s', Ok a) => f a s'
           | (s', Raise e) => (s', Raise e)
           end.
Definition se_lift {S A} (r : result A) : SE S A := fun s => (s, r).
Definition se_raise {S A} (e : exn) : SE S A := fun s => (s, Raise e).
Definition se_get {S} : SE S S := fun s => (s, Ok s).
Definition se_mod {S} (f : S -> S) : SE S unit := fun s => (f s, Ok tt).
(* try: <m> except: pass — true when no exception escaped; the state changes made before the raise stay *)
Definition se_try {S A} (m : SE S A) : SE S bool :=
  fun s => match m s with (s', Ok _) => (s', Ok true) | (s', Raise _) => (s', Ok false) end.

Notation "'dos' x <- m ; k" := (se_bind m (fun x => k)) (at level 200, x pattern, m at level 100, k at level 200).
Notation "'dos_' m ; k" := (se_bind m (fun _ => k)) (at level 200, m at level 100, k at level 200).

Fixpoint se_iter {S A} (f : A -> SE S unit) (xs : list A) : SE S unit :=
  match xs with
  | [] => se_ret tt
  | x :: r => dos_ f x; se_iter f r
  end.

(* x.attr where x may be None *)
Definition deref {S A} (o : option A) : SE S A :=
  se_lift (match o with Some a => Ok a | None => Raise AttributeError end).

(* ------------------------------------------------------------------ *)
(* small Python facts                                                  *)

(* '%i' % z *)
Definition fmt_Zi (z : Z) : str :=
  match z with
  | Zneg p => "-"%char :: fmt_d (Npos p)
  | _ => fmt_d (Z.to_N z)
  end.
(* '%i' % x where x may be None: TypeError *)
Definition fmt_i (o : option Z) : result str :=
  match o with Some z => Ok (fmt_Zi z) | None => Raise TypeError end.

(* truthiness of an int-or-None / str-or-None *)
Definition truthy_Z (o : option Z) : bool := match o with Some z => negb (z =? 0)%Z | None => false end.
Definition truthy_s (o : option str) : bool := match o with Some (_ :: _) => true | _ => false end.

(* `sub in s` for strings *)
Fixpoint contains (sub s : str) : bool :=
  starts_with sub s || match s with [] => false | _ :: s' => contains sub s' end.

Fixpoint upd_nth {A} (xs : list A) (n : nat) (f : A -> A) : list A :=
  match xs, n with
  | [], _ => []
  | x :: r, 0 => f x :: r
  | x :: r, S n' => x :: upd_nth r n' f
  end.

(* ------------------------------------------------------------------ *)
(* what comes in from outside                                          *)

(* a pyx12.segment.Segment object *)
Record xseg := { xs_d : delims; xs_s : seg }.

(* seg_data.get_value(ref_des) *)
Definition xget (x : xseg) (ref_des : string) : result (option str) :=
  seg_get_value (xs_d x) (xs_s x) (l ref_des).

Record src_info := {
  src_isa_id : option str;      (* src.get_isa_id() *)
  src_gs_id : option str;       (* src.get_gs_id() *)
  src_st_id : option str;       (* src.get_st_id() *)
  src_line : option Z;          (* src.get_cur_line() *)
  src_st_count : Z              (* src.st_count *)
}.

(* the map node given to add_seg (None -> 'Unknown', -1) *)
Record seg_info := { si_name : str; si_pos : Z }.

(* the map node given to add_ele *)
Record ele_info := {
  ei_data_ele : option str;     (* map_node.data_ele *)
  ei_name : str;                (* map_node.name *)
  ei_seq : Z;                   (* map_node.seq *)
  ei_parent_composite : bool;   (* map_node.parent.is_composite() *)
  ei_parent_seq : Z             (* map_node.parent.seq *)
}.

(* ------------------------------------------------------------------ *)
(* the node classes                                                    *)

Definition err2 := (str * str)%type.                  (* (err_cde, err_str) *)
Definition err3 := (str * str * option str)%type.     (* (err_cde, err_str, value) *)

(* err_ele (error_handler.py:934-982); repeat_pos is always None *)
Record ele_node := {
  en_ref_num : option str; en_name : str; en_pos : Z; en_subpos : option Z;
  en_errors : list err3
}.

(* err_seg (851-931) *)
Record seg_node := {
  sn_name : str; sn_pos : Z; sn_seg_id : option str; sn_seg_count : option Z;
  sn_cur_line : option Z; sn_ls_id : option str;
  sn_errors : list err3; sn_elements : list nat
}.

(* err_st (720-848) *)
Record st_node := {
  tn_seg : xseg; tn_ctl : option str (* trn_set_control_num *);
  tn_line_st : option Z; tn_line_se : option Z;
  tn_id : option str (* trn_set_id *); tn_vriic : option str; tn_ack : option str;
  tn_children : list nat; tn_errors : list err2; tn_elements : list nat
}.

(* err_gs (579-717) *)
Record gs_node := {
  gn_seg : xseg; gn_isa_id : option str;
  gn_line_gs : option Z; gn_line_ge : option Z;
  gn_ctl : option str (* gs_control_num *); gn_fic : option str; gn_vriic : option str;
  gn_ack : option str; gn_orig : Z (* st_count_orig *); gn_recv : Z (* st_count_recv *);
  gn_children : list nat; gn_errors : list err2; gn_elements : list nat
}.

(* err_isa (474-576) *)
Record isa_node := {
  in_seg : xseg; in_isa_id : option str;
  in_line_isa : option Z; in_line_iea : option Z;
  in_trn : option str (* isa_trn_set_id = ISA13 *); in_ta1 : option str (* ISA14 *);
  in_date : option str (* ISA09 *); in_time : option str (* ISA10 *);
  in_children : list nat; in_errors : list err2; in_elements : list nat
}.

(* a reference to a node that can be `cur_seg_node` *)
Inductive nref := NIsa (n : nat) | NGs (n : nat) | NSt (n : nat) | NSeg (n : nat).

(* err_handler (77-387).  Root children = all of h_isa, in order. *)
Record errh := {
  h_isa : list isa_node; h_gs : list gs_node; h_st : list st_node;
  h_seg : list seg_node; h_ele : list ele_node;
  c_isa : option nat; c_gs : option nat; c_st : option nat;
  c_seg : option nref; seg_added : bool;
  c_ele : option nat;
  ele_added : option bool        (* None: the attribute ele_node_added does not exist yet *)
}.

(* err_handler.__init__ (81-95) *)
Definition errh_init : errh :=
  {| h_isa := []; h_gs := []; h_st := []; h_seg := []; h_ele := [];
     c_isa := None; c_gs := None; c_st := None; c_seg := None; seg_added := false;
     c_ele := None; ele_added := None |}.

(* ---- field updates ---- *)
Definition ele_set_errors (n : ele_node) v : ele_node :=
  {| en_ref_num := en_ref_num n; en_name := en_name n; en_pos := en_pos n; en_subpos := en_subpos n; en_errors := v |}.

Definition seg_set_errors (n : seg_node) v : seg_node :=
  {| sn_name := sn_name n; sn_pos := sn_pos n; sn_seg_id := sn_seg_id n; sn_seg_count := sn_seg_count n;
     sn_cur_line := sn_cur_line n; sn_ls_id := sn_ls_id n; sn_errors := v; sn_elements := sn_elements n |}.
Definition seg_set_elements (n : seg_node) v : seg_node :=
  {| sn_name := sn_name n; sn_pos := sn_pos n; sn_seg_id := sn_seg_id n; sn_seg_count := sn_seg_count n;
     sn_cur_line := sn_cur_line n; sn_ls_id := sn_ls_id n; sn_errors := sn_errors n; sn_elements := v |}.

Definition st_upd (n : st_node) (line_se : option Z) (ack : option str) (ch : list nat) (er : list err2) (el : list nat) : st_node :=
  {| tn_seg := tn_seg n; tn_ctl := tn_ctl n; tn_line_st := tn_line_st n; tn_line_se := line_se;
     tn_id := tn_id n; tn_vriic := tn_vriic n; tn_ack := ack;
     tn_children := ch; tn_errors := er; tn_elements := el |}.
Definition st_set_close (n : st_node) line ack := st_upd n line ack (tn_children n) (tn_errors n) (tn_elements n).
Definition st_set_children (n : st_node) v := st_upd n (tn_line_se n) (tn_ack n) v (tn_errors n) (tn_elements n).
Definition st_set_errors (n : st_node) v := st_upd n (tn_line_se n) (tn_ack n) (tn_children n) v (tn_elements n).
Definition st_set_elements (n : st_node) v := st_upd n (tn_line_se n) (tn_ack n) (tn_children n) (tn_errors n) v.

Definition gs_upd (n : gs_node) (line_ge : option Z) (ack : option str) (orig recv : Z)
           (ch : list nat) (er : list err2) (el : list nat) : gs_node :=
  {| gn_seg := gn_seg n; gn_isa_id := gn_isa_id n; gn_line_gs := gn_line_gs n; gn_line_ge := line_ge;
     gn_ctl := gn_ctl n; gn_fic := gn_fic n; gn_vriic := gn_vriic n;
     gn_ack := ack; gn_orig := orig; gn_recv := recv;
     gn_children := ch; gn_errors := er; gn_elements := el |}.
Definition gs_set_ge (n : gs_node) line ack :=
  gs_upd n line ack (gn_orig n) (gn_recv n) (gn_children n) (gn_errors n) (gn_elements n).
Definition gs_set_ack (n : gs_node) ack :=
  gs_upd n (gn_line_ge n) ack (gn_orig n) (gn_recv n) (gn_children n) (gn_errors n) (gn_elements n).
Definition gs_set_counts (n : gs_node) orig recv :=
  gs_upd n (gn_line_ge n) (gn_ack n) orig recv (gn_children n) (gn_errors n) (gn_elements n).
Definition gs_set_children (n : gs_node) v :=
  gs_upd n (gn_line_ge n) (gn_ack n) (gn_orig n) (gn_recv n) v (gn_errors n) (gn_elements n).
Definition gs_set_errors (n : gs_node) v :=
  gs_upd n (gn_line_ge n) (gn_ack n) (gn_orig n) (gn_recv n) (gn_children n) v (gn_elements n).
Definition gs_set_elements (n : gs_node) v :=
  gs_upd n (gn_line_ge n) (gn_ack n) (gn_orig n) (gn_recv n) (gn_children n) (gn_errors n) v.

Definition isa_upd (n : isa_node) (line_iea : option Z) (ch : list nat) (er : list err2) (el : list nat) : isa_node :=
  {| in_seg := in_seg n; in_isa_id := in_isa_id n; in_line_isa := in_line_isa n; in_line_iea := line_iea;
     in_trn := in_trn n; in_ta1 := in_ta1 n; in_date := in_date n; in_time := in_time n;
     in_children := ch; in_errors := er; in_elements := el |}.
Definition isa_set_iea (n : isa_node) v := isa_upd n v (in_children n) (in_errors n) (in_elements n).
Definition isa_set_children (n : isa_node) v := isa_upd n (in_line_iea n) v (in_errors n) (in_elements n).
Definition isa_set_errors (n : isa_node) v := isa_upd n (in_line_iea n) (in_children n) v (in_elements n).
Definition isa_set_elements (n : isa_node) v := isa_upd n (in_line_iea n) (in_children n) (in_errors n) v.

Definition set_heaps (h : errh) hi hg ht hs he : errh :=
  {| h_isa := hi; h_gs := hg; h_st := ht; h_seg := hs; h_ele := he;
     c_isa := c_isa h; c_gs := c_gs h; c_st := c_st h; c_seg := c_seg h; seg_added := seg_added h;
     c_ele := c_ele h; ele_added := ele_added h |}.
Definition set_h_isa (h : errh) v := set_heaps h v (h_gs h) (h_st h) (h_seg h) (h_ele h).
Definition set_h_gs (h : errh) v := set_heaps h (h_isa h) v (h_st h) (h_seg h) (h_ele h).
Definition set_h_st (h : errh) v := set_heaps h (h_isa h) (h_gs h) v (h_seg h) (h_ele h).
Definition set_h_seg (h : errh) v := set_heaps h (h_isa h) (h_gs h) (h_st h) v (h_ele h).
Definition set_h_ele (h : errh) v := set_heaps h (h_isa h) (h_gs h) (h_st h) (h_seg h) v.

Definition set_cursors (h : errh) ci cg ct cs sa ce ea : errh :=
  {| h_isa := h_isa h; h_gs := h_gs h; h_st := h_st h; h_seg := h_seg h; h_ele := h_ele h;
     c_isa := ci; c_gs := cg; c_st := ct; c_seg := cs; seg_added := sa; c_ele := ce; ele_added := ea |}.
(* self.cur_seg_node = r; self.seg_node_added = b *)
Definition set_cur_seg (h : errh) (r : option nref) (b : bool) : errh :=
  set_cursors h (c_isa h) (c_gs h) (c_st h) r b (c_ele h) (ele_added h).

(* ---- heap access ---- *)
Definition heap_get {A} (xs : list A) (i : nat) : SE errh A :=
  se_lift (match nth_error xs i with Some n => Ok n | None => Raise OtherError (* dangling index: cannot happen *) end).
Definition get_isa (i : nat) : SE errh isa_node := dos h <- se_get; heap_get (h_isa h) i.
Definition get_gs (i : nat) : SE errh gs_node := dos h <- se_get; heap_get (h_gs h) i.
Definition get_st (i : nat) : SE errh st_node := dos h <- se_get; heap_get (h_st h) i.
Definition get_seg (i : nat) : SE errh seg_node := dos h <- se_get; heap_get (h_seg h) i.
Definition get_ele (i : nat) : SE errh ele_node := dos h <- se_get; heap_get (h_ele h) i.

Definition mod_isa (i : nat) (f : isa_node -> isa_node) : SE errh unit := se_mod (fun h => set_h_isa h (upd_nth (h_isa h) i f)).
Definition mod_gs (i : nat) (f : gs_node -> gs_node) : SE errh unit := se_mod (fun h => set_h_gs h (upd_nth (h_gs h) i f)).
Definition mod_st (i : nat) (f : st_node -> st_node) : SE errh unit := se_mod (fun h => set_h_st h (upd_nth (h_st h) i f)).
Definition mod_seg (i : nat) (f : seg_node -> seg_node) : SE errh unit := se_mod (fun h => set_h_seg h (upd_nth (h_seg h) i f)).
Definition mod_ele (i : nat) (f : ele_node -> ele_node) : SE errh unit := se_mod (fun h => set_h_ele h (upd_nth (h_ele h) i f)).

(* ------------------------------------------------------------------ *)
(* counting (pure, on a given state)                                   *)

Definition sum_nat (xs : list nat) : nat := fold_left Nat.add xs 0.
Definition count_pos (xs : list nat) : nat := length (filter (fun n => 0 <? n) xs).

(* err_ele.err_count / get_error_count (978-982) *)
Definition ele_err_count (e : ele_node) : nat := length (en_errors e).
Definition ele_count_at (h : errh) (i : nat) : nat :=
  match nth_error (h_ele h) i with Some e => ele_err_count e | None => 0 end.

(* err_seg.child_err_count (909-914), err_count (897-904) *)
Definition seg_child_err_count (h : errh) (n : seg_node) : nat := count_pos (map (ele_count_at h) (sn_elements n)).
Definition seg_err_count (h : errh) (n : seg_node) : nat :=
  length (sn_errors n) + (if 0 <? seg_child_err_count h n then 1 else 0).
Definition seg_count_at (h : errh) (i : nat) : nat :=
  match nth_error (h_seg h) i with Some n => seg_err_count h n | None => 0 end.

(* err_st.child_err_count (812-817), err_count (789-797) = get_error_count (799) *)
Definition st_child_err_count (h : errh) (n : st_node) : nat := count_pos (map (seg_count_at h) (tn_children n)).
Definition st_err_count (h : errh) (n : st_node) : nat :=
  length (tn_errors n) + (if 0 <? st_child_err_count h n then 1 else 0).
Definition st_count_at (h : errh) (i : nat) : nat :=
  match nth_error (h_st h) i with Some n => st_err_count h n | None => 0 end.

(* err_gs.get_error_count (679-687) *)
Definition gs_error_count (h : errh) (n : gs_node) : nat :=
  sum_nat (map (ele_count_at h) (gn_elements n)) + sum_nat (map (st_count_at h) (gn_children n)) + length (gn_errors n).
Definition gs_count_at (h : errh) (i : nat) : nat :=
  match nth_error (h_gs h) i with Some n => gs_error_count h n | None => 0 end.

(* err_isa.get_error_count (542-550) *)
Definition isa_error_count (h : errh) (n : isa_node) : nat :=
  sum_nat (map (ele_count_at h) (in_elements n)) + sum_nat (map (gs_count_at h) (in_children n)) + length (in_errors n).

(* err_handler.get_error_count (349-355) *)
Definition get_error_count (h : errh) : nat := sum_nat (map (isa_error_count h) (h_isa h)).

(* err_gs._get_ack_code (647-660): element errors of the GS/GE segment do not count *)
Definition gs_ack_code (h : errh) (n : gs_node) : str :=
  if existsb (fun i => 0 <? st_count_at h i) (gn_children n) then l "R"
  else if 0 <? length (gn_errors n) then l "R"
  else l "A".

(* err_gs.count_failed_st (662-667) *)
Definition gs_count_failed_st (h : errh) (n : gs_node) : nat :=
  length (filter (fun i => match nth_error (h_st h) i with
                           | Some t => negb (match tn_ack t with
                                             | Some a => str_eqb a (l "A") || str_eqb a (l "E")
                                             | None => false
                                             end)
                           | None => false
                           end) (gn_children n)).

(* get_cur_line of the envelope nodes (532-540, 669-677, 819-827) and of err_seg (err_node: 408-413) *)
Definition isa_cur_line (n : isa_node) : option Z := if truthy_Z (in_line_iea n) then in_line_iea n else in_line_isa n.
Definition gs_cur_line (n : gs_node) : option Z := if truthy_Z (gn_line_ge n) then gn_line_ge n else gn_line_gs n.
Definition st_cur_line (n : st_node) : option Z := if truthy_Z (tn_line_se n) then tn_line_se n else tn_line_st n.

(* is_closed (502-509, 699-706, 829-836) *)
Definition isa_is_closed (n : isa_node) : bool := truthy_Z (in_line_iea n).
Definition gs_is_closed (n : gs_node) : bool := truthy_Z (gn_line_ge n).
Definition st_is_closed (n : st_node) : bool := truthy_Z (tn_line_se n).

(* get_error_list (552-560, 689-697, 802-810).  Note err_gs: `err[0] in ('6')` is a SUBSTRING test on
   the string '6' (the parentheses do not make a tuple) *)
Definition isa_error_list (n : isa_node) (seg_id : str) : list err2 :=
  if str_eqb seg_id (l "ISA") then filter (fun e => contains (l "ISA") (fst e)) (in_errors n)
  else if str_eqb seg_id (l "IEA") then filter (fun e => contains (l "IEA") (fst e)) (in_errors n)
  else [].
Definition gs_error_list (n : gs_node) (seg_id : str) : list err2 :=
  if str_eqb seg_id (l "GS") then filter (fun e => contains (fst e) (l "6")) (gn_errors n)
  else if str_eqb seg_id (l "GE") then filter (fun e => negb (contains (fst e) (l "6"))) (gn_errors n)
  else [].
Definition st_codes_of_st : list str := [l "1"; l "6"; l "7"; l "23"].
Definition st_error_list (n : st_node) (seg_id : str) : list err2 :=
  if str_eqb seg_id (l "ST") then filter (fun e => mem_str (fst e) st_codes_of_st) (tn_errors n)
  else if str_eqb seg_id (l "SE") then filter (fun e => negb (mem_str (fst e) st_codes_of_st)) (tn_errors n)
  else [].

(* node.get_cur_line() for whatever cur_seg_node is *)
Definition node_cur_line (r : nref) : SE errh (option Z) :=
  match r with
  | NIsa i => dos n <- get_isa i; se_ret (isa_cur_line n)
  | NGs i => dos n <- get_gs i; se_ret (gs_cur_line n)
  | NSt i => dos n <- get_st i; se_ret (st_cur_line n)
  | NSeg i => dos n <- get_seg i; se_ret (sn_cur_line n)
  end.

(* ------------------------------------------------------------------ *)
(* constructors                                                        *)

(* err_isa.__init__ (479-500): get_value raises EngineError when seg_data is not an ISA segment *)
Definition mk_isa (x : xseg) (src : src_info) : result isa_node :=
  do a <- xget x "ISA13"; do b <- xget x "ISA14"; do c <- xget x "ISA09"; do d <- xget x "ISA10";
  Ok {| in_seg := x; in_isa_id := src_isa_id src; in_line_isa := src_line src; in_line_iea := None;
        in_trn := a; in_ta1 := b; in_date := c; in_time := d;
        in_children := []; in_errors := []; in_elements := [] |}.

(* err_gs.__init__ (584-612) *)
Definition mk_gs (x : xseg) (src : src_info) : result gs_node :=
  do a <- xget x "GS01"; do b <- xget x "GS08";
  Ok {| gn_seg := x; gn_isa_id := src_isa_id src; gn_line_gs := src_line src; gn_line_ge := None;
        gn_ctl := src_gs_id src; gn_fic := a; gn_vriic := b;
        gn_ack := None; gn_orig := 0; gn_recv := 0;
        gn_children := []; gn_errors := []; gn_elements := [] |}.

(* err_st.__init__ (731-750) *)
Definition mk_st (x : xseg) (src : src_info) : result st_node :=
  do a <- xget x "ST01"; do b <- xget x "ST03";
  Ok {| tn_seg := x; tn_ctl := src_st_id src; tn_line_st := src_line src; tn_line_se := None;
        tn_id := a; tn_vriic := b; tn_ack := Some (l "R");
        tn_children := []; tn_errors := []; tn_elements := [] |}.

(* err_seg.__init__ (855-878) *)
Definition mk_seg (mn : option seg_info) (x : xseg) (seg_count cur_line : option Z) (ls_id : option str) : seg_node :=
  {| sn_name := match mn with Some m => si_name m | None => l "Unknown" end;
     sn_pos := match mn with Some m => si_pos m | None => (-1)%Z end;
     sn_seg_id := sid (xs_s x); sn_seg_count := seg_count; sn_cur_line := cur_line; sn_ls_id := ls_id;
     sn_errors := []; sn_elements := [] |}.

(* err_ele.__init__ (941-960) *)
Definition mk_ele (mn : ele_info) : ele_node :=
  {| en_ref_num := ei_data_ele mn; en_name := ei_name mn;
     en_pos := if ei_parent_composite mn then ei_parent_seq mn else ei_seq mn;
     en_subpos := if ei_parent_composite mn then Some (ei_seq mn) else None;
     en_errors := [] |}.

(* ------------------------------------------------------------------ *)
(* the API                                                             *)

(* add_isa_loop (132-141): the node is built first; nothing changes if that raises *)
Definition add_isa_loop (x : xseg) (src : src_info) : SE errh unit :=
  dos n <- se_lift (mk_isa x src);
  se_mod (fun h =>
    let id := length (h_isa h) in
    set_cursors (set_h_isa h (h_isa h ++ [n]))
                (Some id) (c_gs h) (c_st h) (Some (NIsa id)) true (c_ele h) (ele_added h)).

(* add_gs_loop (143-153): `parent.children` is evaluated before err_gs(...) is built *)
Definition add_gs_loop (x : xseg) (src : src_info) : SE errh unit :=
  dos h <- se_get;
  dos p <- deref (c_isa h);
  dos n <- se_lift (mk_gs x src);
  let id := length (h_gs h) in
  dos_ se_mod (fun h => set_h_gs h (h_gs h ++ [n]));
  dos_ mod_isa p (fun i => isa_set_children i (in_children i ++ [id]));
  se_mod (fun h => set_cursors h (c_isa h) (Some id) (c_st h) (Some (NGs id)) true (c_ele h) (ele_added h)).

(* add_st_loop (155-165) *)
Definition add_st_loop (x : xseg) (src : src_info) : SE errh unit :=
  dos h <- se_get;
  dos p <- deref (c_gs h);
  dos n <- se_lift (mk_st x src);
  let id := length (h_st h) in
  dos_ se_mod (fun h => set_h_st h (h_st h ++ [n]));
  dos_ mod_gs p (fun g => gs_set_children g (gn_children g ++ [id]));
  se_mod (fun h => set_cursors h (c_isa h) (c_gs h) (Some id) (Some (NSt id)) true (c_ele h) (ele_added h)).

(* add_seg (167-183): the node is created detached (parent = cur_st_node, possibly None, is only stored) *)
Definition add_seg (mn : option seg_info) (x : xseg) (seg_count cur_line : option Z) (ls_id : option str) : SE errh unit :=
  se_mod (fun h =>
    let id := length (h_seg h) in
    set_cur_seg (set_h_seg h (h_seg h ++ [mk_seg mn x seg_count cur_line ls_id])) (Some (NSeg id)) false).

(* _add_cur_seg (191-197).  seg_node_added is False only initially (then cur_st_node is None and the
   append raises) or after add_seg (then cur_seg_node is that SEG node). *)
Definition add_cur_seg : SE errh unit :=
  dos h <- se_get;
  if seg_added h then se_ret tt
  else
    match c_st h with
    | None => se_ret tt            (* fix: `and self.cur_st_node is not None` — no set is open, the node stays detached *)
    | Some t =>
    match c_seg h with
    | Some (NSeg k) =>
        dos_ mod_st t (fun n => st_set_children n (tn_children n ++ [k]));
        se_mod (fun h => set_cur_seg h (c_seg h) true)
    | _ => se_raise OtherError     (* not reachable, see above *)
    end
    end.

(* add_ele (199-210): `self.cur_seg_node.id` needs a current node; the parent chosen by the id only
   ends up in err_ele.parent, which nothing reads *)
Definition add_ele (mn : ele_info) : SE errh unit :=
  dos h <- se_get;
  dos _ <- deref (c_seg h);
  se_mod (fun h =>
    let id := length (h_ele h) in
    set_cursors (set_h_ele h (h_ele h ++ [mk_ele mn]))
                (c_isa h) (c_gs h) (c_st h) (c_seg h) (seg_added h) (Some id) (Some false)).

(* cur_seg_node.elements.append(e) *)
Definition append_element (r : nref) (e : nat) : SE errh unit :=
  match r with
  | NIsa i => mod_isa i (fun n => isa_set_elements n (in_elements n ++ [e]))
  | NGs i => mod_gs i (fun n => gs_set_elements n (gn_elements n ++ [e]))
  | NSt i => mod_st i (fun n => st_set_elements n (tn_elements n ++ [e]))
  | NSeg i => mod_seg i (fun n => seg_set_elements n (sn_elements n ++ [e]))
  end.

(* _add_cur_ele (212-218): ele_node_added is first assigned in add_ele — reading it earlier is an
   AttributeError (raised after _add_cur_seg has run) *)
Definition add_cur_ele : SE errh unit :=
  dos_ add_cur_seg;
  dos h <- se_get;
  dos ea <- deref (ele_added h);
  if negb ea then
    match c_seg h with
    | None => se_ret tt
    | Some r =>
        match c_ele h with
        | Some e =>
            dos_ append_element r e;
            se_mod (fun h => set_cursors h (c_isa h) (c_gs h) (c_st h) (c_seg h) (seg_added h) (c_ele h) (Some true))
        | None => se_raise OtherError   (* not reachable: ele_node_added exists only after add_ele set cur_ele_node *)
        end
    end
  else se_ret tt.

(* isa_error (221-232): the log line is formatted BEFORE the error is stored *)
Definition isa_error (cde msg : str) : SE errh unit :=
  dos h <- se_get;
  dos i <- deref (c_isa h);
  dos n <- get_isa i;
  dos _ <- se_lift (fmt_i (isa_cur_line n));
  mod_isa i (fun n => isa_set_errors n (in_errors n ++ [(cde, msg)])).

(* gs_error (234-245) *)
Definition gs_error (cde msg : str) : SE errh unit :=
  dos h <- se_get;
  match c_gs h with
  | None =>                      (* fix: no group is open -> interchange error 024, nothing without an interchange *)
      match c_isa h with Some _ => isa_error (l "024") msg | None => se_ret tt end
  | Some i =>
  dos n <- get_gs i;
  dos _ <- se_lift (fmt_i (gs_cur_line n));
  mod_gs i (fun n => gs_set_errors n (gn_errors n ++ [(cde, msg)]))
  end.

(* st_error (247-258) *)
Definition st_error (cde msg : str) : SE errh unit :=
  dos h <- se_get;
  match c_st h with
  | None =>                      (* fix: no set is open -> interchange error 024 *)
      match c_isa h with Some _ => isa_error (l "024") msg | None => se_ret tt end
  | Some i =>
  dos n <- get_st i;
  dos _ <- se_lift (fmt_i (st_cur_line n));
  mod_st i (fun n => st_set_errors n (tn_errors n ++ [(cde, msg)]))
  end.

(* seg_error (260-281).  Inside the bare `except:` — _add_cur_seg with no ST node (AttributeError),
   no current node (AttributeError), and a current node that is an ISA/GS/ST node: their add_error
   takes two arguments, so the three-argument call is a TypeError; all swallowed.  The log line is
   formatted afterwards and can raise. *)
Definition seg_error (cde msg : str) (val : option str) (src_ln : option Z) : SE errh unit :=
  dos _ <- se_try (
    dos_ add_cur_seg;
    dos h <- se_get;
    dos r <- deref (c_seg h);
    match r with
    | NSeg k => mod_seg k (fun n => seg_set_errors n (sn_errors n ++ [(cde, msg, val)]))
    | _ => se_raise TypeError
    end);
  dos h <- se_get;
  if truthy_Z src_ln then se_ret tt
  else match c_seg h with
       | None => se_ret tt
       | Some r => dos ln <- node_cur_line r; dos _ <- se_lift (fmt_i ln); se_ret tt
       end.

(* ele_error (283-298): the error is stored, then the log line is formatted *)
Definition ele_error (cde msg : str) (bad : option str) : SE errh unit :=
  dos_ add_cur_ele;
  dos h <- se_get;
  dos e <- deref (c_ele h);
  dos_ mod_ele e (fun n => ele_set_errors n (en_errors n ++ [(cde, msg, bad)]));
  dos r <- deref (c_seg h);
  dos ln <- node_cur_line r;
  dos _ <- se_lift (fmt_i ln);
  se_ret tt.

(* close_isa_loop (301-306) + err_isa.close (529-530) *)
Definition close_isa_loop (src : src_info) : SE errh unit :=
  dos h <- se_get;
  dos i <- deref (c_isa h);
  dos_ mod_isa i (fun n => isa_set_iea n (src_line src));
  se_mod (fun h => set_cur_seg h (Some (NIsa i)) true).

(* int(seg_data.get_value('GE01')) *)
Definition ge01_count (x : xseg) : result Z :=
  do v <- xget x "GE01";
  match v with
  | None => Ok 0%Z                 (* fix: `except (ValueError, TypeError): self.st_count_orig = 0` *)
  | Some s => match py_int s with Some z => Ok z | None => Ok 0%Z end
  end.

(* close_gs_loop (308-313) + err_gs.close (632-645): cur_line_ge and ack_code are already set when
   int(GE01) raises; st_count_recv and the handler's cursor are not *)
Definition close_gs_loop (seg_data : option xseg) (src : src_info) : SE errh unit :=
  dos h <- se_get;
  dos g <- deref (c_gs h);
  dos n <- get_gs g;
  dos_ mod_gs g (fun n => gs_set_ge n (src_line src) (Some (gs_ack_code h n)));
  dos orig <- se_lift (match seg_data with None => Ok 0%Z | Some x => ge01_count x end);
  dos_ mod_gs g (fun n => gs_set_counts n orig (src_st_count src));
  se_mod (fun h => set_cur_seg h (Some (NGs g)) true).

(* close_st_loop (315-320) + err_st.close (771-787) *)
Definition close_st_loop (src : src_info) : SE errh unit :=
  dos h <- se_get;
  dos t <- deref (c_st h);
  dos n <- get_st t;
  dos_ mod_st t (fun n => st_set_close n (src_line src) (Some (if 0 <? st_err_count h n then l "R" else l "A")));
  se_mod (fun h => set_cur_seg h (Some (NSt t)) true).

(* one tuple of an err_list *)
Record err_item := { it_type : str; it_cde : str; it_str : str; it_val : option str; it_line : option Z }.

(* handle_errors (106-118): other types are skipped; a raise ends the loop *)
Definition handle_error (e : err_item) : SE errh unit :=
  if str_eqb (it_type e) (l "isa") then isa_error (it_cde e) (it_str e)
  else if str_eqb (it_type e) (l "gs") then gs_error (it_cde e) (it_str e)
  else if str_eqb (it_type e) (l "st") then st_error (it_cde e) (it_str e)
  else if str_eqb (it_type e) (l "seg") then seg_error (it_cde e) (it_str e) (it_val e) (it_line e)
  else se_ret tt.
Definition handle_errors (es : list err_item) : SE errh unit := se_iter handle_error es.
