(* Writer.v — hand model of pyx12/x12file.py:X12Writer (Write, Close,
   _popToLoop, _close_*, _get_trailer_segment, _write_isa_segment). *)
From Coq Require Import String.
From PX.Lib Require Import Base PyStr PyInt.
From PX.Gen Require Import SrcConsts.
From PX.Model Require Import Path Segment Raw Reader.

Local Definition l (s : string) : str := list_ascii_of_string s.

Record wstate := {
  wx : xstate;                 (* the X12Base bookkeeping *)
  wd : delims;                 (* the writer's own delimiters *)
  w_rep : str;                 (* repetition separator *)
  w_eol : str
}.

Definition w_init (d : delims) (rep eol : str) : wstate :=
  {| wx := x_init; wd := d; w_rep := rep; w_eol := eol |}.

Definition with_x (w : wstate) (x : xstate) : wstate :=
  {| wx := x; wd := wd w; w_rep := w_rep w; w_eol := w_eol w |}.

(* '{:d}'.format(n) *)
Definition fmt_Z (z : Z) : str :=
  match z with
  | Zneg p => "-"%char :: fmt_d (Npos p)
  | _ => fmt_d (Z.to_N z)
  end.

(* _write_segment *)
Definition emit (w : wstate) (s : seg) : str := format_seg (wd w) s ++ w_eol w.

(* _get_trailer_segment: built as text and parsed with the writer's delimiters *)
(* '{id}'.format(id=None) prints None *)
(* '' if id is None else id *)
Definition show_oid (o : option str) : str := match o with Some v => v | None => [] end.

Definition trailer (w : wstate) (id : string) (count : Z) (loop_id : option str) : seg :=
  parse_seg (wd w) (l id ++ [ele_term (wd w)] ++ fmt_Z count ++ [ele_term (wd w)] ++ show_oid loop_id).

Definition set_gs_count (x : xstate) (v : Z) : xstate :=
  {| loops := loops x; hl_stack := hl_stack x; gs_count := v; st_count := st_count x;
     hl_count := hl_count x; seg_count := seg_count x; cur_line := cur_line x;
     isa_ids := isa_ids x; gs_ids := gs_ids x; st_ids := st_ids x;
     lx_count := lx_count x; check_837_lx := check_837_lx x |}.
Definition set_st_count (x : xstate) (v : Z) : xstate :=
  {| loops := loops x; hl_stack := hl_stack x; gs_count := gs_count x; st_count := v;
     hl_count := hl_count x; seg_count := seg_count x; cur_line := cur_line x;
     isa_ids := isa_ids x; gs_ids := gs_ids x; st_ids := st_ids x;
     lx_count := lx_count x; check_837_lx := check_837_lx x |}.
Definition set_seg_count (x : xstate) (v : Z) : xstate :=
  {| loops := loops x; hl_stack := hl_stack x; gs_count := gs_count x; st_count := st_count x;
     hl_count := hl_count x; seg_count := v; cur_line := cur_line x;
     isa_ids := isa_ids x; gs_ids := gs_ids x; st_ids := st_ids x;
     lx_count := lx_count x; check_837_lx := check_837_lx x |}.

(* _close_loop: the trailer written (as a segment; `emit` turns it into text) and the counter reset *)
Definition close_loop (w : wstate) (kind : str) (loop_id : option str) : wstate * list seg :=
  let x := wx w in
  if str_eqb kind (l "ISA") then
    (with_x w (set_gs_count x 0), [trailer w "IEA" (gs_count x) loop_id])
  else if str_eqb kind (l "GS") then
    (with_x w (set_st_count x 0), [trailer w "GE" (st_count x) loop_id])
  else if str_eqb kind (l "ST") then
    (with_x w (set_seg_count x 0), [trailer w "SE" (seg_count x + 1)%Z loop_id])
  else (w, []).

(* _popToLoop: close loops from the innermost up to and including the first of `kind`
   (all of them when none is of that kind) *)
Fixpoint pop_to_loop (w : wstate) (lp : list (str * option str)) (kind : str) : wstate * list seg :=
  match lp with
  | [] => (with_x w (with_loops (wx w) []), [])
  | (k, id) :: rest =>
      let w1 := with_x w (with_loops (wx w) rest) in
      let (w2, out) := close_loop w1 k id in
      if str_eqb k kind then (w2, out)
      else let (w3, out') := pop_to_loop w2 rest kind in (w3, out ++ out')
  end.

Definition pop_to (w : wstate) (kind : string) : wstate * list seg :=
  pop_to_loop w (loops (wx w)) (l kind).

(* X12Writer.Close *)
Definition w_close_segs (w : wstate) : wstate * list seg := pop_to w "ISA".

(* X12Writer.Write: the segments written.  `ds` are the delimiters the segment object was built with
   (Segment.set splits a new value at the segment's own sub-element separator). *)
Definition w_write_segs (w : wstate) (ds : delims) (s : seg) : result (wstate * list seg) :=
  do r <- base_step ds (wx w) s;
  let w1 := with_x w (fst r) in
  if sid_is s "IEA" then Ok (pop_to w1 "ISA")
  else if sid_is s "GE" then Ok (pop_to w1 "GS")
  else if sid_is s "SE" then Ok (pop_to w1 "ST")
  else if check_837_lx (wx w1) && sid_is s "LX" then
    do s' <- set_ix ds s (Some 0%Z, None) (fmt_Z (lx_count (wx w1)));
    Ok (w1, [s'])
  else if sid_is s "ISA" then
    do s1 <- (if opt_eqb str_eqb (ev ds s 12) (Some (l "00501"))
              then set_ix ds s (Some 10%Z, None) (w_rep w) else Ok s);
    do s2 <- set_ix ds s1 (Some 15%Z, None) [subele_term (wd w)];
    Ok (w1, [s2])
  else Ok (w1, [s]).

(* the text actually written *)
Definition w_close (w : wstate) : wstate * list str :=
  let (w', segs) := w_close_segs w in (w', map (emit w) segs).

Definition w_write (w : wstate) (ds : delims) (s : seg) : result (wstate * list str) :=
  do r <- w_write_segs w ds s; Ok (fst r, map (emit w) (snd r)).

(* a whole write history: all segments written, in order *)
Fixpoint w_run_segs (w : wstate) (ds : delims) (segs : list seg) : result (wstate * list seg) :=
  match segs with
  | [] => Ok (w, [])
  | s :: rest =>
      do r <- w_write_segs w ds s;
      do r2 <- w_run_segs (fst r) ds rest;
      Ok (fst r2, snd r ++ snd r2)
  end.

(* history followed by Close *)
Definition w_run_close (w : wstate) (ds : delims) (segs : list seg) : result (list seg) :=
  do r <- w_run_segs w ds segs;
  Ok (snd r ++ snd (w_close_segs (fst r))).
