(* MapLoad.v — hand model of the map constructors of pyx12/map_if.py
   (map_if, loop_if, segment_if, element_if, composite_if), of
   dataele.DataElements, codes.ExternalCodes and map_index.map_index,
   over the XML trees regenerated from /repo/pyx12/map (Gen/Maps). *)
From Coq Require Import String.
From PX.Lib Require Import Base PyStr PyInt Regex Xml.
From PX.Model Require Import Path Syntax.

Local Definition l (x : string) : str := list_ascii_of_string x.

Definition ostr_eqb (a b : option str) : bool := opt_eqb str_eqb a b.

(* int(x) where x may be None (TypeError) or not numeric (ValueError) *)
Definition int_of (o : option str) : result Z :=
  match o with
  | None => Raise TypeError
  | Some v => match py_int v with Some z => Ok z | None => Raise ValueError end
  end.

(* Python truthiness of an optional string *)
Definition truthy (o : option str) : bool := match o with Some (_ :: _) => true | _ => false end.

(* ---------------- data elements (dataele.py) ---------------- *)
Record dataele := { de_num : option str; de_type : option str; de_min : Z; de_max : Z; de_name : option str }.

Fixpoint load_dataeles (es : list xml) : result (list dataele) :=
  match es with
  | [] => Ok []
  | e :: rest =>
      do mn <- int_of (x_get e "min_len");
      do mx <- int_of (x_get e "max_len");
      do more <- load_dataeles rest;
      Ok ({| de_num := x_get e "ele_num"; de_type := x_get e "data_type"; de_min := mn; de_max := mx;
             de_name := x_get e "name" |} :: more)
  end.

Definition DataElements (root : xml) : result (list dataele) := load_dataeles (x_iter root "data_ele").

(* dict semantics: the LAST definition of a number wins *)
Fixpoint de_find (tbl : list dataele) (num : option str) (acc : option dataele) : option dataele :=
  match tbl with
  | [] => acc
  | d :: rest => de_find rest num (if ostr_eqb (de_num d) num then Some d else acc)
  end.

(* DataElements.get_by_elem_num *)
Definition get_by_elem_num (tbl : list dataele) (num : option str) : result dataele :=
  if negb (truthy num) then Raise EngineError
  else match de_find tbl num None with
       | Some d => Ok d
       | None => Raise EngineError
       end.

(* ---------------- external codes (codes.py) ---------------- *)
Record codeset := { cs_id : option str; cs_codes : list (option str) }.

Definition load_codeset (e : xml) : codeset :=
  {| cs_id := x_findtext e "id";
     cs_codes := flat_map (fun v => map x_text (x_findall v "code")) (x_findall e "version") |}.

Definition ExternalCodes (root : xml) : list codeset := map load_codeset (x_iter root "codeset").

Fixpoint cs_find (tbl : list codeset) (key : option str) (acc : option codeset) : option codeset :=
  match tbl with
  | [] => acc
  | c :: rest => cs_find rest key (if ostr_eqb (cs_id c) key then Some c else acc)
  end.

(* ExternalCodes.isValid(key, code) with the exclude list of the parameters *)
Definition ext_is_valid (tbl : list codeset) (exclude : list str) (key : option str) (code : option str) : result bool :=
  match key with
  | Some (c :: r) =>
      if mem_str (c :: r) exclude then Ok true
      else match cs_find tbl key None with
           | None => Raise EngineError
           | Some cset => Ok (existsb (ostr_eqb code) (cs_codes cset))
           end
  | _ => Raise EngineError
  end.

(* ---------------- map index (map_index.py) ---------------- *)
Record map_entry := { mi_icvn : option str; mi_vriic : option str; mi_fic : option str; mi_tspc : option str;
                      mi_file : option str; mi_abbr : option str }.

Definition load_index (root : xml) : list map_entry :=
  flat_map (fun v => map (fun m => {| mi_icvn := x_get v "icvn"; mi_vriic := x_get m "vriic"; mi_fic := x_get m "fic";
                                      mi_tspc := x_get m "tspc"; mi_file := x_text m; mi_abbr := x_get m "abbr" |})
                         (x_findall v "map"))
           (x_iter root "version").

(* map_index.get_filename(icvn, vriic, fic, tspc=None) *)
Fixpoint get_filename (idx : list map_entry) (icvn vriic fic tspc : option str) : option (option str) :=
  match idx with
  | [] => None
  | a :: rest =>
      if ostr_eqb (mi_icvn a) icvn && ostr_eqb (mi_vriic a) vriic && ostr_eqb (mi_fic a) fic &&
         (match tspc with None => true | Some _ => ostr_eqb (mi_tspc a) tspc end)
      then Some (mi_file a)
      else get_filename rest icvn vriic fic tspc
  end.

(* ---------------- map nodes ---------------- *)
Record elem := {
  e_id : option str; e_data_ele : option str; e_usage : option str; e_name : option str;
  e_seq : Z; e_path : option str; e_max_use : option str;
  e_res : option str;                 (* regex source text *)
  e_rec : option re;                  (* compiled (translated) regex *)
  e_codes : list (option str); e_external : option str
}.

Record comp := {
  c_id : option str; c_refdes : option str; c_data_ele : option str; c_usage : option str;
  c_seq : Z; c_repeat : Z; c_name : option str; c_children : list elem
}.

Inductive sub := SubE (e : elem) | SubC (c : comp).

Record segm := {
  s_id : option str; s_path : option str; s_type : option str; s_name : option str; s_usage : option str;
  s_pos : Z; s_max_use : option str; s_repeat : option str; s_end_tag : option str;
  s_syntax : list (ascii * list Z); s_children : list sub
}.

Inductive node :=
| NLoop (id : option str) (type : option str) (name : option str) (usage : option str) (pos : Z)
        (repeat : option str) (pos_map : list (Z * list node))
| NSeg (sg : segm).

(* table of the regex texts that occur in the maps, translated by tools/gen (fail-closed) *)
Definition regex_table := list (str * re).

Fixpoint rx_find (tbl : regex_table) (src : str) : option re :=
  match tbl with
  | [] => None
  | (t, r) :: rest => if str_eqb t src then Some r else rx_find rest src
  end.

(* element_if.__init__ *)
Definition load_elem (rx : regex_table) (e : xml) : result elem :=
  do sq <- int_of (if truthy (x_get e "seq") then x_get e "seq" else x_findtext e "seq");
  let res := x_findtext e "regex" in
  do rec <- (match res with
             | Some (c :: r) => match rx_find rx (c :: r) with
                                | Some t => Ok (Some t)
                                | None => Raise EngineError     (* "failed to compile" *)
                                end
             | _ => Ok None
             end);
  let v := x_find e "valid_codes" in
  Ok {| e_id := x_get e "xid"; e_data_ele := x_get_or_text e "data_ele"; e_usage := x_get_or_text e "usage";
        e_name := x_get_or_text e "name"; e_seq := sq; e_path := x_get_or_text e "seq";
        e_max_use := x_get_or_text e "max_use"; e_res := res; e_rec := rec;
        e_codes := match v with Some vv => map x_text (x_findall vv "code") | None => [] end;
        e_external := match v with Some vv => x_get vv "external" | None => None end |}.

Fixpoint load_elems (rx : regex_table) (es : list xml) : result (list elem) :=
  match es with
  | [] => Ok []
  | e :: rest => do x <- load_elem rx e; do more <- load_elems rx rest; Ok (x :: more)
  end.

(* composite_if.__init__ *)
Definition load_comp (rx : regex_table) (e : xml) : result comp :=
  do sq <- int_of (if truthy (x_get e "seq") then x_get e "seq" else x_findtext e "seq");
  do rp <- (if truthy (x_get e "repeat") then int_of (x_get e "repeat")
            else if truthy (x_findtext e "repeat") then int_of (x_findtext e "repeat") else Ok 1%Z);
  do ch <- load_elems rx (x_findall e "element");
  Ok {| c_id := x_get e "xid";
        c_refdes := if truthy (x_findtext e "refdes") then x_findtext e "refdes" else x_get e "xid";
        c_data_ele := x_get_or_text e "data_ele"; c_usage := x_get_or_text e "usage"; c_seq := sq; c_repeat := rp;
        c_name := x_get_or_text e "name"; c_children := ch |}.

(* children_map[seq] = e : insertion into a dict keyed by seq (later entries replace), iterated in sorted key order *)
Fixpoint cm_put (m : list (Z * xml)) (k : Z) (v : xml) : list (Z * xml) :=
  match m with
  | [] => [(k, v)]
  | (k', v') :: rest =>
      if (k =? k')%Z then (k, v) :: rest
      else if (k <? k')%Z then (k, v) :: m
      else (k', v') :: cm_put rest k v
  end.

Fixpoint cm_fill (m : list (Z * xml)) (es : list xml) : result (list (Z * xml)) :=
  match es with
  | [] => Ok m
  | e :: rest =>
      do sq <- int_of (if truthy (x_get e "seq") then x_get e "seq" else x_findtext e "seq");
      cm_fill (cm_put m sq e) rest
  end.

Fixpoint load_subs (rx : regex_table) (m : list (Z * xml)) : result (list sub) :=
  match m with
  | [] => Ok []
  | (_, e) :: rest =>
      if str_eqb (x_tag e) (l "element") then
        do x <- load_elem rx e; do more <- load_subs rx rest; Ok (SubE x :: more)
      else if str_eqb (x_tag e) (l "composite") then
        do x <- load_comp rx e; do more <- load_subs rx rest; Ok (SubC x :: more)
      else load_subs rx rest
  end.

Fixpoint load_syntax (ss : list xml) : result (list (ascii * list Z)) :=
  match ss with
  | [] => Ok []
  | sx :: rest =>
      match x_text sx with
      | None => Raise TypeError                     (* s.text is None: syntax[0] *)
      | Some t =>
          do r <- split_syntax t;
          do more <- load_syntax rest;
          Ok (match r with Some p => p :: more | None => more end)
      end
  end.

(* segment_if.__init__ *)
Definition load_seg (rx : regex_table) (e : xml) : result segm :=
  do ps <- int_of (if truthy (x_get e "pos") then x_get e "pos" else x_findtext e "pos");
  do syn <- load_syntax (x_findall e "syntax");
  do cm1 <- cm_fill [] (x_findall e "element");
  do cm2 <- cm_fill cm1 (x_findall e "composite");
  do ch <- load_subs rx cm2;
  Ok {| s_id := x_get e "xid"; s_path := x_get e "xid"; s_type := x_get e "type";
        s_name := x_get_or_text e "name"; s_usage := x_get_or_text e "usage"; s_pos := ps;
        s_max_use := x_get_or_text e "max_use"; s_repeat := x_get_or_text e "repeat";
        s_end_tag := x_get_or_text e "end_tag"; s_syntax := syn; s_children := ch |}.

(* pos_map insertion: dict pos -> list, kept sorted by pos (iteration is always `sorted(pos_map)`) *)
Fixpoint pm_put (m : list (Z * list node)) (k : Z) (v : node) : list (Z * list node) :=
  match m with
  | [] => [(k, [v])]
  | (k', vs) :: rest =>
      if (k =? k')%Z then (k', vs ++ [v]) :: rest
      else if (k <? k')%Z then (k, [v]) :: m
      else (k', vs) :: pm_put rest k v
  end.

Definition node_pos (n : node) : Z :=
  match n with NLoop _ _ _ _ p _ _ => p | NSeg sg => s_pos sg end.

(* data type of an element: root.data_elements.get_by_elem_num(data_ele)['data_type'] *)
Definition elem_type (de : list dataele) (e : elem) : result (option str) :=
  do d <- get_by_elem_num de (e_data_ele e); Ok (de_type d).

Definition is_ID (t : option str) : bool := ostr_eqb t (Some (l "ID")).

(* segment_if.guess_unique_key_id_element: the element whose first code qualifies the path *)
Definition guess_key_elem (de : list dataele) (sg : segm) : result (option elem) :=
  match s_children sg with
  | [] => Raise IndexError
  | c0 :: rest =>
      do first_hit <- (match c0 with
                       | SubE e => do t <- elem_type de e;
                                   Ok (if is_ID t && negb (match e_codes e with [] => true | _ => false end) then Some e else None)
                       | SubC _ => Ok None
                       end);
      match first_hit with
      | Some e => Ok (Some e)
      | None =>
          do ent_hit <- (if ostr_eqb (s_id sg) (Some (l "ENT")) then
                           match rest with
                           | SubE e1 :: _ => do t <- elem_type de e1;
                                             Ok (if is_ID t && negb (match e_codes e1 with [] => true | _ => false end) then Some e1 else None)
                           | SubC _ :: _ => Ok None
                           | [] => Raise IndexError
                           end
                         else Ok None);
          match ent_hit with
          | Some e => Ok (Some e)
          | None =>
              do comp_hit <- (match c0 with
                              | SubC c => match c_children c with
                                          | [] => Raise IndexError
                                          | e0 :: _ => do t <- elem_type de e0;
                                                       Ok (if is_ID t && negb (match e_codes e0 with [] => true | _ => false end) then Some e0 else None)
                                          end
                              | SubE _ => Ok None
                              end);
              match comp_hit with
              | Some e => Ok (Some e)
              | None =>
                  if ostr_eqb (s_id sg) (Some (l "HL")) then
                    match rest with
                    | _ :: SubE e2 :: _ => Ok (if negb (match e_codes e2 with [] => true | _ => false end) then Some e2 else None)
                    | _ :: SubC _ :: _ => Ok None
                    | _ => Raise IndexError
                    end
                  else Ok None
              end
          end
      end
  end.

(* the qualifier suffix given to segments that share a position with another node *)
Definition qualify (de : list dataele) (n : node) : result node :=
  match n with
  | NSeg sg =>
      do k <- guess_key_elem de sg;
      match k with
      | None => Ok n
      | Some e =>
          match e_codes e with
          | Some c :: _ =>
              match s_path sg with
              | Some p => Ok (NSeg {| s_id := s_id sg; s_path := Some (p ++ l "[" ++ c ++ l "]"); s_type := s_type sg;
                                      s_name := s_name sg; s_usage := s_usage sg; s_pos := s_pos sg;
                                      s_max_use := s_max_use sg; s_repeat := s_repeat sg; s_end_tag := s_end_tag sg;
                                      s_syntax := s_syntax sg; s_children := s_children sg |})
              | None => Raise TypeError
              end
          | _ => Raise TypeError            (* str + None *)
          end
      end
  | NLoop _ _ _ _ _ _ _ => Ok n
  end.

Fixpoint qualify_all (de : list dataele) (ns : list node) : result (list node) :=
  match ns with
  | [] => Ok []
  | n :: rest => do n' <- qualify de n; do more <- qualify_all de rest; Ok (n' :: more)
  end.

Fixpoint qualify_map (de : list dataele) (m : list (Z * list node)) : result (list (Z * list node)) :=
  match m with
  | [] => Ok []
  | (k, ns) :: rest =>
      do ns' <- (match ns with _ :: _ :: _ => qualify_all de ns | _ => Ok ns end);
      do more <- qualify_map de rest;
      Ok ((k, ns') :: more)
  end.

(* loop_if.__init__ (fuel = nesting depth of the XML) *)
Fixpoint load_loop (fuel : nat) (rx : regex_table) (de : list dataele) (e : xml) : result node :=
  match fuel with
  | 0 => Raise OtherError
  | S f =>
      do ps <- int_of (if truthy (x_get e "pos") then x_get e "pos" else x_findtext e "pos");
      do pm1 <- (fix go (m : list (Z * list node)) (es : list xml) : result (list (Z * list node)) :=
                   match es with
                   | [] => Ok m
                   | c :: rest => do n <- load_loop f rx de c; go (pm_put m (node_pos n) n) rest
                   end) [] (x_findall e "loop");
      do pm2 <- (fix go (m : list (Z * list node)) (es : list xml) : result (list (Z * list node)) :=
                   match es with
                   | [] => Ok m
                   | c :: rest => do sg <- load_seg rx c; go (pm_put m (s_pos sg) (NSeg sg)) rest
                   end) pm1 (x_findall e "segment");
      do pm3 <- qualify_map de pm2;
      Ok (NLoop (x_get e "xid") (x_get e "type") (x_get_or_text e "name") (x_get_or_text e "usage") ps
                (x_get_or_text e "repeat") pm3)
  end.

Record xmap := {
  m_id : option str; m_name : option str;
  m_pos_map : list (Z * list node);
  m_dataele : list dataele; m_codes : list codeset; m_exclude : list str;
  m_charset : str;
  m_icvn : option str
}.

(* children of a loop / of the root in iteration order *)
Definition pm_nodes (m : list (Z * list node)) : list node := flat_map snd m.

Definition node_id (n : node) : option str :=
  match n with NLoop i _ _ _ _ _ _ => i | NSeg sg => s_id sg end.

(* map_if._get_icvn: getnodebypath('/ISA_LOOP/ISA').children[11].valid_codes[0], None on any failure *)
Definition upper_str (x : str) : str :=
  map (fun c => let n := nat_of_ascii c in if (97 <=? n) && (n <=? 122) then ascii_of_nat (n - 32) else c) x.
Definition lower_str (x : str) : str :=
  map (fun c => let n := nat_of_ascii c in if (65 <=? n) && (n <=? 90) then ascii_of_nat (n + 32) else c) x.

Definition find_icvn (pm : list (Z * list node)) : option str :=
  match List.find (fun n => match node_id n with Some i => str_eqb (lower_str i) (l "isa_loop") | None => false end) (pm_nodes pm) with
  | Some (NLoop _ _ _ _ _ _ pm2) =>
      match List.find (fun n => match n with
                           | NSeg sg => ostr_eqb (s_id sg) (Some (l "ISA"))
                           | NLoop i _ _ _ _ _ _ => match i with Some x => str_eqb (upper_str x) (l "ISA") | None => false end
                           end) (pm_nodes pm2) with
      | Some (NSeg sg) =>
          match nth_error (s_children sg) 11 with
          | Some (SubE e) => match e_codes e with c :: _ => c | [] => None end
          | _ => None
          end
      | _ => None
      end
  | _ => None
  end.

(* map_if.__init__ *)
Definition load_map (rx : regex_table) (dataele_xml codes_xml : xml) (exclude : option str) (charset : str)
                    (root : xml) : result xmap :=
  do de <- DataElements dataele_xml;
  let cs := ExternalCodes codes_xml in
  do pm1 <- (fix go (m : list (Z * list node)) (es : list xml) : result (list (Z * list node)) :=
               match es with
               | [] => Ok m
               | c :: rest => do n <- load_loop 40 rx de c; go (pm_put m (node_pos n) n) rest
               end) [] (x_findall root "loop");
  do pm2 <- (fix go (m : list (Z * list node)) (es : list xml) : result (list (Z * list node)) :=
               match es with
               | [] => Ok m
               | c :: rest => do sg <- load_seg rx c; go (pm_put m (s_pos sg) (NSeg sg)) rest
               end) pm1 (x_findall root "segment");
  Ok {| m_id := x_get root "xid"; m_name := x_get_or_text root "name"; m_pos_map := pm2;
        m_dataele := de; m_codes := cs;
        m_exclude := match exclude with Some x => split ","%char x | None => [] end;
        m_charset := charset;
        m_icvn := find_icvn pm2 |}.
