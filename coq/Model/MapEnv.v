(* MapEnv.v — the environment of XML trees sent by the harness (`loadxml`) and
   load_map_file over it.  (Moved verbatim out of UnitsMap.v so that the
   driver model and the walker units can use it; UnitsMap re-exports it.) *)
From Coq Require Import String.
From PX.Lib Require Import Base PyStr PyInt Regex Xml XmlSer.
From PX.Gen Require Import MapRegexes.
From PX.Model Require Import Show MapLoad.

Definition menv := list (str * xml).

Fixpoint env_get (e : menv) (name : str) : option xml :=
  match e with
  | [] => None
  | (n, x) :: rest => if str_eqb n name then Some x else env_get rest name
  end.

Definition env_add (e : menv) (name : str) (ser : str) : option menv :=
  match parse_xml_ser ser with
  | Some x => Some ((name, x) :: e)
  | None => None
  end.

(* load_map_file(name, param): exclude = param 'exclude_external_codes' ("" = None), charset *)
Definition load_named (e : menv) (name exclude charset : str) : result xmap :=
  match env_get e (sl "dataele.xml"), env_get e (sl "codes.xml"), env_get e name with
  | Some de, Some cd, Some root =>
      load_map map_regexes de cd (match exclude with [] => None | _ => Some exclude end) charset root
  | _, _, _ => Raise OtherError
  end.
