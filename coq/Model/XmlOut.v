(* XmlOut.v — hand model of pyx12/xmlwriter.py (XMLWriter), pyx12/x12xml.py
   (base class x12xml: __init__, _path_list, _get_path_match_idx) and
   pyx12/x12xml_simple.py (x12xml_simple: __init__, __del__, seg, _get_*_info).

   The file object is the output list of the W monad (OutW.v): one entry per
   `write`; an exception keeps the writes already made and the partially
   updated object (writer stack, last_path).  The map node handed to seg() is
   replaced by the facts seg() reads from it (`target`), computed from the
   loaded map (MapLoad.xmap) and a node reference (MapTree.nref). *)
From Coq Require Import String.
From PX.Lib Require Import Base PyStr.
From PX.Model Require Import Path Segment MapLoad MapTree OutW.

Local Definition l (s : string) : str := list_ascii_of_string s.

(* '{}'.format(x) for a str-or-None *)
Definition fmt_o (o : option str) : str := match o with Some v => v | None => l "None" end.

Definition NLx : str := [ascii_of_nat 10].

(* ------------------------------------------------------------------ *)
(* XMLWriter (xmlwriter.py)                                            *)

(* the object state of x12xml_simple: writer.stack (Python order: last = innermost) and last_path *)
Record xstate := { xw_stack : list str; x_last : list str }.
Definition set_stack (st : xstate) (v : list str) : xstate := {| xw_stack := v; x_last := x_last st |}.
Definition set_last (st : xstate) (v : list str) : xstate := {| xw_stack := xw_stack st; x_last := v |}.

(* __init__ (55-67) defaults: encoding="utf-8", indent=" " (x12xml passes only the stream) *)
Definition xw_encoding : str := l "utf-8".
Definition xw_indent_unit : str := l " ".

Fixpoint str_times (s : str) (n : nat) : str := match n with 0 => [] | S k => s ++ str_times s k end.

(* _escape_cont (123-127): None stays None *)
Definition escape_cont (text : option str) : option str :=
  match text with
  | None => None
  | Some t => Some (replace (l ">") (l "&gt;") (replace (l "<") (l "&lt;") (replace (l "&") (l "&amp;") t)))
  end.

(* _escape_attr (129-134) *)
Definition escape_attr (text : option str) : option str :=
  match text with
  | None => None
  | Some t => Some (replace (l ">") (l "&gt;") (replace (l "<") (l "&lt;")
                     (replace (l "'") (l "&apos;") (replace (l "&") (l "&amp;") t))))
  end.

(* __init__ (66): the XML declaration *)
Definition xw_init : W xstate unit :=
  w_write (l "<?xml version=""1.0"" encoding=""" ++ xw_encoding ++ l """?>" ++ NLx).

(* doctype (69-78) *)
Definition xw_doctype (root : str) (pubid : option str) (sysid : str) : W xstate unit :=
  match pubid with
  | None => w_write (l "<!DOCTYPE " ++ root ++ l " SYSTEM '" ++ sysid ++ l "'>" ++ NLx)
  | Some p => w_write (l "<!DOCTYPE " ++ root ++ l " PUBLIC '" ++ p ++ l "' '" ++ sysid ++ l "'>" ++ NLx)
  end.

(* _indent (120-121): self.indent * (len(self.stack) * 2) *)
Definition xw_do_indent : W xstate unit :=
  dow st <- w_get; w_write (str_times xw_indent_unit (length (xw_stack st) * 2)).

Definition attrs_t := list (str * option str).

(* the loop `for (a, v) in attrs.items(): self._write(" {}='{}'".format(a, self._escape_attr(v)))` *)
Definition xw_attrs (attrs : attrs_t) : W xstate unit :=
  w_iter (fun av : str * option str => w_write (l " " ++ fst av ++ l "='" ++ fmt_o (escape_attr (snd av)) ++ l "'")) attrs.

(* push (80-89) *)
Definition xw_push (elem : str) (attrs : attrs_t) : W xstate unit :=
  dow_ xw_do_indent;
  dow_ w_write (l "<" ++ elem);
  dow_ xw_attrs attrs;
  dow_ w_write (l ">" ++ NLx);
  w_mod (fun st => set_stack st (xw_stack st ++ [elem])).

(* elem (91-99) *)
Definition xw_elem (elem : str) (content : option str) (attrs : attrs_t) : W xstate unit :=
  dow_ xw_do_indent;
  dow_ w_write (l "<" ++ elem);
  dow_ xw_attrs attrs;
  w_write (l ">" ++ fmt_o (escape_cont content) ++ l "</" ++ elem ++ l ">" ++ NLx).

(* empty (101-109): the attribute values are NOT escaped here; not used by x12xml_simple *)
Definition xw_empty (elem : str) (attrs : attrs_t) : W xstate unit :=
  dow_ xw_do_indent;
  dow_ w_write (l "<" ++ elem);
  dow_ w_iter (fun av : str * option str => w_write (l " " ++ fst av ++ l "='" ++ fmt_o (snd av) ++ l "'")) attrs;
  w_write (l "/>" ++ NLx).

(* pop (111-119): nothing at all on an empty stack; the indent is computed after the removal *)
Definition xw_pop : W xstate unit :=
  dow st <- w_get;
  match rev (xw_stack st) with
  | [] => w_ret tt
  | elem :: _ =>
      dow_ w_put (set_stack st (removelast (xw_stack st)));
      dow_ xw_do_indent;
      w_write (l "</" ++ elem ++ l ">" ++ NLx)
  end.

(* __len__ (117-118) *)
Definition xw_len (st : xstate) : nat := length (xw_stack st).

(* ------------------------------------------------------------------ *)
(* x12xml (x12xml.py)                                                  *)

Definition x12_pubid : str := l "-//J Holland//DTD XML X12 Document Conversion1.0//EN//XML".

(* x12xml.__init__ (23-31) followed by x12xml_simple.__init__ (26-28): last_path None, then [] *)
Definition x_empty : xstate := {| xw_stack := []; x_last := [] |}.
Definition simple_init (dtd_urn : option str) : W xstate unit :=
  dow_ xw_init;
  dow_ (match dtd_urn with
        | Some (c :: r) => xw_doctype (l "x12simple") (Some x12_pubid) (c :: r)      (* `if dtd_urn:` *)
        | _ => w_ret tt
        end);
  dow_ xw_push (l "x12simple") [];
  w_mod (fun st => set_last st []).

(* _path_list (140-145) *)
Definition path_list (path_str : str) : list str :=
  filter (fun x => negb (str_eqb x [])) (split "/"%char path_str).

(* _get_path_match_idx (147-156) *)
Fixpoint path_match_idx (last_path cur_path : list str) : nat :=
  match cur_path, last_path with
  | c :: cr, p :: pr => if str_eqb c p then S (path_match_idx pr cr) else 0
  | _, _ => 0
  end.

(* os.path.commonprefix of two strings: CHARACTER-wise *)
Fixpoint common_prefix (a b : str) : str :=
  match a, b with
  | x :: a', y :: b' => if Ascii.eqb x y then x :: common_prefix a' b' else []
  | _, _ => []
  end.

(* x12xml_simple._get_*_info (93-121) *)
Definition id_attr (v : option str) : attrs_t := [(l "id", v)].

(* ------------------------------------------------------------------ *)
(* the facts seg() reads from the map node                             *)

Inductive ckind := CEle | CComp.
Record child_info := {
  ci_kind : ckind;                 (* is_element() / is_composite() *)
  ci_usage : option str; ci_id : option str; ci_seq : Z;
  ci_subids : list (option str)    (* ids of the composite's children *)
}.
Record seginfo := {
  gi_id : option str;              (* seg_node.id *)
  gi_first : bool;                 (* seg_node.is_first_seg_in_loop() *)
  gi_parent_path : result str;     (* pop_to_parent_loop(seg_node).get_path() *)
  gi_children : list child_info
}.
Inductive target := TSeg (gi : seginfo) | TNotSeg.     (* TNotSeg: is_segment() is False *)

Definition child_of_sub (c : sub) : child_info :=
  match c with
  | SubE e => {| ci_kind := CEle; ci_usage := e_usage e; ci_id := e_id e; ci_seq := e_seq e; ci_subids := [] |}
  | SubC c0 => {| ci_kind := CComp; ci_usage := c_usage c0; ci_id := c_id c0; ci_seq := c_seq c0;
                  ci_subids := map e_id (c_children c0) |}
  end.

(* map_if.get_path (289-293) is '/'; x12_node.get_path (111-124) for loops: MapTree.join_path.
   segment_if.is_first_seg_in_loop (813-820): `self is self.get_parent().get_first_seg()`; get_first_node is the
   first node in position order, i.e. index 0 of the parent's children. *)
Fixpoint target_at (ns : list node) (parent_path : result str) (r : nref) : option target :=
  match r with
  | [] => None
  | i :: rest =>
      match nth_error ns i with
      | None => None
      | Some (MapLoad.NSeg sg) =>
          match rest with
          | [] => Some (TSeg {| gi_id := s_id sg; gi_first := Nat.eqb i 0; gi_parent_path := parent_path;
                                gi_children := map child_of_sub (s_children sg) |})
          | [a] => match nth_error (s_children sg) a with Some _ => Some TNotSeg | None => None end
          | [a; b] => match nth_error (s_children sg) a with
                      | Some (SubC c0) => match nth_error (c_children c0) b with Some _ => Some TNotSeg | None => None end
                      | _ => None
                      end
          | _ => None
          end
      | Some (NLoop id _ _ _ _ _ pm) =>
          match rest with
          | [] => Some TNotSeg
          | _ => target_at (pm_nodes pm) (do pp <- parent_path; join_path pp id) rest
          end
      end
  end.

Definition target_of (m : xmap) (r : nref) : option target := target_at (root_nodes m) (Ok (l "/")) r.

(* segment_if.get_child_node_by_idx (761-772) *)
Definition seg_child_by_idx (cs : list child_info) (idx : nat) : result (option child_info) :=
  if length cs <=? idx then Ok None
  else match filter (fun c => (ci_seq c =? Z.of_nat idx + 1)%Z) cs with
       | [c] => Ok (Some c)
       | _ => Raise EngineError
       end.

(* x12_node.get_child_node_by_idx (94-101) on a composite: None beyond the end *)
Definition comp_child_by_idx (c : child_info) (idx : nat) : option (option str) := nth_error (ci_subids c) idx.

(* ------------------------------------------------------------------ *)
(* x12xml_simple.seg (34-91)                                           *)

Definition zrange (a b : Z) : list Z := map (fun k => (a + Z.of_nat k)%Z) (seq 0 (Z.to_nat (b - a))).

(* 49-52: loop repeat *)
Definition loop_repeat (cur_path : list str) : W xstate unit :=
  dow_ xw_pop;
  dow id <- w_lift (py_nth cur_path (-1));            (* cur_path[-1]: IndexError on [] *)
  xw_push (l "loop") (id_attr (Some id)).

(* 54-63 *)
Definition loop_change (first : bool) (last_path cur_path : list str) : W xstate unit :=
  let match_idx := Z.of_nat (path_match_idx last_path cur_path) in
  let root_path := path_list (common_prefix (join "/"%char cur_path) (join "/"%char last_path)) in
  let match_idx := if first && list_eqb str_eqb root_path cur_path then (match_idx - 1)%Z else match_idx in
  (* range(len(last_path) - 1, match_idx - 1, -1) *)
  dow_ w_times (Z.to_nat (Z.of_nat (length last_path) - match_idx)) xw_pop;
  (* range(match_idx, len(cur_path)): match_idx = -1 starts with cur_path[-1] *)
  w_iter (fun i => dow id <- w_lift (py_nth cur_path i); xw_push (l "loop") (id_attr (Some id)))
         (zrange match_idx (Z.of_nat (length cur_path))).

(* 73-78: the sub-elements of a composite *)
Definition write_subeles (c : child_info) (comp_data : composite) : W xstate unit :=
  w_iter (fun jv : nat * str =>
            match comp_child_by_idx c (fst jv) with
            | None => w_raise AttributeError                       (* subele_node is None: .id *)
            | Some sub_id => xw_elem (l "subele") (Some (snd jv)) (id_attr sub_id)
            end)
         (let kept := firstn (length (ci_subids c)) comp_data in       (* fix f38f280: `break` at the first j without a node *)
          combine (seq 0 (length kept)) kept).

(* 66-88: one pass of `for i in range(len(seg_data))` *)
Definition write_child (gi : seginfo) (d : delims) (s : seg) (i : nat) : W xstate unit :=
  dow child <- w_lift (seg_child_by_idx (gi_children gi) i);
  match child with
  | None => w_raise AttributeError                                  (* child_node is None: .usage *)
  | Some c =>
      let rd := fmt_02 (N.of_nat (i + 1)) in
      (* 68: child_node.usage == 'N' or seg_data.get(...).is_empty() *)
      dow skip <- (if opt_eqb str_eqb (ci_usage c) (Some (l "N")) then w_ret true
                   else dow g <- w_lift (seg_get s rd);
                        match g with
                        | GotComp cp => w_ret (comp_empty cp)
                        | GotEle v => w_ret (ele_empty v)
                        | GotNone => w_raise AttributeError
                        end);
      if skip then w_ret tt
      else
        match ci_kind c with
        | CComp =>
            (* 70-78 *)
            dow_ xw_push (l "comp") (id_attr (gi_id gi));            (* _get_comp_info(seg_node_id) *)
            dow g <- w_lift (seg_get s rd);
            dow comp_data <- w_lift (match g with
                                     | GotComp cp => Ok cp
                                     | GotNone => Raise TypeError     (* len(None) *)
                                     | GotEle _ => Raise OtherError   (* not returned for a designator without '-' *)
                                     end);
            dow_ write_subeles c comp_data;
            xw_pop
        | CEle =>
            (* 79-85 *)
            dow v <- w_lift (seg_get_value d s rd);
            if opt_eqb str_eqb v (Some []) then w_ret tt
            else dow v2 <- w_lift (seg_get_value d s rd);
                 xw_elem (l "ele") v2 (id_attr (ci_id c))
        end
  end.

Definition simple_seg (t : target) (d : delims) (s : seg) : W xstate unit :=
  match t with
  | TNotSeg => w_raise EngineError                                   (* 43-44 *)
  | TSeg gi =>
      (* 45-47 *)
      dow pp <- w_lift (gi_parent_path gi);
      let cur_path := path_list pp in
      dow st <- w_get;
      (* 50-63 *)
      dow_ (if list_eqb str_eqb (x_last st) cur_path && gi_first gi then loop_repeat cur_path
            else loop_change (gi_first gi) (x_last st) cur_path);
      (* 64-66 *)
      dow_ xw_push (l "seg") (id_attr (gi_id gi));
      (* 67-88 *)
      (* fix f38f280: `break` at the first i for which get_child_node_by_idx(i) is None, i.e. i >= len(children) *)
      dow_ w_iter (write_child gi d s) (seq 0 (Nat.min (length (els s)) (length (gi_children gi))));
      (* 89-90 *)
      dow_ xw_pop;
      w_mod (fun st => set_last st cur_path)
  end.

(* x12xml_simple.__del__ (30-32): `while len(self.writer) > 0: self.writer.pop()` *)
Definition simple_del : W xstate unit :=
  dow st <- w_get; w_times (xw_len st) xw_pop.
