(* Extraction.v — the only extraction directives of the development are the
   ones in ExtrOcamlBasic (bool, option, list, prod, unit, sumbool, sumor). *)
From Coq Require Import ExtrOcamlBasic.
From PX.Model Require Import Units UnitsMap.
Extraction Language OCaml.
Extraction "model.ml" dispatch_env env_add.
