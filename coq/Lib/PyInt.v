(* PyInt.v — CPython's int(str) for base 10 on code points 0..255:
   surrounding whitespace (str.isspace), optional sign, decimal digits with
   single underscores allowed between digits.  None = ValueError. *)
From PX.Lib Require Import Base PyStr.

(* digits with single underscores between them; st: 0 = start, 1 = after digit, 2 = after underscore *)
Fixpoint int_body (s : str) (st : nat) (acc : Z) : option Z :=
  match s with
  | [] => match st with 1 => Some acc | _ => None end
  | c :: s' =>
      if is_digit c then int_body s' 1 (acc * 10 + Z.of_nat (digit_val c))%Z
      else if Ascii.eqb c "_"%char then match st with 1 => int_body s' 2 acc | _ => None end
      else None
  end.

Definition py_int (s : str) : option Z :=
  match strip_ws s with
  | c :: r =>
      if Ascii.eqb c "+"%char then int_body r 0 0%Z
      else if Ascii.eqb c "-"%char then option_map Z.opp (int_body r 0 0%Z)
      else int_body (c :: r) 0 0%Z
  | [] => None
  end.
