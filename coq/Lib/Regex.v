(* Regex.v — a backtracking matcher with CPython's priority semantics for the
   subset of `re` syntax that pyx12 uses (tools/gen/regexes.py is fail-closed
   on anything outside it):
     character classes (possibly negated), literal characters,
     greedy repetition {m,n} * + of a ONE-CHARACTER atom,
     sequence, ordered alternation, greedy optional (r)?, named/numbered groups,
     ^ (start of string) and $ (end of string or just before a final newline).
   `search` tries start positions left to right and returns the first match
   the backtracking engine finds: (start, end, captured groups). *)
From PX.Lib Require Import Base.

Inductive cls := Cls (neg : bool) (ranges : list (nat * nat)).

Definition in_ranges (n : nat) (rs : list (nat * nat)) : bool :=
  existsb (fun r => (fst r <=? n) && (n <=? snd r)) rs.

Definition cls_mem (c : cls) (a : ascii) : bool :=
  match c with Cls neg rs => xorb neg (in_ranges (nat_of_ascii a) rs) end.

Arguments cls_mem : simpl never.

Inductive re :=
| REps
| RCls (c : cls)
| RRep (c : cls) (mn : nat) (mx : option nat)      (* greedy, one-character atom *)
| RSeq (a b : re)
| RAlt (a b : re)                                   (* ordered *)
| ROpt (r : re)                                     (* greedy: present first *)
| RGroup (name : str) (r : re)
| RBol
| REol.

Definition caps := list (str * str).                (* group name -> matched text, latest first *)
Definition mres := (nat * nat * caps)%type.         (* start, end, groups *)

(* number of leading characters of s in class c, at most cap (None = unbounded) *)
Fixpoint span (c : cls) (cap : option nat) (s : str) : nat :=
  match s with
  | [] => 0
  | x :: s' =>
      match cap with
      | Some 0 => 0
      | _ => if cls_mem c x then S (span c (match cap with Some (S k) => Some k | o => o end) s') else 0
      end
  end.

(* try n, n-1, ..., mn *)
Fixpoint try_down {R} (n mn : nat) (f : nat -> option R) : option R :=
  if n <? mn then None else
  match f n with
  | Some r => Some r
  | None => match n with 0 => None | S n' => try_down n' mn f end
  end.

Definition NL : ascii := ascii_of_nat 10.

Fixpoint m {R} (r : re) (pos : nat) (s : str) (cs : caps)
         (k : nat -> str -> caps -> option R) : option R :=
  match r with
  | REps => k pos s cs
  | RCls c => match s with x :: s' => if cls_mem c x then k (S pos) s' cs else None | [] => None end
  | RRep c mn mx => try_down (span c mx s) mn (fun n => k (pos + n) (skipn n s) cs)
  | RSeq a b => m a pos s cs (fun pos' s' cs' => m b pos' s' cs' k)
  | RAlt a b => match m a pos s cs k with Some x => Some x | None => m b pos s cs k end
  | ROpt a => match m a pos s cs k with Some x => Some x | None => k pos s cs end
  | RGroup name a => m a pos s cs (fun pos' s' cs' => k pos' s' ((name, firstn (pos' - pos) s) :: cs'))
  | RBol => if pos =? 0 then k pos s cs else None
  | REol => match s with
            | [] => k pos s cs
            | [x] => if Ascii.eqb x NL then k pos s cs else None
            | _ => None
            end
  end.

Definition match_at (r : re) (pos : nat) (s : str) : option mres :=
  m r pos s [] (fun pos' _ cs => Some (pos, pos', cs)).

(* re.search: leftmost start; at each start the engine's preferred match *)
Fixpoint search_from (r : re) (pos : nat) (s : str) : option mres :=
  match match_at r pos s with
  | Some x => Some x
  | None => match s with [] => None | _ :: s' => search_from r (S pos) s' end
  end.

Definition search (r : re) (s : str) : option mres := search_from r 0 s.

Definition group0 (s : str) (x : mres) : str :=
  match x with (st, en, _) => firstn (en - st) (skipn st s) end.

Fixpoint cap_get (name : str) (cs : caps) : option str :=
  match cs with
  | [] => None
  | (n, v) :: cs' => if str_eqb n name then Some v else cap_get name cs'
  end.
