(* PyStr.v — the handful of CPython str operations the modelled code uses,
   on code points 0..255.  Each is tied to CPython by the `pystr`
   correspondence unit. *)
From PX.Lib Require Import Base.

(* s[a:b] for 0 <= a, b (already clipped to non-negative) *)
Definition slice (s : str) (a b : nat) : str := firstn (b - a) (skipn a s).

(* lexicographic order on code points: Python's str comparison *)
Fixpoint str_ltb (a b : str) : bool :=
  match a, b with
  | [], [] => false
  | [], _ :: _ => true
  | _ :: _, [] => false
  | x :: a', y :: b' =>
      if nat_of_ascii x <? nat_of_ascii y then true
      else if nat_of_ascii y <? nat_of_ascii x then false
      else str_ltb a' b'
  end.
Definition str_gtb (a b : str) : bool := str_ltb b a.

(* s.split(c): at every occurrence of the one-character separator *)
Fixpoint split_aux (c : ascii) (s : str) (cur : str) : list str :=
  match s with
  | [] => [rev cur]
  | x :: s' => if Ascii.eqb x c then rev cur :: split_aux c s' [] else split_aux c s' (x :: cur)
  end.
Definition split (c : ascii) (s : str) : list str := split_aux c s [].

(* c.join(l) *)
Fixpoint join (c : ascii) (l : list str) : str :=
  match l with
  | [] => []
  | [x] => x
  | x :: l' => x ++ c :: join c l'
  end.

(* s.find(c) for a one-character c: Some index or None (-1) *)
Fixpoint find (c : ascii) (s : str) : option nat :=
  match s with
  | [] => None
  | x :: s' => if Ascii.eqb x c then Some 0 else option_map S (find c s')
  end.

(* s.split(c, 1) when c occurs: (before, after) *)
Fixpoint split1 (c : ascii) (s : str) : option (str * str) :=
  match s with
  | [] => None
  | x :: s' => if Ascii.eqb x c then Some ([], s')
               else match split1 c s' with Some (a, b) => Some (x :: a, b) | None => None end
  end.

(* s.lstrip(chars) *)
Fixpoint lstrip_set (cs : str) (s : str) : str :=
  match s with
  | x :: s' => if mem_ascii x cs then lstrip_set cs s' else s
  | [] => []
  end.

(* str.isspace on 0..255 (CPython): \t\n\v\f\r, \x1c-\x1f, space, \x85, \xa0 *)
Definition is_space (a : ascii) : bool :=
  let n := nat_of_ascii a in
  ((9 <=? n) && (n <=? 13)) || ((28 <=? n) && (n <=? 32)) || (n =? 133) || (n =? 160).

Fixpoint lstrip_ws (s : str) : str :=
  match s with
  | x :: s' => if is_space x then lstrip_ws s' else s
  | [] => []
  end.
Definition rstrip_ws (s : str) : str := rev (lstrip_ws (rev s)).
Definition strip_ws (s : str) : str := rstrip_ws (lstrip_ws s).

(* s.startswith(p) *)
Fixpoint starts_with (p s : str) : bool :=
  match p, s with
  | [], _ => true
  | x :: p', y :: s' => Ascii.eqb x y && starts_with p' s'
  | _ :: _, [] => false
  end.

(* s.replace(a, b) for a non-empty pattern a: left to right, non-overlapping *)
Fixpoint replace_fuel (fuel : nat) (a b s : str) : str :=
  match fuel with
  | 0 => s
  | S f =>
      match s with
      | [] => []
      | x :: s' => if starts_with a s then b ++ replace_fuel f a b (skipn (length a) s)
                   else x :: replace_fuel f a b s'
      end
  end.
Definition replace (a b s : str) : str := replace_fuel (S (length s)) a b s.

(* count of one-character c in s *)
Definition count_char (c : ascii) (s : str) : nat := length (filter (Ascii.eqb c) s).

(* value of an all-digit string (int(s) for ASCII digit strings) *)
Definition dec_val (s : str) : N :=
  fold_left (fun acc c => (acc * 10 + N.of_nat (digit_val c))%N) s 0%N.

(* last character / all but last: s[-1], s[:-1] *)
Definition last_char (s : str) : result ascii :=
  match rev s with [] => Raise IndexError | x :: _ => Ok x end.
Definition but_last (s : str) : str := removelast s.
