(* Base.v — common vocabulary of the model: text as lists of characters, the
   result type that makes every Python exception explicit, small list helpers. *)
From Coq Require Export List Ascii Bool Arith NArith ZArith Lia.
Export ListNotations.

(* Text: pyx12 is an ASCII format; the model covers code points 0..255. *)
Definition str := list ascii.

Definition ch (n : nat) : ascii := ascii_of_nat n.
Definition lc (l : list nat) : str := map ascii_of_nat l.
Definition code (a : ascii) : nat := nat_of_ascii a.

Fixpoint str_eqb (a b : str) : bool :=
  match a, b with
  | [], [] => true
  | x :: a', y :: b' => Ascii.eqb x y && str_eqb a' b'
  | _, _ => false
  end.

Lemma str_eqb_eq a b : str_eqb a b = true <-> a = b.
Proof.
  revert b; induction a as [|x a IH]; destruct b as [|y b]; simpl; split; try congruence; try discriminate.
  - intros H. apply andb_true_iff in H as [H1 H2]. apply Ascii.eqb_eq in H1. apply IH in H2. congruence.
  - intros H. injection H as -> ->. apply andb_true_iff. split; [apply Ascii.eqb_refl | apply IH; reflexivity].
Qed.

Lemma str_eqb_refl a : str_eqb a a = true.
Proof. apply str_eqb_eq; reflexivity. Qed.

Lemma str_eqb_neq a b : str_eqb a b = false <-> a <> b.
Proof.
  split.
  - intros H E. apply str_eqb_eq in E. congruence.
  - intros H. destruct (str_eqb a b) eqn:E; [apply str_eqb_eq in E; contradiction | reflexivity].
Qed.

(* Python exceptions that the modelled code can raise. *)
Inductive exn :=
| X12Error | EngineError | X12PathError | IndexError | ValueError | TypeError
| AttributeError | KeyError | UnboundLocalError | OtherError.

Inductive result (A : Type) :=
| Ok (a : A)
| Raise (e : exn).
Arguments Ok {A} a.
Arguments Raise {A} e.

Definition bind {A B} (r : result A) (f : A -> result B) : result B :=
  match r with Ok a => f a | Raise e => Raise e end.
Notation "'do' x <- r ; k" := (bind r (fun x => k)) (at level 200, x pattern, r at level 100, k at level 200).

Definition is_ok {A} (r : result A) : bool := match r with Ok _ => true | Raise _ => false end.

(* Membership of a character in a string (Python: c in s for one-char c). *)
Fixpoint mem_ascii (c : ascii) (s : str) : bool :=
  match s with [] => false | x :: s' => Ascii.eqb c x || mem_ascii c s' end.

Lemma mem_ascii_In c s : mem_ascii c s = true <-> In c s.
Proof.
  induction s as [|x s IH]; simpl; [split; [discriminate | tauto]|].
  rewrite orb_true_iff, IH, Ascii.eqb_eq. split; intros [H|H]; auto.
Qed.

Fixpoint mem_str (x : str) (l : list str) : bool :=
  match l with [] => false | y :: l' => str_eqb x y || mem_str x l' end.

Lemma mem_str_In x l : mem_str x l = true <-> In x l.
Proof.
  induction l as [|y l IH]; simpl; [split; [discriminate | tauto]|].
  rewrite orb_true_iff, IH, str_eqb_eq. split; intros [H|H]; auto.
Qed.

(* nth that fails like Python indexing with a non-negative index. *)
Fixpoint nth_res {A} (l : list A) (n : nat) : result A :=
  match l, n with
  | [], _ => Raise IndexError
  | x :: _, 0 => Ok x
  | _ :: l', S n' => nth_res l' n'
  end.

Definition is_digit (c : ascii) : bool :=
  let n := nat_of_ascii c in (48 <=? n) && (n <=? 57).

Definition digit_val (c : ascii) : nat := nat_of_ascii c - 48.

Definition all_digits (s : str) : bool := forallb is_digit s.

(* All 256 characters, for finite sweeps lifted by forallb_forall. *)
Definition all_ascii : list ascii := map ascii_of_nat (seq 0 256).

Lemma all_ascii_complete a : In a all_ascii.
Proof.
  unfold all_ascii. rewrite <- (ascii_nat_embedding a).
  apply in_map. apply in_seq. pose proof (nat_ascii_bounded a). lia.
Qed.

Lemma forall_ascii (P : ascii -> bool) : forallb P all_ascii = true -> forall a, P a = true.
Proof. intros H a. rewrite forallb_forall in H. apply H, all_ascii_complete. Qed.

Lemma sweep_eq (f g : ascii -> bool) :
  forallb (fun a => Bool.eqb (f a) (g a)) all_ascii = true -> forall a, f a = g a.
Proof.
  intros H a. apply eqb_prop. exact (forall_ascii (fun a => Bool.eqb (f a) (g a)) H a).
Qed.
