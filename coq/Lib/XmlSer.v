(* XmlSer.v — reading the compact serialisation of an element tree that the
   harness sends to the extracted model (the same trees as Gen/Maps, produced
   by the same ElementTree walk).  Glue for the correspondence check only; no
   theorem depends on it.
     node  = 'X' field(tag) num(#attrs) {field(key) field(val)} ('N' | 'T' field(text)) num(#children) {node}
     field = decimal length ':' characters ;  num = decimal ';' *)
From PX.Lib Require Import Base PyStr Xml.

Fixpoint take_num (s : str) (acc : nat) : option (nat * ascii * str) :=
  match s with
  | [] => None
  | c :: r => if is_digit c then take_num r (acc * 10 + digit_val c) else Some (acc, c, r)
  end.

Definition p_field (s : str) : option (str * str) :=
  match take_num s 0 with
  | Some (n, c, r) => if Ascii.eqb c ":"%char then Some (firstn n r, skipn n r) else None
  | None => None
  end.

Definition p_num (s : str) : option (nat * str) :=
  match take_num s 0 with
  | Some (n, c, r) => if Ascii.eqb c ";"%char then Some (n, r) else None
  | None => None
  end.

Fixpoint p_attrs (n : nat) (s : str) : option (list (str * str) * str) :=
  match n with
  | 0 => Some ([], s)
  | S k =>
      match p_field s with
      | Some (key, r1) =>
          match p_field r1 with
          | Some (v, r2) => match p_attrs k r2 with Some (l, r3) => Some ((key, v) :: l, r3) | None => None end
          | None => None
          end
      | None => None
      end
  end.

Fixpoint p_node (fuel : nat) (s : str) : option (xml * str) :=
  match fuel with
  | 0 => None
  | S f =>
      match s with
      | c :: r0 =>
          if negb (Ascii.eqb c "X"%char) then None else
          match p_field r0 with
          | Some (tag, r1) =>
              match p_num r1 with
              | Some (na, r2) =>
                  match p_attrs na r2 with
                  | Some (attrs, r3) =>
                      let text_rest :=
                        match r3 with
                        | t :: r4 =>
                            if Ascii.eqb t "N"%char then Some (None, r4)
                            else if Ascii.eqb t "T"%char then
                              match p_field r4 with Some (tx, r5) => Some (Some tx, r5) | None => None end
                            else None
                        | [] => None
                        end in
                      match text_rest with
                      | Some (text, r6) =>
                          match p_num r6 with
                          | Some (nc, r7) =>
                              (fix kids (k : nat) (s0 : str) (acc : list xml) : option (xml * str) :=
                                 match k with
                                 | 0 => Some (X tag attrs text (rev acc), s0)
                                 | S k' => match p_node f s0 with
                                           | Some (ch, s1) => kids k' s1 (ch :: acc)
                                           | None => None
                                           end
                                 end) nc r7 []
                          | None => None
                          end
                      | None => None
                      end
                  | None => None
                  end
              | None => None
              end
          | None => None
          end
      | [] => None
      end
  end.

Definition parse_xml_ser (s : str) : option xml :=
  match p_node 64 s with Some (x, []) => Some x | _ => None end.
