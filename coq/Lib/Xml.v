(* Xml.v — an XML element tree as xml.etree.ElementTree presents it, and the
   accessors the map loaders use (get, findtext, findall, find, text).
   The trees themselves are regenerated from /repo/pyx12/map/*.xml by
   tools/gen/maps.py on every run. *)
From Coq Require Import String.
From PX.Lib Require Import Base.

Inductive xml := X (tag : str) (attrs : list (str * str)) (text : option str) (children : list xml).

(* compact constructors used by the generated files *)
Definition s (x : string) : str := list_ascii_of_string x.
Definition E (tag : string) (attrs : list (string * string)) (text : option string) (children : list xml) : xml :=
  X (s tag) (map (fun p => (s (fst p), s (snd p))) attrs) (option_map s text) children.

(* a leaf: no attributes, some text, no children *)
Definition L (tag text : string) : xml := X (s tag) [] (Some (s text)) [].

Definition x_tag (e : xml) : str := match e with X t _ _ _ => t end.
Definition x_attrs (e : xml) : list (str * str) := match e with X _ a _ _ => a end.
Definition x_text (e : xml) : option str := match e with X _ _ t _ => t end.
Definition x_children (e : xml) : list xml := match e with X _ _ _ c => c end.

(* elem.get(name): attribute value or None *)
Fixpoint assoc (k : str) (l : list (str * str)) : option str :=
  match l with
  | [] => None
  | (a, v) :: l' => if str_eqb a k then Some v else assoc k l'
  end.
Definition x_get (e : xml) (name : string) : option str := assoc (s name) (x_attrs e).

(* elem.findall(tag): direct children with that tag, in document order *)
Definition x_findall (e : xml) (tag : string) : list xml :=
  filter (fun c => str_eqb (x_tag c) (s tag)) (x_children e).

(* elem.find(tag) *)
Definition x_find (e : xml) (tag : string) : option xml :=
  match x_findall e tag with c :: _ => Some c | [] => None end.

(* elem.findtext(tag): text of the first such child ('' when it has no text), None when absent *)
Definition x_findtext (e : xml) (tag : string) : option str :=
  match x_find e tag with
  | Some c => Some (match x_text c with Some t => t | None => [] end)
  | None => None
  end.

(* `elem.get(a) if elem.get(a) else elem.findtext(a)` — truthiness: '' falls through *)
Definition x_get_or_text (e : xml) (name : string) : option str :=
  match x_get e name with
  | Some (c :: r) => Some (c :: r)
  | _ => x_findtext e name
  end.

(* every descendant (and self) with a tag, document order: tree.iter(tag) *)
Fixpoint x_iter_fuel (fuel : nat) (e : xml) (tag : str) : list xml :=
  match fuel with
  | 0 => []
  | S f =>
      (if str_eqb (x_tag e) tag then [e] else []) ++
      flat_map (fun c => x_iter_fuel f c tag) (x_children e)
  end.
Definition x_iter (e : xml) (tag : string) : list xml := x_iter_fuel 64 e (s tag).
