#!/bin/bash
# Build the framework from files on disk only (offline): regenerate coq/Gen from /repo,
# compile the whole Coq development, extract the model and build the OCaml driver.
set -e
HERE="$(cd "$(dirname "${BASH_SOURCE[0]}")" && pwd)"
cd "$HERE"
export PYX12_REPO="${PYX12_REPO:-/repo}"
export PYTHONPATH="$PYX12_REPO:$HERE/harness"
export PYTHONHASHSEED=0 PYTHONDONTWRITEBYTECODE=1
exec /venv/bin/python -W ignore harness/setup_all.py
