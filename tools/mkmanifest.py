#!/usr/bin/env python3
"""Write MANIFEST.json from the table below (kept in one place so that it stays valid)."""
import json
import os

HERE = os.path.dirname(os.path.dirname(os.path.abspath(__file__)))

CLAIMED = {
    'C13': {
        'text': 'Theorems C13_exact_languages / C13_never_raises (and one corollary per data type) prove, for every '
                'string, every data type, both charsets and any version string, that the model of IsValidDataType '
                'returns a boolean and returns true exactly on the language of Spec/C13_spec.v. The regexes are '
                'regenerated from validation.py on every run (a change re-checks or breaks the proofs); the '
                'hand-modelled control flow is tied by running model and implementation on ~41k (quick) / ~700k '
                '(thorough) strings, and the language decision extracted from the spec is applied to the '
                'implementation as the oracle.',
        'design_ref': 'DESIGN.md §6 C13',
        'note': 'Trusted: Coq kernel; regex translator; backtracking matcher as a model of re.search on the used subset '
                '(differentially tested every run); hand transcription of validation.py control flow; extraction '
                '(ExtrOcamlBasic only) + driver; Spec/C13_spec.v as my reading of X12. Code points >255 outside the model.',
        'technique': 'Coq proof over regenerated regex ASTs + extracted-model correspondence + spec-decider oracle',
    },
}

CLAIMED['C14'] = {
    'text': 'Theorem C14_syntax_exact proves for every note letter, every arity >= 2, every position list in 1..99 and '
            'every segment (any length, any contents) that the model of is_syntax_valid returns valid exactly when the '
            'five-line X12 definition (Spec/C14_spec.v) is not violated on the presence pattern, and never raises; '
            'C14_syntax_routing proves the one-error-per-violated-note / code 10 for E, 2 otherwise clause for the '
            'syntax loop of segment validation. This is stronger than the 2^n enumeration the property quantifies over '
            '(all arities and segment lengths by induction). The model is tied to the code by running both on every '
            'note of the shipped maps x all presence patterns x segment lengths, and the X12 definition extracted from '
            'the spec is applied to the implementation (is_syntax_valid and the element errors of segment_if.is_valid).',
    'design_ref': 'DESIGN.md §6 C14',
    'note': 'Trusted: Coq kernel; hand transcription of syntax.py, _split_syntax and the syntax loop; Segment/X12Path models '
            '(get_value by designator goes through the regenerated rec_path regex, swept for 01..99 inside Coq); '
            'extraction + driver. The per-map clause (every shipped note parses) is checked on the implementation and by '
            'the split_syntax correspondence; it becomes a Coq computation once the maps are transcribed (C16).',
    'technique': 'Coq proof by induction over the position list + extracted-model correspondence + spec oracle on all map notes',
}

NOT_YET = {
}

ALL = ['C%02d' % i for i in range(1, 21)]


def main():
    checks = []
    for pid in ALL:
        if pid not in CLAIMED:
            continue
        c = CLAIMED[pid]
        checks.append({
            'property_id': pid,
            'quick_cmd': './check %s --tier quick' % pid,
            'thorough_cmd': './check %s --tier thorough' % pid,
            'evidence_file': '/verif/evidence/%s.json' % pid,
            'replay_cmd_template': './check %s --replay {path}' % pid,
            'engine': 'coq-model+extraction',
            'level_claimed': {'category': 'proof', 'text': c['text'], 'design_ref': c['design_ref']},
            'level_note': c['note'],
            'technique': c['technique'],
        })
    na = []
    for pid in ALL:
        if pid not in CLAIMED:
            na.append({'property_id': pid,
                       'reason': NOT_YET.get(pid, 'not claimed yet: model and theorems for this property are still being '
                                                  'built (see DESIGN.md §9 build order); no check is registered for it')})
    m = {
        'version': 1,
        'setup_cmd': './setup.sh',
        'hooks': {
            'guard': 'PYX12_VERIF',
            'enable': 'no source hooks: checks observe /repo through its public API under /venv/bin/python with '
                      'PYTHONPATH=/repo; PYX12_VERIF is reserved and unset',
            'baseline_off_cmd': 'cd /repo && /venv/bin/python -m pytest -ra -q -p no:cacheprovider --timeout=900 '
                                '--continue-on-collection-errors',
            'source_commits': [],
            'add_only': True,
        },
        'engines': [{
            'name': 'coq-model+extraction', 'path': '/verif/coq',
            'serves_properties': sorted(CLAIMED.keys()),
            'kind_free_text': 'Coq 8.16.1 development (Lib/Gen/Model/Spec/Proofs/Props); Gen regenerated from /repo by '
                              'tools/gen on every run; model extracted to OCaml (ExtrOcamlBasic only) for the '
                              'correspondence check driven by harness/*.py',
        }],
        'checks': checks,
        'not_applicable': na,
        'notes': 'One entry point: ./check <Cnn> --tier quick|thorough. Each run regenerates coq/Gen from /repo, '
                 'recompiles the property\'s statement file (Print Assumptions captured), rebuilds the extracted model, '
                 'runs model and implementation on generated inputs, applies the property oracle to the implementation, '
                 'and writes evidence/<id>.json. known_findings.json lists fixed defects and recorded findings.',
    }
    with open(os.path.join(HERE, 'MANIFEST.json'), 'w') as f:
        json.dump(m, f, indent=1)
        f.write('\n')


if __name__ == '__main__':
    main()
