#!/usr/bin/env python3
"""Write MANIFEST.json from the table below (kept in one place so that it stays valid)."""
import json
import os

HERE = os.path.dirname(os.path.dirname(os.path.abspath(__file__)))

CLAIMED = {
    'C13': {
        'text': 'Theorems C13_exact_languages / C13_never_raises (and one corollary per data type) prove, for every '
                'string, every data type, both charsets and any version string, that the model of IsValidDataType '
                'returns a boolean and returns true exactly on the language of Spec/C13_spec.v. The regexes are '
                'regenerated from validation.py on every run (a change re-checks or breaks the proofs); the '
                'hand-modelled control flow is tied by running model and implementation on ~41k (quick) / ~700k '
                '(thorough) strings, and the language decision extracted from the spec is applied to the '
                'implementation as the oracle.',
        'design_ref': 'DESIGN.md §6 C13',
        'note': 'Trusted: Coq kernel; regex translator; backtracking matcher as a model of re.search on the used subset '
                '(differentially tested every run); hand transcription of validation.py control flow; extraction '
                '(ExtrOcamlBasic only) + driver; Spec/C13_spec.v as my reading of X12. Code points >255 outside the model.',
        'technique': 'Coq proof over regenerated regex ASTs + extracted-model correspondence + spec-decider oracle',
    },
}

CLAIMED['C14'] = {
    'text': 'Theorem C14_syntax_exact proves for every note letter, every arity >= 2, every position list in 1..99 and '
            'every segment (any length, any contents) that the model of is_syntax_valid returns valid exactly when the '
            'five-line X12 definition (Spec/C14_spec.v) is not violated on the presence pattern, and never raises; '
            'C14_syntax_routing proves the one-error-per-violated-note / code 10 for E, 2 otherwise clause for the '
            'syntax loop of segment validation. This is stronger than the 2^n enumeration the property quantifies over '
            '(all arities and segment lengths by induction). The model is tied to the code by running both on every '
            'note of the shipped maps x all presence patterns x segment lengths, and the X12 definition extracted from '
            'the spec is applied to the implementation (is_syntax_valid and the element errors of segment_if.is_valid).',
    'design_ref': 'DESIGN.md §6 C14',
    'note': 'Trusted: Coq kernel; hand transcription of syntax.py, _split_syntax and the syntax loop; Segment/X12Path models '
            '(get_value by designator goes through the regenerated rec_path regex, swept for 01..99 inside Coq); '
            'extraction + driver. The per-map clause (every shipped note parses) is checked on the implementation and by '
            'the split_syntax correspondence; it becomes a Coq computation once the maps are transcribed (C16).',
    'technique': 'Coq proof by induction over the position list + extracted-model correspondence + spec oracle on all map notes',
}

CLAIMED['C01'] = {
    'text': 'Theorems C01_chunk_independent / C01_any_buffer_size prove that, for every text with a well-formed ISA header, '
            'EVERY read schedule and every buffer size >= 1, the model of RawX12File yields exactly the non-empty '
            'terminator-delimited pieces of the text (Spec/C01_spec.v, written without buffer or schedule); '
            'C01_segment_construction that each raw string becomes exactly the specified segment (ISA never split, '
            'blanks/trailing separators flagged); C01_format_parse_* / C01_reread the format-then-read round trip up to '
            'the documented trimming, exactness EXACTLY for the segments of the computable shape the parser produces '
            '(C01_format_parse_exact_interior: an iff; interior empty elements / components included), and idempotence; C01_path_stream_agree that a '
            'path source is the same stream under the regenerated open() arguments. Model and code are run on documents '
            'over 5-8 delimiter triples x 5 line conventions, terminators at every offset -2..+2 around k*8192, segments '
            'longer than 1-3 buffers, under four read schedules, as stream and by path, and the extracted spec is '
            'applied to the implementation.',
    'design_ref': 'DESIGN.md §6 C01',
    'note': 'Trusted: Coq kernel; hand transcription of RawX12File/X12Reader.__iter__/Segment; the read-schedule abstraction of '
            'a text stream; regenerated constants (ISA_LEN, DEFAULT_BUFSIZE, offsets, open() mode/newline); extraction + '
            'driver. Path opening is modelled for ASCII content; the file system itself is exercised by the differential runs only.',
    'technique': 'Coq proof by invariant over the buffer/stream state for all schedules + extracted-model correspondence + spec oracle',
}
CLAIMED['C04'] = {
    'text': 'Theorem C04_reader_exact proves, for every properly nested document tree (any number of interchanges/groups/sets, '
            'any control numbers and declared counts incl. non-numeric, trailers possibly missing at end of input), that the '
            'envelope errors of the reader model at every segment and at end of input equal an independent structural recount '
            '(Spec/C04_spec.v: no stack, no counters); C04_consistent_silent and C04_ill_nested_detected give the two '
            'remaining sentences of the property for ALL segment lists; C04_reader_total that nothing but the documented '
            'X12Error is raised. Tied to the code by running model and X12Reader on generated trees, truncations and '
            'structural mutations, with the extracted recount applied to the implementation.',
    'design_ref': 'DESIGN.md §6 C04',
    'note': 'Trusted: Coq kernel; hand transcription of X12Base._parse_segment / X12Reader._parse_segment / cleanup; PyInt.py_int '
            'as model of int(); extraction + driver; Spec/C04_spec.v. HL/LX numbering is specified by the same stack '
            'discipline as the code and checked on the implementation by an independent recount in the harness.',
    'technique': 'Coq proof by nested induction over the document tree + extracted-model correspondence + recount oracle',
}
CLAIMED['C17'] = {
    'text': 'Theorems C17_parse_print / C17_format_parse / C17_reparse_equal / C17_rejects prove the path laws for EVERY '
            'well-formed path of the documented grammar (unbounded depth and indices) against the regex regenerated from '
            'path.py, via a list-of-outcomes semantics of the backtracking matcher (m_ms) and an unambiguity proof of the '
            'designator grammar; C17_set_get_* / C17_set_extends / C17_set_frame* / C17_other_segment_refused / '
            'C17_write_sequences prove the segment read/write laws for all segments, positions and write sequences, and '
            'C17_designator_indices links printed designators to positions. Tied to the code by ~60k paths (grammar '
            'enumeration, every node path of shipped maps, random strings) and random set/get/format/copy histories.',
    'design_ref': 'DESIGN.md §6 C17',
    'note': 'Trusted: Coq kernel; regex translator; Lib/Regex.v as model of re.search; hand transcription of X12Path and Segment; '
            'extraction + driver; Spec/C17_spec.v. Component-level set on an ISA segment is outside the model (an ISA has no '
            'components; its Composite objects keep the element separator).',
    'technique': 'Coq proof (regex outcome semantics + grammar unambiguity; list refinement for set/get) + extracted-model correspondence',
}

CLAIMED['C20'] = {
    'text': 'The normaliser is read (C01) -> optional count repair -> format. Theorems: C20_content_preserved / '
            'C20_output_rereads (what is written reads back as the same segments up to the documented trimming, from the '
            'C01 round-trip proofs), C20_idempotent (formatting is a fixed point of read-then-format, so normalising the '
            'output again changes nothing), C20_fix_only_count / C20_fix_noop (the repair touches the first element only, '
            'and nothing without a count error), C20_fix_repairs_se/ge/iea (after the repair the reader reports no count '
            'error, exactly the same other errors and the same state). The model of main() is tied to the code by running '
            'pyx12.scripts.x12norm.main() on real files for all eol x fixcounting x {stdout, --output, --inplace} '
            'combinations, comparing sinks with each other and with the model, and applying the four sentences of the '
            'property to the produced files.',
    'design_ref': 'DESIGN.md §6 C20',
    'note': 'Partial by nature: argparse, glob, tempfile, file system and the three sinks are not modelled (the model is a pure '
            'function bytes -> text); they are covered by the differential runs on real files only. The HL01 repair is '
            'covered by the runs, not by a theorem. Trusted: Coq kernel; hand transcription of main(); reader/segment models; '
            'extraction + driver.',
    'technique': 'Coq proof (round-trip + frame lemmas over the reader model) + correspondence with main() on real files',
}

CLAIMED['C11'] = {
    'text': 'Theorem C11_writer_accepted proves, for EVERY well-nested write history (any number of interchanges/groups/sets, '
            'trailers supplied with any counts, omitted inside an enclosing trailer, or left to Close) and by C11_prefix_closed '
            'for every prefix of one, that what the writer model emits is read back by the reader model with no envelope '
            'error and nothing left open — which by C04_reader_exact means every trailer carries its header\'s control '
            'number and the true count; C11_segments_kept that non-trailer segments are written unchanged and in order '
            '(ISA only in ISA11/ISA16); C11_writer_total that the writer never raises. Side conditions on the delimiters '
            'and on ISA13 are each shown necessary by a counterexample proved in Coq; C11_hypotheses_satisfiable exhibits a '
            'real interchange meeting all of them. Tied to the code by ~900 (quick) write histories incl. other delimiters, '
            'ill-nested ones and the 837 LX rewriting, each closed after sampled/all prefixes and re-read with X12Reader.',
    'design_ref': 'DESIGN.md §6 C11',
    'note': 'Trusted: Coq kernel; hand transcription of X12Writer (shared X12Base bookkeeping with the reader model); extraction + '
            'driver; Spec/C11_spec.v (well-nested history, writable segments). "ISA carries the writer\'s delimiters" is checked '
            'on the implementation by re-reading every written interchange.',
    'technique': 'Coq proof by simulation between writer state and reader state over the written segments + correspondence',
}
CLAIMED['C16'] = {
    'text': 'Finite by nature: for every map file the index names (and the two control maps) theorem C16_maps_consistent '
            'evaluates, inside Coq over the XML regenerated from /repo/pyx12/map on every run, the loader model and all '
            'clauses of the property (defined data elements and external code sets, well-formed usages/limits/positions/'
            'syntax notes, distinguishable same-position siblings, every loop/segment/element/component fetched again by '
            'its own path with both lookups, unique paths) and proves the list of offenders equal to the recorded one '
            '(empty except for the findings in known_findings.json); C16_index_consistent proves the index unambiguous and '
            'complete. Nodes the path scheme cannot address are characterised structurally (shadowed) rather than listed. '
            'The transcription and the loader model are tied to the code by comparing, node by node, the implementation\'s '
            'loaded tree, every node path, getnodebypath/getnodebypath2 on every path and on mutated paths, and every index '
            'key (28k comparisons in the quick tier); the clauses are also evaluated on the implementation\'s own objects.',
    'design_ref': 'DESIGN.md §6 C16',
    'note': 'Trusted: Coq kernel (vm_compute); tools/gen/maps.py and c16.py; hand transcription of the map constructors and '
            'lookups; XmlSer glue + driver; expat. "Explicit directory = packaged resources" is tested on a copy of the '
            'directory, not modelled.',
    'technique': 'Coq computation (vm_compute) over regenerated map data, one theorem per map + extracted-model correspondence',
}

CLAIMED['C15'] = {
    'text': 'Theorems (Props/C15.v) about the hand model of element_if.is_valid: for every element definition that is well formed, '
            'every candidate value (any string or absent), charset B/E and any exclusion setting, validation terminates without '
            'raising, reports exactly the set of error codes that the definition implies clause by clause (usage, min/max '
            'length with sign/point not counted, type language from the C13 theorems, inline and external code lists, regex, '
            'qualifier-selected formats), and returns false iff a code was reported; the one deviation of the code '
            '(a control character pre-empts the remaining clauses) is stated exactly and recorded as a finding. The model '
            'is tied to the code by running model, spec and implementation on every boundary value of every element node of '
            'the shipped maps (35k cases quick) and on whole random segments (composites, too many elements).',
    'design_ref': 'DESIGN.md §6 C15, §11',
    'note': 'Trusted: Coq kernel; hand transcription Model/Element.v + loader; C13 regex transcription; XmlSer glue; extraction; '
            'Spec/C15_spec.v is my reading of the property. Composite/segment level is correspondence-only.',
    'technique': 'Coq proof (case analysis over the validation pipeline, reusing the C13 language theorems) + extracted-model correspondence',
}
CLAIMED['C18'] = {
    'text': 'PARTIAL. Proved in Coq over an effect summary regenerated from every module of pyx12/ on each run: the set of '
            'functions reachable from x12n_document, X12ContextReader.__init__/iter_segments and xmlx12_simple.convert in the '
            'name-based call graph is computed and proved closed and complete (induction over call paths), no reachable '
            'function contains a write to an object that outlives the call (module-level binding, class attribute, mutable '
            'default argument or an attribute assigned one), no reachable function lets the iteration order of a set (hash order) reach a '
            'result (C18_no_hash_order_leak), and clock/random reads occur only in the two acknowledgement '
            'visit_root_pre methods and the HTML header. The summary is a syntactic over-approximation produced by my '
            'translator (trusted, not proved sound); what the theorem cannot see - hash seed, interpreter caches, logging, '
            'aliasing through containers - is covered only by the differential: random sequences of documents processed in one '
            'interpreter, with and without a reused params object and repeated documents, each output compared with a fresh '
            'interpreter under a random PYTHONHASHSEED, and documents with several codes per level in fresh interpreters under six hash seeds.',
    'design_ref': 'DESIGN.md §6 C18, §11',
    'note': 'Partial: theorem is about the generated effect summary, not about CPython. Adding a persistent write or a clock '
            'read on a reachable path breaks the theorem; the differential then searches for a history that shows it.',
    'technique': 'Coq proof over a regenerated effect/call-graph summary (reachability closure by vm_compute, completeness by induction) + history differential',
}
CLAIMED['C19'] = {
    'text': 'PARTIAL (errors-shown clause false of the code). Theorems (Props/C19.v): (i) one gen_seg call — for every value the escaped '
            'text contains no < or > and a tag stripper recovers the value in any context; for every segment, delimiter triple '
            '(markup characters included), line number, pending heading and error nodes with arbitrary messages, the text written, '
            'stripped of tags, is exactly: code-3 errors, heading, "<line>: <segment with every element and component>", then the '
            'other segment and element errors of the nodes, with the report\'s own tags only; likewise the footer. (ii) the document '
            '(C19_doc_calls, C19_doc_text, C19_doc_strip, C19_doc_nodes, C19_doc_errors_kept) over the whole-pipeline model, for ANY '
            'environment, clock and text on which the run completes with the HTML sink on: gen_seg is called exactly once per source '
            'segment, in source order, with that segment and its line number; the report is header ++ the writes of those calls ++ '
            'footer and, stripped, the plain report of Spec/C19_doc_spec.v with the template\'s tags only; every node handed to a '
            'call is a node of the error tree, a segment node is handed over at most once, printed errors stay in the final tree. '
            '"Every reported error is shown exactly once" is FALSE of the code: C19_errors_not_all_shown (four completed runs on the '
            'shipped maps), five recorded findings reproduced by the check on the implementation. The model is tied by scripted '
            'differential runs of error_html/err_iter and by the pipeline correspondence; the oracle strips the implementation\'s '
            'reports of corpus, hostile, dense and crafted documents with an independent stripper.',
    'design_ref': 'DESIGN.md §6 C19, §11',
    'note': 'Trusted: Coq kernel; hand transcriptions Model/Html.v, ErrIter.v, Errh.v, Pipeline.v; Spec/C19_spec.v, C19_doc_spec.v; '
            'extraction. Hypotheses kept in C19_doc_strip: the date string has no markup character; codes_plain for every call.',
    'technique': 'Coq proof (chunk calculus over the writer monad, 256-character sweeps for the escape function; inversion of the pipeline run into per-segment views; depth-first key for the error iterator) + extracted-model correspondence + oracle',
}
CLAIMED['C12'] = {
    'text': 'PARTIAL (HTML / XML sinks outside). End to end: C12_pipeline_independent — for every environment, clock and document (15 '
            'header fields + any body of segments writable with both delimiter triples), any two admissible triples and any two '
            'line-break conventions, the model of x12n_document with the acknowledgement sink returns the SAME verdict, writes the '
            'SAME 997 / 999 text and makes the same handler calls up to the delimiters carried by the segment objects, provided the '
            'computable layer hypotheses hold along the run (doc_layers_ok; implied by single-valued elements: '
            'C12_driver_independent_plain) and the ISA validates alike under both triples (ISA16 is validated as data against the '
            'character set). Built from C12_reader_independent_partial (any chunking; same segments, same reader errors at the same '
            'positions), C12_validation_delims_irrelevant, C12_walker_delims_irrelevant, the commutation of all 13 handler calls with '
            'rewriting stored segments, and the C05 acknowledgement theorems; every hypothesis has a machine-checked counterexample. '
            'The check compares complete runs of the implementation on corpus and generated documents re-encoded with 8 triples x 5 '
            'line conventions (verdict, every handler call, acknowledgement text) and chunk-boundary documents.',
    'design_ref': 'DESIGN.md §6 C12, §11',
    'note': 'Trusted: Coq kernel, hand transcriptions of reader / segment / raw file / walker / validation / driver / handler / '
            'visitors (tied by reader, segvalid, walk, document and pipeline correspondence), Spec/C12_spec.v, C12b_spec.v, '
            'C12_doc_spec.v, extraction.',
    'technique': 'Coq proof (C01 chunk-independence and round-trip theorems reused; relational simulation over the walker monad and over Driver.step; handler API commutes with segment rewriting) + differential re-encoding runs',
}
CLAIMED['C08'] = {
    'text': 'Theorems (Props/C08.v): the XML text written by the model of x12xml_simple/XMLWriter for ANY sequence of located segments '
            'is exactly the serialisation of an abstract event sequence (refinement); that sequence is balanced, nests every segment '
            'inside loop elements spelling out its map path, and opens a fresh loop element at the first segment of a loop also when '
            'the loop repeats; content/attribute escaping is invertible and leaves no raw < > (\'); the element tree of one segment '
            'converts back (model of xmlx12_simple.get_segment) to the segment with its not-used elements blanked. Premises are '
            'machine-checked where possible: the text-based loop-prefix test of the code is proved safe for every ordered pair of '
            'loop paths of every shipped map by evaluation over the maps regenerated on each run; two premises are shown necessary by '
            'proved counterexamples. Reading back: xml_read, a total reader for exactly the XML subset the writer emits, inverts the '
            'serialiser on every balanced, one-rooted, XML-representable event sequence (C08_xml_read_inverts_serialiser), and for a '
            'whole document the text written reads back as the tree of the events, whose <seg> nodes are the per-segment trees, and '
            'conversion hands exactly those segments to the X12 writer (C08_document_read_back; what XML cannot carry — TAB/LF in '
            'ids, CR in data, control characters — is stated by proved examples agreeing with expat). Not proved: that expat / '
            'ElementTree agree with xml_read (trusted; compared on every run); per-segment conversion for ISA and composite ids of '
            'the shipped maps. The run checks, on the implementation, well-formedness, nesting = matched map path, labels, every '
            'value read back, and the full round trip over generated documents, and compares model and implementation on whole '
            'documents and on XML trees.',
    'design_ref': 'DESIGN.md §6 C08, §11',
    'note': 'Trusted: Coq kernel; hand transcription of XmlOut/XmlIn/Writer; Spec/C08_spec.v; tools/gen (maps.py, c08.py); expat; extraction.',
    'technique': 'Coq refinement proof (writer monad vs abstract XML events) + per-map vm_compute facts + extracted-model correspondence + round-trip oracle',
}
CLAIMED['C07'] = {
    'text': 'PARTIAL (one premise). Theorem C07_pipeline_total: for every environment whose maps satisfy the computable predicates '
            'map_ok (walker, validator and envelope-shape well-formedness) and sinks_ok, EVERY subset of the acknowledgement / HTML / '
            'XML sinks and EVERY text with plain delimiters, the model of x12n_document returns a verdict or raises X12Error / '
            'EngineError, nothing else; C07_shipped_environment_ok / C07_shipped_sinks_ok prove, by evaluation over the maps '
            'regenerated on each run, that the shipped configuration is such an environment (three maps are outside map_ok and '
            'named). Built from C07_driver_total (sinks off), C07_walker_total, C07_validation_total, the error-handler cursor and '
            'heap invariants, the error-iterator fuel bound and the reader totality theorem. The premise plain_delims is shown '
            'necessary (C07_letter_terminator_raises, a recorded finding). Context reader: C07_context_reader_total (computable '
            'per-map condition cenv_ok for the requested loop id; heap well-formedness invariant over the tree builder) and '
            'C07_shipped_context_reader_total: on the shipped maps iter_segments completes or raises X12Error / EngineError for '
            'EVERY loop id except DETAIL, TABLE2AREA2, TABLE2AREA3 — loops that begin with a loop, where AttributeError escapes '
            '(C07_context_reader_wrapper_loop_raises, a recorded finding). The check runs generated documents, structural '
            'mutations, envelope soups and arbitrary strings under all 8 sink subsets, plain reading and context-reader iteration '
            'for 7 loop ids, with the whole-pipeline model compared on every run.',
    'design_ref': 'DESIGN.md §6 C07, §11',
    'note': 'Trusted: Coq kernel (vm_compute for per-map facts); hand transcriptions Driver/Walker/Element/Errh/Reader/Raw/Pipeline/'
            'ErrIter/Html/XmlOut/Ack997/Ack999/Context/CtxReader; tools/gen/maps.py; extraction.',
    'technique': 'Coq proof (Hoare-style safety over the driver and pipeline monads with error-handler cursor and heap invariants; per-map facts by vm_compute) + extracted-model correspondence + oracle',
}
CLAIMED['C05'] = {
    'text': 'PARTIAL. Theorems (Props/C05.v) over the models of err_handler, error_997 / error_999 and the driver\'s verdict: for EVERY '
            'error tree and clock the acknowledgement written is envelope + one numbered set per group node whose body is a stated '
            'function of the tree — AK1, per set AK2, AK3/AK4 (IK3/IK4) items in tree order with segment position, element position, '
            'code and offending value, AK5 (IK5), AK9 (C05_997_content, C05_999_content); it names every group and set in order with '
            'their control numbers, and every tree the handler API can build is fully visited (C05_names_every_group_and_set, '
            'C05_tree_is_visited); a set is accepted exactly when it holds no counted error (C05_set_accepted_iff_no_counted_error); '
            'AK902-904 are declared / received / received minus failed sets (C05_group_totals, C05_group_totals_origin); the verdict '
            'is True exactly when no validation failed and the tree counts no error (C05_verdict_definition, '
            'C05_error_free_all_accepted). "Reported at any level <-> accepted" is false of the code in three corners, proved as '
            'C05_*_is_false and recorded as findings. That the tree holds exactly the errors the validator reported, and the '
            'addressing of the envelope, are decided by the check: single / multi-fault, multi-set / group / interchange documents '
            '(4010, 5010), implementation acknowledgement parsed and compared with an independent structural recount, plus the '
            'whole-pipeline model correspondence.',
    'design_ref': 'DESIGN.md §6 C05, §11',
    'note': 'Trusted: Coq kernel; hand transcriptions Errh/Ack997/Ack999/Driver/Pipeline (tied by errh, walk and pipeline '
            'correspondence); Spec/C05_spec.v, C05_spec999.v; extraction. Known findings printed by the check: errors on envelope '
            'lines not counted; unlocated set counted accepted.',
    'technique': 'Coq proof (writer-monad "yields" calculus over the visitor run, tree invariant over the handler API) + extracted-model correspondence + independent acknowledgement recount',
}
CLAIMED['C06'] = {
    'text': 'PARTIAL. Theorems C06_997_envelope_recount / C06_999_envelope_recount: for EVERY error-handler state, whenever the visitor '
            'completes, the lines written are those of a segment list passing an independent recount: one ISA (16 elements), one GS, '
            'sets numbered 0001.. with SE01 = segments actually in the set, SE02 = ST02, GE01 = number of sets, GE02 = GS06, IEA01 = 1, '
            'IEA02 = ISA13 (hypotheses: digit clock; for the 997 a GS06 without * and not ending in ~, shown necessary). '
            'C06_recount_reader_silent: the reader given those segments reports no envelope error. C06_997_rereads / C06_999_rereads: '
            'when every echoed value is free of ~ and *, the ISA fields have their widths and GS06 is not empty (computable '
            'echo_clean on the handler state; each conjunct shown necessary by a proved counterexample), the TEXT written, tokenised '
            'under any read schedule and read back, yields exactly those segments with no envelope error and nothing at end of '
            'input. Not proved: the visitor raising (swallowed: cut-short acknowledgement), re-validation against the 997 / 999 map. '
            'The check parses, recounts, re-reads and re-validates every acknowledgement the implementation writes for generated '
            'documents and compares the whole-pipeline model. Recorded findings: echoed delimiter characters, mixed-version files, '
            'empty source GS06.',
    'design_ref': 'DESIGN.md §6 C06, §11',
    'note': 'Trusted: Coq kernel; hand transcriptions Ack997/Ack999/Errh/Writer/Reader/Raw/Pipeline; Spec/C06_spec.v recount; extraction.',
    'technique': 'Coq proof (invariant over the visitor run; writer theorems of C11, reader theorems of C04 and tokeniser theorems of C01/C12 reused) + extracted-model correspondence + oracle',
}
CLAIMED['C09'] = {
    'text': 'PARTIAL (loop id ISA_LOOP open). Theorems over the model of X12ContextReader.iter_segments: '
            'C09_no_loss_no_reorder_partial — for every text, environment and loop id for which iteration completes, if no loop node '
            'was inserted before an older sibling, the segments of the yielded nodes concatenated in yield order are exactly the '
            'source segments in source order, each with the reader\'s set position and line number; C09_allocation_order / '
            'C09_no_loss_no_reorder — a computable MAP-LEVEL condition (ctx_order_ok per map, lid_ok for the loop id, compatibility '
            'of the maps the 278 BHT switch reaches) discharges that premise; C09_shipped_no_loss_no_reorder — the shipped '
            'configuration, by evaluation over the maps regenerated on each run, satisfies it for EVERY loop id except ISA_LOOP. '
            'Machine-checked counterexamples show what is needed: C09_unrestricted_is_false (two sibling loops of one id), '
            'C09_isa_loop_needs_cross_map_condition (4010 and 5010 maps place the envelope loops at different positions). Not '
            'proved: ISA_LOOP on the shipped configuration; tree boundaries and arrangement by map path. The check compares model '
            'and implementation on generated documents x loop ids and applies an independent partition / arrangement oracle to '
            'the implementation (also on every input on which model and implementation part).',
    'design_ref': 'DESIGN.md §6 C09, §11',
    'note': 'Trusted: Coq kernel; hand transcriptions Context.v / CtxReader.v / Walker / Reader; Spec/C09_spec.v, C09_order_spec.v; '
            'tools/gen/maps.py; extraction.',
    'technique': 'Coq proof (heap invariant over the reader run; open-branch invariant tying the tree to the enclosing loops of the reader\'s node; per-map facts by vm_compute) + extracted-model correspondence + oracle',
}
CLAIMED['C10'] = {
    'text': 'PARTIAL. Theorems over the heap model of the X12DataNode API (Props/C10.v): a copy is made of freshly allocated objects '
            'only, its inner parent pointers stay inside it, it iterates like the original, and deleting / setting values through it '
            'leaves every original object untouched (for set_value when the copied node had no parent object: otherwise a proved '
            'counterexample — the copy\'s root keeps the original\'s parent); exists / count / first / select agree whenever select '
            'completes; set_value changes exactly one segment object and in it exactly the addressed element, and get_value then '
            'returns the value (hypotheses shown necessary by proved counterexamples); placement: after add_segment / add_loop / add_node '
            'the live children of the parent are insert_by_pos of the old ones and the new node (after the last sibling of position '
            '<= the new one, first when there is none — a defect found by this proof and fixed in /repo), map order is preserved, the '
            'heap changes by the allocation and the parent\'s list only, and the parent\'s iteration is the old one with the new '
            'node spliced in exactly once; delete: exactly the node\'s subtree disappears from every iteration and query that '
            'completed, order kept, idempotent, other objects untouched (C10_delete_laws), delete_segment likewise. Not proved: '
            'get/set after add or delete, exception traces of the delete laws. The check runs random API scripts on model and '
            'implementation and applies the laws (incl. deep paths over repeated loops, first-position re-add) to the '
            'implementation on trees from generated documents.',
    'design_ref': 'DESIGN.md §6 C10, §11',
    'note': 'Trusted: Coq kernel; hand transcription Context.v / CtxReader.v; Spec/C10_spec.v; extraction.',
    'technique': 'Coq proof (heap reasoning: allocation only appends, reachability through children; C17 segment laws reused) + extracted-model correspondence + law oracle',
}
CLAIMED['C02'] = {
    'text': 'Theorems at three levels (Props/C02.v). (i) C02_conformant_segment_accepted: a data segment that conforms to its node (no '
            'surplus elements; every value draws no code from its definition, clause by clause as in C15; every syntax note holds as in '
            'C14) validates true with no error event. (ii) C02_conformant_instance_located / C02_run_reports_nothing: an independent '
            'generator-style spec of "conformant instance of a loop" and, for every map with walker_wf and keys_ok, every such '
            'instance is located item by item at exactly its node with an EMPTY event list and the predicted usage counts. (iii) '
            'C02_whole_document_accepted / C02_whole_document_acknowledged: for a conformant DOCUMENT (one interchange; every group a '
            'conformant instance of GS_LOOP of the map the index selects, segments conforming to their nodes, envelope read silently) '
            'in any admissible delimiters and line layout, the model of x12n_document returns True, calls no error method of the '
            'handler, and the final error tree counts no error with every group acknowledged A; groups of one interchange may use '
            'different maps. keys_ok fails exactly on the two 999 maps, where the statement is false of the code '
            '(C02_999_conformant_rejected, recorded finding). Excluded: several interchanges per text, the 278 BHT map switch, '
            'wrappers entered through a later loop; HL / 837 LX numbering is a hypothesis on the reader model. The check generates '
            'conformant documents for every map the index selects (every legal date / time shape, repeats, several sets and groups) '
            'and requires verdict True, no error call, AK5/AK9 = A; five recorded findings.',
    'design_ref': 'DESIGN.md §6 C02, §11',
    'note': 'Trusted: Coq kernel; hand transcriptions Element/Syntax/Validation/MapLoad/Walker/Counter/Reader/Driver/Errh; '
            'Spec/C02_doc_spec.v, C02_whole_spec.v and harness/confgen.py are my reading of "conformant"; extraction.',
    'technique': 'Coq proof (per-position decomposition of segment validation; mutual induction over conformant instances with a usage-counter invariant; driver invariant linking reader loops, walker state and handler cursors) + conformant-document generation on the implementation + extracted-model correspondence',
}
CLAIMED['C03'] = {
    'text': 'PARTIAL (two levels proved; error-tree attachment and set isolation by the check). (i) C03_single_element_fault_localised / '
            'C03_extra_element_rejected: replacing one simple element of a conformant segment by a value that draws the code set '
            'cds from its definition makes validation return false with every error filed at that position, naming that element, '
            'carrying exactly the codes of cds; one surplus element gives exactly one error, code 3 (side conditions shown necessary). '
            '(ii) document level for the walker: C03_unknown_segment_localised — a segment matching no node, inserted anywhere in a '
            'conformant instance, draws exactly add_seg + seg_error 1, changes no counter, and every other item is located as before '
            'with nothing reported; C03_single_structural_fault — one missing required segment / loop (code 3 at the first segment '
            'after the gap, or at the next instance when the loop restarts at once: the case fixed by 279ef08), one surplus segment '
            '(code 5) or surplus loop instance (code 4): ONE step reports exactly that fault\'s events, all other items are '
            'located silently, counters as predicted. Corners where the walker is imprecise are machine-checked examples (missing '
            'GE before IEA left to the reader; same-position siblings: reported twice / one segment late). The check injects 15 '
            'fault kinds into conformant documents of the shipped maps (2 sets each) and requires verdict False, the standard code at '
            'the segment and element of the fault, no collateral error, the other set acknowledged A; model tied on the faulted '
            'documents.',
    'design_ref': 'DESIGN.md §6 C03, §11',
    'note': 'Trusted: Coq kernel; hand transcriptions Element/Syntax/Validation/MapLoad/Walker/Counter; Spec/C0203_spec.v, '
            'C03_doc_spec.v; harness fault catalogue; extraction.',
    'technique': 'Coq proof (per-position decomposition of segment validation; mutual induction over annotated instances with a relaxed counter invariant) + single-fault injection on the implementation + extracted-model correspondence',
}

NOT_YET = {
}

ALL = ['C%02d' % i for i in range(1, 21)]


def main():
    checks = []
    for pid in ALL:
        if pid not in CLAIMED:
            continue
        c = CLAIMED[pid]
        checks.append({
            'property_id': pid,
            'quick_cmd': './check %s --tier quick' % pid,
            'thorough_cmd': './check %s --tier thorough' % pid,
            'evidence_file': '/verif/evidence/%s.json' % pid,
            'replay_cmd_template': './check %s --replay {path}' % pid,
            'engine': 'coq-model+extraction',
            'level_claimed': {'category': 'proof', 'text': c['text'], 'design_ref': c['design_ref']},
            'level_note': c['note'],
            'technique': c['technique'],
        })
    na = []
    for pid in ALL:
        if pid not in CLAIMED:
            na.append({'property_id': pid,
                       'reason': NOT_YET.get(pid, 'not claimed yet: model and theorems for this property are still being '
                                                  'built (see DESIGN.md §9 build order); no check is registered for it')})
    m = {
        'version': 1,
        'setup_cmd': './setup.sh',
        'hooks': {
            'guard': 'PYX12_VERIF',
            'enable': 'no source hooks: checks observe /repo through its public API under /venv/bin/python with '
                      'PYTHONPATH=/repo; PYX12_VERIF is reserved and unset',
            'baseline_off_cmd': 'cd /repo && /venv/bin/python -m pytest -ra -q -p no:cacheprovider --timeout=900 '
                                '--continue-on-collection-errors',
            'source_commits': [],
            'add_only': True,
        },
        'engines': [{
            'name': 'coq-model+extraction', 'path': '/verif/coq',
            'serves_properties': sorted(CLAIMED.keys()),
            'kind_free_text': 'Coq 8.16.1 development (Lib/Gen/Model/Spec/Proofs/Props); Gen regenerated from /repo by '
                              'tools/gen on every run; model extracted to OCaml (ExtrOcamlBasic only) for the '
                              'correspondence check driven by harness/*.py',
        }],
        'checks': checks,
        'not_applicable': na,
        'notes': 'One entry point: ./check <Cnn> --tier quick|thorough. Each run regenerates coq/Gen from /repo, '
                 'recompiles the property\'s statement file (Print Assumptions captured), rebuilds the extracted model, '
                 'runs model and implementation on generated inputs, applies the property oracle to the implementation, '
                 'and writes evidence/<id>.json. known_findings.json lists fixed defects and recorded findings.',
    }
    with open(os.path.join(HERE, 'MANIFEST.json'), 'w') as f:
        json.dump(m, f, indent=1)
        f.write('\n')


if __name__ == '__main__':
    main()
