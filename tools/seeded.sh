#!/bin/bash
# tools/seeded.sh <name> <worktree> <property> : confirm a seeded change in its scratch worktree (tests pass,
# demo fails with / passes without), store it under /verif/seeded/<name>/, then run the property's quick check
# against /repo with the patch applied and undo it.
set -u
name=$1; wt=$2; prop=$3
dst=/verif/seeded/$name
mkdir -p $dst
cp $wt/_seeded/patch.diff $wt/_seeded/demo.py $wt/_seeded/meta.json $dst/ 2>/dev/null
cd $wt
git checkout -q -- . 2>/dev/null
git apply $dst/patch.diff || { echo "patch does not apply in worktree"; exit 2; }
tests=$(/venv/bin/python -m pytest -q -p no:cacheprovider -x 2>&1 | tail -1)
PYTHONPATH=$wt /venv/bin/python -W ignore _seeded/demo.py > /tmp/demo_with.txt 2>&1; with_rc=$?
git apply -R $dst/patch.diff
PYTHONPATH=$wt /venv/bin/python -W ignore _seeded/demo.py > /tmp/demo_without.txt 2>&1; without_rc=$?
echo "tests: $tests | demo with patch rc=$with_rc | without rc=$without_rc"
cd /verif
cp evidence/$prop.json /tmp/evidence_keep_$$.json 2>/dev/null
# checks run against a scratch worktree of /repo's HEAD with the patch applied (PYX12_REPO), so that /repo itself
# stays untouched while other jobs read it; SEED_IN_REPO=1 applies to /repo instead (git apply / git checkout).
if [ "${SEED_IN_REPO:-0}" = 1 ]; then
  git -C /repo apply $dst/patch.diff || { echo "patch does not apply to /repo"; exit 2; }
  out=$(./check $prop --tier quick 2>&1 | grep -v "^\[check\]" | grep "VIOLATION\|RESULT" | head -8)
  git -C /repo checkout -- .
else
  hw=/tmp/wt_head_$$
  git -C /repo worktree add -q --detach $hw HEAD || exit 2
  git -C $hw apply $dst/patch.diff || { echo "patch does not apply to HEAD"; git -C /repo worktree remove --force $hw; exit 2; }
  out=$(PYX12_REPO=$hw ./check $prop --tier quick 2>&1 | grep -v "^\[check\]" | grep "VIOLATION\|RESULT" | head -8)
  git -C /repo worktree remove --force $hw
fi
cp /tmp/evidence_keep_$$.json evidence/$prop.json 2>/dev/null; rm -f /tmp/evidence_keep_$$.json
echo "$out"
python3 - "$dst" "$tests" "$with_rc" "$without_rc" "$prop" <<PY
import json,sys
dst,tests,w,wo,prop=sys.argv[1:6]
out='''$out'''
m=json.load(open(dst+'/meta.json'))
m['confirmed_by_me']={'tests_with_patch':tests,'demo_rc_with_patch':int(w),'demo_rc_without_patch':int(wo),
  'ran':'tools/seeded.sh: pytest in the scratch worktree with the patch; demo with and without; ./check %s --tier quick against /repo with the patch applied, then git checkout'%prop,
  'check_output':out.splitlines()}
m['detected']= 'VIOLATION' in out
json.dump(m,open(dst+'/meta.json','w'),indent=1)
PY
