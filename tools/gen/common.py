"""Shared helpers for the translators: Coq literal emission, write-if-changed."""
import os
import sys

REPO = os.environ.get('PYX12_REPO', '/repo')
VERIF = os.path.dirname(os.path.dirname(os.path.dirname(os.path.abspath(__file__))))
GEN = os.path.join(VERIF, 'coq', 'Gen')


class GenError(Exception):
    """Raised when the translator meets something it does not know (fail-closed)."""


def coq_str(s):
    """A Python str (code points 0..255) as a Coq term of type str (list ascii)."""
    for c in s:
        if ord(c) > 255:
            raise GenError('code point > 255 in %r' % (s,))
    if s == '':
        return '(@nil ascii)'
    return '(lc [%s])' % ';'.join(str(ord(c)) for c in s)


def coq_str_list(l):
    if not l:
        return '(@nil str)'
    return '[' + '; '.join(coq_str(x) for x in l) + ']'


def coq_opt_str(s):
    return 'None' if s is None else '(Some %s)' % coq_str(s)


def coq_bool(b):
    return 'true' if b else 'false'


def write_if_changed(path, text):
    os.makedirs(os.path.dirname(path), exist_ok=True)
    old = None
    if os.path.exists(path):
        with open(path) as f:
            old = f.read()
    if old != text:
        tmp = path + '.tmp'
        with open(tmp, 'w') as f:
            f.write(text)
        os.replace(tmp, path)
        return True
    return False


HEADER = '(* GENERATED from %s by %s on every run — do not edit. *)\n'


def setup_repo_path():
    if REPO not in sys.path:
        sys.path.insert(0, REPO)
