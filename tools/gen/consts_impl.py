def main():
    pass
