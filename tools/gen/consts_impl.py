"""Source constants of rawx12file.py / x12file.py -> Gen/SrcConsts.v (fail-closed)."""
import ast

from common import GenError, coq_str, coq_str_list, coq_opt_str, write_if_changed, HEADER, GEN, REPO
from tables import parse, find_func


def module_const(tree, name):
    for n in tree.body:
        if isinstance(n, ast.Assign) and len(n.targets) == 1 and isinstance(n.targets[0], ast.Name) \
                and n.targets[0].id == name:
            return n.value
    raise GenError('module constant %s not found' % name)


def nat_expr(node):
    """int literal or product of int literals -> Coq nat term without a huge numeral"""
    if isinstance(node, ast.Constant) and isinstance(node.value, int) and node.value >= 0:
        if node.value > 4000:
            return '(N.to_nat %d%%N)' % node.value
        return '%d' % node.value
    if isinstance(node, ast.BinOp) and isinstance(node.op, ast.Mult):
        return '(%s * %s)' % (nat_expr(node.left), nat_expr(node.right))
    raise GenError('unsupported constant expression at line %d' % node.lineno)


def subscript_of(node, var):
    """index expression of var[...] nodes"""
    return isinstance(node, ast.Subscript) and isinstance(node.value, ast.Name) and node.value.id == var


def int_const(n):
    if isinstance(n, ast.Constant) and isinstance(n.value, int):
        return n.value
    if isinstance(n, ast.UnaryOp) and isinstance(n.op, ast.USub) and isinstance(n.operand, ast.Constant):
        return -n.operand.value
    raise GenError('expected int at line %d' % n.lineno)


def attr_assign(func, attr):
    """value node of `self.<attr> = ...` in func (first occurrence)"""
    for n in ast.walk(func):
        if isinstance(n, ast.Assign) and len(n.targets) == 1:
            t = n.targets[0]
            if isinstance(t, ast.Attribute) and t.attr == attr and isinstance(t.value, ast.Name) and t.value.id == 'self':
                return n.value
    raise GenError('assignment to self.%s not found in %s' % (attr, func.name))


def main():
    out = [HEADER % ('pyx12/rawx12file.py, pyx12/x12file.py', 'tools/gen/consts.py')]
    out.append('From PX.Lib Require Import Base.\n\n')
    raw = parse('pyx12/rawx12file.py')
    out.append('Definition ISA_LEN : nat := %s.\n' % nat_expr(module_const(raw, 'ISA_LEN')))
    out.append('Definition DEFAULT_BUFSIZE : nat := %s.\n' % nat_expr(module_const(raw, 'DEFAULT_BUFSIZE')))
    init = find_func(raw, '__init__', 'RawX12File')
    # self.icvn = line[84:89]
    v = attr_assign(init, 'icvn')
    if not (subscript_of(v, 'line') and isinstance(v.slice, ast.Slice)):
        raise GenError('icvn is not a slice of line')
    out.append('Definition icvn_lo : nat := %d.\nDefinition icvn_hi : nat := %d.\n' % (
        int_const(v.slice.lower), int_const(v.slice.upper)))
    # accepted versions: `if self.icvn not in (...)`
    known = None
    for n in ast.walk(init):
        if isinstance(n, ast.Compare) and len(n.ops) == 1 and isinstance(n.ops[0], ast.NotIn) \
                and isinstance(n.left, ast.Attribute) and n.left.attr == 'icvn':
            known = [e.value for e in n.comparators[0].elts]
    if known is None:
        raise GenError('version test not found')
    out.append('Definition icvn_known : list str := %s.\n' % coq_str_list(known))
    # the four separator positions
    def pos_of(attr):
        v = attr_assign(init, attr)
        if isinstance(v, ast.IfExp):
            v = v.body
        if not subscript_of(v, 'line'):
            raise GenError('%s is not taken from line[...]' % attr)
        return int_const(v.slice)
    if pos_of('seg_term') != -1 or pos_of('subele_term') != -2:
        raise GenError('seg_term/subele_term are no longer line[-1]/line[-2]')
    out.append('Definition ele_term_pos : nat := %d.\n' % pos_of('ele_term'))
    out.append('Definition rep_term_pos : nat := %d.\n' % pos_of('repetition_term'))
    # x12file: open() arguments for a source given by path
    xf = parse('pyx12/x12file.py')
    rinit = find_func(xf, '__init__', 'X12Reader')
    mode, newline, enc = None, 'DEFAULT', None
    for n in ast.walk(rinit):
        if isinstance(n, ast.Call) and isinstance(n.func, ast.Name) and n.func.id == 'open':
            if len(n.args) >= 2:
                mode = n.args[1].value
            for kw in n.keywords:
                if kw.arg == 'mode':
                    mode = kw.value.value
                if kw.arg == 'newline':
                    newline = kw.value.value
                if kw.arg == 'encoding':
                    enc = kw.value.value
    if mode is None:
        mode = 'r'
    out.append('Definition open_mode : str := %s.\n' % coq_str(mode))
    out.append('(* newline argument of open(): None = universal-newline translation (also the default), '
               "'' = no translation *)\n")
    out.append('Definition open_newline_translates : bool := %s.\n' % (
        'true' if newline in ('DEFAULT', None) else 'false'))
    out.append('Definition open_encoding : str := %s.\n' % coq_str(enc or ''))
    # segment ids not counted in seg_count
    base = find_func(xf, '_parse_segment', 'X12Base')
    excl = None
    for n in ast.walk(base):
        if isinstance(n, ast.Compare) and len(n.ops) == 1 and isinstance(n.ops[0], ast.NotIn) \
                and isinstance(n.left, ast.Name) and n.left.id == 'seg_id':
            excl = [e.value for e in n.comparators[0].elts]
    if excl is None:
        raise GenError('uncounted segment ids not found')
    out.append('Definition uncounted_ids : list str := %s.\n' % coq_str_list(excl))
    # writer defaults
    winit = find_func(xf, '__init__', 'X12Writer')
    names = [a.arg for a in winit.args.args]
    defaults = winit.args.defaults
    dmap = dict(zip(names[len(names) - len(defaults):], [d.value for d in defaults]))
    for k in ('seg_term', 'ele_term', 'subele_term', 'eol', 'repetition_term'):
        if k not in dmap:
            raise GenError('writer default %s missing' % k)
        out.append('Definition writer_default_%s : str := %s.\n' % (k, coq_str(dmap[k])))
    write_if_changed(GEN + '/SrcConsts.v', ''.join(out))
