"""Further tables, added as more of the code enters the model."""


def emit(out):
    pass
