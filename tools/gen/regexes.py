"""Translate every compiled regular expression the modelled code uses into a
term of PX.Lib.Regex.re.  Fail-closed: any syntax outside the subset raises.

The patterns are taken from the live module objects of /repo (so '%'-built
patterns such as X12Path.rec_path are what the code really compiles), parsed
with CPython's own parser (re._parser) and re-emitted."""
import re
import sys
import importlib

from common import GenError, coq_str, write_if_changed, HEADER, GEN, setup_repo_path

import re._parser as sre_parse
import re._constants as sre_c

ALLOWED_FLAGS = re.S | re.ASCII | re.UNICODE

SOURCES = [
    # coq name, module, attribute path
    ('rec_N', 'pyx12.validation', 'rec_N'),
    ('rec_R', 'pyx12.validation', 'rec_R'),
    ('rec_ID_E', 'pyx12.validation', 'rec_ID_E'),
    ('rec_ID_E5', 'pyx12.validation', 'rec_ID_E5'),
    ('rec_ID_B', 'pyx12.validation', 'rec_ID_B'),
    ('rec_DT', 'pyx12.validation', 'rec_DT'),
    ('rec_TM', 'pyx12.validation', 'rec_TM'),
    ('rec_seg_id', 'pyx12.segment', 'rec_seg_id'),
    ('rec_path', 'pyx12.path', 'X12Path.rec_path'),
]


def cls_of_in(items):
    neg = False
    ranges = []
    for (op, av) in items:
        if op is sre_c.NEGATE:
            neg = True
        elif op is sre_c.LITERAL:
            ranges.append((av, av))
        elif op is sre_c.RANGE:
            ranges.append((av[0], av[1]))
        else:
            raise GenError('unsupported class item %r' % (op,))
    for (a, b) in ranges:
        if b > 255:
            raise GenError('class range beyond 255')
    return 'Cls %s [%s]' % ('true' if neg else 'false',
                            '; '.join('(%d, %d)' % r for r in ranges))


def atom_cls(item):
    """class term if the item is a one-character atom, else None"""
    op, av = item
    if op is sre_c.LITERAL:
        return 'Cls false [(%d, %d)]' % (av, av)
    if op is sre_c.NOT_LITERAL:
        return 'Cls true [(%d, %d)]' % (av, av)
    if op is sre_c.IN:
        return cls_of_in(av)
    return None


def seq_term(items, names):
    terms = [item_term(it, names) for it in items]
    if not terms:
        return 'REps'
    out = terms[-1]
    for t in reversed(terms[:-1]):
        out = '(RSeq %s %s)' % (t, out)
    return out


def item_term(item, names):
    op, av = item
    c = atom_cls(item)
    if c is not None:
        return '(RCls (%s))' % c
    if op is sre_c.MAX_REPEAT:
        mn, mx, sub = av
        sub = list(sub)
        if len(sub) == 1 and atom_cls(sub[0]) is not None:
            mxs = 'None' if mx is sre_c.MAXREPEAT else '(Some %d)' % mx
            return '(RRep (%s) %d %s)' % (atom_cls(sub[0]), mn, mxs)
        if mn == 0 and mx == 1:
            return '(ROpt %s)' % seq_term(sub, names)
        raise GenError('repetition of a non-atomic sub-pattern is outside the modelled subset')
    if op is sre_c.SUBPATTERN:
        group, add_flags, del_flags, p = av
        if add_flags or del_flags:
            raise GenError('inline flags')
        inner = seq_term(list(p), names)
        if group is None:
            return inner
        name = names.get(group, str(group))
        return '(RGroup %s %s)' % (coq_str(name), inner)
    if op is sre_c.AT:
        if av is sre_c.AT_BEGINNING:
            return 'RBol'
        if av is sre_c.AT_END:
            return 'REol'
        raise GenError('unsupported anchor %r' % (av,))
    if op is sre_c.BRANCH:
        _, alts = av
        terms = [seq_term(list(a), names) for a in alts]
        out = terms[-1]
        for t in reversed(terms[:-1]):
            out = '(RAlt %s %s)' % (t, out)
        return out
    raise GenError('unsupported regex construct %r' % (op,))


def translate(pattern, flags):
    if flags & ~ALLOWED_FLAGS:
        raise GenError('unsupported flags %r' % (flags,))
    p = sre_parse.parse(pattern, flags & ~re.UNICODE)
    names = {v: k for k, v in p.state.groupdict.items()}
    return seq_term(list(p), names)


def resolve(modname, attr):
    mod = importlib.import_module(modname)
    obj = mod
    for part in attr.split('.'):
        obj = getattr(obj, part)
    if not isinstance(obj, re.Pattern):
        raise GenError('%s.%s is not a compiled pattern' % (modname, attr))
    if not isinstance(obj.pattern, str):
        raise GenError('%s.%s is a bytes pattern' % (modname, attr))
    return obj


def main():
    setup_repo_path()
    out = [HEADER % ('pyx12/validation.py, segment.py, path.py', 'tools/gen/regexes.py')]
    out.append('From PX.Lib Require Import Base Regex.\n')
    for (name, modname, attr) in SOURCES:
        obj = resolve(modname, attr)
        term = translate(obj.pattern, obj.flags)
        shown = repr(obj.pattern).replace('"', "''").replace('(*', '( *').replace('*)', '* )')
        out.append('(* %s.%s = %s flags=%d *)\n' % (modname, attr, shown, obj.flags))
        out.append('Definition %s : re :=\n  %s.\n\n' % (name, term))
    write_if_changed(GEN + '/Regexes.v', ''.join(out))


if __name__ == '__main__':
    try:
        main()
    except GenError as e:
        sys.stderr.write('GEN-FAIL regexes: %s\n' % e)
        sys.exit(2)
