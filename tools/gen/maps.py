"""Transcribe every XML file of /repo/pyx12/map into a Coq term of PX.Lib.Xml.xml
(tag, attributes, text, children) -> coq/Gen/Maps/M_<name>.v, plus an index
file Gen/MapFiles.v listing (file name, tree).  Text is kept for elements
without children (exactly as ElementTree reports it); for elements with
children the text (indentation whitespace) is dropped — the loaders never
read it.  Fail-closed on anything unexpected (tails with non-blank text,
comments/PIs are ignored as ElementTree does)."""
import os
import re
import sys
import xml.etree.ElementTree as et

from common import GenError, write_if_changed, HEADER, GEN, REPO

MAPDIR = os.path.join(REPO, 'pyx12', 'map')


def modname(fn):
    return 'M_' + re.sub(r'[^A-Za-z0-9]', '_', fn[:-4])


def lit(v):
    """Coq string literal for a str of printable ASCII; anything else via codes"""
    if all(32 <= ord(c) < 127 for c in v):
        return '"%s"' % v.replace('"', '""')
    raise ValueError


def sval(v):
    try:
        return lit(v)
    except ValueError:
        for c in v:
            if ord(c) > 255:
                raise GenError('code point > 255 in map text %r' % v)
        return None


def emit(e, out, indent):
    tag = e.tag
    if not isinstance(tag, str):
        return  # comment / PI
    children = [c for c in e if isinstance(c.tag, str)]
    for c in e:
        if c.tail is not None and c.tail.strip() != '':
            raise GenError('mixed content (tail text) under <%s>' % tag)
    if children and e.text is not None and e.text.strip() != '':
        raise GenError('mixed content (text before children) under <%s>' % tag)
    text = None if children else e.text
    attrs = list(e.attrib.items())
    plain = all(sval(k) is not None and sval(v) is not None for k, v in attrs) and \
        (text is None or sval(text) is not None) and sval(tag) is not None
    pad = ' ' * indent
    if plain and not children and not attrs and text is not None:
        out.append('%s(L %s %s)' % (pad, lit(tag), lit(text)))
        return
    if plain:
        a = '[' + '; '.join('(%s, %s)' % (lit(k), lit(v)) for k, v in attrs) + ']'
        t = 'None' if text is None else '(Some %s)' % lit(text)
        out.append('%s(E %s %s %s [' % (pad, lit(tag), a, t))
    else:
        def cs(v):
            return '(lc [%s])' % ';'.join(str(ord(c)) for c in v) if v else '(@nil ascii)'
        a = '[' + '; '.join('(%s, %s)' % (cs(k), cs(v)) for k, v in attrs) + ']'
        t = 'None' if text is None else '(Some %s)' % cs(text)
        out.append('%s(X %s %s %s [' % (pad, cs(tag), a, t))
    first = True
    for c in children:
        if not first:
            out[-1] += ';'
        first = False
        emit(c, out, indent + 1)
    out.append('%s])' % pad)


def main():
    files = sorted(f for f in os.listdir(MAPDIR) if f.endswith('.xml'))
    os.makedirs(os.path.join(GEN, 'Maps'), exist_ok=True)
    wanted = set()
    index = []
    for fn in files:
        path = os.path.join(MAPDIR, fn)
        try:
            root = et.parse(path).getroot()
        except et.ParseError as ex:
            raise GenError('%s does not parse: %s' % (fn, ex))
        out = [HEADER % ('pyx12/map/' + fn, 'tools/gen/maps.py')]
        out.append('From Coq Require Import String.\nFrom PX.Lib Require Import Base Xml.\nLocal Open Scope string_scope.\n')
        out.append('Definition tree : xml :=')
        emit(root, out, 1)
        out[-1] += '.'
        mn = modname(fn)
        wanted.add(mn + '.v')
        write_if_changed(os.path.join(GEN, 'Maps', mn + '.v'), '\n'.join(out) + '\n')
        index.append((fn, mn))
    # remove transcriptions of files that no longer exist
    for f in os.listdir(os.path.join(GEN, 'Maps')):
        if f.endswith('.v') and f not in wanted:
            os.remove(os.path.join(GEN, 'Maps', f))
    # every <regex> text occurring in a map, translated to the regex AST (fail-closed)
    import re as _re
    import regexes as _rx
    texts = []
    for fn in files:
        root = et.parse(os.path.join(MAPDIR, fn)).getroot()
        for r in root.iter('regex'):
            if r.text and r.text not in texts:
                texts.append(r.text)
    rout = [HEADER % ('pyx12/map/*.xml (<regex> texts)', 'tools/gen/maps.py')]
    rout.append('From PX.Lib Require Import Base Regex.\n\n')
    from common import coq_str
    items = []
    for t in sorted(texts):
        items.append('(%s, %s)' % (coq_str(t), _rx.translate(t, _re.S)))
    rout.append('(* element_if compiles these with re.compile(text, re.S) and uses rec.search(value) *)\n')
    rout.append('Definition map_regexes : list (str * re) :=\n  [%s].\n' % ';\n   '.join(items))
    write_if_changed(os.path.join(GEN, 'MapRegexes.v'), ''.join(rout))
    out = [HEADER % ('pyx12/map/ (directory listing)', 'tools/gen/maps.py')]
    out.append('From Coq Require Import String.\nFrom PX.Lib Require Import Base Xml.\n')
    out.append('(* the file names present in the map directory, in sorted order *)\n')
    out.append('Definition map_file_names : list str :=\n  [%s].\n' % ';\n   '.join('s "%s"' % fn for fn, _ in index))
    write_if_changed(os.path.join(GEN, 'MapFiles.v'), ''.join(out))


if __name__ == '__main__':
    try:
        main()
    except GenError as e:
        sys.stderr.write('GEN-FAIL maps: %s\n' % e)
        sys.exit(2)
