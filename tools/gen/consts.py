"""Source constants -> Gen/SrcConsts.v (filled in as the reader/writer enter the model)."""
import sys
from common import GenError
import consts_impl

if __name__ == '__main__':
    try:
        consts_impl.main()
    except GenError as e:
        sys.stderr.write('GEN-FAIL consts: %s\n' % e)
        sys.exit(2)
