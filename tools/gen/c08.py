"""Generate the per-map premise of C08: Gen/C08/P_<map>.v — for every map file the index names (and the two control
maps) that loads, one vm_compute lemma that the text-based prefix test of x12xml_simple agrees with the list-based
rule on every ordered pair of loop paths of that map — and Gen/C08/All.v collecting them."""
import json
import os
import sys
import xml.etree.ElementTree as et

from common import GenError, write_if_changed, HEADER, GEN, REPO

VERIF = os.path.dirname(os.path.dirname(os.path.dirname(os.path.abspath(__file__))))
MAPDIR = os.path.join(REPO, 'pyx12', 'map')


def modname(fn):
    return 'M_' + fn[:-4].replace('.', '_').replace('-', '_')


def main():
    idx = et.parse(os.path.join(MAPDIR, 'maps.xml')).getroot()
    named = []
    for v in idx.iter('version'):
        for m in v.findall('map'):
            if m.text and m.text not in named:
                named.append(m.text)
    checked = sorted(set(named) | {'x12.control.00401.xml', 'x12.control.00501.xml'})
    present = set(os.listdir(MAPDIR))
    with open(os.path.join(VERIF, 'known_findings.json')) as f:
        kf = json.load(f)['entries']
    unloadable = set()
    for e in kf:
        if e.get('property') == 'C16' and e.get('kind') == 'finding':
            for fn, offs in (e.get('coq_expect') or {}).items():
                if any(o.startswith('load') for o in offs):
                    unloadable.add(fn)
    os.makedirs(os.path.join(GEN, 'C08'), exist_ok=True)
    wanted = set()
    rows = []
    for fn in checked:
        if fn not in present or fn in unloadable:
            continue
        mn = modname(fn)
        body = [HEADER % ('pyx12/map/%s' % fn, 'tools/gen/c08.py')]
        body.append('From Coq Require Import String.\nFrom PX.Lib Require Import Base Xml.\n'
                    'From PX.Gen Require Import MapRegexes.\nFrom PX.Gen.Maps Require M_dataele M_codes %s.\n'
                    'From PX.Spec Require Import C08_spec.\n\n' % mn)
        body.append('Lemma ok : map_c08_ok map_regexes M_dataele.tree M_codes.tree %s.tree = true.\n'
                    'Proof. vm_compute. reflexivity. Qed.\n' % mn)
        name = 'P_' + mn[2:] + '.v'
        wanted.add(name)
        write_if_changed(os.path.join(GEN, 'C08', name), ''.join(body))
        rows.append((fn, mn, 'P_' + mn[2:]))
    out = [HEADER % ('pyx12/map/maps.xml, directory listing, known_findings.json', 'tools/gen/c08.py')]
    out.append('From Coq Require Import String.\nFrom PX.Lib Require Import Base Xml.\n'
               'From PX.Gen Require Import MapRegexes.\nFrom PX.Gen.Maps Require M_dataele M_codes.\n')
    for fn, mn, tn in rows:
        out.append('From PX.Gen.Maps Require %s.\nFrom PX.Gen.C08 Require %s.\n' % (mn, tn))
    out.append('From PX.Spec Require Import C08_spec.\n\n')
    out.append('(* every map file the index names (and the two control maps) that loads: name and tree *)\n')
    out.append('Definition checked : list (str * xml) :=\n  [%s].\n\n' % ';\n   '.join('(s "%s", %s.tree)' % (fn, mn) for fn, mn, tn in rows))
    out.append('Lemma checked_ok : Forall (fun c => map_c08_ok map_regexes M_dataele.tree M_codes.tree (snd c) = true) checked.\n'
               'Proof.\n  unfold checked. repeat (apply Forall_cons; [cbn [fst snd]|]).\n')
    for fn, mn, tn in rows:
        out.append('  - exact %s.ok.\n' % tn)
    out.append('  - apply Forall_nil.\nQed.\n')
    write_if_changed(os.path.join(GEN, 'C08', 'All.v'), ''.join(out))
    for f in os.listdir(os.path.join(GEN, 'C08')):
        if f.endswith('.v') and f not in wanted and f != 'All.v':
            os.remove(os.path.join(GEN, 'C08', f))


if __name__ == '__main__':
    try:
        main()
    except GenError as e:
        sys.stderr.write('GEN-FAIL c08: %s\n' % e)
        sys.exit(2)
