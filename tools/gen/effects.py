"""Effect summary of the pyx12 package for property C18 -> Gen/Effects.v.

A syntactic OVER-approximation, by a translator I wrote (trusted; see DESIGN.md §8/§11):
  * persistent objects: module-level bindings, class-level attributes, parameters with a mutable
    default value ([] {} set() dict() list()), and (fixpoint) every attribute name that is
    somewhere assigned one of those;
  * write sites: inside a function, a store through / mutating method call on / `global`
    rebinding of an expression whose root resolves to a persistent object;
  * decorated functions: any decorator other than staticmethod / classmethod / property / functools.wraps counts as a
    write site (the wrapper may cache);
  * clock / random sites: calls to time.*, random.*, datetime.* ;
  * call graph: function f -> every package function whose NAME is called in f
    (by bare name, by attribute, or as a class being instantiated: then its __init__ and __del__).
Fail-closed: a syntax construct the walker does not know makes the generator exit non-zero."""
import ast
import os
import sys

from common import GenError, write_if_changed, HEADER, GEN, REPO

PKG = os.path.join(REPO, 'pyx12')
SKIP_DIRS = ('test', 'tests', 'examples', 'map')
MUTATORS = {'append', 'extend', 'insert', 'pop', 'remove', 'clear', 'update', 'setdefault', 'add', 'discard',
            'sort', 'reverse', 'popitem', '__setitem__', '__delitem__', 'appendleft', 'write', 'writelines',
            'addHandler', 'removeHandler', 'setLevel', 'seed', 'close'}
# calls on module-level logger objects that only emit a record do not change validation state
LOG_EMIT = {'debug', 'info', 'warning', 'error', 'exception', 'critical', 'log'}
CLOCK_MODULES = {'time', 'random', 'datetime'}
PURE_DECORATORS = {'staticmethod', 'classmethod', 'property', 'setter', 'getter', 'deleter', 'wraps', 'abstractmethod'}
ENTRY_POINTS = [('x12n_document', 'x12n_document'), ('x12context', 'X12ContextReader.__init__'),
                ('x12context', 'X12ContextReader.iter_segments'), ('xmlx12_simple', 'convert')]


def is_mutable_default(node):
    if isinstance(node, (ast.List, ast.Dict, ast.Set)):
        return True
    if isinstance(node, ast.Call) and isinstance(node.func, ast.Name) and node.func.id in ('list', 'dict', 'set'):
        return True
    return False


def root_name(expr):
    """the Name at the root of an attribute/subscript chain, and whether the chain goes through self"""
    while isinstance(expr, (ast.Attribute, ast.Subscript)):
        expr = expr.value
    if isinstance(expr, ast.Name):
        return expr.id
    return None


def attr_chain(expr):
    out = []
    while isinstance(expr, (ast.Attribute, ast.Subscript)):
        if isinstance(expr, ast.Attribute):
            out.append(expr.attr)
        expr = expr.value
    return out


class Func(object):
    def __init__(self, module, qual, node, cls):
        self.module, self.qual, self.node, self.cls = module, qual, node, cls
        self.calls = set()
        self.writes = []
        self.clock = []
        self.order = []


def collect(module, tree):
    funcs = []
    mod_names = set()
    class_attrs = {}
    for n in tree.body:
        if isinstance(n, (ast.Assign, ast.AnnAssign, ast.AugAssign)):
            targets = n.targets if isinstance(n, ast.Assign) else [n.target]
            for t in targets:
                for x in ast.walk(t):
                    if isinstance(x, ast.Name):
                        mod_names.add(x.id)
        elif isinstance(n, (ast.FunctionDef, ast.AsyncFunctionDef)):
            funcs.append(Func(module, n.name, n, None))
        elif isinstance(n, ast.ClassDef):
            for m in n.body:
                if isinstance(m, (ast.FunctionDef, ast.AsyncFunctionDef)):
                    funcs.append(Func(module, n.name + '.' + m.name, m, n.name))
                elif isinstance(m, ast.Assign):
                    for t in m.targets:
                        if isinstance(t, ast.Name):
                            class_attrs.setdefault(n.name, set()).add(t.id)
        elif isinstance(n, (ast.Import, ast.ImportFrom, ast.Expr, ast.If, ast.Try, ast.Pass)):
            pass
        else:
            raise GenError('%s: unsupported top-level statement %s at line %d' % (module, type(n).__name__, n.lineno))
    return funcs, mod_names, class_attrs


def analyse(f, mod_names, class_attrs, persistent_attrs):
    node = f.node
    params = [a.arg for a in node.args.args + node.args.kwonlyargs]
    defaults = node.args.defaults
    mutable_params = set()
    for a, d in zip(node.args.args[len(node.args.args) - len(defaults):], defaults):
        if is_mutable_default(d):
            mutable_params.add(a.arg)
    for a, d in zip(node.args.kwonlyargs, node.args.kw_defaults):
        if d is not None and is_mutable_default(d):
            mutable_params.add(a.arg)
    local_names = set(params)
    globals_declared = set()
    for x in ast.walk(node):
        if isinstance(x, ast.Global):
            globals_declared.update(x.names)
    # names assigned in the function are local (unless declared global)
    for x in ast.walk(node):
        if isinstance(x, ast.Name) and isinstance(x.ctx, ast.Store) and x.id not in globals_declared:
            local_names.add(x.id)

    def persistent_root(expr):
        r = root_name(expr)
        if r is None:
            return None
        if r in mutable_params:
            return 'mutable default of parameter %s' % r
        if r in globals_declared:
            return 'module global %s' % r
        if r not in local_names and r in mod_names:
            return 'module-level object %s' % r
        if r in class_attrs and r not in local_names:
            return 'class attribute of %s' % r
        if r in ('self', 'cls'):
            ch = attr_chain(expr)
            if ch and ch[-1] in persistent_attrs:
                return 'attribute %s (assigned a persistent object somewhere)' % ch[-1]
            if r == 'cls' or (ch and ch[-1] == '__class__'):
                return 'class object'
        # through ANY object (a fresh copy, another node): the attribute may still hold the shared default object
        ch = attr_chain(expr)
        if ch and ch[0] in persistent_attrs:
            return 'attribute %s of %s (assigned a persistent object somewhere)' % (ch[0], r)
        return None

    # decorators: the name bound is what the decorator returns; unless it is one of the stateless builtins the wrapper may
    # keep state across calls (a cache keyed by arguments outlives the document): counted as a persistent write site
    for d in ast.walk(node):
        if d is not node and isinstance(d, (ast.FunctionDef, ast.AsyncFunctionDef, ast.ClassDef)) or d is node:
            for dec in getattr(d, 'decorator_list', []):
                dn = dec.func if isinstance(dec, ast.Call) else dec
                name = dn.attr if isinstance(dn, ast.Attribute) else (dn.id if isinstance(dn, ast.Name) else None)
                if name is None:
                    raise GenError('%s.%s: unsupported decorator shape at line %d' % (f.module, f.qual, dec.lineno))
                if name in PURE_DECORATORS:
                    continue
                f.writes.append((dec.lineno, 'decorated by %s: the wrapper may keep state across calls' % name))
                f.calls.add(name)
    for x in ast.walk(node):
        if isinstance(x, (ast.Assign, ast.AugAssign, ast.AnnAssign, ast.Delete)):
            targets = x.targets if isinstance(x, (ast.Assign, ast.Delete)) else [x.target]
            for t in targets:
                for tt in (t.elts if isinstance(t, (ast.Tuple, ast.List)) else [t]):
                    if isinstance(tt, ast.Name):
                        if tt.id in globals_declared:
                            f.writes.append((x.lineno, 'rebinds module global %s' % tt.id))
                    elif isinstance(tt, (ast.Attribute, ast.Subscript)):
                        why = persistent_root(tt.value)
                        if why:
                            f.writes.append((x.lineno, 'store through %s' % why))
        elif isinstance(x, ast.Call):
            fn = x.func
            if isinstance(fn, ast.Attribute):
                base = root_name(fn.value)
                if fn.attr in MUTATORS:
                    why = persistent_root(fn.value)
                    if why:
                        f.writes.append((x.lineno, '.%s() on %s' % (fn.attr, why)))
                if base in CLOCK_MODULES and base not in local_names:
                    f.clock.append((x.lineno, '%s.%s' % (base, fn.attr)))
                f.calls.add(fn.attr)
            elif isinstance(fn, ast.Name):
                f.calls.add(fn.id)
            elif isinstance(fn, (ast.Call, ast.Subscript, ast.Lambda)):
                pass
            else:
                raise GenError('%s.%s: unsupported call shape at line %d' % (f.module, f.qual, x.lineno))


def order_leaks(f):
    """set-valued expressions whose ITERATION ORDER (hash order: differs from interpreter to interpreter for strings) can
    reach a result.  A set may be: tested for membership, measured, sorted WITHOUT a key (a total order on the values),
    or turned into a list that the very next statement sorts without a key; every other use is a leak site."""
    node = f.node
    parents = {}
    for x in ast.walk(node):
        for ch in ast.iter_child_nodes(x):
            parents[ch] = x

    def is_set_expr(x):
        return isinstance(x, (ast.Set, ast.SetComp)) or (
            isinstance(x, ast.Call) and isinstance(x.func, ast.Name) and x.func.id in ('set', 'frozenset'))

    def plain_sorted(call):
        return isinstance(call, ast.Call) and isinstance(call.func, ast.Name) and call.func.id == 'sorted' and not call.keywords

    def next_stmt_sorts(stmt, name):
        body_owner = parents.get(stmt)
        for field in ('body', 'orelse', 'finalbody'):
            body = getattr(body_owner, field, None)
            if isinstance(body, list) and stmt in body:
                k = body.index(stmt)
                if k + 1 < len(body):
                    nx = body[k + 1]
                    return (isinstance(nx, ast.Expr) and isinstance(nx.value, ast.Call) and isinstance(nx.value.func, ast.Attribute)
                            and nx.value.func.attr == 'sort' and isinstance(nx.value.func.value, ast.Name)
                            and nx.value.func.value.id == name and not nx.value.args and not nx.value.keywords)
        return False

    def harmless_use(x):
        """is the set-valued expression x (or a name holding a set) used in an order-insensitive way?"""
        par = parents.get(x)
        if isinstance(par, ast.Compare) and x in par.comparators and all(isinstance(o, (ast.In, ast.NotIn)) for o in par.ops):
            return True
        if isinstance(par, ast.Call) and x in par.args:
            if isinstance(par.func, ast.Name) and par.func.id in ('len', 'bool', 'any', 'all', 'min', 'max', 'sum', 'set', 'frozenset'):
                return True
            if plain_sorted(par):
                return True
            if isinstance(par.func, ast.Name) and par.func.id in ('list', 'tuple'):
                gp = parents.get(par)
                if isinstance(gp, ast.Assign) and len(gp.targets) == 1 and isinstance(gp.targets[0], ast.Name):
                    return next_stmt_sorts(gp, gp.targets[0].id)
                return False
        if isinstance(par, ast.Attribute) and par.value is x and par.attr in (
                'add', 'update', 'discard', 'remove', 'clear', 'issubset', 'issuperset', 'isdisjoint', 'union', 'intersection',
                'difference', 'copy', '__contains__'):
            return True
        if isinstance(par, (ast.BoolOp, ast.UnaryOp)) or (isinstance(par, (ast.If, ast.While, ast.IfExp)) and par.test is x):
            return True
        return False

    for x in ast.walk(node):
        if not is_set_expr(x):
            continue
        par = parents.get(x)
        if isinstance(par, ast.Assign) and len(par.targets) == 1 and isinstance(par.targets[0], ast.Name) and par.value is x:
            name = par.targets[0].id
            for u in ast.walk(node):
                if isinstance(u, ast.Name) and u.id == name and isinstance(u.ctx, ast.Load) and not harmless_use(u):
                    f.order.append((u.lineno, 'iteration order of the set %s can reach a result' % name))
            continue
        if isinstance(par, ast.Assign):
            f.order.append((x.lineno, 'a set stored where its later uses are not tracked'))
            continue
        if not harmless_use(x):
            f.order.append((x.lineno, 'iteration order of a set can reach a result'))


def main():
    modules = {}
    for root, dirs, files in os.walk(PKG):
        dirs[:] = [d for d in dirs if d not in SKIP_DIRS]
        for fn in sorted(files):
            if fn.endswith('.py'):
                rel = os.path.relpath(os.path.join(root, fn), PKG)[:-3].replace(os.sep, '.')
                with open(os.path.join(root, fn)) as fh:
                    import warnings
                    with warnings.catch_warnings():
                        warnings.simplefilter('ignore')
                        modules[rel] = ast.parse(fh.read(), fn)
    info = {}
    for m, tree in sorted(modules.items()):
        info[m] = collect(m, tree)
    # fixpoint: attributes assigned from a parameter with mutable default / module object / class attr
    persistent_attrs = set()
    changed = True
    while changed:
        changed = False
        for m, (funcs, mod_names, class_attrs) in info.items():
            for f in funcs:
                node = f.node
                defaults = node.args.defaults
                mp = set(a.arg for a, d in zip(node.args.args[len(node.args.args) - len(defaults):], defaults) if is_mutable_default(d))
                for x in ast.walk(node):
                    if isinstance(x, ast.Assign) and isinstance(x.value, ast.Name):
                        src = x.value.id
                        if src in mp or (src in mod_names and src not in [a.arg for a in node.args.args]):
                            for t in x.targets:
                                if isinstance(t, ast.Attribute) and t.attr not in persistent_attrs:
                                    persistent_attrs.add(t.attr)
                                    changed = True
    allf = []
    for m, (funcs, mod_names, class_attrs) in sorted(info.items()):
        for f in funcs:
            analyse(f, mod_names, class_attrs, persistent_attrs)
            order_leaks(f)
            allf.append(f)
    index = {(f.module, f.qual): i for i, f in enumerate(allf)}
    by_name = {}
    classes = {}
    for i, f in enumerate(allf):
        by_name.setdefault(f.qual.split('.')[-1], []).append(i)
        if f.cls:
            classes.setdefault(f.cls, []).append(i)
    edges = []
    for i, f in enumerate(allf):
        for c in sorted(f.calls):
            for j in by_name.get(c, []):
                edges.append((i, j))
            for j in classes.get(c, []):          # instantiation: every method may run (incl. __init__, __del__, __iter__)
                edges.append((i, j))
    edges = sorted(set(edges))
    entries = []
    for (m, q) in ENTRY_POINTS:
        if (m, q) not in index:
            raise GenError('entry point %s.%s not found' % (m, q))
        entries.append(index[(m, q)])
    out = [HEADER % ('every module of pyx12/ (excluding test*, examples, map)', 'tools/gen/effects.py')]
    out.append('From Coq Require Import String.\nFrom PX.Lib Require Import Base.\n\n')
    out.append('(* functions: index = position in this list *)\nDefinition fn_names : list string :=\n  [%s]%%string.\n\n' %
               ';\n   '.join('"%s.%s"' % (f.module, f.qual) for f in allf))
    out.append('Definition n_functions : nat := %d.\n' % len(allf))
    out.append('Local Open Scope N_scope.\n')
    out.append('Definition entry_points : list N := [%s].\n\n' % '; '.join(str(e) for e in entries))
    out.append('(* call graph (caller, callee): name-based over-approximation *)\nDefinition call_edges : list (N * N) :=\n  [%s].\n\n' %
               '; '.join('(%d, %d)' % e for e in edges))
    ws = [(i, ln, why) for i, f in enumerate(allf) for (ln, why) in f.writes]
    out.append('(* syntactic write sites to persistent objects: (function, source line, what) *)\n'
               'Definition write_sites : list (N * N * string) :=\n  [%s].\n\n' %
               ';\n   '.join('(%d, %d, "%s"%%string)' % (i, ln, why.replace('"', "'")) for (i, ln, why) in ws))
    cs = [(i, ln, what) for i, f in enumerate(allf) for (ln, what) in f.clock]
    out.append('(* wall-clock / random-number call sites *)\nDefinition clock_sites : list (N * N * string) :=\n  [%s].\n' %
               ';\n   '.join('(%d, %d, "%s"%%string)' % (i, ln, what) for (i, ln, what) in cs))
    osites = [(i, ln, what) for i, f in enumerate(allf) for (ln, what) in sorted(set(f.order))]
    out.append('\n(* sites where the iteration order of a set (hash order) can reach a result *)\n'
               'Definition order_sites : list (N * N * string) :=\n  [%s].\n' %
               ';\n   '.join('(%d, %d, "%s"%%string)' % (i, ln, what) for (i, ln, what) in osites))
    write_if_changed(GEN + '/Effects.v', ''.join(out))


if __name__ == '__main__':
    try:
        main()
    except GenError as e:
        sys.stderr.write('GEN-FAIL effects: %s\n' % e)
        sys.exit(2)
