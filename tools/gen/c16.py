"""Generate the per-map obligations of C16: Gen/C16/T_<map>.v (one vm_compute theorem per map file the
index names, plus the two control maps) and Gen/C16/Index.v (the list of checked maps with the offenders
each is expected to have — [] unless known_findings.json records a finding for that map — and the index
checks).  Regenerated on every run from /repo/pyx12/map and /verif/known_findings.json."""
import json
import os
import sys
import xml.etree.ElementTree as et

from common import GenError, write_if_changed, HEADER, GEN, REPO, VERIF
from maps import modname, MAPDIR


def coq_s(v):
    if all(32 <= ord(c) < 127 and c != '"' for c in v):
        return '(s "%s")' % v
    return '(lc [%s])' % ';'.join(str(ord(c)) for c in v)


def main():
    idx = et.parse(os.path.join(MAPDIR, 'maps.xml')).getroot()
    named = []
    for v in idx.iter('version'):
        for m in v.findall('map'):
            if m.text and m.text not in named:
                named.append(m.text)
    checked = sorted(set(named) | {'x12.control.00401.xml', 'x12.control.00501.xml'})
    present = set(os.listdir(MAPDIR))
    with open(os.path.join(VERIF, 'known_findings.json')) as f:
        kf = json.load(f)['entries']
    expect = {}
    for e in kf:
        if e.get('property') == 'C16' and e.get('kind') == 'finding':
            for fn, offs in (e.get('coq_expect') or {}).items():
                expect.setdefault(fn, []).extend(offs)
    os.makedirs(os.path.join(GEN, 'C16'), exist_ok=True)
    wanted = set()
    rows = []
    for fn in checked:
        if fn not in present:
            # an index entry naming a file that does not exist: recorded as an offender of the index theorem
            continue
        mn = modname(fn)
        order = ['load', 'ref', 'shape-seg', 'shape-loop', 'shape', 'siblings', 'addr', 'paths']
        exp = sorted(expect.get(fn, []), key=lambda x: min([i for i, p in enumerate(order) if x.startswith(p)] or [99]))
        body = [HEADER % ('pyx12/map/%s, known_findings.json' % fn, 'tools/gen/c16.py')]
        body.append('From Coq Require Import String.\nFrom PX.Lib Require Import Base Xml.\n'
                    'From PX.Gen Require Import MapRegexes.\nFrom PX.Gen.Maps Require M_dataele M_codes %s.\n'
                    'From PX.Spec Require Import C16_spec.\n\n' % mn)
        body.append('Definition expected : list str := [%s].\n\n' % '; '.join(coq_s(x) for x in exp))
        body.append('Lemma ok : map_offenders map_regexes M_dataele.tree M_codes.tree %s.tree = expected.\n'
                    'Proof. vm_compute. reflexivity. Qed.\n' % mn)
        name = 'T_' + mn[2:] + '.v'
        wanted.add(name)
        write_if_changed(os.path.join(GEN, 'C16', name), ''.join(body))
        rows.append((fn, mn, 'T_' + mn[2:]))
    out = [HEADER % ('pyx12/map/maps.xml, directory listing, known_findings.json', 'tools/gen/c16.py')]
    out.append('From Coq Require Import String.\nFrom PX.Lib Require Import Base Xml.\n'
               'From PX.Gen Require Import MapRegexes MapFiles.\nFrom PX.Gen.Maps Require M_dataele M_codes M_maps.\n')
    for fn, mn, tn in rows:
        out.append('From PX.Gen.Maps Require %s.\nFrom PX.Gen.C16 Require %s.\n' % (mn, tn))
    out.append('From PX.Model Require Import MapLoad.\nFrom PX.Spec Require Import C16_spec.\n\n')
    out.append('(* every map file the index names (and the two control maps): name, tree, expected offenders *)\n')
    out.append('Definition checked : list (str * xml * list str) :=\n  [%s].\n\n' % ';\n   '.join(
        '(s "%s", %s.tree, %s.expected)' % (fn, mn, tn) for fn, mn, tn in rows))
    out.append('Lemma checked_ok : Forall (fun c => map_offenders map_regexes M_dataele.tree M_codes.tree (snd (fst c)) = snd c) checked.\n'
               'Proof.\n  unfold checked. repeat (apply Forall_cons; [cbn [fst snd]|]).\n')
    for fn, mn, tn in rows:
        out.append('  - exact %s.ok.\n' % tn)
    out.append('  - apply Forall_nil.\nQed.\n\n')
    out.append('Definition the_index : list map_entry := load_index M_maps.tree.\n\n')
    missing = []
    for e in kf:
        if e.get('property') == 'C16' and e.get('kind') == 'finding':
            missing.extend(e.get('coq_expect_missing') or [])
    out.append('(* files the index names that are recorded as missing (known_findings.json) *)\n')
    out.append('Definition expected_missing : list str := [%s].\n\n' % '; '.join(coq_s(x) for x in missing))
    out.append('Lemma index_ok : index_unambiguous the_index = true /\\ index_missing_files the_index map_file_names = expected_missing /\\\n'
               '  forallb (fun a => match mi_file a with Some f => mem_str f (map (fun c => fst (fst c)) checked) || mem_str f expected_missing | None => false end) the_index = true.\n'
               'Proof. vm_compute. auto. Qed.\n')
    write_if_changed(os.path.join(GEN, 'C16', 'Index.v'), ''.join(out))
    for f in os.listdir(os.path.join(GEN, 'C16')):
        if f.endswith('.v') and f not in wanted and f != 'Index.v':
            os.remove(os.path.join(GEN, 'C16', f))


if __name__ == '__main__':
    try:
        main()
    except GenError as e:
        sys.stderr.write('GEN-FAIL c16: %s\n' % e)
        sys.exit(2)
