"""Translate literal tables of the modelled code into Gen/Tables.v (fail-closed)."""
import ast
import sys

from common import GenError, coq_str, coq_str_list, write_if_changed, HEADER, GEN, REPO


def parse(relpath):
    with open(REPO + '/' + relpath) as f:
        src = f.read()
    import warnings
    with warnings.catch_warnings():
        warnings.simplefilter('ignore')
        return ast.parse(src, relpath)


def find_func(tree, name, cls=None):
    body = tree.body
    if cls is not None:
        for n in body:
            if isinstance(n, ast.ClassDef) and n.name == cls:
                body = n.body
                break
        else:
            raise GenError('class %s not found' % cls)
    for n in body:
        if isinstance(n, ast.FunctionDef) and n.name == name:
            return n
    raise GenError('function %s not found' % name)


def const_int(n):
    if isinstance(n, ast.Constant) and isinstance(n.value, int):
        return n.value
    raise GenError('expected int literal at line %d' % n.lineno)


def const_str(n):
    if isinstance(n, ast.Constant) and isinstance(n.value, str):
        return n.value
    raise GenError('expected str literal at line %d' % n.lineno)


def chr_dict(func, varname):
    """{chr(0x07): 'BEL', ...} assigned to varname inside func -> [(7,'BEL'),...]"""
    for n in ast.walk(func):
        if isinstance(n, ast.Assign) and len(n.targets) == 1 and \
                isinstance(n.targets[0], ast.Name) and n.targets[0].id == varname:
            d = n.value
            if not isinstance(d, ast.Dict):
                raise GenError('%s is not a dict literal' % varname)
            out = []
            for k, v in zip(d.keys, d.values):
                if not (isinstance(k, ast.Call) and isinstance(k.func, ast.Name) and k.func.id == 'chr'
                        and len(k.args) == 1):
                    raise GenError('%s: key is not chr(<int>)' % varname)
                out.append((const_int(k.args[0]), const_str(v)))
            return out
    raise GenError('%s not found' % varname)


def ctl_table(name, tbl):
    return 'Definition %s : list (nat * str) :=\n  [%s].\n\n' % (
        name, ';\n   '.join('(%d, %s)' % (k, coq_str(v)) for k, v in tbl))


def main():
    out = [HEADER % ('pyx12/validation.py (and later: error_997/999/html, xmlwriter)', 'tools/gen/tables.py')]
    out.append('From PX.Lib Require Import Base.\n\n')
    v = parse('pyx12/validation.py')
    f = find_func(v, 'contains_control_character')
    out.append(ctl_table('control_base', chr_dict(f, 'control_base')))
    out.append(ctl_table('extended_base', chr_dict(f, 'extended_base')))
    # the loops over the two tables must be in this order and return on first hit
    loops = [n for n in f.body if isinstance(n, ast.For)]
    names = []
    for lp in loops:
        it = lp.iter
        if not (isinstance(it, ast.Call) and isinstance(it.func, ast.Attribute) and it.func.attr == 'items'
                and isinstance(it.func.value, ast.Name)):
            raise GenError('contains_control_character: unexpected loop shape')
        names.append(it.func.value.id)
    if names != ['control_base', 'extended_base']:
        raise GenError('contains_control_character: table order changed: %r' % names)
    import tables_more
    tables_more.emit(out)
    write_if_changed(GEN + '/Tables.v', ''.join(out))


if __name__ == '__main__':
    try:
        main()
    except GenError as e:
        sys.stderr.write('GEN-FAIL tables: %s\n' % e)
        sys.exit(2)
