#!/bin/bash
# tools/pw.sh <name> : make a private proof workspace /tmp/pw_<name>/coq (copy of /verif/coq with compiled files)
# with ./cq FILE (compile one file) and ./goal FILE LINE (proof state before LINE).  Skeletons with Admitted live
# ONLY there; nothing with Admitted is ever copied back under /verif/coq.
set -e
w=/tmp/pw_$1
rm -rf $w; mkdir -p $w
rsync -a /verif/coq/ $w/coq/
cat > $w/coq/cq <<EOT
#!/bin/bash
cd $w/coq && exec timeout \${T:-600} coqc -Q Lib PX.Lib -Q Gen PX.Gen -Q Model PX.Model -Q Spec PX.Spec -Q Proofs PX.Proofs -Q Props PX.Props "\$@"
EOT
cat > $w/coq/goal <<EOT
#!/bin/bash
f=\$1; n=\$2
tmp=$w/goal_\$\$.v
head -n \$((n-1)) \$f > \$tmp
echo "Show. Abort All." >> \$tmp
cd $w/coq && timeout 300 coqc -Q Lib PX.Lib -Q Gen PX.Gen -Q Model PX.Model -Q Spec PX.Spec -Q Proofs PX.Proofs -Q Props PX.Props \$tmp 2>&1 | tail -\${3:-40}
rm -f $w/goal_\$\$.* $w/.goal_\$\$.aux
EOT
chmod +x $w/coq/cq $w/coq/goal
echo $w/coq
