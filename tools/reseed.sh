#!/bin/bash
# tools/reseed.sh [name ...] : regression over the stored seeded changes (all of seeded/* by default): apply
# seeded/<name>/patch.diff to a scratch worktree of /repo's HEAD, run the property's quick check against it
# (PYX12_REPO), record the outcome in seeded/<name>/meta.json under "recheck", remove the worktree.
# The evidence files of the unchanged tree are saved and restored.
set -u
cd /verif
names="$@"; [ -z "$names" ] && names=$(ls seeded)
for name in $names; do
  dst=/verif/seeded/$name
  prop=$(python3 -c "import json;print(json.load(open('$dst/meta.json')).get('property','')[:3])")
  [ -z "$prop" ] && prop=${name:0:3}
  hw=/tmp/wt_reseed_$$
  git -C /repo worktree add -q --detach $hw HEAD || exit 2
  if ! git -C $hw apply $dst/patch.diff 2>/dev/null; then
    echo "$name $prop PATCH-DOES-NOT-APPLY"; git -C /repo worktree remove --force $hw; continue
  fi
  cp evidence/$prop.json /tmp/evidence_keep_$$.json 2>/dev/null
  out=$(PYX12_REPO=$hw ./check $prop --tier quick 2>&1 | grep "^VIOLATION\|^RESULT" | head -6)
  cp /tmp/evidence_keep_$$.json evidence/$prop.json 2>/dev/null; rm -f /tmp/evidence_keep_$$.json
  git -C /repo worktree remove --force $hw
  verdict=missed; echo "$out" | grep -q "^VIOLATION" && verdict=caught
  echo "$out" | grep "^VIOLATION" | grep -qv "no-failing-input-found" && verdict=caught-with-input
  echo "$name $prop $verdict"
  python3 - "$dst" "$verdict" <<PY
import json,sys
dst,verdict=sys.argv[1:3]
out='''$out'''
m=json.load(open(dst+'/meta.json'))
m['recheck']={'verdict':verdict,'check_output':out.splitlines(),'how':'tools/reseed.sh: patch applied to a scratch worktree of /repo HEAD, quick tier'}
m['detected']= verdict!='missed'
json.dump(m,open(dst+'/meta.json','w'),indent=1)
PY
done
