#!/usr/bin/env python3
"""tools/mutprompt.py <property> <name> : the prompt given to a fresh sub-agent that seeds a property-breaking change
(property text from properties.jsonl + one-line summaries of the changes already stored for that property; nothing else
from /verif).  Written to /tmp/mut_prompt_<name>.txt."""
import glob, json, sys
prop, name = sys.argv[1:3]
P = next(json.loads(l) for l in open('/verif/properties.jsonl') if json.loads(l)['id'] == prop)
prev = []
for m in sorted(glob.glob('/verif/seeded/%s*/meta.json' % prop)):
    try:
        prev.append(json.load(open(m))['summary'])
    except Exception:
        pass
wt = '/tmp/wt_' + name
t = f"""You are a software engineer doing mutation-style robustness research on the open-source Python library pyx12 (an ANSI X12 EDI parser/validator). You have your own scratch git worktree of the repository at {wt} (work ONLY there; never touch /repo or /verif, and read nothing under /verif). Python to use: /venv/bin/python (run tests with `cd {wt} && /venv/bin/python -m pytest -q -p no:cacheprovider`; the 454 existing tests currently pass; run with PYTHONPATH={wt} for your own scripts so that the worktree's code is imported, e.g. `cd {wt} && PYTHONPATH={wt} /venv/bin/python demo.py`).

Here is a semantic property the library is supposed to satisfy:

Property {prop}: {P['title']}

Statement: {P['statement']}

Quantifier: {P['quantifier']['text']}

Anchors (files): {', '.join(P['anchors']['files'])}
"""
if prev:
    t += "\nNote: the following changes were already studied; pick a DIFFERENT mechanism (preferably a different function or file):\n" + ''.join(' - %s\n' % s for s in prev)
t += f"""
Your job: produce ONE small, realistic change to the library's source (the kind of plausible slip or "optimisation" a maintainer could commit: an off-by-one, a dropped special case, a reordered check, a cached value that goes stale, a comparison that is subtly wrong, a condition that holds for ordinary inputs only) that BREAKS this property, while (a) the code still imports/compiles, (b) the whole existing test suite still passes unedited (all 454 tests), and (c) ordinary, everyday use does NOT expose the breakage at once: it must need something specific to manifest — a particular input shape, a boundary size, a multi-step sequence of operations, an unusual but legal delimiter, a specific combination of options, or two code sites that each look fine alone. Avoid changes that make almost every input fail. Do not touch the tests. Keep the diff small (a few lines, in the anchored source files if possible).

Deliver, in the directory {wt}/_seeded/ (create it):
 1. patch.diff — `git diff` of your change against HEAD (source files only, not the _seeded directory);
 2. demo.py — a small self-contained program (run as `cd {wt} && PYTHONPATH={wt} /venv/bin/python _seeded/demo.py`) that exits 0 and prints PASS when the property holds on its specific scenario, and exits 1 and prints FAIL (with a short explanation) when it does not; it must FAIL with your change applied and PASS on the unmodified code (verify both: use `git stash` / `git stash pop` or `git apply -R`);
 3. meta.json — {{"property": "{prop}", "summary": "<one sentence: what the change does>", "needs": "<what specific input/sequence/configuration is needed for it to manifest>", "files": ["<changed files>"], "tests_pass": true, "demo_fails_with_patch": true, "demo_passes_without_patch": true}}.
If, while looking, you find that the UNMODIFIED code already violates the property on some input, say so in your final message with the input (that is valuable), but still deliver a change as described.
Leave the worktree with your change APPLIED (uncommitted) at the end. In your final message give the diff, what it needs to manifest, and the exact commands you ran to confirm tests pass and the demo fails/passes.
"""
open('/tmp/mut_prompt_%s.txt' % name, 'w').write(t)
print(len(t))
