"""Correspondence of the x12context model (units ctxiter / ctxapi) with the implementation, reported through a Report."""
import core
import ctx_check
import ctx_gen
import ctx_impl
import walk_gen


def iters(report, ctx, rng, n, thorough=False):
    names = walk_gen.DOC_MAPS if thorough else walk_gen.QUICK_MAPS
    cases = []
    for i in range(n):
        dkind, what, text = ctx_gen.gen_document(rng, names)
        lkind, lid = ctx_gen.pick_loop_id(rng, text)
        cases.append((dkind, what, text, lkind, lid))
    impl, loaded = [], []
    for (dkind, what, text, lkind, lid) in cases:
        out, ld = ctx_impl.impl_iter(text, lid, 'B', '', None)
        impl.append(out)
        loaded.append(ld)
        report.case(('iter', text, lid))
        report.count('iter-doc:' + dkind)
        report.count('iter-loop-id:' + lkind)
        report.count('iter-end:' + (out.split('\n')[-2] if out.count('\n') else out)[:20])
    if ctx['driver_ok']:
        mr = core.ModelRunner()
        reqs, owners = ctx_check.group_requests(cases, loaded,
                                                lambda nm, part: ctx_impl.iter_request('B', '', nm, [(cases[k][4], cases[k][2]) for k in part]), 10)
        for part, outs in zip(owners, ctx_check.run_model(mr, reqs, None)):
            for k, o in zip(part, outs):
                if not report.corr_case('ctxiter', {'what': cases[k][1], 'loop_id': cases[k][4], 'text': cases[k][2][:3000]}, o, impl[k]):
                    # kept in full: the property's oracle is applied to the inputs on which model and implementation part
                    report.__dict__.setdefault('disagreeing_inputs', []).append((cases[k][1], cases[k][2], cases[k][4]))
    return cases


def apis(report, ctx, rng, n, thorough=False):
    names = walk_gen.DOC_MAPS if thorough else walk_gen.QUICK_MAPS
    acases = [('crafted', what, text, 'crafted', lid, index, ops) for (what, text, lid, index, ops) in ctx_gen.crafted_cases()]
    while len(acases) < n:
        dkind, what, text = ctx_gen.gen_document(rng, names)
        for _ in range(rng.choice([1, 2])):
            trees, ys, lid, lkind = [], [], None, 'none'
            for _try in range(6):
                lkind, lid = ctx_gen.pick_loop_id(rng, text)
                ys = ctx_check.yields_of(text, lid)
                trees = [i for i, k in enumerate(ys) if k == 'L']
                if trees:
                    break
            if trees and rng.random() < 0.9:
                index = rng.choice(trees)
            elif ys:
                index = rng.randrange(len(ys))
            else:
                index = 0
            ops = ctx_gen.gen_script(rng, text, lid, index)
            acases.append((dkind, what, text, lkind, lid, index, ops))
    acases = acases[:n]
    impl, loaded = [], []
    for (dkind, what, text, lkind, lid, index, ops) in acases:
        out, ld = ctx_impl.impl_api(text, lid, index, ops, 'B', '', None)
        impl.append(out)
        loaded.append(ld)
        report.case(('api', text, lid, index, repr(ops)))
        report.count('api-doc:' + dkind)
        report.count('api-ops', len(ops))
        for op in ops:
            report.count('api-op:' + str(op[0]))
    if ctx['driver_ok']:
        mr = core.ModelRunner()
        reqs, owners = ctx_check.group_requests(acases, loaded,
                                                lambda nm, part: ctx_impl.api_request('B', '', nm, [(acases[k][2], acases[k][4], acases[k][5], acases[k][6]) for k in part]), 8)
        for part, outs in zip(owners, ctx_check.run_model(mr, reqs, None)):
            for k, o in zip(part, outs):
                report.corr_case('ctxapi', {'what': acases[k][1], 'loop_id': acases[k][4], 'index': acases[k][5],
                                            'ops': [repr(x) for x in acases[k][6]][:60], 'text': acases[k][2][:3000]}, o, impl[k])
    return acases
