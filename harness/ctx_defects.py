"""Reproductions on the real library of the apparent defects found while modelling pyx12/x12context.py
(see the report of the x12context model); run: PYTHONPATH=/repo /venv/bin/python -W ignore harness/ctx_defects.py"""
import io, sys, logging, warnings
warnings.filterwarnings('ignore')
sys.path.insert(0,'/repo')
import pyx12.x12context, pyx12.params, pyx12.error_handler, pyx12.segment
logging.disable(logging.CRITICAL)
ISA5 = 'ISA*00*          *00*          *ZZ*A              *ZZ*B              *150305*1832*^*00501*000000001*0*P*:~'
ISA4 = 'ISA*00*          *00*          *ZZ*A              *ZZ*B              *150305*1832*U*00401*000000001*0*P*:~'
D834 = ISA5 + 'GS*BE*A*B*20150305*1832*1*X*005010X220A1~ST*834*0001*005010X220A1~BGN*00*1*20150305*1812****4~N1*P5*P*FI*9~N1*IN*K*FI*9~' \
     'INS*Y*18*030*XN*A*C**FT~REF*0F*1~NM1*IL*1*DOE*JOHN~HD*030**VIS~SE*9*0001~GE*1*1~IEA*1*000000001~'
def rd(text): 
    return pyx12.x12context.X12ContextReader(pyx12.params.params(), pyx12.error_handler.errh_null(), io.StringIO(text))
def show(title, f):
    print('==', title)
    try:
        r = f()
        print('   ->', r)
    except Exception as e:
        print('   -> raises %s: %s' % (type(e).__name__, str(e)[:150]))
def ids(text, loop):
    out=[]
    for n in rd(text).iter_segments(loop):
        if n.type=='seg': out.append(n.seg_data.get_seg_id())
        else: out.append('<%s:%s>' % (n.id, ' '.join(s['segment'].get_seg_id() for s in n.iterate_segments())))
    return ' '.join(out)
def tree(text, loop, k=0):
    t=[n for n in rd(text).iter_segments(loop) if n.type=='loop']
    return t[k]
show('D1 last tree is never yielded when the document ends inside it: ISA_LOOP', lambda: ids(D834,'ISA_LOOP'))
show('D1b truncated document, loop 2000', lambda: ids(D834[:D834.index('SE*')],'2000'))
show('D2 loop id whose first child is a loop (DETAIL)', lambda: ids(D834,'DETAIL'))
def d3():
    ns=list(rd(D834).iter_segments('2000'))
    n=ns[5]
    return (n.id, 'parent=', n.parent, 'start_loops=', [x.id for x in n.start_loops], 'end_loops=', n.end_loops)
show('D3 plain segment node: parent is the list of pushed loops, start_loops holds the popped loops', d3)
D278 = ISA4 + 'GS*HI*A*B*20040229*1230*1*X*004010X094A1~ST*278*0001~BHT*0078*13*X*20040229*1230~SE*3*0001~GE*1*1~IEA*1*000000001~'
show('D4 278 request/response selection by BHT02', lambda: ids(D278, None))
DCTL = ISA4 + 'GS**A*B*20040229*1230*1*X*~ST*835*0001~SE*2*0001~GE*1*1~IEA*1*000000001~'
show('D5 GS01/GS08 blank selects the control map again', lambda: ids(DCTL, None))
DUNK = D834.replace('REF*0F*1~', 'ZZZ*1~')
show('D6 unknown segment right after the first segment of the requested loop', lambda: ids(DUNK,'2000'))
show('D6b same, no loop id: the unknown segment is reported with the map node of its predecessor', lambda: [(n.seg_data.get_seg_id(), n.x12_map_node.get_path()) for n in rd(DUNK).iter_segments()][6:9])
D2ISA = D834 + D834.replace('000000001','000000002')
def d7():
    t=tree(D2ISA,'ISA_LOOP')
    return [ (c.id, c.x12_map_node.get_path()) for c in t.children]
show('D7 ISA_LOOP tree: GS and ST_LOOP hang directly under ISA_LOOP (no GS_LOOP level)', d7)
# API
D837 = ISA4 + 'GS*HC*A*B*20041105*1526*1*X*004010X098A1~ST*837*0001~BHT*0019*00*1*20041105*1526*RP~NM1*41*2*S*****46*9~PER*IC*S*TE*8005553333~NM1*40*2*R*****46*8~' \
   'HL*1**20*1~NM1*85*2*S*****24*999999999~N3*1 ELM~N4*K*MI*49001~HL*2*1*22*0~SBR*P*18*******MC~NM1*IL*1*F*R****MI*1~N3*1 ELM~N4*K*MI*49001~DMG*D8*19051104*M~NM1*PR*2*P*****PI*8~' \
   'CLM*1*21***12::1*Y*A*Y*A*B~CN1*05~HI*BK:317~LX*1~SV1*HC:H2015*21*UN*12***1~DTP*472*D8*20040407~LX*2~SV1*HC:H2015*21*UN*12***1~DTP*472*D8*20040414~SE*26*0001~GE*1*1~IEA*1*000000001~'
def a1():
    t=tree(D837,'2300'); c=t.copy(); c.first('2400').set_value('../CLM01','CHANGED')
    return ('original CLM01 =', t.get_value('CLM01'), 'copy CLM01 =', c.get_value('CLM01'), 'child-of-copy.parent is original:', c.first('2400').parent is t)
show('A1 editing through a child of a copy changes the original', a1)
def a2():
    t=tree(D837,'2300'); t.delete_node('CN1'); return t.copy()
show('A2 copy() after delete_node of a segment', a2)
def a2b():
    t=tree(D837,'2300'); t.delete_node('2400'); c=t.copy(); return c.count('2400')
show('A2b copy() after delete_node of a loop: the copy holds a live loop without map node', a2b)
def a3():
    t=tree(D837,'2300'); s=t.first('CN1'); return s.get_value('../CLM01')
show('A3 ../ path on a segment node', a3)
def a4():
    t=tree(D837,'2300'); s=t.first('CN1'); return (s.exists('../CLM'), s.count('../CLM'), s.first('../CLM'), list(s.select('../CLM')))
show('A4 exists/count vs first/select on a segment node', a4)
def a5():
    t=tree(D837,'2300'); return (t.get_value('2400/../CLM01'), t.exists('2400/../CLM'), t.count('2400/../CLM'))
show('A5 get_value follows A/../B, exists/count/select do not', a5)
def a6():
    t=tree(D837,'ST_LOOP')
    try: t.add_loop('HL*9**20*1')
    except Exception as e: r=type(e).__name__
    return (r, 'DETAIL loops now:', t.count('DETAIL'), 'children of the new one:', len(t.children[3].children))
show('A6 add_loop on a loop whose matching child loop starts with a loop', a6)
def a8():
    t=tree(D837,'2300'); t.delete_node('HI'); return (len(t.children), [c.type for c in t.children])
show('A8 delete_node leaves the tombstone in children until the next add', a8)
def a9():
    t=tree(D837,'2300'); return (t.get_value('CLM[ZZ]02'), t.exists('CLM[ZZ]'), t.get_value('2400/DTP[999]03'))
show('A9 qualifier ignored for segments whose first element is not a required coded ID', a9)
def a10():
    t=tree(D837,'2300'); t.set_value('CLM02','a*b'); c=t.copy(); return (t.get_value('CLM02'), c.get_value('CLM02'), c.get_value('CLM03'))
show('A10 a value containing a separator survives set/get but not copy', a10)
