"""C08 — X12 -> XML -> X12 is the identity on structurally valid documents."""
import io
import logging
import os
import random
import tempfile
import xml.etree.ElementTree as et

import core
import out_impl
import pipecorr

META = {
    'theorem_files': ['Props/C08.v'],
    'theorems': ['C08_escape_content_invertible', 'C08_escape_attribute_invertible', 'C08_text_is_serialised_events', 'C08_text_needs_fit', 'C08_events_balanced', 'C08_segments_nested_by_map_path', 'C08_repeated_loop_opens_fresh_element', 'C08_segment_tree_roundtrip', 'C08_roundtrip_needs_wellformed_ids', 'C08_shipped_maps_prefix_safe', 'C08_prefix_safe_in_map', 'C08_xml_read_inverts_serialiser', 'C08_document_read_back'],
    'generators': ['c08.py'],
    'trusted_base': [
        'Coq 8.16.1 kernel; vm_compute for the per-map prefix-safety facts (regenerated from /repo/pyx12/map on every run) and '
        'character sweeps; no native_compute',
        'Model/XmlOut.v, XmlIn.v, Writer.v, Pipeline.v: hand transcription of xmlwriter.py, x12xml_simple.py, xmlx12_simple.py — '
        'tied by this run (whole documents with the XML sink: model text vs implementation text; XML trees converted back: model '
        'vs implementation)',
        'Spec/C08_spec.v: the event description, serialiser and segment tree are my reading of the property',
        'NOT proved: that an XML parser reads the serialised events back as the corresponding tree (expat / ElementTree is '
        'trusted; the run parses every XML text the implementation wrote)',
        'tools/gen/maps.py + c08.py; extraction (ExtrOcamlBasic only) + ocaml/driver.ml',
    ],
    'assumptions': ['theorems: no composite carries more components than its node defines; segment ids have the X12 form; data free of '
                    'the target delimiters ~ * :',
                    'control characters and CR in data are outside (not representable in XML 1.0)'],
}


def located_run(text):
    """run the validator with the XML sink and a callback: -> (xml text, [(seg id, parent loop path, located?)], exception)"""
    import pyx12.params
    import pyx12.x12n_document
    rows = []

    def cb(seg, src, node, valid):
        try:
            p = node.parent.get_path() if node is not None else None
        except Exception:  # noqa
            p = None
        fits, blank = True, []
        loose_only = None
        hard_unfit = False
        if node is not None and node.id == seg.get_seg_id():
            for i in range(len(seg)):
                ch = node.get_child_node_by_idx(i)
                if ch is None:
                    fits = False
                    hard_unfit = True
                    break
                if ch.usage == 'N':
                    blank.append(i)
                comp = seg.get('%02i' % (i + 1))
                if ch.is_composite() and comp is not None and len(comp) > len(ch.children):
                    fits = False
                    hard_unfit = True
                if (not ch.is_composite()) and comp is not None and len(comp) > 1:
                    fits = False
                    loose_only = True if loose_only is None else loose_only      # only: a simple element whose value holds the separator
        env_errs = [e for e in src.err_list if e[0] in ('isa', 'gs', 'st')]
        rows.append((seg.get_seg_id(), p, seg.format(), node.id if node is not None else None, fits, blank, bool(env_errs), hard_unfit))
    fd = io.StringIO()
    exn = None
    try:
        pyx12.x12n_document.x12n_document(pyx12.params.params(), io.StringIO(text), None, None, fd, callback=cb)
    except Exception as e:  # noqa
        exn = type(e).__name__
    return fd.getvalue(), rows, exn


def envelope_errors(text):
    import pyx12.x12file
    errs = []
    try:
        src = pyx12.x12file.X12Reader(io.StringIO(text))
        for _ in src:
            errs += [e for e in src.pop_errors() if e[0] in ('isa', 'gs', 'st')]
        src.cleanup()
        errs += [e for e in src.pop_errors() if e[0] in ('isa', 'gs', 'st')]
    except Exception:  # noqa
        return True
    return bool(errs)


def convert_back(xml_text):
    import pyx12.xmlx12_simple
    fd, path = tempfile.mkstemp(prefix='c08_', suffix='.xml')
    os.close(fd)
    try:
        with open(path, 'w', encoding='utf-8') as f:
            f.write(xml_text)
        out = io.StringIO()
        try:
            pyx12.xmlx12_simple.convert(path, out)
        except Exception as e:  # noqa
            return None, type(e).__name__
        return out.getvalue(), None
    finally:
        os.remove(path)


def norm_seg(formatted, d):
    """a source segment re-expressed with ~ * : (values must not contain them)"""
    t, e, s = d
    body = formatted[:-1] if formatted.endswith(t) else formatted
    return body.replace(e, '\x00').replace(s, '\x01').replace('\x00', '*').replace('\x01', ':') + '~'


def run(ctx, report):
    rng = random.Random(ctx['seed'])
    logging.disable(logging.CRITICAL)
    thorough = ctx['tier'] == 'thorough'
    report.rule = ('generated documents of the shipped maps (valid and mutated, other delimiters, data with & < > \' " and blanks, corpus) '
                   'with the XML sink on: (a) whole-document model vs implementation (XML text included); XML trees converted back, '
                   'model vs implementation; (b) oracle on the implementation for documents in which every segment was located: the '
                   'XML parses (ElementTree), every <seg> sits inside <loop> elements spelling out the path of the node it matched, '
                   'ids are the reference designators, and converting back gives the source segments (delimiters, ISA16, not-used '
                   'and trailing empty elements apart).  Distinct = distinct (text, mask, charset).')
    xml_texts = []

    def oracle(kind, what, mask, text, setting, info):
        if mask[2] != 'X' or info['exn'] or setting[0] != 'E' and False:
            return
        xml_text, rows, exn = located_run(text)
        if exn:
            return
        inp = {'text': text[:3000], 'what': what}
        if not rows:
            return
        if any(ord(c) < 32 and c not in '\n\r\t' for c in ''.join(r[2] for r in rows)):
            # XML 1.0 has no way to carry most control characters: a document whose data (or whose ISA separator fields) hold one
            # is judged on well-formedness only (recorded finding), not skipped
            report.count('xml:control-characters-in-data-or-separators')
            try:
                et.fromstring(xml_text.encode('utf-8'))
            except Exception as e:  # noqa
                report.fail('C08:not-well-formed:control-character', 'the XML does not parse: %s' % str(e)[:100], inp)
            return
        try:
            root = et.fromstring(xml_text.encode('utf-8'))
        except Exception as e:  # noqa
            report.fail('C08:not-well-formed', 'the XML does not parse: %s' % str(e)[:100], inp)
            return
        report.count('xml:parsed')
        # nesting: loop ids above each seg
        segs = []

        def walk(node, path):
            for ch in node:
                if ch.tag == 'loop':
                    walk(ch, path + [ch.get('id')])
                elif ch.tag == 'seg':
                    segs.append((ch.get('id'), path, ch))
        walk(root, [])
        if len(segs) != len(rows):
            report.fail('C08:segment-count', '%d source segments, %d <seg> elements' % (len(rows), len(segs)), inp)
            return
        for (sid, p, formatted, nid, _f, _b, _e, _h), (xid, xpath, el) in zip(rows, segs):
            want = [x for x in (p or '').split('/') if x]
            if nid == sid and xpath != want:
                report.fail('C08:nesting:%s' % sid, '<seg id=%s> is inside loops %r but matched a node at %r' % (xid, xpath, want), inp)
                return
            for ch in el:
                cid = ch.get('id') or ''
                if ch.tag == 'ele' and not (cid.startswith(xid) and cid[len(xid):].isdigit() and len(cid) == len(xid) + 2):
                    report.fail('C08:label:ele', 'element labelled %r in segment %r' % (cid, xid), inp)
                    return
                if ch.tag == 'comp':
                    for sub in ch:
                        sc = sub.get('id') or ''
                        if not (sc.startswith(xid) and '-' in sc):
                            report.fail('C08:label:subele', 'sub-element labelled %r in segment %r' % (sc, xid), inp)
                            return
        report.count('xml:segments', len(segs))
        xml_texts.append(xml_text)
        # values: every <ele> / <subele> written carries, after the parser has undone the escaping, exactly the source value
        import pyx12.segment
        d0 = (text[105], text[3], text[104])
        for (sid, p, formatted, nid, fits, _b, _e, hard_unfit), (xid, xpath, el) in zip(rows, segs):
            if nid != sid or hard_unfit:
                continue           # (a simple element whose value contains the component separator is still data: it is compared)
            try:
                sg = pyx12.segment.Segment(formatted, d0[0], d0[1], d0[2])
            except Exception:  # noqa
                continue
            for ch in el:
                cid = ch.get('id') or ''
                if ch.tag == 'ele':
                    src_v = sg.get_value('%s%s' % (xid, cid[-2:]))
                    if (ch.text or '') != (src_v or ''):
                        report.fail('C08:value:ele' + (':carriage-return' if '\r' in (src_v or '') else ''),
                                    'element %s reads back as %r, source value %r' % (cid, ch.text, src_v), inp)
                        return
                elif ch.tag == 'comp':
                    for sub in ch:
                        sc = sub.get('id') or ''
                        src_v = sg.get_value(sc)
                        if (sub.text or '') != (src_v or ''):
                            report.fail('C08:value:subele' + (':carriage-return' if '\r' in (src_v or '') else ''),
                                        'sub-element %s reads back as %r, source value %r' % (sc, sub.text, src_v), inp)
                            return
            report.count('xml:values-compared', len(el))
        # round trip, for documents in which every segment was located by its own id
        if not all(r[3] == r[0] for r in rows):
            report.count('roundtrip:skipped-unlocated-segments')
            return
        if not all(r[4] for r in rows):
            report.count('roundtrip:skipped-more-elements-than-defined')
            return
        if any(r[6] for r in rows) or not rows or rows[-1][0] != 'IEA' or envelope_errors(text):
            report.count('roundtrip:skipped-inconsistent-envelope')       # the writer regenerates the trailers
            return
        d = (text[105], text[3], text[104])
        data = ''.join(r[2] for r in rows).replace(d[0], '').replace(d[1], '').replace(d[2], '')
        if d != ('~', '*', ':') and any(c in data for c in '~*:'):
            # the converter always writes with ~ * : — data that holds one of them cannot come back as the same elements: judged on
            # the element structure (recorded finding), not skipped
            report.count('roundtrip:data-contains-the-output-delimiters')
            back, exn2 = convert_back(xml_text)
            import pyx12.x12file as _xf
            try:
                got_s = [[sg_.get_seg_id()] + [[c_.get_value() for c_ in el_.elements] for el_ in sg_.elements] for sg_ in _xf.X12Reader(io.StringIO(back))]
            except Exception as ex_:  # noqa
                got_s = 'reader raised %s' % type(ex_).__name__
            want_s = [[sg_.get_seg_id()] + [[c_.get_value() for c_ in el_.elements] for el_ in sg_.elements] for sg_ in _xf.X12Reader(io.StringIO(text))]
            if exn2 or got_s != want_s:
                report.fail('C08:roundtrip:data-contains-the-output-delimiters', 'a document written with %r whose data holds one of ~ * : does not come back '
                            'as the same elements (%s)' % (d, exn2 or ('%s segments back, %d in the source' % (len(got_s) if isinstance(got_s, list) else got_s, len(want_s)))), inp)
            return
        back, exn2 = convert_back(xml_text)
        if exn2:
            report.fail('C08:convert-raises:%s' % exn2, 'converting the XML back raised %s' % exn2, inp)
            return
        report.count('roundtrip:done')
        got = [x + '~' for x in back.replace('\n', '').split('~') if x]
        want = []
        for r in rows:
            w = norm_seg(r[2], d)
            if r[5]:
                parts = w[:-1].split('*')
                for i in r[5]:
                    if i + 1 < len(parts):
                        parts[i + 1] = ''
                while len(parts) > 2 and parts[-1] == '':
                    parts.pop()
                w = '*'.join(parts) + '~'
            want.append(w)
        if len(got) != len(want):
            report.fail('C08:roundtrip:segment-count', '%d segments back, %d in the source' % (len(got), len(want)), inp)
            return
        for g, w in zip(got, want):
            if g == w:
                continue
            if w.startswith('ISA*'):
                gp, wp = g.split('*'), w.split('*')
                if len(gp) == len(wp) == 17 and gp[:11] == wp[:11] and gp[12:16] == wp[12:16]:
                    continue      # ISA11 / ISA16 are separators
            report.fail('C08:roundtrip:%s' % w.split('*')[0], 'segment differs after the round trip: %r vs source %r' % (g[:200], w[:200]), inp,
                        note='not-used elements are dropped by design: check the map usage before reading this as a defect')
            return
    cases = pipecorr.documents(rng, 400 if thorough else 80, thorough)
    # documents in which the same loop id is matched at two different map paths (837: 2300 under 2000B and under 2000B/2000C;
    # 278: 2000E under 2000C and under 2000D): dense conformant documents
    import confgen
    import docgen
    for name in (['837.4010.X098.A1.xml', '837.5010.X222.A1.xml', '837.4010.X096.A1.xml', '278.4010.X094.A1.xml', '278.4010.X094.27.A1.xml'] * (3 if thorough else 1)):
        try:
            segs, d, _sel = confgen.document(rng, name, ('~', '*', ':'), n_st=1, p_seg=0.1, p_loop=0.85, max_segs=150)
        except Exception:  # noqa
            continue
        cases.append(('dense', 'dense map=%s' % name, docgen.encode(segs, d, '')))
        if name.startswith('837.4010.X098'):
            # the same document in other delimiters with one name that holds the converter's fixed output delimiters
            d2 = ('!', '|', '>')
            segs2 = [x.replace('*', '|').replace(':', '>') for x in segs]
            for j_, x in enumerate(segs2):
                if x.startswith('NM1|') and len(x.split('|')) > 3 and x.split('|')[3]:
                    pp_ = x.split('|')
                    pp_[3] = 'A*B:C~D'
                    segs2[j_] = '|'.join(pp_)
                    break
            segs2[0] = docgen.isa(segs[0].split('*')[13], d2, segs[0].split('*')[12])
            cases.append(('dense', 'dense map=%s other delimiters, data with ~ * :' % name, docgen.encode(segs2, d2, '')))
        # the same document with blanks around / instead of composite components and simple values (values are data: they
        # must come back character for character)
        padded = []
        for sg_ in segs:
            parts_ = sg_.split(d[1])
            if parts_[0] not in docgen.ENVELOPE:
                for k_ in range(1, len(parts_)):
                    if d[2] not in parts_[k_] and parts_[k_][:1] == 'X' and len(parts_[k_]) >= 4 and rng.random() < 0.08:
                        # free text that happens to hold the component separator (a time, a URL) in a SIMPLE element
                        parts_[k_] = parts_[k_][:2] + d[2] + parts_[k_][2:]
                        continue
                    if d[2] in parts_[k_] and rng.random() < 0.6:
                        comps_ = parts_[k_].split(d[2])
                        j_ = rng.randrange(len(comps_))
                        if comps_[j_] != '':
                            comps_[j_] = rng.choice([comps_[j_] + ' ', ' ' + comps_[j_], comps_[j_] + '  ']) if j_ > 0 or len(comps_) == 1 else comps_[j_]
                        parts_[k_] = d[2].join(comps_)
            padded.append(d[1].join(parts_))
        cases.append(('dense', 'dense+padded-components map=%s' % name, docgen.encode(padded, d, '')))
    pipecorr.run(report, ctx, rng, cases, 2, oracle, force=lambda m: m[2] == 'X')
    # XML -> X12: model vs implementation on the trees the implementation produced
    if ctx['driver_ok'] and xml_texts:
        sample = xml_texts if thorough else xml_texts[:40]
        reqs, keep = [], []
        for t in sample:
            root = out_impl.parse_tree(t)
            if root is None:
                continue
            ser = out_impl.ser_full(root)
            try:
                ser.encode('latin-1')
            except UnicodeEncodeError:
                continue
            reqs.append(('xmlin', [ser]))
            keep.append(t)
        outs = core.ModelRunner().run(reqs, shards=4)
        for t, mo in zip(keep, outs):
            report.corr_case('xmlin', {'xml': t[:2000]}, mo, out_impl.impl_xmlin(t))
    logging.disable(logging.NOTSET)


def replay(rp):
    f = rp.get('failure') or {}
    print(f.get('what'))
    return 1
