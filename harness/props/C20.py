"""C20 — the normaliser preserves content, is idempotent and repairs counts."""
import contextlib
import io
import logging
import os
import random
import subprocess
import sys
import tempfile

import core
import docgen
import implrun

META = {
    'theorem_files': ['Props/C20.v'],
    'theorems': [],
    'trusted_base': [
        'Coq 8.16.1 kernel; no native_compute',
        'Model/Norm.v over Model/Raw.v, Reader.v, Segment.v: hand transcription of scripts/x12norm.py:main for one file',
        'argparse, glob, tempfile, the file system and the three output sinks are NOT modelled: the model is a pure '
        'function bytes -> text; the sinks are compared with each other and with the model by running main() on real files',
        'extraction (ExtrOcamlBasic only) + ocaml/driver.ml',
    ],
    'assumptions': ['ASCII input files (the encoding the script asks for); one input file per run'],
}


def run_main(argv):
    """run pyx12.scripts.x12norm.main() in-process with argv; returns (stdout text, exception name or None)"""
    import pyx12.scripts.x12norm as mod
    old_argv = sys.argv
    root = logging.getLogger()
    old_handlers = list(root.handlers)
    old_level = root.level
    buf = io.StringIO()
    err = None
    try:
        sys.argv = ['x12norm'] + argv
        with contextlib.redirect_stdout(buf), contextlib.redirect_stderr(io.StringIO()):
            mod.main()
    except SystemExit:
        pass
    except Exception as e:  # noqa
        err = core.exn_name(e)
    finally:
        sys.argv = old_argv
        for h in list(root.handlers):
            if h not in old_handlers:
                root.removeHandler(h)
        root.setLevel(old_level)
    return buf.getvalue(), err


def count_defect_doc(rng, d, icvn):
    """a consistent document whose ONLY defects are wrong IEA/GE/SE counts or HL sequence numbers"""
    segs = docgen.envelope_doc(rng, d, icvn=icvn, n_isa=rng.choice([1, 2]), max_groups=2, max_sets=2, max_body=5,
                               faults=0.0, hl=True, lx=False)
    out = []
    for s in segs:
        parts = s.split(d[1])
        if parts[0] in ('SE', 'GE', 'IEA') and rng.random() < 0.5:
            parts[1] = rng.choice([str(int(parts[1]) + rng.choice([1, 2, 7])), '0', 'x', ''])
        elif parts[0] == 'HL' and rng.random() < 0.4:
            parts[1] = rng.choice(['9', '0', 'x', str(int(parts[1]) + 1)])
        out.append(d[1].join(parts))
    return out


def read_struct(text):
    o = implrun.impl_reader(0, text, [], stream=io.StringIO(text))
    if o.startswith('!'):
        return None, o
    segs, errs = [], []
    for p in o.split('|')[1:]:
        if p.startswith('!'):
            return None, p
        if p.startswith('C'):
            errs.extend(e.split('/')[1] for e in p[1:].split(',') if e)
            continue
        st, _, es = p.rpartition(':')
        segs.append(st)
        errs.extend(e.split('/')[1] for e in es.split(',') if e)
    return segs, errs


def canon(st):
    parts = st.split(';')
    sid, els = parts[0], parts[1:]
    cels = []
    for e in els:
        comps = e.split('.')
        while comps and comps[-1] == '':
            comps.pop()
        cels.append('.'.join(comps))
    while cels and cels[-1] == '':
        cels.pop()
    return ';'.join([sid] + cels)


def run(ctx, report):
    rng = random.Random(ctx['seed'])
    mr = core.ModelRunner()
    n = 400 if ctx['tier'] == 'thorough' else 60
    report.rule = ('documents (consistent, count-defective, generally faulty, with blanks/empty segments/line breaks) over 4 '
                   'delimiter sets x {eol} x {fixcounting} x {stdout, --output, --inplace}, run through '
                   'pyx12.scripts.x12norm.main() on real files; a few also as a subprocess.  Distinct = distinct (text, options).')
    tmp = tempfile.mkdtemp(prefix='c20_')
    try:
        cases = []
        for k in range(n):
            d = rng.choice(docgen.DELIM_SETS[:4] + [docgen.DELIM_SETS[6]])        # incl. CR as the segment terminator
            icvn = rng.choice(['00401', '00501'])
            kind = rng.choice(['clean', 'countdefect', 'countdefect', 'faulty', 'layout'])
            if kind == 'countdefect':
                segs = count_defect_doc(rng, d, icvn)
            else:
                segs = docgen.envelope_doc(rng, d, icvn=icvn, n_isa=rng.choice([1, 1, 2, 3]), max_groups=2, max_sets=2, max_body=5,
                                           faults=0.3 if kind == 'faulty' else 0.0, hl=True, lx=False)
            if kind == 'layout':
                # leading blanks, trailing separators — and values whose LAST element ends in blanks (fixed-width files), also on
                # lines that start with a blank: the value is data and must come back unchanged
                def pad_last(sg_, i_):
                    parts_ = sg_.split(d[1])
                    if i_ > 0 and len(parts_) > 1 and parts_[0] not in docgen.ENVELOPE and parts_[-1] != '' and ' ' not in d and rng.random() < 0.3:
                        parts_[-1] = parts_[-1] + rng.choice([' ', '  '])
                    return d[1].join(parts_)
                segs = [pad_last(s, i) for i, s in enumerate(segs)]
                segs = [(' ' + s if rng.random() < 0.3 and i > 0 else s) + (d[1] if rng.random() < 0.2 and i > 0 and not s.endswith(' ') else '')
                        for i, s in enumerate(segs)]
                segs = [x for s in segs for x in ([s, ''] if rng.random() < 0.1 else [s])]
            conv = rng.choice(['', '\n', '\r\n']) if d[0] not in '\r\n' else ''
            text = docgen.encode(segs, d, conv)
            cases.append((kind, d, text))
        # long wrapped files in which a segment terminator (or the CR of a CR+LF) is the last character of one of the reader's
        # 8 KiB reads, so that the line break after it arrives with the next read
        from props import C12 as _C12
        for (label, bsegs, brk) in _C12.boundary_documents(rng, ctx['tier'] == 'thorough'):
            cases.append(('boundary', ('~', '*', ':'), docgen.encode(bsegs, ('~', '*', ':'), brk)))
        reqs = []
        for (kind, d, text) in cases:
            for eol in (0, 1):
                for fix in (0, 1):
                    reqs.append(('norm', [str(eol), str(fix), text]))
        mo = mr.run(reqs) if ctx['driver_ok'] else [None] * len(reqs)
        mi = 0
        for ci, (kind, d, text) in enumerate(cases):
            src_path = os.path.join(tmp, 'in.x12')
            for eol in (0, 1):
                for fix in (0, 1):
                    opts = (['-e'] if eol else []) + (['-f'] if fix else [])
                    with open(src_path, 'w', encoding='ascii', newline='') as f:
                        f.write(text)
                    out_stdout, e1 = run_main(opts + [src_path])
                    out_path = os.path.join(tmp, 'out.x12')
                    if os.path.exists(out_path):
                        os.remove(out_path)
                    _, e2 = run_main(opts + ['-o', out_path, src_path])
                    out_file = open(out_path, encoding='ascii', newline='').read() if os.path.exists(out_path) else None
                    _, e3 = run_main(opts + ['-i', src_path])
                    out_inplace = open(src_path, encoding='ascii', newline='').read()
                    report.case((text, eol, fix))
                    report.count('kind:' + kind)
                    report.count('opts:eol=%d,fix=%d' % (eol, fix))
                    got = ('!' + e1[1:]) if e1 else out_stdout
                    model = mo[mi]
                    mi += 1
                    if model is not None:
                        m = model if model.startswith('!') else bytes.fromhex(model).decode('latin-1')
                        report.corr_case('norm', {'text': text, 'eol': eol, 'fix': fix}, m, got if not e1 else e1)
                    inp = {'text': text, 'eol': eol, 'fix': fix}
                    if e1 or e2 or e3:
                        if (e1, e2, e3) != ('!X12Error',) * 3:
                            report.fail('C20:raises:%s' % (e1 or e2 or e3), 'x12norm raised on a readable interchange', inp)
                        continue
                    # the three sinks deliver the same text
                    if out_file != out_stdout:
                        report.fail('C20:sink-output-file:%s' % ('empty' if not out_file else 'differs'),
                                    '--output file content differs from stdout', inp, file_len=len(out_file or ''), stdout_len=len(out_stdout))
                    if out_inplace != out_stdout:
                        report.fail('C20:sink-inplace', '--inplace content differs from stdout', inp)
                    s_in, e_in = read_struct(text)
                    s_out, e_out = read_struct(out_stdout)
                    if s_in is None:
                        continue
                    if s_out is None:
                        report.fail('C20:output-unreadable', 'normalised text cannot be read back', inp)
                        continue
                    # one segment per line when asked
                    if eol:
                        lines = out_stdout.split('\n')
                        if lines[-1] != '' or any((not ln.endswith(d[0])) for ln in lines[:-1]) or len(lines) - 1 != len(s_out):
                            if d[0] != '\n':
                                report.fail('C20:eol-layout', 'not one segment per line', inp)
                    if not fix:
                        if [canon(x) for x in s_in] != [canon(x) for x in s_out]:
                            report.fail('C20:content-changed', 'segments/values changed by normalisation', inp)
                        # the same against a normalisation computed directly on the input text (no library code involved)
                        import C01
                        want_text = C01.normalise(text)
                        got_text = out_stdout.replace('\n', '')      # line layout is judged separately (eol-layout)
                        if want_text is not None and d[0] not in '\r\n':
                            report.count('independent-normalisation')
                            if got_text != want_text:
                                k_ = next((j for j in range(min(len(got_text), len(want_text))) if got_text[j] != want_text[j]), min(len(got_text), len(want_text)))
                                report.fail('C20:content-changed:independent', 'output differs from the normalisation computed on the text at offset %d: %r vs %r' % (
                                    k_, got_text[max(0, k_ - 25):k_ + 15], want_text[max(0, k_ - 25):k_ + 15]), inp)
                    else:
                        # only count fields may change
                        ok = len(s_in) == len(s_out)
                        if ok:
                            for a, b in zip(s_in, s_out):
                                pa, pb = canon(a).split(';'), canon(b).split(';')
                                sid = bytes.fromhex(pa[0][1:]).decode() if pa[0].startswith('S') else ''
                                if sid in ('SE', 'GE', 'IEA', 'HL'):
                                    pa, pb = pa[:1] + pa[2:], pb[:1] + pb[2:]
                                if pa != pb:
                                    ok = False
                        if not ok:
                            report.fail('C20:fix-altered-other-values', 'fixcounting changed something other than a count', inp)
                        if kind in ('countdefect', 'clean'):
                            # the repaired counts against a recount that shares no code with the reader x12norm relies on
                            import C11
                            rb = [b for b in C11.independent_recount(out_stdout, d) if b[0] in ('SE01', 'GE01', 'IEA01')]
                            report.count('independent-recount')
                            if rb:
                                report.fail('C20:fix-wrong-count:%s' % rb[0][0], 'after --fixcounting: %s' % '; '.join(b[1] for b in rb[:3]), inp)
                        if kind == 'countdefect':
                            bad = [c for c in e_out if c in ('021', '5', '4', 'HL1')]
                            if bad:
                                report.fail('C20:fix-incomplete:%s' % '+'.join(sorted(set(bad))),
                                            'count defects remain after --fixcounting: %r' % bad, inp)
                    # idempotence
                    with open(src_path, 'w', encoding='ascii', newline='') as f:
                        f.write(out_stdout)
                    again, e4 = run_main(opts + [src_path])
                    if e4 or again != out_stdout:
                        report.fail('C20:not-idempotent', 'normalising the output again changes it', inp)
                    if ci % 17 == 0 and eol and not fix:
                        report.sample({'kind': kind, 'input': text[:300], 'output': out_stdout[:300]})
        # several inputs in one invocation (paths and a glob): each is normalised on its own
        for k in range(12 if ctx['tier'] == 'thorough' else 5):
            picks = [rng.choice(cases) for _ in range(rng.choice([2, 2, 3]))]
            picks.sort(key=lambda c: -len(c[2]))          # a longer file first, a shorter one after it
            if rng.random() < 0.3:
                rng.shuffle(picks)
            eol, fix = rng.choice([0, 1]), rng.choice([0, 1])
            opts = (['-e'] if eol else []) + (['-f'] if fix else [])
            paths, singles, bad = [], [], False
            for j, (kind, d, text) in enumerate(picks):
                pj = os.path.join(tmp, 'multi_%d.x12' % j)
                with open(pj, 'w', encoding='ascii', newline='') as f:
                    f.write(text)
                o, e = run_main(opts + [pj])
                bad = bad or bool(e)
                paths.append(pj)
                singles.append(o)
            if bad:
                continue
            inp = {'texts': [c[2] for c in picks], 'eol': eol, 'fix': fix}
            report.case(('multi', tuple(c[2] for c in picks), eol, fix))
            report.count('kind:multi-file')
            argv_paths = paths if k % 2 == 0 else [os.path.join(tmp, 'multi_*.x12')]
            if k % 2 == 1:
                order = sorted(range(len(paths)), key=lambda j: paths[j])
                import glob as _glob
                order = [paths.index(x) for x in _glob.glob(argv_paths[0])]
            else:
                order = list(range(len(paths)))
            together, e = run_main(opts + argv_paths)
            if e or together != ''.join(singles[j] for j in order):
                report.fail('C20:multi-file-stdout', 'several inputs in one invocation do not give the concatenation of their own normal forms',
                            inp, got_len=len(together or ''), want_len=sum(len(x) for x in singles))
            _, e = run_main(opts + ['-i'] + argv_paths)
            for j, pj in enumerate(paths):
                now = open(pj, encoding='ascii', newline='').read()
                if now != singles[j]:
                    report.fail('C20:multi-file-inplace', 'in-place normalisation of several inputs: file %d is not its own normal form' % j,
                                inp, got_len=len(now), want_len=len(singles[j]))
                    break
            for pj in paths:
                os.remove(pj)
        # a few runs as a real subprocess (argv, file system, exit status)
        for (kind, d, text) in cases[:3]:
            p = os.path.join(tmp, 'sub.x12')
            with open(p, 'w', encoding='ascii', newline='') as f:
                f.write(text)
            env = dict(os.environ)
            r = subprocess.run([core.PY, '-W', 'ignore', '-m', 'pyx12.scripts.x12norm', '-e', p], capture_output=True,
                               timeout=120, env=env, cwd=tmp)
            exp, e = run_main(['-e', p])
            report.count('subprocess')
            report.evaluations += 1
            if not e and r.stdout.decode('ascii', 'replace') != exp:
                report.fail('C20:subprocess-differs', 'subprocess output differs from in-process main()', {'text': text})
    finally:
        for f in os.listdir(tmp):
            os.remove(os.path.join(tmp, f))
        os.rmdir(tmp)


def replay(rp):
    f = rp.get('failure') or {}
    print(f.get('what'))
    return 1
