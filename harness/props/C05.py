"""C05 — verdict, reported errors and acknowledgement always agree."""
import io
import logging
import random

import ackparse
import core
import errh_impl
import pipecorr
import walk_impl

META = {
    'theorem_files': ['Props/C05.v'],
    'theorems': ['C05_997_content', 'C05_999_content', 'C05_997_spec_defaults_unused', 'C05_names_every_group_and_set', 'C05_names_every_group_and_set_999', 'C05_tree_is_visited', 'C05_set_accepted_iff_no_counted_error', 'C05_set_accepted_iff_no_counted_error_999', 'C05_group_totals', 'C05_group_totals_999', 'C05_group_totals_origin', 'C05_verdict_definition', 'C05_error_count_zero_iff_clean', 'C05_error_free_all_accepted', 'C05_st_element_error_not_counted_is_false', 'C05_gs_element_error_acknowledged_A_is_false', 'C05_unclosed_group_totals_is_false'],
    'trusted_base': [
        'Coq 8.16.1 kernel; no native_compute',
        'Model/Pipeline.v, Driver.v, Errh.v, Ack997.v, Ack999.v: hand transcriptions — tied by this run (whole documents with the '
        'acknowledgement sink: model text vs implementation text) and by the errh differential',
        'extraction (ExtrOcamlBasic only) + ocaml/driver.ml',
    ],
    'assumptions': [],
}

CLOCK = ('040229', '1230', '20040229', '123059', 123456789)
AK3_CODES = set('12345678')
AK4_CODES = set(['1', '2', '3', '4', '5', '6', '7', '8', '9', '10'])


def unhex(x):
    if x in ('N', ''):
        return None
    return bytes.fromhex(x[1:]).decode('latin-1') if x.startswith('S') else x


def run_impl(text, charset=None):
    """-> (verdict string, recorded handler calls, ack text)"""
    import pyx12.error_handler
    import pyx12.params
    import pyx12.x12n_document
    trace = []
    real = pyx12.error_handler.err_handler
    pyx12.error_handler.err_handler = walk_impl.make_recorder(trace)
    fd = io.StringIO()
    try:
        with errh_impl.Patched(CLOCK):
            try:
                v = 'V:%s' % pyx12.x12n_document.x12n_document(pyx12.params.params(), io.StringIO(text), fd, None, None)
            except Exception as e:  # noqa
                v = core.exn_name(e)
    finally:
        pyx12.error_handler.err_handler = real
    return v, trace, fd.getvalue()


def seg_fields(struct):
    """the recorder prints a segment as <hexdelims>/S<hexid>;<elements...>; -> (id, [element strings (components joined by :)])"""
    body = struct.split('/', 1)[1] if '/' in struct else struct
    parts = body.split(';')
    def hx(c):
        try:
            return bytes.fromhex(c).decode('latin-1')
        except ValueError:
            return c
    sid = unhex(parts[0]) if parts and parts[0] else None
    els = []
    for p in parts[1:]:
        comps = [hx(c) for c in p.split('.')] if p else ['']
        els.append(':'.join(comps))
    return sid, els


def structure(trace):
    """group the recorded calls: -> groups, total error calls, error calls made while no set was open.
    Per set: 'body' = errors while a body segment is current, 'st' = st_error calls, 'hdr' = element/segment errors on the ST
    line itself, 'trl' = errors after close_st_loop (on the SE line)."""
    groups, total, outside = [], 0, 0
    cur_g = cur_t = None
    cur_rec = None
    phase = None
    outside_segs = [0]
    structure.outside_segs = outside_segs
    for ln in trace:
        p = ln.split(',')
        k = p[0]
        if k == 'G':
            cur_g = {'gs': seg_fields(p[1])[1], 'sets': [], 'errors': 0, 'closed': None, 'phase_errors': {'hdr': 0, 'trl': 0, 'g': 0}}
            groups.append(cur_g)
            cur_t, phase = None, 'gs'
            cur_rec = None
        elif k == 'T' and cur_g is not None:
            cur_t = {'st': seg_fields(p[1])[1], 'closed': False, 'errors': 0, 'body': 0, 'st_err': 0, 'hdr': 0, 'trl': 0, 'seg_errors': [], 'ele_errors': []}
            cur_g['sets'].append(cur_t)
            phase = 'hdr'
            cur_rec = None
        elif k == 'S':
            if cur_t is None:
                outside_segs[0] += 1          # a segment node created while no set is open (before a GS / after an IEA ...)
            if cur_t is not None:
                # one error-tree segment node per add_seg call (also for a segment met after the SE: the handler hangs it on the
                # last set): id, position in the set, its segment and element errors
                cur_rec = {'sid': seg_fields(p[2])[0], 'pos': p[3], 'seg_codes': [], 'eles': []}
                cur_t.setdefault('segs', []).append(cur_rec)
            if phase in ('hdr', 'body'):
                phase = 'body'
        elif k == 'L':
            if cur_rec is not None:
                cur_rec['eles'].append({'pos': p[3], 'composite': p[4] == 'T', 'parent': p[5], 'errors': []})
        elif k == 'Z':
            phase = 'trl'
            cur_rec = None
            if cur_t is not None:
                cur_t['closed'] = True
        elif k == 'Y' and cur_g is not None:
            cur_g['closed'] = seg_fields(p[2])[1]
            cur_t, phase = None, 'ge'
            cur_rec = None
        elif k in ('I', 'X'):
            cur_g = cur_t = None
            cur_rec = None
            phase = None
        elif k in 'igtse':
            total += 1
            if k == 's' and cur_rec is not None:
                cur_rec['seg_codes'].append(p[1])
            elif k == 'e' and cur_rec is not None and cur_rec['eles']:
                cur_rec['eles'][-1]['errors'].append((p[1], unhex(p[3]) if len(p) > 3 else None))
            elif k == 'e' and cur_rec is not None:
                # an element error reported before any element of this segment was entered ("too many elements"): the handler files
                # it under whatever element node was current — of an EARLIER segment
                cur_rec.setdefault('loose', []).append(p[1])
            if k in ('t', 's', 'e') and cur_t is not None:
                cur_t['errors'] += 1
                if k == 't':
                    cur_t['st_err'] += 1
                elif phase == 'body':
                    cur_t['body'] += 1
                    if k == 's':
                        cur_t['seg_errors'].append(p[1])
                    else:
                        cur_t['ele_errors'].append((p[1], unhex(p[3]) if len(p) > 3 else None))
                else:
                    cur_t[phase if phase in ('hdr', 'trl') else 'hdr'] += 1
                    # an element error filed while the ST (or SE) line is current names an element of THAT line
                    if k == 'e' and len(p) > 4 and p[4].startswith('S'):
                        rd = unhex(p[4]) or ''
                        want_sid = 'ST' if phase != 'trl' else 'SE'
                        sid_of = rd.rstrip('0123456789-')
                        if sid_of and sid_of.isalnum() and sid_of != want_sid and sid_of not in ('ISA', 'GS', 'GE', 'IEA', 'ST', 'SE', 'TA1'):
                            cur_t.setdefault('misfiled', []).append((rd, want_sid))
            elif cur_g is not None and k in ('g', 's', 'e', 't'):
                cur_g['errors'] += 1
                if k in ('s', 'e'):
                    cur_g['phase_errors']['hdr' if phase == 'gs' else 'trl'] += 1
                else:
                    cur_g['phase_errors']['g'] += 1
            elif k in ('s', 'e', 't', 'g'):
                outside += 1
    return groups, total, outside


def run(ctx, report):
    rng = random.Random(ctx['seed'])
    logging.disable(logging.CRITICAL)
    thorough = ctx['tier'] == 'thorough'
    report.rule = ('generated documents of the shipped maps (valid, singly and multiply faulty, several sets/groups/interchanges, 4010 and '
                   '5010, corpus): (a) whole-document model vs implementation with the acknowledgement sink; (b) oracle on the '
                   'implementation: the verdict is True exactly when no error call was made on the handler; the acknowledgement is '
                   'addressed back to the sender, names every group and set received in order with their control numbers, marks a set '
                   'accepted exactly when no error was reported inside it, the group totals equal an independent count, and every '
                   'segment / element error with a standard code appears as an AK3/IK3 / AK4/IK4 under its set.  Distinct = distinct text.')
    cases = pipecorr.documents(rng, 400 if thorough else 70, thorough)
    # several groups in one interchange, a later one re-using an earlier group control number (otherwise clean), and the same
    # for set control numbers inside a group
    import docgen
    import walk_gen
    import confgen
    for k in range(20 if thorough else 5):
        name = rng.choice(['835.4010.X091.A1.xml', '834.5010.X220.A1.xml', '270.4010.X092.A1.xml', '837.4010.X098.A1.xml'])
        try:
            segs, d, _sel = confgen.document(rng, name, ('~', '*', ':'), n_gs=rng.choice([2, 3]), n_st=rng.choice([1, 2]), p_seg=0.1, p_loop=0.15, max_segs=25)
        except Exception:  # noqa
            continue
        ids = [docgen.seg_id_of(x, d) for x in segs]
        gs = [i for i, x in enumerate(ids) if x == 'GS']
        if len(gs) >= 2:
            first = segs[gs[0]].split(d[1])[6]
            j = rng.choice(gs[1:])
            old_id = segs[j].split(d[1])[6]
            segs[j] = walk_gen.set_elem(segs[j], d, 6, first)
            ge = [i for i in range(j, len(segs)) if ids[i] == 'GE'][0]
            segs[ge] = walk_gen.set_elem(segs[ge], d, 2, first)
        cases.append(('envmut', 'duplicate group control number map=%s' % name, docgen.encode(segs, d, '')))
    # one segment with BOTH a reader-level segment error that has no acknowledgement code (HL count / parent, LX sequence) and an
    # element error: the element note still needs its segment note
    for k in range(12 if thorough else 4):
        name = rng.choice(['837.4010.X098.A1.xml', '270.4010.X092.A1.xml', '837.5010.X222.A1.xml', '271.4010.X092.A1.xml'])
        try:
            segs, d, _sel = confgen.document(rng, name, ('~', '*', ':'), n_st=1, p_seg=0.2, p_loop=0.5, max_segs=60)
        except Exception:  # noqa
            continue
        hls = [i for i, x in enumerate(segs) if x.startswith('HL' + d[1])]
        if len(hls) >= 2:
            i = rng.choice(hls[1:])
            parts = segs[i].split(d[1])
            parts[1] = str(int(parts[1]) + 1)            # HL01 no longer matches the running count
            parts[-1] = 'X'                              # HL04: not a valid code
            segs = segs[:i] + [d[1].join(parts)] + segs[i + 1:]
            cases.append(('bodymut', 'HL with a wrong count and a bad code map=%s' % name, docgen.encode(segs, d, '')))
    # an element error on the BHT line (the one body segment x12n_document enters by its own branch): the set is rejected and the
    # error itemised like any other
    for k in range(16 if thorough else 5):
        name = rng.choice(['837.4010.X098.A1.xml', '270.4010.X092.A1.xml', '837.5010.X222.A1.xml', '276.4010.X093.A1.xml', '278.4010.X094.A1.xml',
                           '278.4010.X094.27.A1.xml', '834.5010.X220.A1.xml'])
        try:
            segs, d, _sel = confgen.document(rng, name, ('~', '*', ':'), n_st=2, p_seg=0.1, p_loop=0.2, max_segs=30)
        except Exception:  # noqa
            continue
        bhts = [i for i, x in enumerate(segs) if x.startswith('BHT' + d[1])]
        if not bhts:
            continue
        i = rng.choice(bhts)
        parts = segs[i].split(d[1])
        how = rng.choice(['date', 'time', 'long', 'trailing'])
        if how == 'date' and len(parts) > 4:
            parts[4] = '20041305'
        elif how == 'time' and len(parts) > 5:
            parts[5] = '2561'
        elif how == 'long' and len(parts) > 3:
            parts[3] = 'R' * 31
        else:
            parts.append('')
        segs = segs[:i] + [d[1].join(parts)] + segs[i + 1:]
        cases.append(('bodymut', 'BHT with an element fault (%s) map=%s' % (how, name), docgen.encode(segs, d, '')))
    pipecorr.run(report, ctx, rng, cases, 1, None, force=lambda m: m[0] == 'A')
    for (kind, what, text) in cases:
        v, trace, ack = run_impl(text)
        if not v.startswith('V:'):
            continue
        inp = {'what': what, 'text': text[:3000], 'ack': ack[:1500]}
        report.count('oracle:docs')
        groups, total, outside = structure(trace)
        if not any(ln.startswith('I,') for ln in trace):
            report.count('oracle:not-an-interchange')
            continue
        # 0. an element error is filed under the segment it belongs to: none under the ST / SE line that names an element of a body segment
        for g_ in groups:
            for t_ in g_['sets']:
                for (rd, want_sid) in t_.get('misfiled', [])[:1]:
                    report.fail('C05:element-error-filed-under-the-%s-line:%s' % (want_sid, rd.rstrip('0123456789-')),
                                'an error for element %s was filed while the %s line of set %r was the current node: it counts for no body segment and is '
                                'not itemised' % (rd, want_sid, t_['st']), inp)
        # 1. verdict <-> errors
        if (v == 'V:True') != (total == 0):
            why = ''
            if v == 'V:True':
                lost = outside + sum(t['hdr'] + t['trl'] for g in groups for t in g['sets']) + sum(g['phase_errors']['hdr'] + g['phase_errors']['trl'] for g in groups)
                why = ':only-errors-on-envelope-lines-or-outside-sets' if lost == total else ':body-errors'
            report.fail('C05:verdict:%s-with-%s%s' % (v[2:], 'errors' if total else 'no-error', why),
                        'verdict %s but %d error calls were made on the handler' % (v[2:], total), inp)
        if not ack:
            continue
        a = ackparse.Ack(ack)
        if a.problems or a.isa is None or a.gs is None:
            continue                       # C06's subject
        report.count('oracle:acks')
        # 2. addressed back (to the sender of the LAST interchange / group, which is what one envelope can do)
        isas = [seg_fields(ln.split(',')[1])[1] for ln in trace if ln.startswith('I,')]
        if isas:
            src = isas[-1]
            if len(src) >= 8 and (a.isa[6].strip() != src[7].strip() or a.isa[8].strip() != src[5].strip()):
                report.fail('C05:not-addressed-back', 'ISA06/08 of the acknowledgement %r/%r, source ISA06/08 %r/%r' % (a.isa[6], a.isa[8], src[5], src[7]), inp)
        # sets whose ST the validator could not locate are not in the handler's tree at all
        n_st_text = sum(1 for ln in trace if ln.startswith('S,') and False)
        import pyx12.x12file
        try:
            n_st_text = sum(1 for sgm in pyx12.x12file.X12Reader(io.StringIO(text)) if sgm.get_seg_id() == 'ST')
        except Exception:  # noqa
            n_st_text = None
        n_st_tree = sum(len(g['sets']) for g in groups)
        if n_st_text is not None and n_st_text != n_st_tree:
            report.fail('C05:set-not-located', '%d ST segments in the text, %d sets in the error tree: an unlocated set is counted as received '
                        'but neither named nor rejected' % (n_st_text, n_st_tree), inp)
            continue
        # 2b. itemisation: within each set, the AK3/IK3 lines come in groups, one group per segment node that has a reportable
        #     error (a segment error with a standard code, or any element error: then code 8), naming that segment and its position
        #     in the set, each followed by one AK4/IK4 per element error with a standard code; no AK4/IK4 stands outside such a group
        is999 = any(x[0] == 'IK5' for x in a.segs)
        seg_codes_ok = set('12345678') | set(['SEG1']) | (set(['I4', 'I6', 'I7', 'I8', 'I9']) if is999 else set())     # SEG1 (trailing separators) is written as 8
        ele_codes_ok = set(['1', '2', '3', '4', '5', '6', '7', '8', '9', '10']) | (set(['12', '13', 'I10', 'I11', 'I12', 'I13', 'I6', 'I9']) if is999 else set())
        flat_sets = [t for g in groups for t in g['sets']]
        ack_sets = [t for g in a.groups for t in g['sets']]
        if len(flat_sets) == len(ack_sets):
            for t, t_ack in zip(flat_sets, ack_sets):
                want = []
                for sg_ in t.get('segs', []):
                    n4 = sum(1 for e_ in sg_['eles'] for (c_, _v) in e_['errors'] if c_ in ele_codes_ok)
                    has_ele_err = any(e_['errors'] for e_ in sg_['eles']) or bool(sg_.get('loose'))
                    if any(c_ in seg_codes_ok for c_ in sg_['seg_codes']) or has_ele_err:
                        if want and want[-1][:2] == (sg_['sid'], sg_['pos']) and want[-1][2] == 0:
                            want[-1] = (sg_['sid'], sg_['pos'], n4)        # two nodes for one source segment: their AK3 lines are adjacent
                        else:
                            want.append((sg_['sid'], sg_['pos'], n4))
                got, cur_ = [], None
                orphan = False
                for x in t_ack['items']:
                    if x[0] in ('AK3', 'IK3'):
                        key_ = (x[1] if len(x) > 1 else None, x[2] if len(x) > 2 else None)
                        if cur_ is not None and (cur_[0], cur_[1]) == key_ and cur_[2] == 0:
                            continue               # another code of the same segment
                        cur_ = [key_[0], key_[1], 0]
                        got.append(cur_)
                    elif x[0] in ('AK4', 'IK4'):
                        if cur_ is None:
                            orphan = True
                        else:
                            cur_[2] += 1
                report.count('itemisation:sets')
                if orphan:
                    report.fail('C05:itemisation:element-note-without-segment-note', 'an AK4/IK4 stands before any AK3/IK3 of its set: its segment '
                                'and position are lost', inp)
                elif any(sg_.get('loose') for sg_ in t.get('segs', [])):
                    # where the stray element error is printed is not determined by the segment it belongs to: compare the
                    # segments named only
                    report.count('itemisation:sets-with-stray-element-error')
                    report.fail('C05:itemisation:stray-element-error', 'an element error was reported for a segment before any of its elements was '
                                'entered (too many elements): it is itemised under the element node of an EARLIER segment, with that '
                                'element\'s position and reference number', inp)
                    if [x[:2] for x in got] != [list(w[:2]) for w in want] and [tuple(x[:2]) for x in got] != [w[:2] for w in want]:
                        report.fail('C05:itemisation:segments-named:stray-element-error', 'segment notes name %r, errors were reported for %r' % (
                            [tuple(x[:2]) for x in got][:8], [w[:2] for w in want][:8]), inp)
                elif [tuple(x) for x in got] != want and not any(ch in (v_ or '') for sg_ in t.get('segs', []) for e_ in sg_['eles'] for (_c, v_) in e_['errors'] for ch in '~*:'):
                    k_ = next((j for j in range(min(len(got), len(want))) if tuple(got[j]) != want[j]), min(len(got), len(want)))
                    sit_ = ':document-has-segments-outside-every-set' if structure.outside_segs[0] else ''
                    report.fail('C05:itemisation:%s%s' % ('missing' if len(got) < len(want) else ('extra' if len(got) > len(want) else 'differs'), sit_),
                                'segment / element notes of a set: acknowledgement has %r, the errors reported were %r (first difference at %d)' % (
                                    [tuple(x) for x in got][max(0, k_ - 1):k_ + 2], want[max(0, k_ - 1):k_ + 2], k_), inp)
        # 3. every group and set, in order, with control numbers
        names = [((g['ak1'][1:3] if g['ak1'] else None), [t['ak2'][1:3] for t in g['sets']]) for g in a.groups]
        want = [([g['gs'][0] if g['gs'] else None, g['gs'][5] if len(g['gs']) > 5 else None],
                 [[t['st'][0] if t['st'] else None, (t['st'][1] if len(t['st']) > 1 else '').strip()] for t in g['sets']]) for g in groups]
        if [[x[0], x[1]] for x in names] != [[w[0], w[1]] for w in want]:
            report.fail('C05:groups-or-sets-not-named', 'AK1/AK2 name %r, received %r' % (names[:4], want[:4]), inp)
            continue
        # 4. acceptance and totals
        for g_ack, g in zip(a.groups, groups):
            acc = 0
            for t_ack, t in zip(g_ack['sets'], g['sets']):
                code = t_ack['ak5'][1] if t_ack['ak5'] and len(t_ack['ak5']) > 1 else None
                ok = t['errors'] == 0 and t['closed']          # a set that is never closed cannot be accepted
                if (code == 'A') != ok:
                    if code == 'A':
                        why = 'errors-on-ST-SE-lines-only' if t['body'] == 0 and t['st_err'] == 0 else 'body-or-set-errors'
                    else:
                        why = 'no-error'
                    report.fail('C05:set-acceptance:%s:%s' % (code, why),
                                'set %r marked %s but %d errors were reported inside it (%d body, %d set-level, %d on the ST line, %d on the SE line)' % (
                                    t['st'][:2], code, t['errors'], t['body'], t['st_err'], t['hdr'], t['trl']), inp)
                if code == 'A':
                    acc += 1
                # 5. itemised errors
                ak3 = [x for x in t_ack['items'] if x[0] in ('AK3', 'IK3')]
                ak4 = [x for x in t_ack['items'] if x[0] in ('AK4', 'IK4')]
                std_seg = [c for c in t['seg_errors'] if c in AK3_CODES]
                if std_seg and not ak3:
                    report.fail('C05:segment-errors-not-itemised', '%d segment errors with standard codes, no AK3/IK3' % len(std_seg), inp)
                std_ele = [c for c in t['ele_errors'] if c[0] in AK4_CODES]
                if len(ak4) != len(std_ele):
                    report.fail('C05:element-errors-not-itemised:%s' % ('fewer' if len(ak4) < len(std_ele) else 'more'),
                                '%d element errors with standard codes, %d AK4/IK4' % (len(std_ele), len(ak4)), inp)
            ak9 = g_ack['ak9']
            if ak9 and len(ak9) >= 5:
                declared = g['closed'][0] if g['closed'] else None
                if g['closed'] is not None:
                    if (declared or '').strip().isdigit() and ak9[2].isdigit() and int(ak9[2]) != int(declared.strip()):
                        report.fail('C05:ak902-declared', 'AK902 %s, GE01 %r' % (ak9[2], declared), inp)
                    if ak9[3] != str(len(g['sets'])):
                        report.fail('C05:ak903-received', 'AK903 %s, %d sets received' % (ak9[3], len(g['sets'])), inp)
                    if ak9[4] != str(acc):
                        report.fail('C05:ak904-accepted', 'AK904 %s, %d sets accepted' % (ak9[4], acc), inp)
                    all_ok = g['errors'] == 0 and all(t['errors'] == 0 for t in g['sets'])
                    if (ak9[1] == 'A') != all_ok:
                        only_env = all(t['errors'] == 0 for t in g['sets']) and g['phase_errors']['g'] == 0
                        # ... or the only errors inside are on the ST / SE lines of its sets (not counted by the set either)
                        sets_env_only = g['phase_errors']['g'] == 0 and all(t['errors'] == 0 or (t['body'] == 0 and t['st_err'] == 0) for t in g['sets'])
                        why_g = 'errors-on-GS-GE-lines-only' if (ak9[1] == 'A' and only_env) else (
                            'errors-on-ST-SE-lines-of-its-sets-only' if (ak9[1] == 'A' and sets_env_only) else 'other')
                        report.fail('C05:group-acceptance:%s:%s' % (ak9[1], why_g),
                                    'group marked %s, errors inside: %s' % (ak9[1], not all_ok), inp)
    logging.disable(logging.NOTSET)


def replay(rp):
    f = rp.get('failure') or {}
    print(f.get('what'))
    return 1
