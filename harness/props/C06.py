"""C06 — every acknowledgement written is itself a complete, well-formed interchange."""
import io
import logging
import random

import ackparse
import core
import pipecorr

META = {
    'theorem_files': ['Props/C06.v'],
    'theorems': ['C06_997_envelope_recount', 'C06_999_envelope_recount', 'C06_997_needs_clean_gs06', 'C06_997_short_isa_when_isa15_empty', 'C06_recount_reader_silent', 'C06_recount_is_consistent_document', 'C06_997_rereads', 'C06_999_rereads', 'C06_reread_hypotheses_hold_somewhere', 'C06_997_empty_gs06_draws_error'],
    'trusted_base': [
        'Coq 8.16.1 kernel; no native_compute',
        'Model/Ack997.v, Ack999.v, Errh.v, Writer.v, Pipeline.v: hand transcriptions — tied by this run (whole documents, model text '
        'vs implementation text) and by the errh differential',
        'extraction (ExtrOcamlBasic only) + ocaml/driver.ml',
    ],
    'assumptions': [],
}


def reread(text):
    """-> (envelope errors reported by the reader, exception name)"""
    import pyx12.x12file
    errs = []
    try:
        src = pyx12.x12file.X12Reader(io.StringIO(text))
        for _ in src:
            errs += [e for e in src.pop_errors() if e[0] in ('isa', 'gs', 'st')]
        src.cleanup()
        errs += [e for e in src.pop_errors() if e[0] in ('isa', 'gs', 'st')]
    except Exception as e:  # noqa
        return errs, type(e).__name__
    return errs, None


def echo_unfit(a):
    """why an echoed value cannot fit the acknowledgement's own definitions ('' when all fit)"""
    import re
    for x in a.segs:
        sid = x[0]
        if sid in ('AK3', 'IK3'):
            if len(x) > 5:
                return 'split:%s:%r' % (sid, x)
            if not re.match(r'^[A-Z][A-Z0-9]{1,2}$', x[1] if len(x) > 1 else ''):
                return 'segid:%r' % (x[1:2],)
            if len(x) > 3 and x[3] and not re.match(r'^[A-Z0-9]{1,6}$', x[3]):
                return 'loopid:%r' % x[3]
        if sid in ('AK4', 'IK4'):
            if len(x) > 5:
                return 'split:%s:%r' % (sid, x)
            if len(x) > 4 and (':' in x[4] or x[4] != x[4].strip() or len(x[4]) > 99 or any(ord(c) < 32 for c in x[4])):
                return ('split:%s:%r' % (sid, x[4])) if ':' in x[4] else 'value:%r' % x[4]
            if len(x) > 2 and x[2] and not re.match(r'^[0-9]{1,4}$', x[2]):
                return 'refnum:%r' % x[2]
        if sid == 'AK2':
            if len(x) < 3 or not re.match(r'^[0-9A-Z]{3}$', x[1]) or not re.match(r'^[0-9A-Za-z]{4,9}$', x[2]):
                return 'setid:%r' % x[1:3]
            if len(x) > 3 and x[3] and not (1 <= len(x[3]) <= 35):
                return 'vriic:%r' % x[3]
        if sid == 'AK1':
            if len(x) < 3 or not re.match(r'^[A-Z]{2}$', x[1]) or not re.match(r'^[0-9]{1,9}$', x[2]):
                return 'groupid:%r' % x[1:3]
        if sid == 'TA1':
            if len(x) < 6 or not re.match(r'^[0-9]{9}$', x[1]) or not re.match(r'^[0-9]{6}$', x[2]) or not re.match(r'^[0-9]{4}$', x[3]):
                return 'ta1:%r' % x[1:4]
        if sid == 'GS':
            if len(x) < 9 or not (2 <= len(x[2]) <= 15) or not (2 <= len(x[3]) <= 15) or not re.match(r'^[0-9]{1,9}$', x[6]):
                return 'gs:%r' % x[2:7]
        if sid == 'ISA' and len(x) == 17:
            if not re.match(r'^[0-9A-Z]{2}$', x[5]) or not re.match(r'^[0-9A-Z]{2}$', x[7]) or x[11] not in ('U', '^') and len(x[11]) != 1:
                return 'isa:%r' % x[5:9]
    return ''


def revalidate(text):
    import pyx12.params
    import pyx12.x12n_document
    try:
        v = pyx12.x12n_document.x12n_document(pyx12.params.params(), io.StringIO(text), None, None, None)
        return repr(v)
    except Exception as e:  # noqa
        return 'raise %s: %s' % (type(e).__name__, str(e)[:80])


def run(ctx, report):
    rng = random.Random(ctx['seed'])
    logging.disable(logging.CRITICAL)
    thorough = ctx['tier'] == 'thorough'
    report.rule = ('generated documents of the shipped maps (valid, mutated, several interchanges/groups/sets, other delimiters, data '
                   'containing ~ * : ^, many errors per segment, corpus) with the acknowledgement sink on: (a) whole-document model vs '
                   'implementation; (b) oracle on every acknowledgement the implementation wrote: parsed and recounted independently '
                   '(one ISA/GS/GE/IEA, SE counts, GE/IEA counts, trailer control numbers, unique set control numbers, AK1/AK2/AK5/AK9 '
                   'structure), re-read with X12Reader (no envelope error), and fed back to the validator (selects the 997/999 map; '
                   'accepted when it echoes no input value).  Distinct = distinct (text, mask, charset).')

    def oracle(kind, what, mask, text, setting, info):
        ack = info['ack']
        if mask[0] != 'A' or info['exn']:
            return
        if not ack:
            report.count('ack:none-written')
            return
        report.count('ack:written')
        inp = {'text': text[:3000], 'mask': mask, 'charset': setting[0], 'what': what, 'ack': ack[:1500]}
        if info['swallowed']:
            report.count('ack:visitor-raised')
            import re as _re
            versions = set(_re.findall(r'(?:^|[~\n\r])\s*ISA.{81}(\d{5})', text, _re.S))
            mixed = 'mixed-versions:' if len(versions) > 1 else ''
            report.fail('C06:incomplete:%s%s' % (mixed, info['swallowed'][0].split(': ')[-1]),
                        'the acknowledgement was cut short: %s' % info['swallowed'][0], inp)
            return
        a = ackparse.Ack(ack)
        # the situation of the source, for the failure key: an EMPTY group control number in the source (echoed by the 997)
        src_d = (text[105], text[3]) if len(text) > 105 else ('~', '*')
        sit = ''
        for sg_ in text.split(src_d[0]):
            pp = sg_.lstrip('\r\n ').split(src_d[1])
            if pp[0] == 'GS' and (len(pp) < 7 or pp[6] == ''):
                sit = ':source-gs06-empty'
        # a LATER ISA of the source that is not the fixed-width header (the reader checks the width of the first one only): its
        # fields are echoed into the acknowledgement's own ISA
        first_isa = True
        for sg_ in text.split(src_d[0]):
            t_ = sg_.lstrip('\r\n ')
            if t_.startswith('ISA' + src_d[1]):
                if not first_isa and len(t_) != 105:
                    sit += ':later-isa-not-fixed-width'
                    break
                first_isa = False
        # an interchange acknowledgement segment (TA1) stands between the last GE and the IEA, outside every group
        ids_ = [x.strip().split('*')[0] for x in ack.split('~') if x.strip()]
        for k_, sid_ in enumerate(ids_):
            if sid_ == 'TA1' and not (k_ > 0 and ids_[k_ - 1] in ('GE', 'TA1', 'ISA') and k_ + 1 < len(ids_) and ids_[k_ + 1] in ('IEA', 'TA1', 'GS')):
                report.fail('C06:structure:TA1-inside-group%s' % sit, 'the TA1 stands between %s and %s' % (
                    ids_[k_ - 1] if k_ else None, ids_[k_ + 1] if k_ + 1 < len(ids_) else None), inp)
        for p in a.problems:
            report.fail('C06:structure:%s%s' % (p.split(':')[0].split(' but')[0][:40], sit), 'acknowledgement structure: %s' % p, inp)
        errs, exn = reread(ack)
        if exn:
            report.fail('C06:reread-raises:%s%s' % (exn, sit), 'reading the acknowledgement raised %s' % exn, inp)
        for e in errs[:3]:
            report.fail('C06:reread-envelope-error:%s:%s%s' % (e[0], e[1], sit), 'reading the acknowledgement reports %s error %s (%s)' % (e[0], e[1], e[2]), inp)
        if not a.problems and not exn and not errs:
            v = revalidate(ack)
            report.count('ack:revalidated:' + v.split(':')[0])
            if v.startswith('raise'):
                report.fail('C06:revalidate:%s' % v.split(':')[0], 'feeding the acknowledgement back: %s' % v, inp)
            elif v == 'False':
                why = echo_unfit(a)
                if why:
                    report.count('ack:rejected-because-echo-unfit:' + why.split(':')[0])
                    if why.startswith('split'):
                        report.fail('C06:echo-splits-element:%s' % why.split(':')[1], 'an echoed value contains a delimiter of the acknowledgement and splits an element: %s' % why, inp)
                elif kind == 'map':
                    # a conformant generated document: every value the acknowledgement echoes is well formed
                    report.fail('C06:revalidate:rejected:%s' % ('with-TA1' if a.ta1 is not None else 'plain'),
                                'the acknowledgement of a conformant document, fed back to the validator, is rejected', inp)
                else:
                    report.count('ack:rejected-echo-fit-undecided')
    cases = pipecorr.documents(rng, 500 if thorough else 90, thorough)
    # several groups / sets with a trailer of an EARLIER group or set missing (the later ones are complete)
    import docgen
    import walk_gen
    for k in range(40 if thorough else 8):
        name = rng.choice(['837.4010.X098.A1.xml', '835.4010.X091.A1.xml', '834.5010.X220.A1.xml', '270.4010.X092.A1.xml'])
        segs, d = walk_gen.map_document(rng, name, ('~', '*', ':'), n_gs=rng.choice([2, 3]), n_st=rng.choice([1, 2]), p_seg=0.1, p_loop=0.15, max_segs=25)
        ids = [docgen.seg_id_of(x, d) for x in segs]
        victims = [i for i, x in enumerate(ids) if x in ('GE', 'SE') and any(y == 'GS' for y in ids[i + 1:])]
        if not victims:
            continue
        i = rng.choice(victims)
        cases.append(('envmut', 'earlier %s deleted map=%s' % (ids[i], name), docgen.encode(segs[:i] + segs[i + 1:], d, '')))
    # a source group whose control number is EMPTY (both in GS06 and GE02): the 997 echoes it as its own
    for name in ['837.4010.X098.A1.xml', '835.4010.X091.A1.xml']:
        segs, d = walk_gen.map_document(rng, name, ('~', '*', ':'), n_gs=1, n_st=1, p_seg=0.1, p_loop=0.15, max_segs=20)
        out = []
        for x in segs:
            p_ = x.split(d[1])
            if p_[0] == 'GS':
                p_[6] = ''
            elif p_[0] == 'GE':
                p_ = p_[:2] + ['']
            out.append(d[1].join(p_))
        cases.append(('envmut', 'empty group control number map=%s' % name, docgen.encode(out, d, '')))
    # a set whose ST carries no control number at all ('ST*837'): still acknowledged, the acknowledgement still complete
    for name in ['837.4010.X098.A1.xml', '834.5010.X220.A1.xml', '835.4010.X091.A1.xml', '270.4010.X092.A1.xml']:
        segs, d = walk_gen.map_document(rng, name, ('~', '*', ':'), n_gs=1, n_st=rng.choice([1, 2]), p_seg=0.1, p_loop=0.15, max_segs=20)
        sts = [i for i, x in enumerate(segs) if x.startswith('ST' + d[1])]
        i = rng.choice(sts)
        segs[i] = d[1].join(segs[i].split(d[1])[:rng.choice([1, 2, 2])])          # 'ST' or 'ST*837'
        cases.append(('envmut', 'ST without control number map=%s' % name, docgen.encode(segs, d, '')))
    # a second interchange whose ISA is not fixed-width (short / empty fields)
    for name in ['837.4010.X098.A1.xml', '834.5010.X220.A1.xml']:
        segs, d = walk_gen.map_document(rng, name, ('~', '*', ':'), n_isa=2, n_gs=1, n_st=1, p_seg=0.1, p_loop=0.15, max_segs=15)
        isas = [i for i, x in enumerate(segs) if x.startswith('ISA' + d[1])]
        if len(isas) == 2:
            segs[isas[1]] = d[1].join(f.strip() for f in segs[isas[1]].split(d[1]))
            cases.append(('envmut', 'second ISA not fixed-width map=%s' % name, docgen.encode(segs, d, '')))
    # interchanges that REQUEST an interchange acknowledgement (ISA14 = 1): the acknowledgement then carries a TA1, which belongs
    # between the last GE and the IEA
    extra = []
    for (kind, what, text) in cases[:(120 if thorough else 30)]:
        if len(text) > 106 and text.startswith('ISA') and kind in ('map', 'corpus', 'conformant', 'bodymut'):
            e = text[3]
            parts = text[:106].split(e)
            if len(parts) >= 17 and parts[14] == '0':
                parts[14] = '1'
                extra.append((kind, what + ' ISA14=1', e.join(parts) + text[106:]))
    report.count('docs:ta1-requested', len(extra))
    cases += extra
    pipecorr.run(report, ctx, rng, cases, 2, oracle, force=lambda m: m[0] == 'A')
    logging.disable(logging.NOTSET)


def replay(rp):
    f = rp.get('failure') or {}
    print(f.get('what'))
    return 1
