"""C12 — validation results do not depend on delimiters or line layout."""
import io
import logging
import random
import re

import core
import docgen
import errh_impl
import implrun
import walk_gen
import walk_impl

META = {
    'theorem_files': ['Props/C12.v'],
    'theorems': ['C12_segment_delims_irrelevant', 'C12_line_breaks_irrelevant', 'C12_reader_independent_partial', 'C12_validation_delims_irrelevant', 'C12_validation_needs_simple_positions', 'C12_walker_delims_irrelevant', 'C12_pipeline_independent', 'C12_driver_independent_plain'],
    'trusted_base': [
        'Coq 8.16.1 kernel; no native_compute',
        'Model/Raw.v, Reader.v, Segment.v: hand transcription of rawx12file.py, x12file.py (reader), segment.py — tied by the '
        'reader correspondence of this run (and of C01/C04)',
        'Spec/C12_spec.v: what "the same document re-encoded" means (my reading)',
        'extraction (ExtrOcamlBasic only) + ocaml/driver.ml',
        'PARTIAL: walker / element validation / acknowledgement independence is not a theorem; it is checked by complete runs '
        'of the implementation on re-encoded documents (verdict, every handler call without message texts, acknowledgement text)',
    ],
    'assumptions': ['theorem: the elements the reader interprets (control numbers, counts, HL/LX numbers) carry one component'],
}

CLOCK = ('040229', '1230', '20040229', '123059', 123456789)
TRIPLES = [('~', '*', ':'), ('|', '^', '>'), ('!', '+', '\\'), ('\x1c', '\x1d', ':'), ('~', '|', '>'), ('\n', '*', ':'), ('~', '*', '\\'), ('$', '*', '?'), ('\r', '*', ':'), ('~', '*', '\x1f')]
BREAKS = ['', '\n', '\r\n', '\r', '\n\n']


def source_delims(text):
    return (text[105], text[3], text[104])


def reencode(text, d2, brk):
    """the same segments written with d2 and the line-break convention brk; None when not possible"""
    if len(text) < 106 or not text.startswith('ISA'):
        return None
    d1 = source_delims(text)
    pieces = text.split(d1[0])
    tail = pieces.pop()                      # unterminated rest (kept as is)
    segs = [p.lstrip('\r\n') for p in pieces]
    data = ''.join(segs).replace(d1[1], '').replace(d1[2], '')
    if any(c in data for c in d2) or any(c in tail for c in d1 + d2) or (d2[0] in brk):       # CR terminator + LF break is a legal layout
        return None
    if len(set(d2)) < 3:
        return None
    out = []
    for i, s in enumerate(segs):
        if s.startswith('ISA' + d1[1]):
            parts = s.split(d1[1])
            if len(parts) == 17:
                parts[16] = d2[2]
            t = d2[1].join(parts)
        else:
            t = ''.join(d2[1] if c == d1[1] else (d2[2] if c == d1[2] else c) for c in s)
        out.append(t + d2[0] + brk)
    return ''.join(out) + tail.lstrip('\r\n')


def run_impl(text):
    """-> (verdict/exception, trace lines without delimiters and messages, ack text)"""
    import pyx12.error_handler
    import pyx12.params
    import pyx12.x12n_document
    trace = []
    real = pyx12.error_handler.err_handler
    pyx12.error_handler.err_handler = walk_impl.make_recorder(trace)
    fd = io.StringIO()
    try:
        with errh_impl.Patched(CLOCK):
            try:
                v = 'V:%s' % pyx12.x12n_document.x12n_document(pyx12.params.params(), io.StringIO(text), fd, None, None)
            except Exception as e:  # noqa
                v = core.exn_name(e)
    finally:
        pyx12.error_handler.err_handler = real
    return v, [canon_line(x) for x in trace], fd.getvalue()


def canon_line(ln):
    """drop the delimiters (hex prefix of a segment), ISA16, and the message text"""
    parts = ln.split(',')
    kind = parts[0]
    parts = [re.sub(r'^[0-9a-f]{6}/', '', p) for p in parts]
    if kind in ('I', 'X') or (len(parts) > 1 and parts[1].startswith('S495341')) or 'S495341;' in ln:
        parts = [re.sub(r'(S495341(?:;[^;,]*){15});[^;,]*', r'\1;<ISA16>', p) for p in parts]
    if kind in ('i', 'g', 't'):
        parts = parts[:2]
    elif kind == 's':
        parts = parts[:2] + parts[3:]
    elif kind == 'e':
        parts = parts[:2] + parts[3:]
    return ','.join(parts)


def base_documents(rng, thorough):
    from pyx12.test.x12testdata import datafiles
    docs = []
    for k in sorted(datafiles):
        src = datafiles[k].get('source')
        if src and len(src) > 106:
            docs.append(('corpus:' + k, src))
    names = ['837.4010.X098.A1.xml', '834.5010.X220.A1.xml', '835.4010.X091.A1.xml', '270.4010.X092.A1.xml', '277.5010.X214.xml']
    import mapsrc
    for k in range(60 if thorough else 14):
        name = rng.choice(names)
        d = ('~', '*', ':')
        segs, d = walk_gen.map_document(rng, name, d, n_gs=rng.choice([1, 2]), n_st=rng.choice([1, 2]), p_seg=0.2, p_loop=0.2, max_segs=40)
        r = rng.random()
        kind = 'valid'
        if r < 0.45:
            segs, kind = walk_gen.mutate_body(rng, segs, d, mapsrc.load(name))
        elif r < 0.7:
            segs, kind = walk_gen.mutate_envelope(rng, segs, d)
        docs.append(('gen:%s:%s:%d' % (name, kind, k), docgen.encode(segs, d, '')))
        if k % 3 == 0:
            # the same with an EMPTY segment (two terminators in a row) somewhere: skipped by the reader in every layout
            j = rng.randint(1, len(segs))
            docs.append(('gen:%s:%s+empty-segment:%d' % (name, kind, k), docgen.encode(segs[:j] + [''] + segs[j:], d, '')))
    return docs


def boundary_documents(rng, thorough):
    """long documents whose terminators (or the CR of a CRLF) fall on the last / first character of the reader's 8 KiB
    chunks (offsets 106 + 8192 k) when written WITH line breaks: (label, segments, break)"""
    out = []
    d = ('~', '*', ':')
    for brk in (['\n', '\r\n', '\r'] if thorough else ['\n', '\r\n']):
        for off in ((-2, -1, 0, 1) if thorough else (-1, 0)):
            segs = [docgen.isa('000000077', d), docgen.seg(d, 'GS', 'HC', 'SENDER', 'RECEIVER', '20040229', '1230', '77', 'X', '004010X098A1'),
                    'ST*837*0001', 'BHT*0019*00*1*20040229*1230*CH']
            pos = sum(len(x) + 1 + len(brk) for x in segs)
            for k in (1, 2):
                target = 106 + 8192 * k + off            # index at which the terminator must sit
                while target - pos > 400:
                    x = docgen.seg(d, 'REF', '87', 'X' * rng.randint(1, 30))
                    segs.append(x)
                    pos += len(x) + 1 + len(brk)
                need = target - pos
                if need >= 8:
                    x = 'NTE*ADD*' + 'A' * (need - 8)
                    segs.append(x)
                    pos += len(x) + 1 + len(brk)
            segs += ['REF*87*LAST', 'SE*%d*0001' % (len(segs) - 1), 'GE*1*77', 'IEA*1*000000077']
            out.append(('boundary:%r:off%d' % (brk, off), segs, brk))
    return out


def run(ctx, report):
    rng = random.Random(ctx['seed'])
    logging.disable(logging.CRITICAL)
    thorough = ctx['tier'] == 'thorough'
    report.rule = ('corpus documents and generated documents (5 maps; valid, body-mutated, envelope-mutated) re-encoded with %d delimiter '
                   'triples (control characters, backslash, LF as terminator) x %d line-break conventions, where the new delimiters are '
                   'absent from the data; for each pair (original, re-encoded): reader model vs reader implementation on both texts, and '
                   'complete runs of x12n_document compared: verdict / escaping exception, every error-handler call (level, code, '
                   'segment position, line, element position, value; no message texts, no delimiters, ISA16 masked) and the whole '
                   'acknowledgement text under a pinned clock.  Distinct = distinct (document, triple, break).' % (len(TRIPLES), len(BREAKS)))
    docs = base_documents(rng, thorough)
    mr = core.ModelRunner()
    reqs, meta = [], []
    for label, text in docs:
        base = run_impl(text)
        variants = []
        # quick tier: the control-character triple (FS / GS: characters Python's str methods count as blanks) always, two others by chance
        for d2 in (TRIPLES if thorough else [TRIPLES[3]] + rng.sample(TRIPLES[:3] + TRIPLES[4:], 2)):
            brk = rng.choice(BREAKS)
            t2 = reencode(text, d2, brk)
            if t2 is None or t2 == text:
                report.count('reencode:not-admissible')
                continue
            variants.append((d2, brk, t2))
        for (d2, brk, t2) in variants:
            report.case((label, d2, brk))
            report.count('triple:' + repr(''.join(d2)))
            report.count('break:' + repr(brk))
            got = run_impl(t2)
            inp = {'document': label, 'delims': list(d2), 'break': brk, 'text': text[:3000], 'reencoded': t2[:3000]}
            report.count('verdict:' + base[0])
            if got[0] != base[0]:
                sit = ':component-separator-is-a-control-character' if ord(d2[2]) < 32 else ''
                report.fail('C12:verdict:%s->%s%s' % (base[0], got[0], sit), 'verdict changes with the encoding: %s vs %s' % (base[0], got[0]), inp)
                continue
            if got[1] != base[1]:
                k = next((i for i, (a, b) in enumerate(zip(base[1], got[1])) if a != b), min(len(base[1]), len(got[1])))
                a = base[1][k] if k < len(base[1]) else '<end>'
                b = got[1][k] if k < len(got[1]) else '<end>'
                sit = ':component-separator-is-a-control-character' if ord(d2[2]) < 32 else ''
                report.fail('C12:errors-differ:%s%s' % (a.split(',')[0], sit), 'handler calls differ at call %d: %s vs %s' % (k, a[:160], b[:160]), inp)
                continue
            if got[2] != base[2]:
                la, lb = base[2].split('\n'), got[2].split('\n')
                k = next((i for i, (a, b) in enumerate(zip(la, lb)) if a != b), min(len(la), len(lb)))
                sit = ':component-separator-is-a-control-character' if ord(d2[2]) < 32 else ''
                report.fail('C12:ack-differs:%s%s' % ((la[k].split('*')[0] if k < len(la) else 'end'), sit),
                            'acknowledgement differs: %r vs %r' % (la[k] if k < len(la) else None, lb[k] if k < len(lb) else None), inp)
            # reader correspondence on both encodings
            reqs.append(('reader', ['0', t2, '']))
            meta.append((label, d2, brk, t2))
    # line breaks across the reader's chunk boundaries
    for (label, segs, brk) in boundary_documents(rng, thorough):
        plain = docgen.encode(segs, ('~', '*', ':'), '')
        broken = docgen.encode(segs, ('~', '*', ':'), brk)
        report.case((label, brk))
        report.count('boundary-documents')
        a, b = run_impl(plain), run_impl(broken)
        if a != b:
            what = 'verdict' if a[0] != b[0] else ('errors' if a[1] != b[1] else 'ack')
            report.fail('C12:chunk-boundary:%s' % what, 'a %d-character document validates differently with %r after the terminators (%s differs)' % (
                len(broken), brk, what), {'document': label, 'break': brk, 'text': broken[:2000], 'length': len(broken)})
        reqs.append(('reader', ['0', broken, '']))
        meta.append((label, ('~', '*', ':'), brk, broken))
    if ctx['driver_ok'] and reqs:
        outs = mr.run(reqs, shards=4)
        for (label, d2, brk, t2), mo in zip(meta, outs):
            io_ = implrun.impl_reader(0, t2, [])
            report.corr_case('reader', {'document': label, 'delims': list(d2), 'break': brk, 'text': t2[:2000]}, mo, io_)
    logging.disable(logging.NOTSET)


def replay(rp):
    f = rp.get('failure') or {}
    print(f.get('what'))
    return 1
