"""C18 — results are a function of the document and parameters alone."""
import json
import logging
import os
import random
import subprocess

import core
import docgen
import docrun

META = {
    'theorem_files': ['Props/C18.v'],
    'theorems': ['C18_no_persistent_write', 'C18_reachability_complete', 'C18_clock_only_in_ack_envelope', 'C18_no_hash_order_leak'],
    'generators': ['effects.py'],
    'trusted_base': [
        'Coq 8.16.1 kernel; vm_compute over the generated effect summary; no native_compute',
        'tools/gen/effects.py: a SYNTACTIC over-approximation written by me (module-level bindings, class attributes, mutable '
        'default arguments, attribute names assigned from them; write sites = stores / mutating method calls / global '
        'rebinding through such roots; name-based call graph). Its soundness is trusted, not proved: aliasing through '
        'containers it cannot see, monkey-patching, __del__ order, logging handlers, import caches are outside it.',
        'the runtime half (hash seed, GC, logging, pkg_resources caches) is covered only by the differential: sequences '
        'of documents in one interpreter compared with fresh interpreters',
    ],
    'assumptions': ['PARTIAL: the theorem is about the generated summary of the source, not about CPython'],
}


def corpus():
    from pyx12.test.x12testdata import datafiles
    docs = []
    for k in sorted(datafiles):
        src = datafiles[k].get('source')
        if src:
            docs.append((k, src))
    for fn in ('examples/example834_5010.txt', 'examples/multiple_st_loops.txt', 'tests/835_mult_loops.txt', 'tests/834_ls_le_ls.txt'):
        p = os.path.join(core.REPO, 'pyx12', fn)
        if os.path.exists(p):
            docs.append((fn, open(p).read()))
    return docs


def fresh(text, charset, exclude=None, seed=None):
    env = dict(os.environ)
    env['PYTHONHASHSEED'] = str(random.randint(0, 1000) if seed is None else seed)
    try:
        p = subprocess.run([core.PY, '-W', 'ignore', os.path.join(core.VERIF, 'harness', 'docrun.py')],
                           input=json.dumps({'text': text, 'charset': charset, 'exclude': exclude}).encode(), capture_output=True, timeout=300, env=env)
    except subprocess.TimeoutExpired:
        return {'verdict': 'subprocess-timeout'}
    try:
        return json.loads(p.stdout.decode())
    except Exception:  # noqa
        return {'verdict': 'subprocess-failed', 'stderr': p.stderr.decode()[-500:]}


def run(ctx, report):
    rng = random.Random(ctx['seed'])
    logging.disable(logging.CRITICAL)
    docs = corpus()
    # a few generated, faulty documents too
    for k in range(4):
        d = ('~', '*', ':')
        segs = docgen.envelope_doc(rng, d, icvn='00401', n_isa=rng.choice([1, 2]), max_groups=2, max_sets=2, max_body=4,
                                   faults=rng.choice([0.0, 0.3]), hl=True, lx=True)
        docs.append(('gen%d' % k, docgen.encode(segs, d, '\n')))
    # variants whose verdict depends on the external-code parameter: an unknown state / an unknown zip code
    import re as _re
    extra = []
    for name, text in docs:
        if len(extra) < 4 and _re.search(r'N4\*[^*~]*\*[A-Z]{2}\*', text):
            extra.append((name + '+badstate', _re.sub(r'(N4\*[^*~]*\*)[A-Z]{2}\*', r'\1QQ*', text, count=1)))
    docs += extra
    # documents of DIFFERENT guides in which every loop occurs twice (beyond its limit where the limit is 1): what one map
    # says about a loop (repeat limits, usage, counts) must not leak into the validation of a document of another map
    import confgen
    import walk_gen
    twice = []
    for name in (walk_gen.DOC_MAPS if ctx['tier'] == 'thorough' else ['837.4010.X098.A1.xml', '837.5010.X222.A1.xml', '278.4010.X094.A1.xml',
                                                                      '837.4010.X096.A1.xml', '270.4010.X092.A1.xml', '271.4010.X092.A1.xml']):
        try:
            segs, d, _sel = confgen.document(rng, name, ('~', '*', ':'), n_st=1, p_seg=0.1, p_loop=0.5, max_segs=160, loop_twice=True)
        except Exception:  # noqa
            continue
        twice.append(('twice:' + name, docgen.encode(segs, d, '')))
    report.count('docs:every-loop-twice', len(twice))
    n_seq = 40 if ctx['tier'] == 'thorough' else 6
    report.rule = ('sequences of 2-10 documents (the repository\'s own test corpus of 834/835/837/270-style documents, valid and '
                   'faulty, 4010 and 5010, plus generated envelopes and variants with an unknown state code) processed in ONE interpreter — fresh and reused params, charset and exclude_external_codes varying from document to document, the same '
                   'document up to three times in a row — every output (verdict, 997/999 body, HTML body, XML, context-reader '
                   'segments, XML->X12) compared after masking timestamps/control numbers with the result of a FRESH interpreter '
                   '(random PYTHONHASHSEED).  Distinct = distinct (sequence position, document).')
    baseline = {}
    import pyx12.params
    # state that leaks from document to document can grow without bound (a shared list extended by itself doubles): cap the address
    # space so that such a leak ends in a MemoryError inside the run instead of taking the machine down
    import resource
    soft_, hard_ = resource.getrlimit(resource.RLIMIT_AS)
    try:
        resource.setrlimit(resource.RLIMIT_AS, (6 * 1024 ** 3, hard_))
    except Exception:  # noqa
        pass
    # the interpreter's hash seed: documents that collect SEVERAL codes at one level (set: body error + wrong SE01 + wrong SE02;
    # segment: several segment codes; element: several element codes) in fresh interpreters under different PYTHONHASHSEEDs
    import re as _re2
    many = []
    for name, text in docs:
        if len(many) >= (6 if ctx['tier'] == 'thorough' else 3) or not text.startswith('ISA') or len(text) < 200:
            continue
        t_, e_ = text[105], text[3]
        m_ = _re2.search(_re2.escape(t_) + r'\s*SE' + _re2.escape(e_) + r'(\d+)' + _re2.escape(e_) + r'([^' + _re2.escape(t_ + e_) + r']*)', text)
        d_ = _re2.search(_re2.escape(e_) + r'D8' + _re2.escape(e_) + r'(\d{8})', text)
        if not m_ or not d_ or d_.start() > m_.start():
            continue
        t2 = text[:d_.start(1)] + '20041305' + text[d_.end(1):m_.start(1)] + str(int(m_.group(1)) + 3) + text[m_.end(1):m_.start(2)] + 'X9' + text[m_.end(2):]
        many.append((name + '+several-codes', t2))
    report.count('docs:several-codes-under-different-hash-seeds', len(many))
    for (name, text) in many:
        outs = [fresh(text, 'B', None, seed=k_) for k_ in (0, 1, 2, 3, 5, 8)]
        report.case(('hash-seeds', name))
        for field in ('verdict', 'ack', 'html', 'xml', 'context', 'back'):
            vals = [o.get(field) for o in outs]
            if any(v != vals[0] for v in vals[1:]):
                k_ = next(i for i, v in enumerate(vals) if v != vals[0])
                report.fail('C18:%s-depends-on-hash-seed' % field, 'output "%s" of %s differs between fresh interpreters with PYTHONHASHSEED 0 and %d' % (
                    field, name, (0, 1, 2, 3, 5, 8)[k_]), {'document': name, 'text': text[:3000], 'seeds': [0, (0, 1, 2, 3, 5, 8)[k_]]},
                    first=(vals[0] or '')[:400], other=(vals[k_] or '')[:400])
                break
    for s in range(n_seq):
        seq = [rng.choice(docs) for _ in range(rng.randint(2, 10))]
        if twice and s % 2 == 0:
            seq = rng.sample(twice, min(len(twice), rng.randint(2, 4))) + seq[:3]
        if rng.random() < 0.5:
            i = rng.randrange(len(seq))
            seq[i:i] = [seq[i]] * rng.choice([1, 2])
        reuse = pyx12.params.params() if rng.random() < 0.5 else None
        charset = rng.choice(['B', 'E'])
        history = []
        for (name, text) in seq:
            # the parameters may change from one document to the next (also on a reused params object)
            exclude = rng.choice([None, None, 'states', 'states,zipcode'])
            if rng.random() < 0.3:
                charset = rng.choice(['B', 'E'])
            key = (name, charset, exclude)
            if key not in baseline:
                baseline[key] = fresh(text, charset, exclude)
            import signal

            class _Slow(Exception):
                pass

            def _alarm(_sig, _frm):
                raise _Slow()
            signal.signal(signal.SIGALRM, _alarm)
            signal.alarm(120)
            try:
                got = docrun.run_all(text, charset, reuse_param=reuse, exclude=exclude)
            except _Slow:
                got = {'verdict': 'no-result-within-120s'}
            except MemoryError:
                got = {'verdict': 'MemoryError'}
            finally:
                signal.alarm(0)
            want = baseline[key]
            history.append('%s[%s,%s]' % (name, charset, exclude))
            report.case((s, len(history), name, charset, exclude))
            report.count('exclude:%s' % exclude)
            report.count('docs')
            report.count('params:' + ('reused' if reuse is not None else 'fresh'))
            for field in ('verdict', 'ack', 'html', 'xml', 'context', 'back'):
                if got.get(field) != want.get(field):
                    report.fail('C18:%s-depends-on-history:%s' % (field, name),
                                'output "%s" of %s after processing %r differs from a fresh interpreter' % (field, name, history[:-1]),
                                {'document': name, 'history': history[:-1], 'charset': charset, 'exclude': exclude, 'params_reused': reuse is not None},
                                got=(got.get(field) or '')[:300], fresh=(want.get(field) or '')[:300])
                    break
        if s == 0:
            report.sample({'sequence': [n for n, _ in seq], 'charset': charset, 'params_reused': reuse is not None})
    logging.disable(logging.NOTSET)


def replay(rp):
    f = rp.get('failure') or {}
    print(f.get('what'), f.get('input'))
    return 1
