"""C03 — every single injected fault is rejected and localised."""
import logging
import random
import importlib

import confgen
import core
import docgen
import mapsrc
import walk_gen

C05 = importlib.import_module('C05')

META = {
    'theorem_files': ['Props/C03.v'],
    'theorems': ['C03_single_element_fault_localised', 'C03_extra_element_rejected', 'C03_unknown_segment_localised', 'C03_single_structural_fault', 'C03_conformant_is_fault_free_instance'],
    'trusted_base': [
        'Coq 8.16.1 kernel; no native_compute',
        'Model/Pipeline.v and everything below it (tied by the correspondence runs of C02/C05/C07)',
        'harness/confgen.py (conformant base documents) and the fault catalogue of this file are my reading of the property',
        'extraction (ExtrOcamlBasic only) + ocaml/driver.ml',
    ],
    'assumptions': [],
}


def events(trace):
    """[(kind, code, segment index (1-based count of add/loop events = source segment position), element position or None, message)]"""
    out = []
    pos = 0
    cur_ele = None
    for ln in trace:
        p = ln.split(',')
        k = p[0]
        if k in ('I', 'G', 'T', 'X', 'Y', 'Z'):
            src = p[-5:]
        if k in ('I', 'G', 'T'):
            line = p[-2]
            pos = int(line) if line.isdigit() else pos
            cur_ele = None
        elif k in ('X', 'Y', 'Z'):
            line = p[-2]
            pos = int(line) if line.isdigit() else pos
            cur_ele = None
        elif k == 'S':
            line = p[4] if len(p) > 4 else ''
            pos = int(line) if line.isdigit() else pos
            cur_ele = None
        elif k == 'L':
            cur_ele = (p[3], p[4], p[5]) if len(p) > 5 else None          # seq, parent is composite, parent seq
        elif k in 'igtse':
            try:
                msg = bytes.fromhex(p[2]).decode('latin-1')
            except (ValueError, IndexError):
                msg = ''
            line = pos
            if k == 's' and len(p) > 4 and p[4].isdigit():
                line = int(p[4])
            ele = None
            if k == 'e' and cur_ele:
                ele = int(cur_ele[2]) if cur_ele[1] == 'T' else int(cur_ele[0])
            out.append((k, p[1], line, ele, msg))
    return out


def located_nodes(text):
    """per source segment: (line, seg id, map node or None) via the validator's callback"""
    import io
    import pyx12.params
    import pyx12.x12n_document
    rows = []

    def cb(seg, src, node, valid):
        rows.append((src.get_cur_line(), seg.get_seg_id(), node if (node is not None and node.id == seg.get_seg_id()) else None, seg))
    try:
        pyx12.x12n_document.x12n_document(pyx12.params.params(), io.StringIO(text), None, None, None, callback=cb)
    except Exception:  # noqa
        return None
    return rows


def inject(rng, segs, d, rows, force_kind=None, force_i=None):
    """one fault: -> (kind, new segs, expected (codes, segment line, element position or None), structural?) or None"""
    body = [i for i, r in enumerate(rows) if r[1] not in docgen.ENVELOPE and r[2] is not None]
    if not body:
        return None
    for _try in range(30 if force_kind is None else 4):
        i = rng.choice(body) if force_i is None else force_i
        line, sid, node, seg = rows[i]
        parts = segs[i].split(d[1])
        kind = rng.choice(['too_long', 'too_short', 'bad_code', 'bad_class', 'bad_date', 'bad_time', 'missing_required_ele',
                           'not_used_ele', 'too_many_elements', 'unknown_segment', 'missing_required_segment', 'missing_required_loop', 'syntax_note', 'syntax_note', 'wrong_format'])
        if force_kind is not None:
            kind = force_kind
        only_first = kind == 'bad_code_01'
        if only_first:
            kind = 'bad_code'
        kids = node.children
        if sid in ('HL', 'LX', 'BHT') and kind not in ('too_many_elements',) and not (sid == 'BHT' and kind in ('bad_time', 'bad_date')):
            continue            # numbering / hierarchy / transaction-type elements decide how OTHER segments are matched
        if kind in ('too_long', 'too_short', 'bad_code', 'bad_class', 'bad_date', 'bad_time', 'missing_required_ele', 'not_used_ele'):
            cands = []
            for k, c in enumerate(kids):
                if c.is_composite():
                    continue
                present = k + 1 < len(parts) and parts[k + 1] != ''
                de = walk_gen.de_of(c)
                ty, mn, mx = de['data_type'], de['min_len'], de['max_len']
                codes = [x for x in c.valid_codes if x]
                if kind == 'too_long' and present and c.usage != 'N' and not codes and not c.external_codes and ty == 'AN' and mx < 60:
                    cands.append((k, parts[k + 1] + 'X' * (mx - len(parts[k + 1]) + 1), ['5']))
                if kind == 'too_short' and present and c.usage != 'N' and not codes and not c.external_codes and ty == 'AN' and mn > 1:
                    cands.append((k, 'X' * (mn - 1), ['4']))
                # element 01 selects the map node (segment_if.is_match) when it is a required ID element with a code list: a wrong
                # value there is another fault kind (segment not found); every other coded element 01 is an ordinary code fault
                matches_on_01 = k == 0 and ty == 'ID' and c.usage == 'R'
                if kind == 'bad_code' and present and codes and not matches_on_01 and c.usage != 'N' and c.data_ele not in ('1250',) and not (sid == 'ENT' and k == 1):
                    bad = 'Z' * max(mn, 1)
                    if bad not in codes and mn <= len(bad) <= mx:
                        cands.append((k, bad, ['7']))
                if kind == 'bad_class' and present and c.usage != 'N' and ty == 'R' and not codes:
                    cands.append((k, 'A' * max(mn, 1), ['6']))
                if kind == 'bad_date' and present and c.usage != 'N' and ty in ('DT', 'D8') and mx >= 8:
                    cands.append((k, '20040230', ['8']))
                if kind == 'bad_time' and present and c.usage != 'N' and ty == 'TM':
                    # every way a time can be impossible: hour, minute (with a legal hour), second
                    cands.append((k, rng.choice(['2560', '2400', '1275', '0960', '0099', '123060'][:5 if mx < 6 else 6]), ['9']))
                if kind == 'missing_required_ele' and present and c.usage == 'R' and k > 0 and not codes:
                    cands.append((k, '', ['1']))
                if kind == 'not_used_ele' and c.usage == 'N' and not present and k < len(parts) + 3:
                    cands.append((k, 'X', ['10', 'I10']))
            if only_first:
                cands = [x for x in cands if x[0] == 0]
            if not cands:
                continue
            k, v, codes = rng.choice(cands)
            # syntax notes may also fire when a value is removed or added: keep to elements no note mentions
            if any(str(k + 1).zfill(2) in (n or '') for n in getattr(node, 'syntax', []) and [str(x) for x in node.syntax] or []):
                continue
            while len(parts) <= k + 1:
                parts.append('')
            parts[k + 1] = v
            while len(parts) > 2 and parts[-1] == '':
                parts.pop()
            new = list(segs)
            new[i] = d[1].join(parts)
            return kind, new, (codes, line, k + 1, 'e'), False
        if kind == 'syntax_note':
            import confgen as _cg
            notes = []
            for nt in getattr(node, 'syntax', []) or []:
                try:
                    code, idxs = nt[0], [int(x) for x in nt[1:]]
                except Exception:  # noqa
                    continue
                if code in ('P', 'C', 'R', 'E', 'L') and all(1 <= x <= len(kids) for x in idxs) and \
                        all((not kids[x - 1].is_composite()) and kids[x - 1].usage == 'S' for x in idxs):
                    notes.append((code, idxs))
            if not notes:
                continue
            code, idxs = rng.choice(notes)
            cnotes = [n_ for n_ in notes if n_[0] in ('C', 'L')]
            if cnotes and rng.random() < 0.7:
                code, idxs = rng.choice(cnotes)          # conditional notes: the kind whose boundary (condition element LAST) is easy to get wrong
            vals = parts[1:] + [''] * (len(kids) - len(parts) + 1)

            def fill(x):
                real = walk_gen.value_for
                walk_gen.value_for = _cg.value_for
                try:
                    return _cg.value_for(rng, kids[x - 1])
                finally:
                    walk_gen.value_for = real
            if code in ('P', 'C', 'L'):
                # the first listed element present, the others absent; put the present one LAST where possible
                first = idxs[0]
                for x in idxs[1:]:
                    vals[x - 1] = ''
                if vals[first - 1] == '':
                    vals[first - 1] = fill(first)
                if rng.random() < (0.85 if code in ('C', 'L') else 0.6):
                    vals = vals[:first]          # nothing after it
            elif code == 'R':
                for x in idxs:
                    vals[x - 1] = ''
            elif code == 'E':
                for x in idxs[:2]:
                    if vals[x - 1] == '':
                        vals[x - 1] = fill(x)
            # other notes of the segment must not fire as well (judged by the X12 definition on the new presence pattern)
            while vals and vals[-1] == '':
                vals.pop()
            import C14 as _c14
            fired_other = False
            for n3 in getattr(node, 'syntax', []) or []:
                try:
                    c3, i3 = n3[0], [int(x) for x in n3[1:]]
                except Exception:  # noqa
                    fired_other = True
                    break
                if (c3, i3) == (code, idxs):
                    continue
                pres3 = [x <= len(vals) and vals[x - 1] != '' for x in i3]
                if c3 not in ('P', 'C', 'R', 'E', 'L') or _c14.violated_py(c3, pres3):
                    fired_other = True
                    break
            if fired_other:
                continue
            if not vals:
                continue
            new = list(segs)
            new[i] = d[1].join([parts[0]] + vals)
            if new[i] == segs[i]:
                continue
            return kind + ':' + code, new, ((['10'] if code == 'E' else ['2']), line, None, 'e'), False
        if kind == 'wrong_format':
            # DTP: the value is well formed for ANOTHER format the qualifier element allows, not for the one declared
            if sid != 'DTP' or len(parts) < 4 or len(kids) < 3:
                continue
            allowed = [x for x in kids[1].valid_codes if x]
            if parts[2] == 'D8' and 'RD8' in allowed:
                v = '20040101-20040131'
            elif parts[2] == 'RD8' and 'D8' in allowed:
                v = '20040229'
            else:
                continue
            new = list(segs)
            parts[3] = v
            new[i] = d[1].join(parts)
            return kind, new, (['8'], line, 3, 'e'), False
        if kind == 'too_many_elements':
            new = list(segs)
            while len(parts) < len(kids) + 1:
                parts.append('')
            new[i] = d[1].join(parts + ['EXTRA'])
            return kind, new, (['3'], line, None, 'e'), False
        if kind == 'unknown_segment':
            new = list(segs)
            new.insert(i + 1, d[1].join(['ZZZ', 'X']))
            return kind, new, (['1'], line + 1, None, 's'), True
        if kind == 'missing_required_loop':
            lp = node.parent
            if not node.is_first_seg_in_loop() or lp is None or getattr(lp, 'usage', None) != 'R' or getattr(lp, 'type', None) == 'wrapper' \
                    or lp.id in ('ISA_LOOP', 'GS_LOOP', 'ST_LOOP'):
                continue

            def inside(n):
                while n is not None:
                    if n is lp:
                        return True
                    n = getattr(n, 'parent', None)
                return False
            j = i + 1
            while j < len(rows) and rows[j][2] is not None and rows[j][2] is not node and inside(rows[j][2]):
                j += 1
            if (j < len(rows) and rows[j][2] is node) or (i > 0 and rows[i - 1][2] is not None and inside(rows[i - 1][2])):
                continue            # one of several instances: deleting it leaves the document conformant
            if any(rows[k][1] in ('HL', 'LX') for k in range(i, j)):
                continue            # numbering / hierarchy of the REMAINING segments would change
            new = segs[:i] + segs[j:]
            return kind, new, (['3'], None, None, 's'), True
        if kind == 'missing_required_segment':
            if node.usage != 'R' or node.is_first_seg_in_loop():
                continue
            if (i > 0 and rows[i - 1][2] is node) or (i + 1 < len(rows) and rows[i + 1][2] is node):
                continue            # a repeated required segment: deleting one instance leaves the document conformant
            new = list(segs)
            del new[i]
            return kind, new, (['3'], None, None, 's'), True
    return None


def fix_counts(segs, d):
    """SE01 after inserting / deleting a body segment (the fault is the body change, not the count)"""
    out = list(segs)
    st = None
    for i, s in enumerate(out):
        sid = s.split(d[1])[0]
        if sid == 'ST':
            st = i
        elif sid == 'SE' and st is not None:
            parts = s.split(d[1])
            parts[1] = str(i - st + 1)
            out[i] = d[1].join(parts)
            st = None
    return out


def run(ctx, report):
    rng = random.Random(ctx['seed'])
    logging.disable(logging.CRITICAL)
    thorough = ctx['tier'] == 'thorough'
    report.rule = ('conformant documents (confgen, 2 sets each so that the untouched set must stay accepted) of %d maps x one injected '
                   'fault from the catalogue {too long, too short, outside code list, wrong character class, impossible date, '
                   'impossible time, missing required element, value in a not-used element, too many elements, broken syntax note, value in another '
                   'allowed format than the qualifier declares, unknown segment, missing required segment, missing required loop (all segments of its only instance)}: verdict False, an error with the matching standard code reported at the segment '
                   '(source line) and element position of the fault; for non-structural faults nothing else is reported and the '
                   'other set is acknowledged A.  Distinct = (document, fault).' % len(walk_gen.QUICK_MAPS))
    names = list(walk_gen.DOC_MAPS if thorough else walk_gen.QUICK_MAPS)
    n_docs = 60 if thorough else 14
    faulted = []
    for dk in range(n_docs):
        name = rng.choice(names)
        d = ('~', '*', ':')
        try:
            segs, d, sel = confgen.document(rng, name, d, n_st=2, p_seg=0.3, p_loop=0.3, max_segs=50)
        except Exception:  # noqa
            continue
        text = docgen.encode(segs, d, '')
        v0, tr0, _ack0 = C05.run_impl(text)
        if v0 != 'V:True':
            report.count('base-not-accepted')      # C02's subject
            continue
        rows = located_nodes(text)
        if rows is None or len(rows) != len(segs):
            continue
        plan = [(None, None)] * (8 if thorough else 5)
        with_notes = [i for i, r in enumerate(rows) if r[2] is not None and r[1] not in docgen.ENVELOPE and getattr(r[2], 'syntax', None)]
        rng.shuffle(with_notes)
        with_notes.sort(key=lambda i: 0 if any(str(nt[0]) in ('C', 'L') for nt in rows[i][2].syntax) else 1)   # conditional notes first
        plan += [('syntax_note', i) for i in with_notes[:(10 if thorough else 6)]]
        req_loops = [i for i, r in enumerate(rows) if r[2] is not None and r[1] not in docgen.ENVELOPE and r[2].is_first_seg_in_loop()
                     and getattr(r[2].parent, 'usage', None) == 'R']
        rng.shuffle(req_loops)
        plan += [('missing_required_loop', i) for i in req_loops[:(8 if thorough else 5)]]
        tms = [i for i, r in enumerate(rows) if r[2] is not None and r[1] not in docgen.ENVELOPE and r[1] not in ('HL', 'LX')
               and any((not c.is_composite()) and walk_gen.de_of(c)['data_type'] in ('TM', 'DT', 'D8') for c in r[2].children)]
        rng.shuffle(tms)
        plan += [(rng.choice(['bad_time', 'bad_date']), i) for i in tms[:(6 if thorough else 3)]]
        firsts = [i for i, r in enumerate(rows) if r[2] is not None and r[1] not in docgen.ENVELOPE and r[1] not in ('HL', 'LX', 'BHT') and r[2].children
                  and (not r[2].children[0].is_composite()) and [x for x in r[2].children[0].valid_codes if x]
                  and not (walk_gen.de_of(r[2].children[0])['data_type'] == 'ID' and r[2].children[0].usage == 'R')]
        rng.shuffle(firsts)
        plan += [('bad_code_01', i) for i in firsts[:(4 if thorough else 3)]]
        dtps = [i for i, r in enumerate(rows) if r[1] == 'DTP' and r[2] is not None]
        rng.shuffle(dtps)
        plan += [('wrong_format', i) for i in dtps[:(6 if thorough else 3)]]
        for (fkind, fi) in plan:
            inj = inject(rng, segs, d, rows, fkind, fi)
            if inj is None:
                continue
            kind, new, (codes, line, elepos, lvl), structural = inj
            if structural:
                new = fix_counts(new, d)
            t2 = docgen.encode(new, d, '')
            report.case((text, kind, line, elepos))
            report.count('fault:' + kind)
            faulted.append(('fault', 'map=%s fault=%s line=%s' % (name, kind, line), t2))
            v, trace, ack = C05.run_impl(t2)
            inp = {'map': name, 'fault': kind, 'line': line, 'element': elepos, 'text': t2[:4000]}
            if v != 'V:False':
                report.fail('C03:not-rejected:%s' % kind, 'a document with one injected fault (%s at line %s) gives %s' % (kind, line, v), inp)
                continue
            evs = events(trace)
            hit = [e for e in evs if e[0] == lvl and e[1] in codes and (line is None or e[2] == line) and (elepos is None or e[3] == elepos or lvl != 'e')]
            if not hit:
                near = [e for e in evs if e[1] in codes]
                report.fail('C03:not-localised:%s:%s' % (kind, 'code-elsewhere' if near else 'code-absent'),
                            'fault %s at line %s element %s: expected an %s error with code %s there; reported: %r' % (
                                kind, line, elepos, lvl, '/'.join(codes), [(e[0], e[1], e[2], e[3]) for e in evs][:6]), inp)
                continue
            if not structural:
                others = [e for e in evs if e not in hit and not (e[2] == line)]
                if others:
                    report.fail('C03:collateral:%s' % kind, 'fault %s at line %s also produced errors elsewhere: %r' % (
                        kind, line, [(e[0], e[1], e[2], e[3], e[4][:60]) for e in others][:4]), inp)
    # the model is tied on the very documents the oracle judged: whole run with the acknowledgement, model vs implementation
    import pipecorr
    rng.shuffle(faulted)
    pipecorr.run(report, ctx, rng, faulted[:(200 if thorough else 30)], 1, None, force=lambda m: m[0] == 'A')
    logging.disable(logging.NOTSET)


def replay(rp):
    f = rp.get('failure') or {}
    print(f.get('what'))
    return 1
